(* Generic correspondence driver: reads one case per line on stdin, hands the raw line
   to the extracted Gallina function Corr.<Cxx>.check_line (= Base.Val.check_line_with run), prints "<index> <result>".
   The only glue is char <-> Coq byte conversion (through the extracted all_bytes). *)
let byte_tbl = Array.of_list Model.all_bytes
let () = assert (Array.length byte_tbl = 256)
let rev_tbl = Hashtbl.create 512
let () = Array.iteri (fun i b -> Hashtbl.replace rev_tbl b i) byte_tbl

let bytes_of_string (s : string) =
  let r = ref [] in
  for i = String.length s - 1 downto 0 do r := byte_tbl.(Char.code s.[i]) :: !r done;
  !r

let string_of_bytes l =
  let b = Buffer.create 256 in
  List.iter (fun x -> Buffer.add_char b (Char.chr (Hashtbl.find rev_tbl x))) l;
  Buffer.contents b

let () =
  let i = ref 0 in
  (try
     while true do
       let line = input_line stdin in
       if String.length line > 0 then begin
         let res = Model.check_line (bytes_of_string line) in
         print_string (string_of_int !i); print_char ' ';
         print_endline (string_of_bytes res);
         incr i
       end
     done
   with End_of_file -> ());
  flush stdout
