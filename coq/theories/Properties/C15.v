(* C15 - Framework statuses are immutable: error codes do not depend on history.
   General theorems over Model/StatusHeap.v: for EVERY table of predefined statuses, EVERY
   history of operations and EVERY configuration in which neither plugin/proxy nor
   plugin/binder stores through a status it did not allocate.  Statements only; every proof
   is [exact <lemma>] or a computed witness.  The facts that tie the configuration to the
   current source tree are in Properties/C15Tables.v. *)
From Coq Require Import Strings.String Strings.Byte.
From Coq Require Import List Arith NArith ZArith Bool Lia.
From Verif Require Import Base.Bytes Model.StatusHeap Proofs.StatusHeapProofs.
Import ListNotations.
Local Open Scope N_scope.

(* After any history, every predefined status cell holds what it held at process start. *)
Theorem C15_sentinels_immutable : forall c t h,
  cfg_safe c = true ->
  forall a, a < tlen t -> get (hp (run c t h)) a = get (hp (init t)) a.
Proof. exact sentinels_immutable_lemma. Qed.
Print Assumptions C15_sentinels_immutable.

Theorem C15_sentinels_immutable_by_name : forall c t h n,
  cfg_safe c = true -> deref (run c t h) (lookup t n) = deref (init t) (lookup t n).
Proof. exact sentinels_by_name_lemma. Qed.
Print Assumptions C15_sentinels_immutable_by_name.

(* The (code,msg,cause) any operation reports after any history is what the same operation
   reports on a fresh process. *)
Theorem C15_failure_status_history_independent : forall c t h e,
  cfg_safe c = true -> is_inspect e = false ->
  snd (step c t (run c t h) e) = snd (step c t (init t) e).
Proof. exact failure_history_independent_lemma. Qed.
Print Assumptions C15_failure_status_history_independent.

(* ... and it is this function of the table and of the operation's own parameters. *)
Theorem C15_failure_status_determined_by_table : forall c t h e,
  cfg_safe c = true -> is_inspect e = false ->
  snd (step c t (run c t h) e) = obs_spec c t e.
Proof. exact failure_spec_lemma. Qed.
Print Assumptions C15_failure_status_determined_by_table.

(* A status handed to the application reads the same after any further history (needs the
   input message's status field to be cleared before the message is read again). *)
Theorem C15_held_status_stable : forall c t h1 h2 i a,
  cfg_safe c = true -> reset_clears c = true ->
  nth_error (held (run c t h1)) i = Some a ->
  nth_error (held (run c t (h1 ++ h2))) i = Some a
  /\ get (hp (run c t (h1 ++ h2))) a = get (hp (run c t h1)) a.
Proof. exact held_stable_lemma. Qed.
Print Assumptions C15_held_status_stable.

(* ---- the code as it was before the repairs ---- *)
Definition conn_closed : name := ([], str "statConnClosed").
Definition tiny_table : table :=
  [ (conn_closed, mkStatus 102 (str "Connection Closed") (Some []));
    ((str "user", str "shared"), mkStatus 4000 (str "shared") (Some (str "why"))) ].
Definition cfg_of (proxy binder reset : bool) : config :=
  mkConfig proxy binder reset 502 (str "Bad Gateway") true.

(* plugin/proxy before commit c131a9e: one proxied PUSH while the backend is down rewrites
   statConnClosed; a closed session then reports 502 Bad Gateway. *)
Theorem C15_proxy_inplace_refuted :
  exists t h n e,
    deref (run (cfg_of true false true) t h) (lookup t n) <> deref (init t) (lookup t n)
    /\ is_inspect e = false
    /\ snd (step (cfg_of true false true) t (run (cfg_of true false true) t h) e)
       <> snd (step (cfg_of true false true) t (init t) e).
Proof.
  exists tiny_table, [EProxyPush (FSent conn_closed)], conn_closed, (EReturn conn_closed).
  vm_compute. repeat split; discriminate.
Qed.
Print Assumptions C15_proxy_inplace_refuted.

(* plugin/binder before commit 94b7c85: a failure on a param with a <stat:...> tag rewrites the
   status object the ErrorFunc hands out; the next failure on an untagged param reports it. *)
Theorem C15_binder_inplace_refuted :
  exists t h e,
    is_inspect e = false
    /\ snd (step (cfg_of false true true) t (run (cfg_of false true true) t h) e)
       <> snd (step (cfg_of false true true) t (init t) e).
Proof.
  exists tiny_table,
         [EBinder (Some (str "user", str "shared")) zero_status (Some (str "b out of range")) (Some 1777%Z)],
         (EBinder (Some (str "user", str "shared")) zero_status None None).
  vm_compute. split; [reflexivity | discriminate].
Qed.
Print Assumptions C15_binder_inplace_refuted.

(* Without `m.status = nil` in message.Reset the pooled input message would decode the next
   frame into the status object an earlier caller still holds. *)
Theorem C15_missing_reset_refuted :
  exists t h1 h2 i a,
    nth_error (held (run (cfg_of false false false) t h1)) i = Some a
    /\ get (hp (run (cfg_of false false false) t (h1 ++ h2))) a
       <> get (hp (run (cfg_of false false false) t h1)) a.
Proof.
  exists tiny_table, [ERemoteReturn WQuery conn_closed],
         [ERemoteFresh WQuery (mkStatus 7 (str "later") None)], 0%nat, 2.
  vm_compute. split; [reflexivity | discriminate].
Qed.
Print Assumptions C15_missing_reset_refuted.

(* A public constructor that hands out the predefined object of the requested code instead of
   allocating (round-3 seeded change: NewStatusByCodeText(code, nil, false)): an application
   annotating "its own" 102 status rewrites what every closed session reports. *)
Theorem C15_shared_constructor_refuted :
  let c := mkConfig false false true 502 (str "Bad Gateway") false in
  exists t h e,
    is_inspect e = false
    /\ snd (step c t (run c t h) e) <> snd (step c t (init t) e).
Proof.
  exists tiny_table,
         [EAppCustom (mkStatus 102 (str "Connection Closed") None)
                     (mkStatus 102 (str "my own text") (Some (str "application note")))],
         (EReturn conn_closed).
  vm_compute. split; [reflexivity | discriminate].
Qed.
Print Assumptions C15_shared_constructor_refuted.

(* ... while the predefined statuses themselves stay intact even then. *)
Theorem C15_sentinels_immutable_without_reset : forall t h a,
  a < tlen t ->
  get (hp (run (cfg_of false false false) t h)) a = get (hp (init t)) a.
Proof. intros t h a. exact (sentinels_immutable_lemma (cfg_of false false false) t h eq_refl a). Qed.
Print Assumptions C15_sentinels_immutable_without_reset.

(* Non-vacuity: a safe configuration, a history that exercises every kind of step, and the
   triples it reports. *)
Example C15_example :
  let c := cfg_of false false true in
  cfg_safe c = true
  /\ trace_from c tiny_table (init tiny_table)
       [EReturn conn_closed; EProxyPush (FSent conn_closed); EProxyCall (FSent conn_closed);
        ECopy conn_closed (str "reset");
        EAppCustom (mkStatus 102 (str "Connection Closed") None) (mkStatus 102 (str "mine") None);
        EReturn conn_closed; EInspect 0]
     = [Some (mkStatus 102 (str "Connection Closed") (Some []));
        None;
        Some (mkStatus 502 (str "Bad Gateway") (Some []));
        Some (mkStatus 102 (str "Connection Closed") (Some (str "reset")));
        Some (mkStatus 102 (str "mine") None);
        Some (mkStatus 102 (str "Connection Closed") (Some []));
        Some (mkStatus 102 (str "Connection Closed") (Some []))].
Proof. vm_compute. split; reflexivity. Qed.
