(* C05 - Wire protocols round-trip every message and never lose frame sync.
   Part 1: the default ("raw") protocol of socket/protocol.go and the encodings it is built
   from. Statements only; every proof is [exact <lemma>]. The other shipped protocols are in
   Properties/C05*.v files listed in props/C05.json. *)
From Coq Require Import Strings.String Strings.Byte.
From Coq Require Import List Arith NArith ZArith Bool Lia.
From Verif Require Import Base.Bytes Base.Outcome Model.Quote Model.Args Model.Numfmt
  Model.StatusQuery Model.Xfer Model.RawProto
  Proofs.QuoteProofs Proofs.ArgsProofs Proofs.NumfmtProofs Proofs.StatusProofs
  Proofs.XferProofs Proofs.RawProofs.
Import ListNotations.
Local Open Scope N_scope.

(* percent-encoding of arbitrary byte strings *)
Theorem C05_quote_roundtrip : forall s, unquote (quote s) = Ok s.
Proof. exact quote_unquote. Qed.
Print Assumptions C05_quote_roundtrip.

(* metadata: an ordered multimap of arbitrary byte strings (repeated keys, empty keys or
   empty values allowed); the one pair the urlencoded form cannot represent is the pair
   whose key and value are both empty *)
Theorem C05_meta_roundtrip : forall l, args_ok l = true -> args_parse (args_encode l) = Ok l.
Proof. exact args_roundtrip. Qed.
Print Assumptions C05_meta_roundtrip.

Theorem C05_meta_empty_pair_refuted : exists l, args_parse (args_encode l) <> Ok l.
Proof. exact args_roundtrip_unguarded_refuted. Qed.
Print Assumptions C05_meta_empty_pair_refuted.

(* sequence numbers (base 36) and status codes (base 10) over all of int32 *)
Theorem C05_seq_roundtrip : forall z, int32_ok z = true -> parse_int 36 (format_int 36 z) = PVal z.
Proof. exact int36_roundtrip. Qed.
Print Assumptions C05_seq_roundtrip.

Theorem C05_status_roundtrip : forall s,
  int32_ok (st_code s) = true -> status_decode (status_encode s) = Ok s.
Proof. exact status_roundtrip. Qed.
Print Assumptions C05_status_roundtrip.

(* one frame: every message within the documented limits, through any accepted filter pipe,
   followed by arbitrary further bytes, unpacks to the same sequence number, type, service
   method, status, metadata, body codec, body and filter list; the reported size is the
   frame's own length; the bytes after the frame are left untouched *)
Theorem C05_raw_roundtrip : forall reg lim ids p m f rest,
  (forall g, In g reg -> inverts g) ->
  pipe_append reg [] ids = (p, None) ->
  wf_msg m ->
  raw_pack lim p m = Ok f ->
  blen f < 4294967296 ->
  raw_unpack reg lim (f ++ rest) = Ok (m, ids, blen f, rest).
Proof. exact raw_roundtrip_lemma. Qed.
Print Assumptions C05_raw_roundtrip.

(* on ANY byte stream, hostile ones included: a frame that unpacks has consumed exactly the
   number of bytes it reports as its size and has left the rest of the stream untouched, so
   whatever precedes or follows a frame cannot shift the decoder (frame sync) *)
Theorem C05_raw_consumes_reported_size : forall reg lim s m ids size rest,
  raw_unpack reg lim s = Ok (m, ids, size, rest) ->
  exists frame, s = frame ++ rest /\ blen frame = size.
Proof. exact raw_unpack_consumes_its_size. Qed.
Print Assumptions C05_raw_consumes_reported_size.

(* any number of back-to-back frames decode to the same frame sequence, and the size
   reported for the i-th message is the length of the i-th frame alone *)
Theorem C05_raw_stream : forall reg lim,
  (forall g, In g reg -> inverts g) ->
  forall (xs : list (list byte * msg * bytes)) fuel,
  Forall (wf_frame reg lim) xs ->
  (length xs < fuel)%nat ->
  raw_decode_all fuel reg lim (concat (map (fun x => snd x) xs))
  = (map (fun '(ids, m, f) => (m, ids, blen f)) xs, Ok tt).
Proof. exact raw_stream_lemma. Qed.
Print Assumptions C05_raw_stream.

(* arbitrary read chunk sizes: reading n bytes through ANY chunking of the stream yields the
   first n bytes of the stream and leaves exactly the remainder, and succeeds whenever the
   stream holds n bytes *)
Theorem C05_chunking_irrelevant : forall cs n x rest,
  read_chunks cs n = Some (x, rest) ->
  x = firstn n (concat cs) /\ concat rest = skipn n (concat cs).
Proof. exact read_chunks_concat. Qed.
Print Assumptions C05_chunking_irrelevant.

Theorem C05_chunked_read_total : forall cs n,
  (n <= length (concat cs))%nat -> exists x rest, read_chunks cs n = Some (x, rest).
Proof. exact read_chunks_total. Qed.
Print Assumptions C05_chunked_read_total.

(* non-vacuity: a message with every field non-trivial meets the guard and packs *)
Example C05_example :
  let m := mkMsg (-2147483648) x01 (str "/a/b") (mkStatus 404 (str "Not Found") (Some (str "x&y")))
                 [(str "k", str "v 1"); (str "k", []); ([], str "=")] x6a (str "{}") in
  wf_msg m /\ exists f, raw_pack 1000 [] m = Ok f /\ blen f < 4294967296.
Proof.
  split.
  - repeat split; vm_compute; congruence.
  - eexists. split; [vm_compute; reflexivity | vm_compute; reflexivity].
Qed.
