(* C19 - The proxy plugin is transparent: the proxied result equals the direct result.
   Statements only; every proof is [exact <lemma>].  The model (Model/Proxy.v) is the repaired
   plugin/proxy/proxy.go ([fixed]); the tree as pinned ([pinned]) is refuted below. *)
From Coq Require Import Strings.String Strings.Byte.
From Coq Require Import List Arith NArith ZArith Bool Lia.
From Verif Require Import Base.Bytes Model.Proxy Proofs.ProxyProofs Proofs.ProxyRedialProofs.
Import ListNotations.

(* For every backend (any routes, any handlers that do not read the X-Real-IP entries
   themselves - they may use RealIP()), every proxy peer that does not serve the method itself,
   every request (method, body bytes, body codec id, metadata multimap), caller address and
   state of the shared status objects: the caller of the proxy receives the backend's body
   bytes and body codec id; the backend's status, except that a connection-class code
   (100..199) is reported as Bad Gateway with the same cause; and the backend's reply metadata
   with exactly one value per key (the last one the backend set; the whole list unchanged when
   the backend sent each key once). *)
Theorem C19_proxied_equals_direct :
  forall h px fw be caller proxy_addr rq,
  p_call px (rq_method rq) = None -> rq_codec rq <> 0%N -> caller <> [] ->
  (forall r, p_call be (rq_method rq) = Some r -> real_ip_blind r) ->
  let rd := fst (direct_call be caller rq) in
  let rp := px_reply (proxied_call fixed h px fw be caller proxy_addr FNone rq) in
  rp_body rp = rp_body rd /\ rp_codec rp = rp_codec rd /\
  rp_stat rp = option_map rewrite_stat (rp_stat rd) /\
  (match rp_stat rd with Some s => conn_class s = false | None => True end -> rp_stat rp = rp_stat rd) /\
  NoDup (keys (rp_meta rp)) /\
  (forall k, In k (keys (rp_meta rp)) <-> In k (keys (rp_meta rd))) /\
  (forall k, peek (rp_meta rp) k = last_value (rp_meta rd) k) /\
  (NoDup (keys (rp_meta rd)) -> rp_meta rp = rp_meta rd).
Proof. exact proxied_equals_direct_lemma. Qed.
Print Assumptions C19_proxied_equals_direct.

(* The same, including what the backend handler saw: the same argument, codec and RealIP(),
   and the caller's metadata after the real-IP rule; exactly one request reached the backend;
   no shared status object changed. *)
Theorem C19_backend_sees_the_same_request :
  forall h px fw be caller proxy_addr rq,
  p_call px (rq_method rq) = None -> rq_codec rq <> 0%N -> caller <> [] ->
  (forall r, p_call be (rq_method rq) = Some r -> real_ip_blind r) ->
  transparent caller (fst (direct_call be caller rq)) (snd (direct_call be caller rq))
              (proxied_call fixed h px fw be caller proxy_addr FNone rq)
  /\ px_heap (proxied_call fixed h px fw be caller proxy_addr FNone rq) = h.
Proof. exact proxied_call_transparent. Qed.
Print Assumptions C19_backend_sees_the_same_request.

(* The caller's address is appended as X-Real-IP exactly when the key is absent; a non-empty
   first value leaves the metadata untouched; an empty first value is overwritten in place;
   no other entry changes; and in every case the backend's RealIP() is what it would have
   been on a direct call. *)
Theorem C19_real_ip_added_iff_absent :
  forall m caller,
  (has_key m meta_real_ip = false -> forward_meta fixed m caller = m ++ [(meta_real_ip, caller)]) /\
  (peek m meta_real_ip <> [] -> forward_meta fixed m caller = m) /\
  count_key (forward_meta fixed m caller) meta_real_ip =
    count_key m meta_real_ip + (if has_key m meta_real_ip then 0 else 1) /\
  strip_key meta_real_ip (forward_meta fixed m caller) = strip_key meta_real_ip m /\
  (forall k, k <> meta_real_ip -> peek (forward_meta fixed m caller) k = peek m k) /\
  (forall proxy_addr, caller <> [] ->
     real_ip_view (forward_meta fixed m caller) proxy_addr = real_ip_view m caller).
Proof. exact real_ip_rule_lemma. Qed.
Print Assumptions C19_real_ip_added_iff_absent.

(* A method the proxy does not serve is handed to the forwarder exactly once and reaches the
   backend exactly once; a method it serves itself is not forwarded at all. *)
Theorem C19_forwarded_once :
  forall h px fw be caller proxy_addr rq,
  let p := proxied_call fixed h px fw be caller proxy_addr FNone rq in
  match p_call px (rq_method rq) with
  | None => px_arrived p = 1 /\ px_forwards p = [forward_request fixed fw caller rq]
  | Some _ => px_arrived p = 0 /\ px_forwards p = []
  end.
Proof. exact forwarded_once_lemma. Qed.
Print Assumptions C19_forwarded_once.

(* The forwarded request: same method, the raw body bytes, the caller's codec id. *)
Theorem C19_forwarded_request :
  forall fw caller rq, rq_codec rq <> 0%N ->
  let f := forward_request fixed fw caller rq in
  rq_method f = rq_method rq /\ rq_body f = rq_body rq /\ rq_codec f = rq_codec rq /\
  rq_meta f = forward_meta fixed (rq_meta rq) caller.
Proof. exact forwarded_request_lemma. Qed.
Print Assumptions C19_forwarded_request.

(* PUSH: forwarded once, the backend's push handler sees what it would have seen directly. *)
Theorem C19_push_forwarded_once :
  forall h px fw be caller proxy_addr rq,
  p_push px (rq_method rq) = None -> rq_codec rq <> 0%N -> caller <> [] ->
  let p := proxied_push fixed h px fw be caller proxy_addr FNone rq in
  px_seen p = map (with_forward_meta caller) (serve_push be caller rq) /\
  px_arrived p = 1 /\ px_forwards p = [forward_request fixed fw caller rq] /\ px_heap p = h.
Proof. exact proxied_push_lemma. Qed.
Print Assumptions C19_push_forwarded_once.

(* A forward that fails with a connection-class status - before the request is written or
   after the backend started handling it - is answered with Bad Gateway (same cause), no body,
   no metadata; the forwarder was used once; no shared status object changed. *)
Theorem C19_backend_failure_is_bad_gateway :
  forall h px fw be caller proxy_addr fl r rq,
  p_call px (rq_method rq) = None -> failed fl = Some r -> conn_class (deref h r) = true ->
  let p := proxied_call fixed h px fw be caller proxy_addr fl rq in
  px_reply p = mkReply (Some (mkStatus 502 text_bad_gateway (st_cause (deref h r)))) [] 0 [] /\
  px_heap p = h /\ length (px_forwards p) = 1 /\
  px_arrived p = match fl with FDuring _ => 1 | _ => 0 end.
Proof. exact backend_failure_lemma. Qed.
Print Assumptions C19_backend_failure_is_bad_gateway.

(* The statuses session.go and peer.go produce for connection failures (the shared objects
   and their copies with a cause) are in that class. *)
Theorem C19_connection_failures_are_in_the_class :
  conn_class st_conn_closed = true /\ conn_class st_dial_failed = true /\
  conn_class st_write_failed = true /\
  forall s cause, conn_class (copy_with_cause s cause) = conn_class s.
Proof. exact conn_failures_are_conn_class. Qed.
Print Assumptions C19_connection_failures_are_in_the_class.

(* ... on that call only: whatever proxied calls and pushes ran before (any peers, requests,
   backend behaviours and failures, in any order), the shared status objects are unchanged,
   so a later call on a closed session still reports Connection Closed and a later call of a
   missing method still reports Not Found. *)
Theorem C19_nothing_global_is_modified :
  forall ops h, fst (run_ops fixed h ops) = h.
Proof. exact run_ops_fixed_heap. Qed.
Print Assumptions C19_nothing_global_is_modified.

Theorem C19_bad_gateway_on_that_call_only :
  forall ops,
  let h := fst (run_ops fixed initial_heap ops) in
  step fixed h OpClosedSessionCall = (initial_heap, Some st_conn_closed) /\
  step fixed h OpMissingMethodCall = (initial_heap, Some st_not_found).
Proof. exact later_failures_keep_their_codes. Qed.
Print Assumptions C19_bad_gateway_on_that_call_only.

(* ---- the pinned tree (before the four repairs) violates the property ---- *)
(* body codec not forwarded: a plain-codec call answers "hi" directly, Bad Message via proxy *)
Theorem C19_pinned_codec_refuted :
  exists px fw be caller proxy_addr rq,
    p_call px (rq_method rq) = None /\ rq_codec rq <> 0%N /\ caller <> [] /\
    (forall r, p_call be (rq_method rq) = Some r -> real_ip_blind r) /\
    rp_stat (fst (direct_call be caller rq)) = None /\
    rp_body (fst (direct_call be caller rq)) = str "hi" /\
    exists e, rp_stat (px_reply (proxied_call pinned initial_heap px fw be caller proxy_addr FNone rq))
              = Some (mkStatus 400 (str "Bad Message") (Some e)).
Proof. exact pinned_codec_refuted_lemma. Qed.
Print Assumptions C19_pinned_codec_refuted.

(* backend down: Internal Server Error (nil dereference) instead of Bad Gateway *)
Theorem C19_pinned_backend_down_refuted :
  exists px fw be caller proxy_addr rq r,
    p_call px (rq_method rq) = None /\ conn_class (deref initial_heap r) = true /\
    rp_stat (px_reply (proxied_call pinned initial_heap px fw be caller proxy_addr (FBefore r) rq))
    = Some (mkStatus 500 (str "Internal Server Error") (Some panic_nil)).
Proof. exact pinned_nil_refuted_lemma. Qed.
Print Assumptions C19_pinned_backend_down_refuted.

(* the rewrite in place: after one proxied push with the backend down, an unrelated call on
   a closed session reports Bad Gateway *)
Theorem C19_pinned_shared_status_refuted :
  exists ops,
    snd (step pinned (fst (run_ops pinned initial_heap ops)) OpClosedSessionCall)
    = Some (mkStatus 502 text_bad_gateway (Some [])).
Proof. exact pinned_shared_status_refuted_lemma. Qed.
Print Assumptions C19_pinned_shared_status_refuted.

(* an empty X-Real-IP sent by the caller shadows the appended one: RealIP() is the proxy *)
Theorem C19_pinned_real_ip_refuted :
  exists m caller proxy_addr, caller <> [] /\
    real_ip_view m caller = caller /\
    real_ip_view (forward_meta pinned m caller) proxy_addr = proxy_addr /\ proxy_addr <> caller.
Proof. exact pinned_real_ip_refuted_lemma. Qed.
Print Assumptions C19_pinned_real_ip_refuted.

(* Non-vacuity: a backend with a real-IP-blind handler, a request satisfying every premise. *)
Example C19_example :
  p_call w_px (rq_method w_rq) = None /\ rq_codec w_rq <> 0%N /\ w_caller <> [] /\
  real_ip_blind w_route /\
  px_reply (proxied_call fixed initial_heap w_px w_px w_be w_caller w_proxy FNone w_rq)
  = mkReply None (str "hi") 115 [] /\
  fst (direct_call w_be w_caller w_rq) = mkReply None (str "hi") 115 [].
Proof.
  split; [reflexivity|]. split; [discriminate|]. split; [discriminate|].
  split; [exact w_route_blind | exact fixed_example].
Qed.

Example C19_failure_example :
  failed (FDuring (SShared idx_conn_closed)) = Some (SShared idx_conn_closed) /\
  conn_class (deref initial_heap (SShared idx_conn_closed)) = true.
Proof. split; reflexivity. Qed.

(* ---- the forwarder is a client session that may redial (PeerConfig.RedialTimes != 0, as in
   examples/proxy_and_seq): [client] = redial function present or not + connection up or
   not, [fault] = where the backend connection is cut relative to the forwarded request
   (not at all / before the write / between write()'s status test and the bytes / after the
   backend read the request and before the reply / after the reply), whether the backend can
   be dialled again, and the status object the failed call carries.  [client_call false] is
   session.Call as it is: ONE AsyncCall, whose refused write (nothing sent) is repeated after
   a redial. ---- *)

(* Whatever the session, the cut and the redial outcome, a proxied call or push reaches the
   backend at most once, its handler runs at most once, the forwarder is used at most once. *)
Theorem C19_redial_forwarded_at_most_once :
  forall v h px fw be caller proxy_addr cl ft rq,
  (let p := proxied_call_client v false h px fw be caller proxy_addr cl ft rq in
   px_arrived p <= 1 /\ length (px_seen p) <= 1 /\ length (px_forwards p) <= 1) /\
  (let p := proxied_push_client v h px fw be caller proxy_addr cl ft rq in
   px_arrived p <= 1 /\ length (px_seen p) <= 1 /\ length (px_forwards p) <= 1).
Proof. exact redial_at_most_once_both. Qed.
Print Assumptions C19_redial_forwarded_at_most_once.

(* The second hop through such a session is one of the three cases of [failure]: everything the
   theorems above say about FNone / FBefore / FDuring holds for it. *)
Theorem C19_redial_is_a_failure_phase :
  forall v h px fw be caller proxy_addr cl ft rq,
  proxied_call_client v false h px fw be caller proxy_addr cl ft rq
  = proxied_call v h px fw be caller proxy_addr (fault_failure cl ft) rq.
Proof. exact proxied_call_client_refines. Qed.
Print Assumptions C19_redial_is_a_failure_phase.

(* The status law: when the request was written to a live connection (possibly after a
   redial) and the reply came back, the proxied call is the fault-free one (hence equal to the
   direct call by C19_proxied_equals_direct); otherwise the caller gets Bad Gateway with the
   failure's cause, no body, and the request reached the backend once (cut after the backend
   read it) or not at all.  Nothing else is possible. *)
Theorem C19_redial_status_is_direct_or_bad_gateway :
  forall h px fw be caller proxy_addr cl ft rq,
  p_call px (rq_method rq) = None -> conn_class (deref h (ft_stat ft)) = true ->
  let p := proxied_call_client fixed false h px fw be caller proxy_addr cl ft rq in
  if delivered cl ft
  then p = proxied_call fixed h px fw be caller proxy_addr FNone rq
  else px_reply p = mkReply (Some (mkStatus 502 text_bad_gateway (st_cause (deref h (ft_stat ft))))) [] 0 [] /\
       px_heap p = h /\ length (px_forwards p) = 1 /\
       px_arrived p = (if writable cl ft then match ft_cut ft with CDuring => 1 | _ => 0 end else 0).
Proof. exact redial_status_law_lemma. Qed.
Print Assumptions C19_redial_status_is_direct_or_bad_gateway.

Theorem C19_redial_delivered_iff :
  forall cl ft,
  delivered cl ft =
  writable cl ft &&
  match ft_cut ft with
  | CDuring => false
  | CAtWrite => negb (link_at_write cl ft)
  | _ => true
  end.
Proof. exact delivered_spec. Qed.
Print Assumptions C19_redial_delivered_iff.

(* On that call only: with a redial-enabled session and the backend reachable, whatever cut hit
   one operation, the next fault-free proxied call is the plain one. *)
Theorem C19_redial_next_call_is_plain :
  forall h px fw be caller proxy_addr cl ft ft2 rq,
  cl_redial cl = true -> ft_reach ft = true -> ft_cut ft2 = CNone ->
  proxied_call_client fixed false h px fw be caller proxy_addr
    (mkClient (cl_redial cl) (link_after cl ft)) ft2 rq
  = proxied_call fixed h px fw be caller proxy_addr FNone rq.
Proof. exact next_call_is_plain_lemma. Qed.
Print Assumptions C19_redial_next_call_is_plain.

(* All histories of proxied calls and pushes over one forwarder session, each with its own
   fault: every operation is forwarded at most once and no shared status object changes. *)
Theorem C19_redial_histories_at_most_once :
  forall ops h cl,
  fst (fst (run_cops fixed false (h, cl) ops)) = h /\
  Forall (fun p => px_arrived p <= 1 /\ length (px_seen p) <= 1 /\ length (px_forwards p) <= 1)
         (snd (run_cops fixed false (h, cl) ops)).
Proof. exact run_cops_at_most_once. Qed.
Print Assumptions C19_redial_histories_at_most_once.

(* session.Call issuing the call AGAIN after it completed with CodeConnClosed (the literal
   reading of "automatically re-called once after a failure") breaks both clauses: the cut
   after the backend read the request makes the request reach the backend handler twice and
   the caller gets OK instead of Bad Gateway. *)
Theorem C19_reissuing_call_refuted :
  exists px fw be caller proxy_addr cl ft rq,
    p_call px (rq_method rq) = None /\ conn_class (deref initial_heap (ft_stat ft)) = true /\
    delivered cl ft = false /\
    (let p := proxied_call_client fixed false initial_heap px fw be caller proxy_addr cl ft rq in
     px_arrived p = 1 /\ length (px_seen p) = 1 /\
     rp_stat (px_reply p) = Some (mkStatus 502 text_bad_gateway (Some []))) /\
    (let p := proxied_call_client fixed true initial_heap px fw be caller proxy_addr cl ft rq in
     px_arrived p = 2 /\ length (px_seen p) = 2 /\
     px_reply p = mkReply None (str "hi") 115 []).
Proof. exact reissuing_call_refuted_lemma. Qed.
Print Assumptions C19_reissuing_call_refuted.

(* ... and only when the redial succeeds: with the backend not reachable the second issue is
   refused, the same requests reach the backend as without it. *)
Theorem C19_reissue_shows_only_when_reachable :
  forall h cl ft be proxy_addr frq,
  ft_reach ft = false ->
  snd (client_call true h cl ft be proxy_addr frq) = snd (client_call false h cl ft be proxy_addr frq) /\
  snd (fst (client_call true h cl ft be proxy_addr frq)) = snd (fst (client_call false h cl ft be proxy_addr frq)).
Proof. exact reissue_unreachable_same. Qed.
Print Assumptions C19_reissue_shows_only_when_reachable.

Example C19_redial_example :
  delivered (mkClient true true) (mkFault CBefore true (SShared idx_conn_closed)) = true /\
  delivered (mkClient true true) (mkFault CBefore false (SShared idx_conn_closed)) = false /\
  delivered (mkClient false true) (mkFault CBefore true (SShared idx_conn_closed)) = false /\
  delivered (mkClient true true) (mkFault CAtWrite true (SShared idx_conn_closed)) = false /\
  delivered (mkClient true true) (mkFault CDuring true (SShared idx_conn_closed)) = false /\
  delivered (mkClient true true) (mkFault CAfter false (SShared idx_conn_closed)) = true /\
  link_after (mkClient true true) (mkFault CAfter false (SShared idx_conn_closed)) = false.
Proof. repeat split. Qed.
