(* C09 - Plugin hooks fire once, in stage and registration order, and can veto.
   Statements only; every proof is [exact <lemma>].  Model: Model/Plugins.v (repaired tree);
   [run ops = Some st] says the configuration history ran without Fatalf.  A history is any
   list of SubRoute / Route* / SetUnknown* / AppendLeft / AppendRight / Remove in any order:
   every theorem below that speaks of [run ops] covers histories with removals. *)
From Coq Require Import Strings.String Strings.Byte.
From Coq Require Import List Arith NArith ZArith Bool Lia Sorting.Sorted.
From Verif Require Import Base.Bytes Model.Plugins Proofs.PluginsProofs Proofs.PluginsFaultProofs
  Proofs.PluginsRemoveProofs.
Import ListNotations.

(* effective_chain: after ANY history, the list the stage loops walk for a handler is
   global-left ++ router groups (outer -> inner) ++ handler-level ++ global-right, the
   global container's is left ++ right; [spec_of] computes left/right/groups from the
   history alone (Model/Plugins.v, spec_step). *)
Theorem C09_effective_chain : forall ops st,
  run ops = Some st ->
  let sp := spec_of ops in
  global_flat st = sp_left sp ++ sp_right sp /\
  Forall2 (fun h e => fst e = h_kind h /\ fst (snd e) = (h_id h, h_stat h) /\
                      c_flat (get_cont st (h_cont h)) = sp_left sp ++ snd (snd e) ++ sp_right sp)
          (s_handlers st) (sp_handlers sp) /\
  option_map (view st) (s_unk_call st) = option_map (spec_wrap sp) (sp_unk_call sp) /\
  option_map (view st) (s_unk_push st) = option_map (spec_wrap sp) (sp_unk_push sp) /\
  handler_flats st = spec_handler_flats sp.
Proof. exact effective_chain_lemma. Qed.
Print Assumptions C09_effective_chain.

(* The containers, with their cached lists and refresh closures, implement the
   specification for every message: same traces, same handler invocations, same status. *)
Theorem C09_exchange_refines : forall opsc opss cli srv m,
  run opsc = Some cli -> run opss = Some srv ->
  exchange cli srv m = spec_exchange (spec_of opsc) (spec_of opss) m.
Proof. exact exchange_refines_lemma. Qed.
Print Assumptions C09_exchange_refines.

(* The pinned tree: a handler under one SubRoute misses a global appended afterwards ... *)
Theorem C09_effective_chain_prefix_refuted :
  exists ops st, run_prefix false ops = Some st /\
    handler_flats_prefix st <> spec_handler_flats (spec_of ops) /\
    handler_flats_prefix st = [(7%N, [1%N; 2%N])] /\
    spec_handler_flats (spec_of ops) = [(7%N, [1%N; 2%N; 3%N])].
Proof. exact prefix_stale_refuted. Qed.
Print Assumptions C09_effective_chain_prefix_refuted.

(* ... the probe of the design phase: SubRoute(a).SubRoute(b).SubRoute(c), then AppendRight ... *)
Theorem C09_effective_chain_prefix_deep_refuted :
  exists st, run_prefix false witness_stale_deep = Some st /\
    handler_flats_prefix st = [(7%N, [1%N; 2%N; 3%N; 4%N])] /\
    spec_handler_flats (spec_of witness_stale_deep) = [(7%N, [1%N; 2%N; 3%N; 4%N; 5%N])].
Proof. exact prefix_stale_deep_refuted. Qed.
Print Assumptions C09_effective_chain_prefix_deep_refuted.

(* ... and with the tree refresh alone repaired, append(p.middle.GetAll(), plugins...) lets a
   sibling handler's plugin overwrite this handler's (Go slice aliasing, go1.23 growth). *)
Theorem C09_effective_chain_prefix_alias_refuted :
  exists ops st, run_prefix true ops = Some st /\
    handler_flats_prefix st <> spec_handler_flats (spec_of ops) /\
    handler_flats_prefix st = [(7%N, [1%N; 2%N; 3%N; 5%N; 6%N]); (8%N, [1%N; 2%N; 3%N; 5%N; 6%N])] /\
    spec_handler_flats (spec_of ops) = [(7%N, [1%N; 2%N; 3%N; 4%N; 6%N]); (8%N, [1%N; 2%N; 3%N; 5%N; 6%N])].
Proof. exact prefix_alias_refuted. Qed.
Print Assumptions C09_effective_chain_prefix_alias_refuted.

(* hooks_once: in the hook trace of one message no (plugin, stage) pair occurs twice, on
   either side, the PreReadHeader round of the delivering read included. *)
Theorem C09_hooks_once : forall opsc opss cli srv m,
  run opsc = Some cli -> run opss = Some srv ->
  let r := exchange cli srv m in
  NoDup (trace_of (r_cli_prh r ++ r_cli r)) /\ NoDup (trace_of (r_srv_prh r ++ r_srv r)).
Proof. exact hooks_once_lemma. Qed.
Print Assumptions C09_hooks_once.

(* hooks_stage_order: hooks fire in the documented stage order of the message kind, and
   only stages of that kind and side fire. *)
Theorem C09_hooks_stage_order : forall cli srv m,
  let r := exchange cli srv m in
  StronglySorted ev_le (trace_of (r_cli r)) /\
  Forall (fun e : event => In (snd e) (caller_seq m)) (trace_of (r_cli r)) /\
  StronglySorted ev_le (trace_of (r_srv r)) /\
  Forall (fun e : event => In (snd e) (callee_seq m)) (trace_of (r_srv r)) /\
  Forall (fun e : event => snd e = PreReadHeader) (trace_of (r_cli_prh r ++ r_srv_prh r)).
Proof. exact hooks_stage_order_lemma. Qed.
Print Assumptions C09_hooks_stage_order.

(* which container is current at which stage: global before routing, the matched
   handler's after (and for the reply stages once routing happened). *)
Theorem C09_current_container : forall cli srv m,
  let r := exchange cli srv m in
  Forall (current_ok (global_flat srv) (lookup_view srv m)) (r_srv_prh r ++ r_srv r).
Proof. exact current_container_lemma. Qed.
Print Assumptions C09_current_container.

(* hooks_registration_order: every stage function that ran walked the caller's global chain
   left ++ right, the callee's global chain, or the matched handler's chain
   left ++ groups ++ own ++ right (spec_lookup_chain below), firing the hooks of the plugins
   that implement the stage in list order up to the first refusal, all of them if none refuses. *)
Theorem C09_hooks_registration_order : forall opsc opss cli srv m,
  run opsc = Some cli -> run opss = Some srv ->
  let r := exchange cli srv m in
  let spc := spec_of opsc in let sps := spec_of opss in
  (forall s c, In (s, c) (r_cli_prh r ++ r_cli r) -> c = sp_left spc ++ sp_right spc) /\
  (forall s c, In (s, c) (r_srv_prh r ++ r_srv r) ->
     c = sp_left sps ++ sp_right sps \/
     exists v, spec_lookup sps (msg_kind m) (msg_target m) = Some v /\ c = snd v) /\
  (forall s c, In (s, c) (r_cli_prh r ++ r_cli r ++ r_srv_prh r ++ r_srv r) ->
     exists rest, map (ev s) (impls s c) = fst (run_stage s c) ++ rest /\
                  (vetoes s c = false -> rest = [])).
Proof. exact hooks_registration_order_lemma. Qed.
Print Assumptions C09_hooks_registration_order.

Theorem C09_matched_chain : forall sp k hid v,
  spec_lookup sp k hid = Some v ->
  exists chain, snd v = sp_left sp ++ chain ++ sp_right sp /\
    ((exists hs, In (k, (fst (fst v), hs, chain)) (sp_handlers sp) /\ fst (fst v) = hid) \/
     (forall e, In e (sp_handlers sp) -> spec_is k hid e = false) /\
     exists hs, match k with KCall => sp_unk_call sp | KPush => sp_unk_push sp end = Some (fst (fst v), hs, chain)).
Proof. exact spec_lookup_chain. Qed.
Print Assumptions C09_matched_chain.

Theorem C09_stage_loop_all_ok : forall s ps,
  (forall p, In p (impls s ps) -> p_verdict p s = 0%Z) ->
  run_stage s ps = (map (ev s) (impls s ps), 0%Z).
Proof. exact run_stage_all_ok. Qed.
Print Assumptions C09_stage_loop_all_ok.

Theorem C09_stage_loop_first_refusal : forall s ps pre v post,
  impls s ps = pre ++ v :: post ->
  (forall p, In p pre -> p_verdict p s = 0%Z) -> p_verdict v s <> 0%Z ->
  run_stage s ps = (map (ev s) (pre ++ [v]), p_verdict v s).
Proof. exact run_stage_first_refusal. Qed.
Print Assumptions C09_stage_loop_first_refusal.

(* hooks_scope: on the handling side only plugins of the global container or of the
   matched route's chain see the message. *)
Theorem C09_hooks_scope : forall opsc opss cli srv m,
  run opsc = Some cli -> run opss = Some srv ->
  let r := exchange cli srv m in let sps := spec_of opss in
  forall e, In e (trace_of (r_srv_prh r ++ r_srv r)) ->
    exists p, p_name p = fst e /\ p_impl p (snd e) = true /\
      (In p (sp_left sps ++ sp_right sps) \/
       exists v, spec_lookup sps (msg_kind m) (msg_target m) = Some v /\ In p (snd v)).
Proof. exact hooks_scope_lemma. Qed.
Print Assumptions C09_hooks_scope.

(* veto_blocks_handler: a refusal at any stage before the handler (caller's pre-write,
   PreReadHeader, header, pre-body, post-body; CALL and PUSH) means no handler runs; and a
   handler runs at most once, only the matched one, only for a written message. *)
Theorem C09_veto_blocks_handler : forall cli srv m,
  let r := exchange cli srv m in
  (forall s c, In (s, c) (r_cli r ++ r_srv_prh r ++ r_srv r) ->
     pre_handler s = true -> vetoes s c = true -> r_invoked r = []) /\
  (r_invoked r = [] \/
   exists hid hs hc, lookup_view srv m = Some (hid, hs, hc) /\ r_invoked r = [hid] /\ r_written r = true).
Proof. exact veto_blocks_handler_lemma. Qed.
Print Assumptions C09_veto_blocks_handler.

Theorem C09_vetoes_iff_hook_refused : forall s c,
  vetoes s c = true <->
  exists pre v, fst (run_stage s c) = map (ev s) (pre ++ [v]) /\ In v c /\ p_impl v s = true /\
                p_verdict v s <> 0%Z /\ p_verdict v s = verdict_of s c /\
                (forall p, In p pre -> p_verdict p s = 0%Z).
Proof. exact vetoes_iff_hook_refused. Qed.
Print Assumptions C09_vetoes_iff_hook_refused.

(* veto_status_reaches_caller: a refusal on the caller's own side is the status of the
   operation; a refusal at PostReadCallHeader / PreReadCallBody / PostReadCallBody on the
   handling side is what the caller receives, unless the caller's own reply hooks refuse. *)
Theorem C09_veto_status_reaches_caller : forall cli srv m,
  let r := exchange cli srv m in
  (forall s c, In (s, c) (r_cli r) -> caller_status_stage s = true -> vetoes s c = true ->
     r_status r = verdict_of s c /\ r_status r <> 0%Z) /\
  (forall s c, In (s, c) (r_srv r) -> callee_status_stage s = true -> vetoes s c = true ->
     vetoes PreReadHeader (global_flat cli) = false ->
     vetoes PostReadReplyHeader (global_flat cli) = false ->
     vetoes PreReadReplyBody (global_flat cli) = false ->
     r_status r = verdict_of s c /\ r_status r <> 0%Z).
Proof. exact veto_status_lemma. Qed.
Print Assumptions C09_veto_status_reaches_caller.

(* prewrite_veto_writes_nothing (CALL and PUSH on the sending side), and conversely the
   message is written exactly when no pre-write hook refuses. *)
Theorem C09_prewrite_veto_writes_nothing : forall cli srv m,
  let r := exchange cli srv m in
  let pre := match m with MCall _ => PreWriteCall | MPush _ => PreWritePush end in
  (vetoes pre (global_flat cli) = true ->
     r_written r = false /\ r_srv_prh r = [] /\ r_srv r = [] /\ r_invoked r = [] /\
     r_cli r = [(pre, global_flat cli)] /\
     r_status r = verdict_of pre (global_flat cli) /\ r_status r <> 0%Z) /\
  r_written r = negb (vetoes pre (global_flat cli)).
Proof. exact prewrite_veto_lemma. Qed.
Print Assumptions C09_prewrite_veto_writes_nothing.

(* Redial (session.Push / session.AsyncCall, label W): whatever the number n of
   "write failed: connection closed, redial ok" retries and however the last attempt ends, the
   pre-write stage runs exactly once for the message (the plan is [pre] or [pre; post]), no hook
   fires twice, and the retries are invisible in the result. *)
Theorem C09_prewrite_once_under_redial : forall pre post gc n final,
  let r := send_flow false pre post gc n final in
  (sd_plan r = [(pre, gc)] \/ sd_plan r = [(pre, gc); (post, gc)]) /\
  (pre <> post -> NoDup (map p_name gc) -> NoDup (trace_of (sd_plan r))) /\
  (sd_written r = true <-> vetoes pre gc = false /\ final = WOk).
Proof. exact send_prewrite_once. Qed.
Print Assumptions C09_prewrite_once_under_redial.

Theorem C09_retries_invisible : forall pre post gc n final,
  send_flow false pre post gc n final = send_flow false pre post gc 0 final.
Proof. exact send_retries_invisible. Qed.
Print Assumptions C09_retries_invisible.

(* the sending side with retries is the sending side of [exchange] *)
Theorem C09_send_matches_exchange : forall gc gs h n,
  sd_plan (send_flow false PreWritePush PostWritePush gc n WOk) = r_cli (exchange_push gc gs h) /\
  sd_status (send_flow false PreWritePush PostWritePush gc n WOk) = r_status (exchange_push gc gs h) /\
  exists rest, r_cli (exchange_call gc gs h) =
               sd_plan (send_flow false PreWriteCall PostWriteCall gc n WOk) ++ rest.
Proof. exact send_matches_exchange. Qed.
Print Assumptions C09_send_matches_exchange.

(* the variant whose retry edge re-enters the pre-write stage fires a hook twice *)
Theorem C09_prewrite_reenter_refuted :
  exists gc n, NoDup (map p_name gc) /\
    ~ NoDup (trace_of (sd_plan (send_flow true PreWritePush PostWritePush gc n WOk))) /\
    ~ NoDup (trace_of (sd_plan (send_flow true PreWriteCall PostWriteCall gc n WOk))).
Proof. exact send_reenter_refuted. Qed.
Print Assumptions C09_prewrite_reenter_refuted.

(* Fault paths of the handling side (exchange_f): FNoPool = no goroutine in the pool when the
   message is read (a CALL is answered on the read goroutine, a PUSH skipped), FBadReply = the
   handler's result cannot be written (substitute 500 reply).  Under every fault and for all
   histories: each stage function runs at most once per message, no hook fires twice, hooks
   fire in stage order ... *)
Theorem C09_fault_hooks_once : forall f opsc opss cli srv m,
  run opsc = Some cli -> run opss = Some srv ->
  let r := exchange_f f cli srv m in
  NoDup (map fst (r_cli_prh r ++ r_cli r)) /\ NoDup (map fst (r_srv_prh r ++ r_srv r)) /\
  NoDup (trace_of (r_cli_prh r ++ r_cli r)) /\ NoDup (trace_of (r_srv_prh r ++ r_srv r)) /\
  StronglySorted ev_le (trace_of (r_cli r)) /\ StronglySorted ev_le (trace_of (r_srv r)).
Proof. exact fault_hooks_once_lemma. Qed.
Print Assumptions C09_fault_hooks_once.

(* ... a refusal before the handler blocks it and is what the caller receives: it wins over
   "no goroutine available"; without a goroutine no handler runs at all. *)
Theorem C09_fault_veto : forall f cli srv m,
  let r := exchange_f f cli srv m in
  (forall s c, In (s, c) (r_cli r ++ r_srv_prh r ++ r_srv r) ->
     pre_handler s = true -> vetoes s c = true -> r_invoked r = []) /\
  (f = FNoPool -> r_invoked r = []) /\
  (r_invoked r = [] \/
   exists hid hs hc, lookup_view srv m = Some (hid, hs, hc) /\ r_invoked r = [hid] /\ r_written r = true) /\
  (forall s c, In (s, c) (r_srv r) -> callee_status_stage s = true -> vetoes s c = true ->
     vetoes PreReadHeader (global_flat cli) = false ->
     vetoes PostReadReplyHeader (global_flat cli) = false ->
     vetoes PreReadReplyBody (global_flat cli) = false ->
     r_status r = verdict_of s c /\ r_status r <> 0%Z).
Proof. exact fault_veto_lemma. Qed.
Print Assumptions C09_fault_veto.

Theorem C09_fault_refines : forall f opsc opss cli srv m,
  run opsc = Some cli -> run opss = Some srv ->
  exchange_f f cli srv m = spec_exchange_f f (spec_of opsc) (spec_of opss) m.
Proof. exact exchange_f_refines_lemma. Qed.
Print Assumptions C09_fault_refines.

Theorem C09_fault_none_is_exchange : forall cli srv m, exchange_f FNone cli srv m = exchange cli srv m.
Proof. exact exchange_f_none. Qed.
Print Assumptions C09_fault_none_is_exchange.

(* the status the handling side answers without a goroutine: refusal, else 404, else 500 *)
Theorem C09_nopool_status : forall g h,
  vetoes PreReadHeader g = false ->
  sr_invoked (srv_call_nopool g h) = [] /\
  sr_out (srv_call_nopool g h) =
    SReplied (if vetoes PostReadCallHeader g then verdict_of PostReadCallHeader g
              else match h with
                   | None => code_not_found
                   | Some (_, _, hc) => if vetoes PreReadCallBody hc then verdict_of PreReadCallBody hc
                                        else code_internal
                   end).
Proof. exact nopool_status. Qed.
Print Assumptions C09_nopool_status.

(* the failed-write path has exactly one PreWriteReply and no PostWriteReply *)
Theorem C09_badreply_path : forall g hid hc,
  vetoes PreReadHeader g = false -> vetoes PostReadCallHeader g = false ->
  vetoes PreReadCallBody hc = false -> vetoes PostReadCallBody hc = false ->
  srv_call_badreply g (Some (hid, 0%Z, hc)) =
  mkSrv [(PreReadHeader, g)]
        [(PostReadCallHeader, g); (PreReadCallBody, hc); (PostReadCallBody, hc); (PreWriteReply, hc)]
        [hid] (SReplied code_internal).
Proof. exact badreply_path. Qed.
Print Assumptions C09_badreply_path.

(* the variants: a pool fallback that overwrites the status binding left, and a substitute
   reply that goes through PreWriteReply again *)
Theorem C09_fault_variants_refuted :
  (exists g h v, vetoes PreReadHeader g = false /\ vetoes PostReadCallHeader g = true /\
     verdict_of PostReadCallHeader g = v /\ v <> code_internal /\
     sr_out (srv_call_nopool g h) = SReplied v /\
     sr_out (srv_call_nopool_overwrite g h) = SReplied code_internal) /\
  (exists g h, NoDup (map p_name g) /\
     ~ NoDup (map fst (sr_plan (srv_call_badreply_again g h))) /\
     ~ NoDup (trace_of (sr_plan (srv_call_badreply_again g h)))).
Proof. exact fault_variants_refuted. Qed.
Print Assumptions C09_fault_variants_refuted.

(* every chain of a reachable state has pairwise distinct plugin names *)
Theorem C09_chains_distinct : forall ops st,
  run ops = Some st ->
  forall j, j < length (s_conts st) -> NoDup (map p_name (c_flat (get_cont st j))).
Proof. exact chains_distinct_lemma. Qed.
Print Assumptions C09_chains_distinct.

(* The premise [run ops = Some st] holds for every history whose router references exist,
   that registers no handler twice and uses pairwise distinct plugin names. *)
Theorem C09_history_never_exits : forall ops,
  refs_ok 1 [] ops = true -> NoDup (map p_name (history_plugins ops)) ->
  exists st, run ops = Some st.
Proof. exact run_total. Qed.
Print Assumptions C09_history_never_exits.

(* ---- PluginContainer.Remove ---- *)

(* Only a plugin of the global chain can be removed; for any other name Remove returns an error
   and the configuration is exactly what it was. *)
Theorem C09_remove_unknown_changes_nothing : forall st nm,
  has_name nm (global_flat st) = false ->
  step st (ORemove nm) = Some st /\ remove_err st nm = true.
Proof. exact remove_not_global_noop. Qed.
Print Assumptions C09_remove_unknown_changes_nothing.

(* After a successful removal the name is on no chain at all: not the global one, not the chain
   of any router group, handler or unknown-handler registered before the removal. *)
Theorem C09_removed_plugin_on_no_chain : forall ops st0 nm st,
  run ops = Some st0 -> has_name nm (global_flat st0) = true -> step st0 (ORemove nm) = Some st ->
  remove_err st0 nm = false /\
  forall j, j < length (s_conts st) -> ~ In nm (map p_name (c_flat (get_cont st j))).
Proof. exact removed_on_no_chain. Qed.
Print Assumptions C09_removed_plugin_on_no_chain.

(* ... so it never fires again, for no later message, at no stage, on either side. *)
Theorem C09_removed_plugin_never_fires : forall ops st0 nm st,
  run ops = Some st0 -> has_name nm (global_flat st0) = true -> step st0 (ORemove nm) = Some st ->
  (forall other m e,
     In e (trace_of (r_srv_prh (exchange other st m) ++ r_srv (exchange other st m))) -> fst e <> nm) /\
    (forall other m e,
     In e (trace_of (r_cli_prh (exchange st other m) ++ r_cli (exchange st other m))) -> fst e <> nm).
Proof. exact removed_never_fires. Qed.
Print Assumptions C09_removed_plugin_never_fires.

(* Every other plugin keeps its place: the prescribed chains after the removal are the chains
   before it with that one plugin filtered out of left and right (with C09_effective_chain and
   C09_exchange_refines this fixes the hooks of every later message). *)
Theorem C09_remove_keeps_the_others_in_order : forall ops nm,
  let sp := spec_of ops in let sp' := spec_of (ops ++ [ORemove nm]) in
  NoDup (map p_name (sp_left sp ++ sp_right sp)) ->
  has_name nm (sp_left sp ++ sp_right sp) = true ->
  sp_left sp' = filter (fun p => negb (N.eqb (p_name p) nm)) (sp_left sp) /\
    sp_right sp' = filter (fun p => negb (N.eqb (p_name p) nm)) (sp_right sp) /\
    sp_chains sp' = sp_chains sp /\ sp_handlers sp' = sp_handlers sp /\
    sp_unk_call sp' = sp_unk_call sp /\ sp_unk_push sp' = sp_unk_push sp.
Proof. exact remove_spec. Qed.
Print Assumptions C09_remove_keeps_the_others_in_order.

(* The variant that rebuilds the global container only (p.refresh() for p.refreshTree()): a
   route registered before the removal still runs the removed plugin's hooks. *)
Theorem C09_remove_shallow_refresh_refuted :
  exists st, run_shallow witness_remove = Some st /\
    handler_flats st = [(7%N, [1%N; 2%N; 3%N; 4%N])] /\
    map p_name (global_flat st) = [2%N] /\
    spec_handler_flats (spec_of witness_remove) = [(7%N, [2%N; 3%N; 4%N])] /\
    In (1%N, PreReadCallBody) (trace_of (r_srv (exchange st st (MCall 7)))).
Proof. exact remove_shallow_refuted. Qed.
Print Assumptions C09_remove_shallow_refresh_refuted.

Example C09_remove_on_witness :
  exists st, run witness_remove = Some st /\
    handler_flats st = [(7%N, [2%N; 3%N; 4%N])] /\ map p_name (global_flat st) = [2%N] /\
    ~ In (1%N, PreReadCallBody) (trace_of (r_srv (exchange st st (MCall 7)))).
Proof. exact remove_deep_on_witness. Qed.

(* Non-vacuity: histories that run, with the repaired lists; a refusing hook. *)
Example C09_repaired_on_witnesses :
  (exists st, run witness_stale = Some st /\ handler_flats st = [(7%N, [1%N; 2%N; 3%N])]) /\
  (exists st, run witness_stale_deep = Some st /\ handler_flats st = [(7%N, [1%N; 2%N; 3%N; 4%N; 5%N])]) /\
  (exists st, run witness_alias = Some st /\
     handler_flats st = [(7%N, [1%N; 2%N; 3%N; 4%N; 6%N]); (8%N, [1%N; 2%N; 3%N; 5%N; 6%N])]).
Proof. exact repaired_on_witnesses. Qed.

Example C09_refusal_example :
  let v := mkPlugin 9 (fun _ => true) (fun s => match s with PreReadCallBody => 77%Z | _ => 0%Z end) in
  exists srv cli, run [OSub 0 [plug 1]; ORoute KCall 1 7 0%Z [v]; ORight [plug 3]] = Some srv /\
    run [OLeft [plug 20]] = Some cli /\
    r_status (exchange cli srv (MCall 7)) = 77%Z /\ r_invoked (exchange cli srv (MCall 7)) = [] /\
    r_invoked (exchange cli srv (MPush 7)) = [] /\ r_status (exchange cli srv (MCall 8)) = 404%Z.
Proof. eexists. eexists. split; [vm_compute; reflexivity|]. split; [vm_compute; reflexivity|]. vm_compute. repeat split. Qed.
