(* C05 - Wire protocols round-trip every message and never lose frame sync.
   Part 2: proto/jsonproto (the repaired code, /repo commit 77f1e44).
   Frame: {4-byte size}{pipe length}{pipe ids}{JSON text through the pipe}; the JSON text is
   {"seq":N,"mtype":N,"serviceMethod":Q,"status":Q,"meta":Q,"bodyCodec":N,"body":"B"} with
   Q = strconv.Quote and B = the body escaped as a JSON string. Limits / supported field set
   (json_ok): int32 sequence number and status code; a service method made of printable ASCII
   and \b \f \n \r \t (what strconv.Quote writes for other bytes, \x01 \a \v or \U escapes,
   is cut short by the reader: json_method_unguarded_refuted); metadata = ordered multimap of
   arbitrary byte strings without a pair whose key and value are both empty; any status
   message / cause, any message type, codec id and body bytes; the frame below 2^32 bytes
   and within the size limit. [quote_hi]: strconv.Quote on non-ASCII runs; [gjson_other]:
   gjson on text that is not the written shape - neither is reached for guarded messages. *)
From Coq Require Import Strings.String Strings.Byte.
From Coq Require Import List Arith NArith ZArith Bool Lia.
From Verif Require Import Base.Bytes Base.Outcome Model.Quote Model.Args Model.Numfmt
  Model.StatusQuery Model.Xfer Model.RawProto Model.FrameStream Model.JsonFrame
  Proofs.XferProofs Proofs.RawProofs Proofs.JsonProofs.
Import ListNotations.
Local Open Scope N_scope.

(* one frame followed by arbitrary bytes: same seq, type, method, status, metadata, codec,
   body and filter list; the reported size is the frame's own (length minus the prefix) *)
Theorem C05_json_roundtrip : forall quote_hi gjson_other reg lim ids p m f size rest,
  (forall g, In g reg -> inverts g) ->
  pipe_append reg [] ids = (p, None) ->
  json_ok m = true ->
  json_pack quote_hi jesc_byte lim p m = Ok (f, size) ->
  blen f < 4294967296 ->
  json_unpack gjson_other reg lim (f ++ rest) = Ok (m, ids, size, rest) /\ 4 + size = blen f.
Proof. exact json_roundtrip_lemma. Qed.
Print Assumptions C05_json_roundtrip.

(* any number of back-to-back frames decode to the same frame sequence *)
Theorem C05_json_stream : forall quote_hi gjson_other reg lim,
  (forall g, In g reg -> inverts g) ->
  forall (xs : list (list byte * msg * bytes)) fuel,
  Forall (wf_jframe quote_hi reg lim) xs ->
  (length xs < fuel)%nat ->
  decode_all fuel (fun s => retuple (json_unpack gjson_other reg lim s)) (concat (map snd xs))
  = (map (fun '(ids, m, f) => (m, ids, blen f - 4)) xs, Ok tt).
Proof. exact json_stream_lemma. Qed.
Print Assumptions C05_json_stream.

(* the size reported for a message does not depend on the frames that preceded it *)
Theorem C05_json_size_message_alone : forall quote_hi gjson_other reg lim,
  (forall g, In g reg -> inverts g) ->
  forall pre1 pre2 x d,
  Forall (wf_jframe quote_hi reg lim) pre1 -> Forall (wf_jframe quote_hi reg lim) pre2 ->
  wf_jframe quote_hi reg lim x ->
  let dec pre := fst (decode_all (S (S (length pre))) (fun s => retuple (json_unpack gjson_other reg lim s))
                                 (concat (map snd (pre ++ [x])))) in
  last (dec pre1) d = last (dec pre2) d /\
  last (dec pre1) d = (let '(ids, m, f) := x in (m, ids, blen f - 4)).
Proof. exact json_size_alone_lemma. Qed.
Print Assumptions C05_json_size_message_alone.

(* the defect that was repaired: with the original escaping (double quote only) a body with a
   backslash does not come back *)
Theorem C05_json_body_prefix_refuted : forall quote_hi gjson_other,
  exists m f size, json_ok m = true /\ json_pack quote_hi jesc_byte_v0 1000 [] m = Ok (f, size) /\
                   json_unpack gjson_other [] 1000 f <> Ok (m, [], size, []).
Proof. exact json_body_v0_refuted. Qed.
Print Assumptions C05_json_body_prefix_refuted.

(* escaping backslash and quote alone would not have been enough (control characters) *)
Theorem C05_json_body_backslash_only_refuted : forall quote_hi gjson_other,
  exists m f size, json_ok m = true /\ json_pack quote_hi jesc_byte_v1 1000 [] m = Ok (f, size) /\
                   json_unpack gjson_other [] 1000 f <> Ok (m, [], size, []).
Proof. exact json_body_v1_refuted. Qed.
Print Assumptions C05_json_body_backslash_only_refuted.

(* without the guard on the service method the round trip is false *)
Theorem C05_json_method_unguarded_refuted : forall quote_hi gjson_other,
  exists m f size, json_pack quote_hi jesc_byte 1000 [] m = Ok (f, size) /\
                   json_unpack gjson_other [] 1000 f <> Ok (m, [], size, []).
Proof. exact json_method_unguarded_refuted. Qed.
Print Assumptions C05_json_method_unguarded_refuted.

(* non-vacuity: a message with every field non-trivial (backslash, quotes, control and
   non-ASCII bytes in the body) meets the guard and packs *)
Example C05_json_example :
  let m := mkMsg (-2147483648) x02 (str "/a/b c")
                 (mkStatus 404 (str "Not ""Found""") (Some [bsl; x00; xff]))
                 [(str "k", [dqt; bsl]); (str "k", []); ([], str "=")] x6a
                 [ "{"%byte; x0a; dqt; bsl; dqt; x00; xff; "}"%byte ] in
  json_ok m = true /\
  exists f size, json_pack (fun b => b) jesc_byte 1000 [] m = Ok (f, size) /\ blen f < 4294967296.
Proof.
  intros m. split; [vm_compute; reflexivity|].
  remember (json_pack (fun b => b) jesc_byte 1000 [] m) as r eqn:E. vm_compute in E. subst r.
  eexists. eexists. split; [reflexivity|]. vm_compute. reflexivity.
Qed.
