(* C05 - Wire protocols round-trip every message and never lose frame sync.
   Part 2: proto/jsonproto (the repaired code: body escaping /repo 77f1e44, service method
   written through the same escaping).
   Frame: {4-byte size}{pipe length}{pipe ids}{JSON text through the pipe}; the JSON text is
   {"seq":N,"mtype":N,"serviceMethod":"B","status":Q,"meta":Q,"bodyCodec":N,"body":"B"} with
   Q = strconv.Quote and B = the bytes escaped as a JSON string (escapeBody). Limits / supported
   field set (json_ok): int32 sequence number and status code; ANY service method bytes
   (control bytes, 0x7f, bytes >= 0x80, invalid UTF-8: before the repair the method went
   through strconv.Quote, whose \x00 \a \v escapes are cut short by the reader:
   C05_json_method_prefix_refuted); metadata = ordered multimap of
   arbitrary byte strings without a pair whose key and value are both empty; any status
   message / cause, any message type, codec id and body bytes; the frame below 2^32 bytes
   and within the size limit. [quote_hi]: strconv.Quote on non-ASCII runs; [gjson_other]:
   gjson on text that is not the written shape - neither is reached for guarded messages. *)
From Coq Require Import Strings.String Strings.Byte.
From Coq Require Import List Arith NArith ZArith Bool Lia.
From Verif Require Import Base.Bytes Base.Outcome Model.Quote Model.Args Model.Numfmt
  Model.StatusQuery Model.Xfer Model.RawProto Model.FrameStream Model.JsonFrame
  Proofs.XferProofs Proofs.RawProofs Proofs.JsonProofs.
Import ListNotations.
Local Open Scope N_scope.

(* one frame followed by arbitrary bytes: same seq, type, method, status, metadata, codec,
   body and filter list; the reported size is the frame's own (length minus the prefix) *)
Theorem C05_json_roundtrip : forall quote_hi gjson_other reg lim ids p m f size rest,
  (forall g, In g reg -> inverts g) ->
  pipe_append reg [] ids = (p, None) ->
  json_ok m = true ->
  json_pack quote_hi jesc_byte lim p m = Ok (f, size) ->
  blen f < 4294967296 ->
  json_unpack gjson_other reg lim (f ++ rest) = Ok (m, ids, size, rest) /\ 4 + size = blen f.
Proof. exact json_roundtrip_lemma. Qed.
Print Assumptions C05_json_roundtrip.

(* any number of back-to-back frames decode to the same frame sequence *)
Theorem C05_json_stream : forall quote_hi gjson_other reg lim,
  (forall g, In g reg -> inverts g) ->
  forall (xs : list (list byte * msg * bytes)) fuel,
  Forall (wf_jframe quote_hi reg lim) xs ->
  (length xs < fuel)%nat ->
  decode_all fuel (fun s => retuple (json_unpack gjson_other reg lim s)) (concat (map snd xs))
  = (map (fun '(ids, m, f) => (m, ids, blen f - 4)) xs, Ok tt).
Proof. exact json_stream_lemma. Qed.
Print Assumptions C05_json_stream.

(* the size reported for a message does not depend on the frames that preceded it *)
Theorem C05_json_size_message_alone : forall quote_hi gjson_other reg lim,
  (forall g, In g reg -> inverts g) ->
  forall pre1 pre2 x d,
  Forall (wf_jframe quote_hi reg lim) pre1 -> Forall (wf_jframe quote_hi reg lim) pre2 ->
  wf_jframe quote_hi reg lim x ->
  let dec pre := fst (decode_all (S (S (length pre))) (fun s => retuple (json_unpack gjson_other reg lim s))
                                 (concat (map snd (pre ++ [x])))) in
  last (dec pre1) d = last (dec pre2) d /\
  last (dec pre1) d = (let '(ids, m, f) := x in (m, ids, blen f - 4)).
Proof. exact json_size_alone_lemma. Qed.
Print Assumptions C05_json_size_message_alone.

(* the defect that was repaired: with the original escaping (double quote only) a body with a
   backslash does not come back *)
Theorem C05_json_body_prefix_refuted : forall quote_hi gjson_other,
  exists m f size, json_ok m = true /\ json_pack quote_hi jesc_byte_v0 1000 [] m = Ok (f, size) /\
                   json_unpack gjson_other [] 1000 f <> Ok (m, [], size, []).
Proof. exact json_body_v0_refuted. Qed.
Print Assumptions C05_json_body_prefix_refuted.

(* escaping backslash and quote alone would not have been enough (control characters) *)
Theorem C05_json_body_backslash_only_refuted : forall quote_hi gjson_other,
  exists m f size, json_ok m = true /\ json_pack quote_hi jesc_byte_v1 1000 [] m = Ok (f, size) /\
                   json_unpack gjson_other [] 1000 f <> Ok (m, [], size, []).
Proof. exact json_body_v1_refuted. Qed.
Print Assumptions C05_json_body_backslash_only_refuted.

(* the second defect that was repaired: with the service method written by strconv.Quote
   (the code before), a method with a control byte ("/test" followed by 0x00) does not come
   back although the message meets every other limit *)
Theorem C05_json_method_prefix_refuted : forall quote_hi gjson_other,
  exists m f size, json_ok m = true /\ json_pack_prefix quote_hi jesc_byte 1000 [] m = Ok (f, size) /\
                   json_unpack gjson_other [] 1000 f <> Ok (m, [], size, []).
Proof. exact json_method_prefix_refuted. Qed.
Print Assumptions C05_json_method_prefix_refuted.

(* what held for that code: the payload parses back under the additional guard json_safe on
   the service method *)
Theorem C05_json_parse_prefix_guarded : forall quote_hi gjson_other m,
  json_ok_prefix m = true ->
  json_parse gjson_other (json_members_prefix quote_hi jesc_byte m (m_body m) ++ [ "}"%byte ]) = Ok m.
Proof. exact json_parse_prefix_ok. Qed.
Print Assumptions C05_json_parse_prefix_guarded.

(* non-vacuity: a message with every field non-trivial (backslash, quotes, control, 0x7f and
   non-ASCII / invalid UTF-8 bytes in the service method and in the body) meets the guard and
   packs *)
Example C05_json_example :
  let m := mkMsg (-2147483648) x02 [ "/"%byte; x00; x07; x0b; x1f; x7f; x80; xff; dqt; bsl; " "%byte ]
                 (mkStatus 404 (str "Not ""Found""") (Some [bsl; x00; xff]))
                 [(str "k", [dqt; bsl]); (str "k", []); ([], str "=")] x6a
                 [ "{"%byte; x0a; dqt; bsl; dqt; x00; xff; "}"%byte ] in
  json_ok m = true /\
  exists f size, json_pack (fun b => b) jesc_byte 1000 [] m = Ok (f, size) /\ blen f < 4294967296.
Proof.
  intros m. split; [vm_compute; reflexivity|].
  remember (json_pack (fun b => b) jesc_byte 1000 [] m) as r eqn:E. vm_compute in E. subst r.
  eexists. eexists. split; [reflexivity|]. vm_compute. reflexivity.
Qed.
