(* C16 - No handler or message hook runs on a connection that failed authentication.
   Statements only; every proof is [exact <lemma>].
   The machine of Model/Auth.v is run on an arbitrary list of inputs: the client's bytes in any
   chunking ([Bytes]), its half-close ([Eof]) or disappearance ([Gone]) at any point.  The
   theorems hold for every checker behaviour (number of RecvOnce calls, verdict function), every
   router, every size limit and every behaviour of the status / codec libraries. *)
From Coq Require Import Strings.String Strings.Byte.
From Coq Require Import List Arith NArith ZArith Bool Lia.
From Verif Require Import Base.Bytes Base.Val Model.Auth Model.AuthPool Proofs.AuthProofs Proofs.AuthPoolProofs Corr.C16.
Import ListNotations.

Section AllParameters.
  Variable status_code : bytes -> Z.
  Variable info_dec : byte -> bytes -> option bytes.
  Variable route_call : bytes -> bool.
  Variable route_push : bytes -> bool.
  Variable limit : N.
  Notation run := (Auth.run status_code info_dec route_call route_push limit).

  (* Whatever the client sends and however it is split: every per-message plugin stage, every
     handler invocation and every application frame written by the server comes after the
     OK auth reply and after the accept transition. *)
  Theorem C16_no_hook_or_handler_before_accept : forall ck ins tr1 e tr2,
    trace (run ck ins) = tr1 ++ e :: tr2 -> is_app e = true ->
    In (EvAuthReply 0) tr1 /\ In EvAccept tr1 /\ accepted (run ck ins) = true.
  Proof. exact (no_app_before_accept status_code info_dec route_call route_push limit). Qed.

  (* A connection whose exchange has not (or not yet) succeeded has run nothing at all. *)
  Theorem C16_not_accepted_nothing_runs : forall ck ins,
    accepted (run ck ins) = false -> Forall (fun e => is_app e = false) (trace (run ck ins)).
  Proof. exact (not_accepted_no_app status_code info_dec route_call route_push limit). Qed.

  (* At most one frame is read for the exchange, at most one auth reply is written, at most one
     verdict is taken; an accepted connection's history is
     (accept-phase events only, among them exactly one auth reply, and it is OK) ++ [accept] ++
     (no accept-phase event ever again: an AUTH_CALL after acceptance is not an exchange). *)
  Theorem C16_exchange_exactly_once : forall ck ins,
    let t := trace (run ck ins) in
    count is_recv t <= 1 /\ count is_auth_reply t <= 1 /\ count is_verdict t <= 1 /\
    (In EvAccept t ->
       exists pre post, t = pre ++ EvAccept :: post /\
         Forall (fun e => is_app e = false) pre /\
         filter is_auth_reply pre = [EvAuthReply 0] /\
         Forall (fun e => is_exchange e = false) post).
  Proof. exact (exchange_once status_code info_dec route_call route_push limit). Qed.

  (* The whole PostAccept chain: a plugin registered before or behind the checker that returns a
     non-OK status or panics, or a checker function that panics (before reading, or in its verify
     code after reading), anywhere - the connection is never accepted, never listed, and nothing
     runs on it, whatever the client sends and whatever the checker's verdict would have been. *)
  Theorem C16_failing_hook_anywhere_rejects : forall ck ins,
    chain_fails ck = true ->
    accepted (run ck ins) = false /\ indexed (run ck ins) = false /\
    Forall (fun e => is_app e = false) (trace (run ck ins)).
  Proof. exact (failing_chain_never_accepts status_code info_dec route_call route_push limit). Qed.

  (* A checker may name the session (SetID) while the exchange is still pending - with an id that
     another, authenticated session holds.  On the unindexed session this does not touch the hub;
     that other session is displaced (closed) only by a connection that was accepted, after its OK
     auth reply.  (With C16_not_accepted_nothing_runs: a pending or rejected connection never
     displaces anybody, and is never listed under the claimed id either.) *)
  Theorem C16_only_an_accepted_connection_displaces : forall ck ins,
    In EvDisplace (trace (run ck ins)) ->
    accepted (run ck ins) = true /\ In EvAccept (trace (run ck ins)) /\ In (EvAuthReply 0) (trace (run ck ins)).
  Proof. exact (displace_only_accepted status_code info_dec route_call route_push limit). Qed.

  Theorem C16_rejected_closed_and_unindexed : forall ck ins,
    In EvReject (trace (run ck ins)) ->
    ph (run ck ins) = Closed /\ indexed (run ck ins) = false /\ accepted (run ck ins) = false /\
    Forall (fun e => is_app e = false) (trace (run ck ins)).
  Proof. exact (rejected_closed_unindexed status_code info_dec route_call route_push limit). Qed.

  (* Only an accepted connection whose read loop is running is listed. *)
  Theorem C16_listed_only_accepted_and_open : forall ck ins,
    indexed (run ck ins) = true ->
    accepted (run ck ins) = true /\ exists h, ph (run ck ins) = Running h.
  Proof. exact (indexed_only_running status_code info_dec route_call route_push limit). Qed.

  (* Once the client has half-closed, the connection is finished and not listed, whatever was
     sent before and whatever is attempted afterwards (no connection stays half-authenticated). *)
  Theorem C16_finished_after_eof : forall ck ins1 ins2,
    let s := run ck (ins1 ++ Eof :: ins2) in ph s = Closed /\ indexed s = false.
  Proof. exact (eof_finishes status_code info_dec route_call route_push limit). Qed.

  (* A complete first frame [f] followed by ANY bytes [rest]: the frames of [rest] are handled
     (handler invocations and replies, in order, each exactly once, up to the first frame the
     loop cannot read or does not allow) if and only if the verdict on [f] is OK and no plugin
     behind the checker vetoes; otherwise
     nothing of [rest] is handled. *)
  Theorem C16_pipelined_frames_processed_iff_accepted : forall ck s f rest,
    ck_recvs ck = 1%nat -> ck_before ck = None -> ck_panic ck = 0%nat -> ck_setid ck = 0%nat ->
    parse limit s = PFrame f rest ->
    let fin := run ck [Bytes s; Eof] in
    let ok := Z.eqb (verdict_code ck (Some (recv_of_frame status_code info_dec f))) 0
              && negb (hook_fails (ck_after ck)) in
    accepted fin = ok /\
    filter hr (trace fin) =
      if ok then flat_map (fun g => filter hr (frame_events route_call route_push false g))
                          (loop_frames limit rest)
      else [].
  Proof. exact (pipelined_iff status_code info_dec route_call route_push limit). Qed.
End AllParameters.

Print Assumptions C16_no_hook_or_handler_before_accept.
Print Assumptions C16_not_accepted_nothing_runs.
Print Assumptions C16_exchange_exactly_once.
Print Assumptions C16_failing_hook_anywhere_rejects.
Print Assumptions C16_only_an_accepted_connection_displaces.
Print Assumptions C16_rejected_closed_and_unindexed.
Print Assumptions C16_listed_only_accepted_and_open.
Print Assumptions C16_finished_after_eof.
Print Assumptions C16_pipelined_frames_processed_iff_accepted.

(* ---- the verdict is a function of the connection's OWN auth frame (Model/AuthPool.v) ----
   Several connections are in their accept phase at once; their reads, and every other read or Pack
   of the process, take their byte buffer from one pool, so the buffer a frame was read into is
   overwritten by later reads while a checker still works between RecvOnce and its comparison.
   The stores that exist (string(data), copy into a pointer-to-[]byte, encoding/json) give the receiver
   bytes of its own. *)

(* For EVERY schedule of receive / other-read / verdict steps of any number of connections and every
   assignment of pooled buffers to the reads: each verdict sees exactly the info of that connection's
   own last auth frame. *)
Theorem C16_checker_holds_a_copy_of_its_own_info : forall evs,
  plog (prun false evs) = slog (srun evs).
Proof. exact prun_copy_spec. Qed.
Print Assumptions C16_checker_holds_a_copy_of_its_own_info.

(* Two schedules in which connection c takes the same steps give c the same verdicts, whatever the
   other connections send, whenever they send it and whichever buffers the pool hands out. *)
Theorem C16_verdict_depends_on_own_frame_only : forall c evs1 evs2,
  filter (about c) evs1 = filter (about c) evs2 ->
  log_of c (plog (prun false evs1)) = log_of c (plog (prun false evs2)).
Proof. exact copy_verdicts_own_steps_only. Qed.
Print Assumptions C16_verdict_depends_on_own_frame_only.

(* On the accept machine: a checker parked between RecvOnce and its verdict while ANY steps of other
   connections happen behaves exactly as the unparked checker - so every theorem above holds for
   it, and it accepts iff its own frame carried what the verdict function accepts. *)
Theorem C16_parked_checker_same_as_unparked :
  forall status_code info_dec route_call route_push limit ck others ins,
  Forall (fun e => about 0 e = false) others ->
  Auth.run status_code info_dec route_call route_push limit (gated false others ck) ins
  = Auth.run status_code info_dec route_call route_push limit ck ins.
Proof. exact gated_copy_run. Qed.
Print Assumptions C16_parked_checker_same_as_unparked.

(* The zero-copy store (the receiver holds a view into the pooled buffer) is refuted: with the
   same own steps the verdict of a connection changes with what another connection sends ... *)
Theorem C16_aliased_info_refuted :
  exists evs1 evs2 c,
    filter (about c) evs1 = filter (about c) evs2 /\
    log_of c (plog (prun true evs1)) = [Some (str "wrong")] /\
    log_of c (plog (prun true evs2)) = [Some (str "right")].
Proof. exact alias_verdict_depends_on_others. Qed.
Print Assumptions C16_aliased_info_refuted.

(* ... and on the machine a connection that sent a wrong token is accepted and its pipelined CALL
   handled once another connection's right token has been read into the recycled buffer. *)
Theorem C16_parked_checker_aliased_refuted :
  exists others ins,
    Forall (fun e => about 0 e = false) others /\
    let ck := mkChecker 1 false (fun i => bytes_eqb i (str "r")) 0 None None 0 in
    let run' := Auth.run (fun _ => 0%Z) (fun _ b => Some b) (fun _ => true) (fun _ => true) 65536 in
    accepted (run' ck ins) = false /\
    accepted (run' (gated true others ck) ins) = true /\
    In (EvHandler true 72) (trace (run' (gated true others ck) ins)).
Proof. exact gated_alias_refuted. Qed.
Print Assumptions C16_parked_checker_aliased_refuted.

(* non-vacuity: three connections, one buffer for every read, a read-loop frame in between *)
Example C16_example_pool :
  let evs := [PRecv 0 0 (str "hdr:wrong") 4 5; PRecv 1 0 (str "hdr:right") 4 5; PRead 0 (str "xxxxxxxxxxxx");
              PVerdict 0; PRecv 2 0 (str "h:") 2 0; PVerdict 1; PVerdict 2] in
  plog (prun false evs) = [(0%nat, Some (str "wrong")); (1%nat, Some (str "right")); (2%nat, Some [])] /\
  plog (prun true evs) = [(0%nat, Some (str "xxxxx")); (1%nat, Some (str "xxxxx")); (2%nat, Some [])].
Proof. vm_compute. auto. Qed.

(* Client side (authBearerPlugin.PostDial): the dial succeeds only on an AUTH_REPLY frame with
   OK status, and the request is sent at most once. *)
Theorem C16_bearer_session_only_after_ok_auth_reply : forall status_code sends propagate reply,
  fst (bearer status_code sends propagate reply) = DialOk ->
  sends = 0%nat \/
  (exists f, reply = Some f /\ status_code (f_status f) = 0%Z /\ f_mtype f = t_authreply).
Proof. exact bearer_ok_iff. Qed.
Print Assumptions C16_bearer_session_only_after_ok_auth_reply.

Theorem C16_bearer_sends_once : forall status_code sends propagate reply,
  (snd (bearer status_code sends propagate reply) <= 1)%nat.
Proof. exact bearer_sends_once. Qed.
Print Assumptions C16_bearer_sends_once.

(* ---- non-vacuity: concrete streams (raw protocol bytes as the harness sends them) ---- *)
Definition ex_auth : bytes := hex "000000160002776604000006636f64653d3000007372".   (* AUTH_CALL, info "r" *)
Definition ex_call : bytes :=
  hex "0000002d0002323001092f6170702f6563686f0006636f64653d30000073627a726a7861776e77656b7262656d".
Definition ex_run (token : bytes) (ins : list input) : st :=
  Auth.run status_code_simple info_dec_simple route_call_h route_push_h 65536
           (mkChecker 1 false (fun i => bytes_eqb i token) 0 None None 0) ins.

(* right token, a CALL pipelined in the same write: accepted, the CALL is handled once *)
Example C16_example_accepted :
  let s := ex_run (str "r") [Bytes (ex_auth ++ ex_call); Eof] in
  accepted s = true /\ filter is_handler (trace s) = [EvHandler true 72] /\
  filter is_reply (trace s) = [EvReply 72 0].
Proof. vm_compute. auto. Qed.

(* wrong token, same bytes delivered byte by byte: rejected, closed, nothing handled *)
Example C16_example_rejected :
  let s := ex_run (str "q") (map (fun b => Bytes [b]) (ex_auth ++ ex_call)) in
  In EvReject (trace s) /\ ph s = Closed /\ filter is_app (trace s) = [] /\
  filter is_auth_reply (trace s) = [EvAuthReply 403].
Proof. vm_compute. auto 10. Qed.

(* a CALL instead of the auth frame: 401, rejected *)
Example C16_example_call_first :
  let s := ex_run (str "r") [Bytes (ex_call ++ ex_auth)] in
  In EvReject (trace s) /\ filter is_app (trace s) = [] /\ filter is_auth_reply (trace s) = [EvAuthReply 401].
Proof. vm_compute. auto 10. Qed.

(* an incomplete first frame and no EOF: still preparing, nothing has run, not listed *)
Example C16_example_blocked :
  let s := ex_run (str "r") [Bytes (firstn 9 ex_auth)] in
  ph s = Preparing /\ trace s = [] /\ indexed s = false.
Proof. vm_compute. auto. Qed.

(* right token, but the checker's verify code panics (or a plugin behind the checker panics after
   the OK reply went out): rejected, closed, the pipelined CALL is not handled *)
Example C16_example_panicking_checker :
  let run' ck := Auth.run status_code_simple info_dec_simple route_call_h route_push_h 65536 ck
                          [Bytes (ex_auth ++ ex_call); Eof] in
  let s1 := run' (mkChecker 1 false (fun i => bytes_eqb i (str "r")) 2 None None 0) in
  let s2 := run' (mkChecker 1 false (fun i => bytes_eqb i (str "r")) 0 None (Some HPanic) 0) in
  (In EvReject (trace s1) /\ filter is_app (trace s1) = [] /\ filter is_auth_reply (trace s1) = [] /\ ph s1 = Closed) /\
  (In EvReject (trace s2) /\ filter is_app (trace s2) = [] /\ filter is_auth_reply (trace s2) = [EvAuthReply 0] /\ ph s2 = Closed).
Proof. vm_compute. auto 12. Qed.

(* the checker claims an id before verifying: wrong token - nobody is displaced, nothing listed;
   right token - the previous holder is displaced, after the accept *)
Example C16_example_setid :
  let run' tok := Auth.run status_code_simple info_dec_simple route_call_h route_push_h 65536
                           (mkChecker 1 false (fun i => bytes_eqb i tok) 0 None None 1)
                           [Bytes ex_auth; Eof] in
  (In EvSetID (trace (run' (str "q"))) /\ ~ In EvDisplace (trace (run' (str "q"))) /\ In EvReject (trace (run' (str "q")))) /\
  (In EvDisplace (trace (run' (str "r"))) /\ accepted (run' (str "r")) = true).
Proof. vm_compute. repeat split; auto 12. intros H; repeat (destruct H as [H|H]; [discriminate|]); exact H. Qed.
