(* C20 - a recycled object is never shared: (1) what a handler stores in its context's swap
   stays with that message - the session's swap and every later message's context are unaffected
   (handlerCtx.reInit copies the session swap into a new map); (2) under the
   one-Put-per-acquisition discipline a pool never hands an object to two holders.
   Model: Model/PoolsAlias.v (maps and pooled objects with identities); lemmas:
   Proofs/PoolsAliasProofs.v. Statements only. *)
From Coq Require Import Strings.String Strings.Byte.
From Coq Require Import List Arith NArith ZArith Bool Lia.
From Verif Require Import Base.Bytes Base.Val Model.Pools Model.PoolsAlias Proofs.PoolsAliasProofs.
Import ListNotations.

(* ---- swap isolation ---- *)
(* [SInv]: the context's map and the session's map are different objects *)
Theorem C20_swap_step_isolated : forall w o, SInv w ->
  SInv (sw_step false w o) /\
  (touches_session o = false -> sock_view (sw_step false w o) = sock_view w) /\
  (o = WReinit -> ctx_view (sw_step false w o) = copy_entries (sock_view w)).
Proof. exact sw_step_ok. Qed.
Print Assumptions C20_swap_step_isolated.

(* for every history of messages whose handlers store whatever they like in their contexts
   (any session swap content, empty or not): the next message's context shows the session's
   entries and nothing else, and the session still holds exactly its own entries *)
Theorem C20_swap_next_message_clean : forall ops w, SInv w ->
  forallb (fun o => negb (touches_session o)) ops = true ->
  let w' := sw_step false (sw_run false w ops) WReinit in
  ctx_view w' = copy_entries (sock_view w) /\ sock_view w' = sock_view w.
Proof. exact sw_next_message_clean. Qed.
Print Assumptions C20_swap_next_message_clean.

Theorem C20_swap_new_session_ok : SInv sworld_new.
Proof. exact SInv_new. Qed.
Print Assumptions C20_swap_new_session_ok.

(* the variant of reInit that hands out the session's own map when it is non-empty: an entry
   stored by one message's handler shows up in the session and in the next message's context *)
Theorem C20_swap_shared_map_variant_refuted :
  sock_view (sw_run true sworld_new swap_leak_history)
    = [(str "accept-encrypt", str "1"); (str "session-user", str "alice")] /\
  ctx_view (sw_run true sworld_new swap_leak_history)
    = [(str "accept-encrypt", str "1"); (str "session-user", str "alice")] /\
  sock_view (sw_run false sworld_new swap_leak_history) = [(str "session-user", str "alice")] /\
  ctx_view (sw_run false sworld_new swap_leak_history) = [(str "session-user", str "alice")].
Proof. exact swap_leak_witness. Qed.
Print Assumptions C20_swap_shared_map_variant_refuted.

(* ---- exclusive ownership of pooled objects ---- *)
(* sync.Pool's choices (which pooled object, a new one, dropping everything) are arbitrary; the
   users' discipline is: Put only what you hold, and then you hold it no more. Then whatever a
   Get hands out is held by nobody. The code side of the discipline is the table theorem
   C20_each_object_put_at_most_once (Properties/C20Table.v). *)
Theorem C20_pool_get_is_exclusive : forall ops c, forallb disciplined ops = true ->
  let st := fold_left pstep ops pool_new in ~ In (pget_obj st c) (p_held st).
Proof. exact pool_exclusive. Qed.
Print Assumptions C20_pool_get_is_exclusive.

Theorem C20_pool_double_put_refuted :
  let st := fold_left pstep [PGet None; PPut 0; PPutAgain 0; PGet (Some 0)] pool_new in
  In (pget_obj st (Some 0)) (p_held st).
Proof. exact double_put_witness. Qed.
Print Assumptions C20_pool_double_put_refuted.
