(* C05 - Wire protocols round-trip every message and never lose frame sync.
   Part 5: proto/thriftproto (thrift-binary and thrift-struct) on the repaired code (/repo
   31634c9: Unpack zeroes the READ counter; 809631b: the transport delivers no byte beyond
   the end of the current frame). Field exact: the THeader protocol of the thrift library is
   the pair [th_frame] / [th_read] with the framing contract
   [th_read (th_frame x ++ rest) = (x, rest)] and [th_frame x <> []], visible in every
   statement; the repository's own logic and the counters feeding Size() are concrete.
   Supported field sets: both protocols (thrift_ok): message types call, reply, push (thrift
   CALL / REPLY / ONEWAY; anything else is written as type 0 and read back as push:
   thrift_mtype_unguarded_refuted), int32 sequence number and status code, metadata without
   an empty/empty pair, any service method / status text / body bytes. thrift-binary (bin_ok):
   codec id below 0x80 (it travels as string(rune(id)): bin_codec_unguarded_refuted), any
   accepted filter pipe. thrift-struct (struct_ok): codec thrift only, no filter pipe, the
   body is what the user's thrift struct writes (here: its bytes). The frame is below 2^32
   bytes and within the size limit (Pack writes the frame first and reports the limit
   afterwards: PackWrote). Size = the frame's own byte length on both sides. *)
From Coq Require Import Strings.String Strings.Byte.
From Coq Require Import List Arith NArith ZArith Bool Lia.
From Verif Require Import Base.Bytes Base.Outcome Model.Quote Model.Args Model.Numfmt
  Model.StatusQuery Model.Xfer Model.RawProto Model.FrameStream Model.ThriftFrame
  Proofs.XferProofs Proofs.RawProofs Proofs.JsonProofs Proofs.ThriftProofs.
Import ListNotations.
Local Open Scope N_scope.

Theorem C05_thrift_bin_roundtrip : forall th_frame th_read,
  (forall x rest, th_read (th_frame x ++ rest) = Ok (x, rest)) ->
  forall reg lim ids p m f size rest,
  (forall g, In g reg -> inverts g) ->
  pipe_append reg [] ids = (p, None) ->
  bin_ok m = true ->
  bin_pack th_frame lim p m = PackOk f size ->
  blen f < 4294967296 ->
  bin_unpack th_read reg lim (f ++ rest) = Ok (m, ids, size, rest) /\ size = blen f.
Proof. exact bin_roundtrip_lemma. Qed.
Print Assumptions C05_thrift_bin_roundtrip.

Theorem C05_thrift_struct_roundtrip : forall th_frame th_read,
  (forall x rest, th_read (th_frame x ++ rest) = Ok (x, rest)) ->
  forall lim m f size rest,
  struct_ok m = true ->
  struct_pack th_frame lim [] m = PackOk f size ->
  blen f < 4294967296 ->
  struct_unpack th_read lim (f ++ rest) = Ok (m, [], size, rest) /\ size = blen f.
Proof. exact struct_roundtrip_lemma. Qed.
Print Assumptions C05_thrift_struct_roundtrip.

Theorem C05_thrift_bin_stream : forall th_frame th_read,
  (forall x rest, th_read (th_frame x ++ rest) = Ok (x, rest)) ->
  (forall x, th_frame x <> []) ->
  forall reg lim,
  (forall g, In g reg -> inverts g) ->
  forall (xs : list (list byte * msg * bytes)) fuel,
  Forall (wf_binframe th_frame reg lim) xs ->
  (length xs < fuel)%nat ->
  decode_all fuel (fun s => retuple (bin_unpack th_read reg lim s)) (concat (map snd xs))
  = (map (fun '(ids, m, f) => (m, ids, blen f)) xs, Ok tt).
Proof. exact bin_stream_lemma. Qed.
Print Assumptions C05_thrift_bin_stream.

Theorem C05_thrift_struct_stream : forall th_frame th_read,
  (forall x rest, th_read (th_frame x ++ rest) = Ok (x, rest)) ->
  (forall x, th_frame x <> []) ->
  forall lim (xs : list (msg * bytes)) fuel,
  Forall (wf_structframe th_frame lim) xs ->
  (length xs < fuel)%nat ->
  decode_all fuel (fun s => retuple (struct_unpack th_read lim s)) (concat (map snd xs))
  = (map (fun '(m, f) => (m, [], blen f)) xs, Ok tt).
Proof. exact struct_stream_lemma. Qed.
Print Assumptions C05_thrift_struct_stream.

(* the size reported for a frame is its own byte length whatever frames precede it *)
Theorem C05_thrift_size_message_alone : forall th_frame th_read,
  (forall x rest, th_read (th_frame x ++ rest) = Ok (x, rest)) ->
  (forall x, th_frame x <> []) ->
  forall reg lim,
  (forall g, In g reg -> inverts g) ->
  forall pre1 pre2 x d,
  Forall (wf_binframe th_frame reg lim) pre1 -> Forall (wf_binframe th_frame reg lim) pre2 ->
  wf_binframe th_frame reg lim x ->
  let dec pre := fst (decode_all (S (S (length pre))) (fun s => retuple (bin_unpack th_read reg lim s))
                                 (concat (map snd (pre ++ [x])))) in
  last (dec pre1) d = last (dec pre2) d /\
  last (dec pre1) d = (let '(ids, m, f) := x in (m, ids, blen f)).
Proof. exact bin_size_alone_lemma. Qed.
Print Assumptions C05_thrift_size_message_alone.

(* full-duplex use of ONE protocol object: Pack (under packLock) and Unpack (under unpackLock)
   share the ReadWriteCounter. For ANY interleaving of the counter events of the writing side
   (WriteCounter.Zero, Write) with those of an Unpack that zeroes the read counter and reads
   the frame in chunks of any sizes, the read counter - Size() of the received message - ends
   at the number of bytes of the frame; symmetrically for the size Pack reports. So what the
   connection sends while a frame arrives does not reach the decoded message (its fields are
   a function of the frame alone: C05_thrift_bin_roundtrip; its size: here). *)
Theorem C05_thrift_size_duplex : forall evs reads c,
  forallb (fun e => is_rd e || is_wr e) evs = true ->
  List.filter is_rd evs = unpack_events reads ->
  c_read (crun c evs) = sumN reads.
Proof. exact duplex_size_lemma. Qed.
Print Assumptions C05_thrift_size_duplex.

Theorem C05_thrift_pack_size_duplex : forall evs len c,
  forallb (fun e => is_rd e || is_wr e) evs = true ->
  List.filter is_wr evs = pack_events len ->
  c_written (crun c evs) = len.
Proof. exact duplex_pack_size_lemma. Qed.
Print Assumptions C05_thrift_pack_size_duplex.

(* a Pack that zeroes the whole shared counter breaks it (seeded change C05-r3m2) *)
Theorem C05_thrift_zero_both_refuted :
  exists (evs : list cev) (reads : list N),
    (List.filter is_rd evs = unpack_events reads) /\
    (c_read (crun (mkCtr 0 0) evs) <> sumN reads).
Proof. exact duplex_zero_both_refuted. Qed.
Print Assumptions C05_thrift_zero_both_refuted.

Example C05_thrift_duplex_example :
  let evs := [EvZeroR; EvRead 216; EvZeroW; EvWrite 50; EvRead 216] in
  forallb (fun e => is_rd e || is_wr e) evs = true /\
  List.filter is_rd evs = unpack_events [216; 216] /\ c_read (crun (mkCtr 7 9) evs) = 432.
Proof. repeat split; reflexivity. Qed.

(* ---- both directions at once, both counters and both reset sites explicit ----
   Pack and Unpack of one protocol object are two sequential programs (reset site, Writes /
   Reads through the counter, size site) whose events interleave in ANY order; [sites] says
   which counter(s) each reset site zeroes. For the sites of the code (binary and struct:
   Pack zeroes the write counter, Unpack the read counter) every packed and every unpacked
   message is reported with the byte length of its own frame, in every interleaving, from
   every counter state - whatever the other direction does, whenever it does it. *)
Theorem C05_thrift_bin_sizes_own : sizes_own bin_sites.
Proof. exact (sites_sizes_own bin_sites eq_refl eq_refl). Qed.
Print Assumptions C05_thrift_bin_sizes_own.

Theorem C05_thrift_struct_sizes_own : sizes_own struct_sites.
Proof. exact (sites_sizes_own struct_sites eq_refl eq_refl). Qed.
Print Assumptions C05_thrift_struct_sizes_own.

(* and these are the ONLY sites with that property: each of the eight other choices (a reset
   through ReadWriteCounter.Zero on either side, the other side's counter, ...) reports a wrong
   size on the execution [cross_witness] *)
Theorem C05_thrift_sizes_own_iff : forall s,
  sizes_own s <-> (pack_zero s = ZW /\ unpack_zero s = ZR).
Proof. exact sites_sizes_own_iff. Qed.
Print Assumptions C05_thrift_sizes_own_iff.

(* Unpack zeroing the whole shared counter (seeded change C05-r5m1): an Unpack that begins
   between the two Writes of a Pack (4-byte frame length, 72 bytes of payload) makes the Pack
   report 72 for its frame of 76 bytes *)
Theorem C05_thrift_unpack_zero_both_refuted :
  exists evs c,
    List.filter pside evs = pack_trace [4; 72] /\ List.filter uside evs = unpack_trace [76] /\
    List.filter is_opacked (xrun (mkSites ZW ZB) c evs) = [OPacked 72].
Proof. exact unpack_zero_both_refuted. Qed.
Print Assumptions C05_thrift_unpack_zero_both_refuted.

(* Pack zeroing the whole shared counter (C05-r3m2, C14-r5m1), in the same machine *)
Theorem C05_thrift_pack_zero_both_refuted :
  exists evs c,
    List.filter pside evs = pack_trace [50] /\ List.filter uside evs = unpack_trace [216; 216] /\
    List.filter is_ounpacked (xrun (mkSites ZB ZR) c evs) = [OUnpacked 216].
Proof. exact pack_zero_both_refuted. Qed.
Print Assumptions C05_thrift_pack_zero_both_refuted.

(* non-vacuity: the witness execution is an interleaving of two whole Packs with two whole
   Unpacks, and the sites of the code report 76, 1 and 8, 2 on it *)
Example C05_thrift_cross_example :
  List.filter pside cross_witness = concat (map pack_trace [[4; 72]; [1]]) /\
  List.filter uside cross_witness = concat (map unpack_trace [[3; 5]; [2]]) /\
  xrun struct_sites (mkCtr 7 9) cross_witness = [OPacked 76; OPacked 1; OUnpacked 8; OUnpacked 2].
Proof. repeat split; reflexivity. Qed.

(* the two defects that were repaired *)
Theorem C05_thrift_size_cumulative_prefix_refuted :
  exists frames, nth 1 (sizes_cumulative 0 frames) 0 <> blen (nth 1 frames []).
Proof. exact size_cumulative_refuted. Qed.
Print Assumptions C05_thrift_size_cumulative_prefix_refuted.

Theorem C05_thrift_size_readahead_prefix_refuted : forall th_frame th_read,
  (forall x rest, th_read (th_frame x ++ rest) = Ok (x, rest)) ->
  forall x, exists ahead rest1 rest2,
    bin_unpack_size_prefix th_read ahead (th_frame x ++ rest1)
    <> bin_unpack_size_prefix th_read ahead (th_frame x ++ rest2).
Proof. exact size_readahead_refuted. Qed.
Print Assumptions C05_thrift_size_readahead_prefix_refuted.

(* outside the guards *)
Theorem C05_thrift_codec_unguarded_refuted :
  exists c, match rune_string c with [] => x00 | c' :: _ => c' end <> c.
Proof. exact bin_codec_unguarded_refuted. Qed.
Print Assumptions C05_thrift_codec_unguarded_refuted.

Theorem C05_thrift_mtype_unguarded_refuted : exists mt, mtype_of (ttype_of mt) <> Some mt.
Proof. exact thrift_mtype_unguarded_refuted. Qed.
Print Assumptions C05_thrift_mtype_unguarded_refuted.

(* non-vacuity: guarded messages exist and pack (with a one-byte-per-frame instance of the
   library framing the hypotheses are about) *)
Example C05_thrift_example :
  let m := mkMsg (-2147483648) x03 [xff; x00; "/"%byte]
                 (mkStatus 404 (str "nf") (Some [x00])) [(str "k", [xff]); ([], str "=")] x6a [x00; xff] in
  bin_ok m = true /\ struct_ok (mkMsg 1 x01 (str "/a") status_zero [] codec_t (str "b")) = true /\
  exists f size, bin_pack (fun _ => [x00]) 1000 [] m = PackOk f size /\ blen f < 4294967296.
Proof.
  intros m. split; [vm_compute; reflexivity|]. split; [vm_compute; reflexivity|].
  exists [x00], 1. split; [reflexivity | vm_compute; reflexivity].
Qed.
