(* C15 - obligations over the tables the translator regenerates from the CURRENT source on
   every run (Generated/C15Sites.v, Generated/C15Sentinels.v).  Each is decided by
   computation on the generated list and lifted to a [Forall]; an edit of the repository that
   stores through a shared status, drops the status reset of pooled messages, or changes a
   predefined status breaks the corresponding theorem on the next run. *)
From Coq Require Import Strings.String Strings.Byte.
From Coq Require Import List Arith NArith ZArith Bool Lia.
From Verif Require Import Base.Bytes Model.StatusHeap Model.StatusCurrent Proofs.StatusHeapProofs.
From Verif Require Generated.C15Sentinels Generated.C15Sites.
Import ListNotations.
Local Open Scope N_scope.

(* Every in-place mutation of a *Status in the repository (SetCode / SetMsg / SetCause / Clear /
   DecodeQuery / UnmarshalJSON / assignment through the pointer; all packages except examples
   and tests) has a receiver that the same expression allocated (constructor or Copy()), or is
   an allow-listed `m.Status(true)` of a protocol's Unpack on a message that is reset
   (status := nil) before every read. *)
Theorem C15_all_mutators_fresh :
  Forall (fun s => site_ok resets_ok s = true) Generated.C15Sites.sites.
Proof. apply forallb_Forall. vm_compute. reflexivity. Qed.
Print Assumptions C15_all_mutators_fresh.

(* Every public way to obtain a status of one's own - exported functions returning *Status in
   the repository and in goutil/status, Status.Copy, the exported function-typed variables
   NewStatus / NewStatusWithStack / NewStatusFromQuery - returns, at every return statement, an
   object it allocated (or nil); none hands out a predefined or otherwise shared object. *)
Theorem C15_constructors_fresh :
  Forall (fun c => ctor_ok c = true) Generated.C15Sites.constructors
  /\ Generated.C15Sites.constructors <> [].
Proof. split; [apply forallb_Forall; vm_compute; reflexivity | discriminate]. Qed.
Print Assumptions C15_constructors_fresh.

(* The reset chain peer.getContext -> handlerCtx.clean -> input.Reset -> m.status = nil, and
   PutMessage -> Reset, is present. *)
Theorem C15_pooled_messages_reset_status : resets_ok = true.
Proof. vm_compute. reflexivity. Qed.
Print Assumptions C15_pooled_messages_reset_status.

(* Neither plugin/proxy nor plugin/binder stores through a status it did not allocate: the
   model configuration computed from the current source is the safe one. *)
Theorem C15_current_config_safe :
  cfg_safe current_cfg = true /\ reset_clears current_cfg = true.
Proof. vm_compute. split; reflexivity. Qed.
Print Assumptions C15_current_config_safe.

(* The sentinel table: every initializer was evaluated, names are unique, the framework's own
   statuses carry the CodeText of their code, and every predefined status the model's
   operations name exists. *)
Theorem C15_sentinel_table_wellformed :
  Forall (fun e => entry_evaluated e = true /\ entry_text_ok e = true) Generated.C15Sentinels.sentinels
  /\ names_unique Generated.C15Sentinels.sentinels = true
  /\ Forall (fun n => name_resolves n = true) model_names.
Proof.
  split; [|split].
  - apply Forall_forall. intros e He.
    assert (H : forallb (fun e => entry_evaluated e && entry_text_ok e) Generated.C15Sentinels.sentinels = true)
      by (vm_compute; reflexivity).
    rewrite forallb_forall in H. specialize (H e He). now apply andb_prop in H.
  - vm_compute. reflexivity.
  - apply forallb_Forall. vm_compute. reflexivity.
Qed.
Print Assumptions C15_sentinel_table_wellformed.

(* Hence, for the tree as it is now: no history changes a predefined status, the triple of
   every failing operation is history independent, and a status once handed out never changes. *)
Theorem C15_current_tree_sentinels_immutable : forall h n,
  deref (run current_cfg corr_table h) (lookup corr_table n) = deref (init corr_table) (lookup corr_table n).
Proof. intros h n. apply sentinels_by_name_lemma. vm_compute. reflexivity. Qed.
Print Assumptions C15_current_tree_sentinels_immutable.

Theorem C15_current_tree_failures_history_independent : forall h e,
  is_inspect e = false ->
  snd (step current_cfg corr_table (run current_cfg corr_table h) e)
  = snd (step current_cfg corr_table (init corr_table) e).
Proof. intros h e. apply failure_history_independent_lemma. vm_compute. reflexivity. Qed.
Print Assumptions C15_current_tree_failures_history_independent.

Theorem C15_current_tree_held_stable : forall h1 h2 i a,
  nth_error (held (run current_cfg corr_table h1)) i = Some a ->
  nth_error (held (run current_cfg corr_table (h1 ++ h2))) i = Some a
  /\ get (hp (run current_cfg corr_table (h1 ++ h2))) a = get (hp (run current_cfg corr_table h1)) a.
Proof. intros h1 h2 i a. apply held_stable_lemma; vm_compute; reflexivity. Qed.
Print Assumptions C15_current_tree_held_stable.

(* What a closed session reports, computed from the generated table through the model. *)
Example C15_closed_session_reports_102 :
  snd (step current_cfg corr_table (init corr_table) (EReturn (root "statConnClosed")))
  = Some (mkStatus 102 (str "Connection Closed") (Some [])).
Proof. vm_compute. reflexivity. Qed.

(* The site check is not vacuous: the shapes of the defects found, and of the hand mutations
   tried, are rejected. *)
Example C15_site_check_rejects :
  let bad := [ ("plugin/proxy/proxy.go", "proxy.push", "SetCode", "stat", "callresult");
               ("plugin/binder/binder.go", "Param.fixStatus", "SetMsg", "stat", "param");
               ("context.go", "handlerCtx.bindCall", "SetCause", "statNotFound", "sentinel");
               ("socket/message.go", "message.Reset", "Clear", "m.status", "field");
               ("proto/jsonproto/jsonproto.go", "jsonproto.Pack", "SetMsg", "m.Status(true)", "msgstatus");
               ("x.go", "f", "SetCode", "x", "unresolved") ]%string in
  forallb (fun s => negb (site_ok true s)) bad = true
  /\ site_ok false ("socket/protocol.go", "rawProto.readHeader", "DecodeQuery", "m.Status(true)", "msgstatus")%string = false.
Proof. vm_compute. split; reflexivity. Qed.
