(* C08 - Graceful close loses no reply and waits for running handlers.
   Statements only.  A handler context is "entered" when the read loop has counted it in the
   handler wait group (graceCtxWaitGroup.Add, model step R4); [k_cl h = false] records that
   at that moment Close had not begun (status still ok).  [passive] = the session went
   passive-closing/closed, which only the read loop's disconnect path does after a read
   error, an undecodable frame or a lost connection. *)
From Coq Require Import Strings.String Strings.Byte.
From Coq Require Import List Arith NArith Bool Lia.
From Verif Require Import Model.Lifecycle Model.CallLife Model.Graceful Model.ReplyPath
  Proofs.LifecycleProofs Proofs.PeerProofs Proofs.C07Lemmas Proofs.CallLifeProofs Proofs.GracefulProofs
  Proofs.NoOrphanProofs Proofs.ReplyPathProofs.
Import ListNotations.

(* The reply write of every CALL handler entered before Close began has succeeded by the
   time the handler is through - unless the connection was lost (the session is passive) or
   the write itself failed for a reason outside this side's closing (WrFailedOther: context
   expired, broken pipe).  It is never refused, and never hits a socket closed by Close. *)
Theorem C08_entered_before_close_gets_reply : forall s j h,
  reach_sess s -> nth_error (hctxs s) j = Some h -> k_kind h = KCall -> k_cl h = false ->
  (k_pc h = K4 \/ k_pc h = KDone) ->
  k_res h = WrWritten \/ k_res h = WrFailedOther \/ passive (st s) = true.
Proof. exact entered_before_close_lemma. Qed.
Print Assumptions C08_entered_before_close_gets_reply.

(* ... because at its status check the write rule admits it: the status is ok or
   active-closing whenever such a handler reaches its reply write on a non-passive session *)
Theorem C08_entered_handler_admitted : forall s j h,
  reach_sess s -> nth_error (hctxs s) j = Some h -> k_kind h = KCall -> k_cl h = false ->
  k_pc h = K2 -> passive (st s) = false -> admits (st s) true = true.
Proof. exact entered_handler_admitted. Qed.
Print Assumptions C08_entered_handler_admitted.

(* closeLocked gets past its wait for the handler contexts - and so Close() returns, the
   socket is closed, the status is active-closed - only after every context entered before
   Close began is finished: handler returned, reply written, context released. *)
Theorem C08_close_returns_after_handlers : forall s j h,
  reach_sess s -> past_ctx_wait s -> nth_error (hctxs s) j = Some h -> k_cl h = false -> k_pc h = KDone.
Proof. exact close_returns_after_handlers_lemma. Qed.
Print Assumptions C08_close_returns_after_handlers.

(* the wait groups count exactly the live contexts and the open calls (what Close waits on) *)
Theorem C08_wait_groups_exact : forall s,
  reach_sess s ->
  ctxWG s = cnt ctx_active (hctxs s) + cnt h_active (calls s) /\ callWG s = cnt undone (calls s).
Proof. intros s H. exact (proj1 (proj2 (reach_c8 s H))). Qed.
Print Assumptions C08_wait_groups_exact.

(* A call of this side whose request went out and that has completed: it ended with
   connection-closed only if the connection was lost (the session is passive, or its read loop
   has left the loop); it ended OK only with a reply bound to it by the read loop. *)
Theorem C08_own_calls_get_reply_or_conn_error : forall s i c,
  reach_sess s -> nth_error (calls s) i = Some c -> c_dones c = 1 -> c_wrote c = true ->
  (c_stat c = StConnClosed -> lost_evidence s) /\ (c_stat c = StOk -> c_rep c = true).
Proof. exact own_calls_lemma. Qed.
Print Assumptions C08_own_calls_get_reply_or_conn_error.

(* peer.Close: Close() is under way on every session that is still healthy *)
Theorem C08_peer_close_joins_all : forall es p p' n s,
  prun peer0 es = Some p -> pstep p PPeerClose = Some p' ->
  nth_error (sessions p') n = Some s -> st s = Ok -> cl s = C0.
Proof. exact peer_close_joins_all_lemma. Qed.
Print Assumptions C08_peer_close_joins_all.

(* ---- every way a handler entered before Close produces its reply (Model/ReplyPath.v) ---- *)

(* The status check of session.write admits a reply at ANY point of the life of a CALL context
   entered before Close began - not only at the first write after the handler returned: also
   at the write made by the deferred recover() after a panic and at the substitute
   internal-server-error write after a first write that failed. *)
Theorem C08_live_entered_handler_admitted : forall s j h,
  reach_sess s -> nth_error (hctxs s) j = Some h -> k_kind h = KCall -> k_cl h = false ->
  k_pc h <> KDone -> passive (st s) = false -> admits (st s) true = true.
Proof. exact live_entered_admitted. Qed.
Print Assumptions C08_live_entered_handler_admitted.

(* handleCall's reply procedure, for every way [r] it arrives at its reply (result, error
   status, panic before the first write, a result that Pack refuses - unencodable or over the
   size limit -, panic after the write): the first write is made in a reachable state s1 and the
   substitute write, if any, in a reachable state s2, the context being still counted and
   entered before Close in both, the session not passively closing.  Then, whatever Close has
   done in between, exactly the reply the call is owed reaches the connection when the
   connection takes the writes (w1 = w2 = WOk); no other frame is ever sent for it unless the
   first write failed on the connection itself; and never more than one. *)
Theorem C08_every_reply_path_delivers : forall r s1 s2 j h1 h2 w1 w2,
  reach_sess s1 -> reach_sess s2 ->
  nth_error (hctxs s1) j = Some h1 -> nth_error (hctxs s2) j = Some h2 ->
  k_kind h1 = KCall -> k_kind h2 = KCall -> k_cl h1 = false -> k_cl h2 = false ->
  k_pc h1 <> KDone -> k_pc h2 <> KDone ->
  passive (st s1) = false -> passive (st s2) = false ->
  (w1 = WOk -> w2 = WOk -> handle_call_reply the_code r (st s1) (st s2) w1 w2 = [genuine r]) /\
  (w1 <> WOther -> forall f, In f (handle_call_reply the_code r (st s1) (st s2) w1 w2) -> f = genuine r) /\
  length (handle_call_reply the_code r (st s1) (st s2) w1 w2) <= 1.
Proof. exact every_reply_path_delivers_lemma. Qed.
Print Assumptions C08_every_reply_path_delivers.

(* The variant that sends the substitute reply only when Health() holds loses the reply of a
   handler entered before Close whose result Pack refuses: reachable states s1 (status ok,
   handler running) and s2 (active-closing, closeLocked blocked in its wait for this very
   handler) in which the variant sends nothing - with the first write before Close and with
   both writes after - while the code as it is sends the internal-server-error reply. *)
Theorem C08_health_gated_substitute_reply_refuted :
  exists s1 s2 h1 h2,
    reach_sess s1 /\ reach_sess s2 /\
    nth_error (hctxs s1) 0 = Some h1 /\ nth_error (hctxs s2) 0 = Some h2 /\
    k_kind h1 = KCall /\ k_kind h2 = KCall /\ k_cl h1 = false /\ k_cl h2 = false /\
    k_pc h1 = K1 /\ k_pc h2 = K1 /\ st s1 = Ok /\ st s2 = ActiveClosing /\ cl s2 = C3 /\
    handle_call_reply (mkRvar true) HrUnpack (st s1) (st s2) WOk WOk = [] /\
    handle_call_reply (mkRvar true) HrUnpack (st s2) (st s2) WOk WOk = [] /\
    handle_call_reply the_code HrUnpack (st s1) (st s2) WOk WOk = [F500] /\
    handle_call_reply the_code HrUnpack (st s2) (st s2) WOk WOk = [F500].
Proof. exact health_gate_refuted_lemma. Qed.
Print Assumptions C08_health_gated_substitute_reply_refuted.

(* Non-vacuity: a handler entered before Close, Close blocked on it, then its reply written
   in active-closing and Close completing. *)
Example C08_example :
  exists s h, srun live_session
    [EFrame FrCall; EReader true; EReader true; EReader true;      (* counted, reader back *)
     EHandler 0 false WOk;                                          (* user handler starts *)
     EClose; ECloser; ECloser; ECloser;                             (* CAS, index, notify; blocked at the wait *)
     EHandler 0 false WOk; EHandler 0 false WOk; EHandler 0 false WOk; EHandler 0 false WOk;
     ECloser; ECloser; ECloser; ECloser; ECloser] = Some s /\
    nth_error (hctxs s) 0 = Some h /\ k_cl h = false /\ k_res h = WrWritten /\ k_est h = Ok /\
    st s = ActiveClosed /\ cl s = CIdle /\ closer_step (set_cl s C3) <> None.
Proof. eexists; eexists. split; [vm_compute; reflexivity|]. vm_compute. repeat split; auto; discriminate. Qed.
