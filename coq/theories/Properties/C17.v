(* C17 - Secure plugin: bodies are encrypted on the wire and restored end to end.
   Statements only; every proof is [exact <lemma>].
   AES (enc/dec, hex included), the key version (md5), the codec of user values (mar/unm) and the
   codec's encoding of the envelope (wrap/unwrap) are variables; what a theorem assumes of them
   is a visible premise of that theorem.  Everything is for ALL values, ALL marker values on the
   request (X-Secure, X-Accept-Secure: absent or any byte string) and on the reply (the marker
   the handler leaves), ALL keys. *)
From Coq Require Import Strings.String Strings.Byte.
From Coq Require Import List Arith NArith ZArith Bool Lia.
From Verif Require Import Base.Bytes Model.Secure Proofs.SecureProofs.
Import ListNotations.

Section Libraries.
  Variable key : Type.
  Variable V : Type.
  Variable zarg zres : V.
  Variable mar : V -> option bytes.
  Variable unm : bytes -> option V.
  Variable enc : key -> bytes -> bytes.
  Variable dec : key -> bytes -> option bytes.
  Variable keyver : key -> bytes.
  Variable wrap : bytes -> bytes -> option bytes.
  Variable unwrap : bytes -> option (bytes * bytes).
  Notation call_flow := (call_flow key V zarg zres mar unm enc dec keyver wrap unwrap).
  Notation push_flow := (push_flow key V zarg mar unm enc dec keyver wrap unwrap).
  Notation reply_enveloped := (reply_enveloped key V zarg mar unm enc dec keyver wrap unwrap).

  Hypothesis dec_enc : forall k x, dec k (enc k x) = Some x.
  Hypothesis unm_mar : forall x b, mar x = Some b -> unm b = Some x.
  Hypothesis unwrap_wrap : forall v c w, wrap v c = Some w -> unwrap w = Some (v, c) /\ w <> [].
  Hypothesis keyver_nonempty : forall k, keyver k <> [].

  (* Same key on both sides, a codec able to carry the envelope: for every combination of
     markers the handler receives the original argument and the caller the handler's result. *)
  Theorem C17_secure_end_to_end : forall k q h ba br,
    (forall ver ct, wrap ver ct <> None) ->
    mar (q_arg V q) = Some ba -> ba <> [] ->
    h_ok V h = true -> mar (h_fun V h (q_arg V q)) = Some br -> br <> [] ->
    let o := call_flow k k q h in
    c_handler_arg V o = Some (q_arg V q) /\ c_result V o = Some (h_fun V h (q_arg V q)) /\
    c_status V o = SOk.
  Proof. exact (end_to_end key V zarg zres mar unm enc dec keyver wrap unwrap dec_enc unm_mar unwrap_wrap keyver_nonempty). Qed.

  Theorem C17_secure_push_end_to_end : forall k q ba,
    (forall ver ct, wrap ver ct <> None) -> mar (q_arg V q) = Some ba -> ba <> [] ->
    p_handler_arg V (push_flow k k q) = Some (q_arg V q).
  Proof. exact (push_end_to_end key V zarg mar unm enc dec keyver wrap unwrap dec_enc unm_mar unwrap_wrap keyver_nonempty). Qed.

  (* "Not in clear", structurally: the body of a request marked secure, as written, is
     wrap (key version) (enc key (encoded argument)) - a function of the cipher text and of
     nothing else that depends on the argument; an unmarked one is the plain encoding. *)
  Theorem C17_wire_factors_through_ciphertext : forall kc ks q h,
    (is_lit (q_secure V q) "true" = true ->
       forall b, mar (q_arg V q) = Some b ->
       c_req_secure V (call_flow kc ks q h) = Some (str "true") /\
       c_req_wire V (call_flow kc ks q h) = wrap (keyver kc) (enc kc b)) /\
    (is_lit (q_secure V q) "true" = false ->
       c_req_secure V (call_flow kc ks q h) = None /\
       c_req_wire V (call_flow kc ks q h) = mar (q_arg V q)).
  Proof. exact (request_written key V zarg zres mar unm enc dec keyver wrap unwrap). Qed.

  Theorem C17_reply_wire_factors_through_ciphertext : forall kc ks q h,
    reply_enveloped kc ks q h = true ->
    exists a br, c_handler_arg V (call_flow kc ks q h) = Some a /\ mar (h_fun V h a) = Some br /\
      c_rep_secure V (call_flow kc ks q h) = Some (str "true") /\
      c_rep_wire V (call_flow kc ks q h) = wrap (keyver ks) (enc ks br).
  Proof. exact (reply_written key V zarg zres mar unm enc dec keyver wrap unwrap). Qed.

  (* The exact condition the code implements: once the handler has run with argument [a], its
     reply travels as an envelope iff the handler succeeded, its result can be encoded, and
       the handler left X-Secure: true on the reply,
       or the request was encrypted and did not carry X-Accept-Secure: false,
       or the request was in clear and carried X-Accept-Secure: true.                        *)
  Theorem C17_reply_encrypted_iff : forall kc ks q h a,
    c_handler_arg V (call_flow kc ks q h) = Some a ->
    reply_enveloped kc ks q h =
      h_ok V h && (match mar (h_fun V h a) with Some _ => true | None => false end) &&
      (is_lit (h_secure V h) "true" ||
       (if is_lit (q_secure V q) "true" then negb (is_lit (q_accept V q) "false")
        else is_lit (q_accept V q) "true")).
  Proof. exact (reply_enveloped_exact key V zarg zres mar unm enc dec keyver wrap unwrap). Qed.

  (* Different key versions: an encrypted request never reaches the handler, nothing is
     delivered, the status is not OK; an encrypted push never reaches the handler; an enveloped
     reply made with another key is not delivered and the caller's status is not OK. *)
  Theorem C17_wrong_key_no_handler : forall kc ks q h,
    keyver kc <> keyver ks -> is_lit (q_secure V q) "true" = true ->
    let o := call_flow kc ks q h in
    c_handler_arg V o = None /\ c_result V o = None /\ c_status V o <> SOk.
  Proof. exact (wrong_key_request key V zarg zres mar unm enc dec keyver wrap unwrap unwrap_wrap keyver_nonempty). Qed.

  Theorem C17_wrong_key_no_push_handler : forall kc ks q,
    keyver kc <> keyver ks -> is_lit (q_secure V q) "true" = true ->
    p_handler_arg V (push_flow kc ks q) = None.
  Proof. exact (wrong_key_push key V zarg mar unm enc dec keyver wrap unwrap unwrap_wrap keyver_nonempty). Qed.

  Theorem C17_wrong_key_result_not_delivered : forall kc ks q h,
    keyver kc <> keyver ks -> reply_enveloped kc ks q h = true ->
    let o := call_flow kc ks q h in c_result V o = None /\ c_status V o <> SOk.
  Proof. exact (wrong_key_reply key V zarg zres mar unm enc dec keyver wrap unwrap unwrap_wrap keyver_nonempty). Qed.

  (* No "true" marker anywhere: bodies on the wire, handler argument and caller result are
     exactly those of the same call without the plugin - for any pair of keys. *)
  Theorem C17_unmarked_unchanged : forall kc ks q h,
    is_lit (q_secure V q) "true" = false -> is_lit (q_accept V q) "true" = false ->
    is_lit (h_secure V h) "true" = false ->
    let o := call_flow kc ks q h in
    (c_req_wire V o, c_handler_arg V o, c_rep_wire V o, c_result V o) = plain_call V zarg zres mar unm q h /\
    c_req_secure V o = None.
  Proof. exact (unmarked_is_plain key V zarg zres mar unm enc dec keyver wrap unwrap). Qed.

  (* [serve_call] - the server's half on a request frame with arbitrary metadata and body, which
     the raw-client correspondence family runs - is the server's half of [call_flow]. *)
  Theorem C17_server_half : forall kc ks q h xs1 ob1 w1,
    pre_write key V mar enc keyver kc true (q_secure V q) false (q_arg V q) = WOk V xs1 ob1 ->
    wire_body V mar wrap ob1 = Some w1 ->
    let o := call_flow kc ks q h in
    let s := serve_call key V zarg mar unm enc dec keyver wrap unwrap ks xs1 (q_accept V q) w1 h in
    c_handler_arg V o = s_handler_arg V s /\ c_rep_secure V o = s_rep_secure V s /\
    c_rep_wire V o = s_rep_wire V s /\
    (s_status V s <> SOk -> c_status V o = s_status V s).
  Proof. exact (call_flow_server_half key V zarg zres mar unm enc dec keyver wrap unwrap). Qed.

  (* What the pre-write hook tests is ctx.Status() == nil; what the router stores there: for every
     kind of CALL handler (struct controller, function, unknown-call) only a status that is not OK.
     So a handler returning nil and one returning a non-nil status with code OK are the same to
     the hook, and C17_reply_encrypted_iff's [h_ok] is exactly "did not return an error". *)
  Theorem C17_handler_status_rule : forall h : handler V,
    h_ok V h = true <-> h_ret V h <> RetErr.
  Proof. exact (h_ok_iff V). Qed.

  (* Several requests on one session: each is served from a COPY of the session swap
     (context.go reInit), so the result is the per-message result - the plugin's entries for one
     message (accept entry, saved body binder) never influence a later message. *)
  Theorem C17_message_flags_do_not_leak : forall ks ms,
    serve_seq key V zarg mar unm enc dec keyver wrap unwrap false ks (mkSwap false false) ms =
    map (fun m => let '(xs, xa, w, h) := m in
                  serve_call key V zarg mar unm enc dec keyver wrap unwrap ks xs xa w h) ms.
  Proof. exact (serve_seq_fresh_session key V zarg mar unm enc dec keyver wrap unwrap). Qed.

  (* Application data in the session swap - under ANY string keys, "0" and "" included - is invisible
     to the plugin, whose two keys have a type of their own: the message is served as on a session
     with an empty swap. *)
  Theorem C17_app_swap_data_invisible : forall ks m xs xa w h,
    Forall (fun k => match k with AppKey _ => True | _ => False end) m ->
    fst (serve_call_sw key V zarg mar unm enc dec keyver wrap unwrap ks (plugin_view true m) xs xa w h) =
    serve_call key V zarg mar unm enc dec keyver wrap unwrap ks xs xa w h.
  Proof. exact (app_swap_invisible key V zarg mar unm enc dec keyver wrap unwrap). Qed.
End Libraries.

Print Assumptions C17_secure_end_to_end.
Print Assumptions C17_secure_push_end_to_end.
Print Assumptions C17_wire_factors_through_ciphertext.
Print Assumptions C17_reply_wire_factors_through_ciphertext.
Print Assumptions C17_reply_encrypted_iff.
Print Assumptions C17_wrong_key_no_handler.
Print Assumptions C17_wrong_key_no_push_handler.
Print Assumptions C17_wrong_key_result_not_delivered.
Print Assumptions C17_unmarked_unchanged.
Print Assumptions C17_server_half.
Print Assumptions C17_handler_status_rule.
Print Assumptions C17_message_flags_do_not_leak.
Print Assumptions C17_app_swap_data_invisible.

(* The property's sentence "a reply is encrypted whenever the request was encrypted", read
   without the caller's opt-out, does not hold of the code: a request with X-Secure: true and
   X-Accept-Secure: false is decrypted and handled, and its result is written in clear
   (finding secure-request-accept-false-reply-clear; documented behaviour of
   WithAcceptSecureMeta(false), see notes/C17.md).  The witness also shows that the premises of
   the theorems above are satisfiable (a toy cipher, a toy envelope). *)
Theorem C17_reply_encrypted_whenever_request_encrypted_refuted :
  exists (q : request bytes) (h : handler bytes),
    is_lit (q_secure bytes q) "true" = true /\ h_ok bytes h = true /\
    c_req_wire bytes (toy_call q h) = Some (str "varg") /\
    c_handler_arg bytes (toy_call q h) = Some (str "arg") /\
    toy_enveloped q h = false /\
    c_rep_wire bytes (toy_call q h) = Some (str "res").
Proof. exact encrypted_request_clear_reply. Qed.
Print Assumptions C17_reply_encrypted_whenever_request_encrypted_refuted.

(* the variant in which a message's context uses the session's swap map itself (no copy): an
   encrypted call followed by an unmarked call - the second reply comes back enveloped *)
Theorem C17_shared_swap_variant_refuted :
  let h := mkHandler bytes (fun _ => str "res") KStruct RetNil None in
  let ms := [(Some (str "true"), None, str "varg", h); (None, None, str "arg", h)] in
  map (s_rep_wire bytes) (toy_seq false ms) = [Some (str "vres"); Some (str "res")] /\
  map (s_rep_wire bytes) (toy_seq true ms) = [Some (str "vres"); Some (str "vres")] /\
  map (s_rep_secure bytes) (toy_seq true ms) = [Some (str "true"); Some (str "true")].
Proof. exact shared_swap_leaks. Qed.
Print Assumptions C17_shared_swap_variant_refuted.

(* the variant whose keys are plain strings: application data under "0" makes an unmarked call's
   reply come back enveloped *)
Theorem C17_untyped_swap_keys_variant_refuted :
  let h := mkHandler bytes (fun _ => str "res") KStruct RetNil None in
  let serve typed := fst (serve_call_sw unit bytes [] (fun v : bytes => Some v) (fun b : bytes => Some b)
            (fun (_ : unit) (x : bytes) => x) (fun (_ : unit) (x : bytes) => Some x)
            (fun _ : unit => str "v") (fun v c : bytes => Some (v ++ c)) toy_unwrap tt
            (plugin_view typed [AppKey (str "0")]) None None (str "arg") h) in
  s_rep_wire bytes (serve true) = Some (str "res") /\ s_rep_secure bytes (serve true) = None /\
  s_rep_wire bytes (serve false) = Some (str "vres") /\ s_rep_secure bytes (serve false) = Some (str "true").
Proof. exact untyped_keys_collide. Qed.
Print Assumptions C17_untyped_swap_keys_variant_refuted.

(* non-vacuity of the positive statements on the same toy instance *)
Example C17_example_roundtrip :
  let q := mkReq bytes (Some (str "true")) None (str "arg") in
  let h := mkHandler bytes (fun a => a ++ str "!") KFunc RetOkObj None in
  c_handler_arg bytes (toy_call q h) = Some (str "arg") /\
  c_result bytes (toy_call q h) = Some (str "arg!") /\
  c_req_wire bytes (toy_call q h) = Some (str "varg") /\
  c_rep_wire bytes (toy_call q h) = Some (str "varg!") /\ toy_enveloped q h = true.
Proof. vm_compute. auto 10. Qed.
