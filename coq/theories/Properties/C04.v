(* C04 - The caller sees OK iff the handler succeeded and the reply was decoded.
   Statements only.  [call_view enc dec fixed P f c rn] (Model/StatusFlow.v) is what
   CallCmd.Status() / the caller's result show for a call whose serving side is the frame
   class [f] of Model/Dispatch.v (handler outcome, framework failure, plugin verdicts, write
   results ... all universally quantified), sent over protocol [P], with caller-side plugin
   verdicts and reply-decoding outcome [c].  [enc]/[dec] are the protocol's byte codec of the
   status field, taken as given; each theorem that needs it carries the round-trip hypothesis
   "dec (enc s) = s for statuses within the protocol's limits [lim]" (C05's subject).
   [fixed] = handleReply uses the decode error recorded by the read loop (fix 3aaf53f). *)
From Coq Require Import Strings.String Strings.Byte.
From Coq Require Import List Arith NArith ZArith Bool Lia.
From Verif Require Import Base.Bytes Model.Dispatch Model.StatusFlow
                          Proofs.DispatchProofs Proofs.StatusFlowProofs.
Import ListNotations.
Local Open Scope Z_scope.

(* ---- caller_ok_iff, for every protocol with a status field ---- *)
Theorem C04_caller_ok_iff :
  forall (enc : status -> bytes) (dec : bytes -> status) (lim : status -> Prop),
  (forall s, lim s -> dec (enc s) = s) ->
  forall P f c rn,
  p_has_status P = true -> is_call f ->
  (forall s, server_side P f = SReply (Some s) -> lim s) ->
  ((exists d, call_view enc dec true P f c rn = Sees None d) <->
   (no_pre_write_veto c /\ server_side P f = SReply None /\ caller_passes c /\
    (rn = true -> c_decode c = None) /\ (forall s, hook (c_post_body c) <> HookVeto s))).
Proof. exact caller_ok_iff_lemma. Qed.
Print Assumptions C04_caller_ok_iff.

(* ... and the server answers OK only when the handler ran to completion and returned OK *)
Theorem C04_server_ok_means_handler_succeeded : forall P f,
  is_call f -> server_side P f = SReply None ->
  handler_succeeded f /\ exists k, In (Invoke k) (dispatch_now (on_proto P f)).
Proof. exact server_ok_handler_ok. Qed.
Print Assumptions C04_server_ok_means_handler_succeeded.

(* ---- caller_status_exact: code, msg and cause as the server produced them ---- *)
Theorem C04_caller_status_exact :
  forall (enc : status -> bytes) (dec : bytes -> status) (lim : status -> Prop),
  (forall s, lim s -> dec (enc s) = s) ->
  forall fixed P f c rn s,
  p_has_status P = true -> is_call f -> server_side P f = SReply (Some s) -> lim s ->
  no_pre_write_veto c -> caller_passes c ->
  call_view enc dec fixed P f c rn = Sees (Some s) false.
Proof. exact caller_status_exact_lemma. Qed.
Print Assumptions C04_caller_status_exact.

(* what the server's status is, rule by rule, is C03's reply_status_rule; composed: *)
Theorem C04_unknown_route_seen_as_404 :
  forall (enc : status -> bytes) (dec : bytes -> status) (lim : status -> Prop),
  (forall s, lim s -> dec (enc s) = s) ->
  forall fixed P f c rn e,
  lim st_not_found ->
  p_has_status P = true -> p_err_packable P = true ->
  normal_env f -> f_read f = RBody e -> passes (f_verdict f SPostReadCallHeader) ->
  f_sm_empty f = false -> f_route f = RNone ->
  no_pre_write_veto c -> caller_passes c ->
  call_view enc dec fixed P f c rn = Sees (Some st_not_found) false.
Proof. exact unknown_route_seen_as_404_lemma. Qed.
Print Assumptions C04_unknown_route_seen_as_404.

Theorem C04_handler_status_seen_exactly :
  forall (enc : status -> bytes) (dec : bytes -> status) (lim : status -> Prop),
  (forall s, lim s -> dec (enc s) = s) ->
  forall fixed P f c rn k hs,
  p_has_status P = true -> p_err_packable P = true ->
  normal_env f -> reaches_post_body f k -> passes (f_verdict f SPostReadCallBody) ->
  f_handler f = HReturn (Some hs) -> st_code hs <> 0 -> lim hs ->
  no_pre_write_veto c -> caller_passes c ->
  call_view enc dec fixed P f c rn = Sees (Some hs) false.
Proof. exact handler_status_seen_exactly_lemma. Qed.
Print Assumptions C04_handler_status_seen_exactly.

Theorem C04_handler_panic_seen_as_500 :
  forall (enc : status -> bytes) (dec : bytes -> status) (lim : status -> Prop),
  (forall s, lim s -> dec (enc s) = s) ->
  forall fixed P f c rn k pc,
  p_has_status P = true -> p_err_packable P = true ->
  normal_env f -> reaches_post_body f k -> passes (f_verdict f SPostReadCallBody) ->
  f_handler f = HPanic pc -> lim (st_internal pc) ->
  no_pre_write_veto c -> caller_passes c ->
  call_view enc dec fixed P f c rn = Sees (Some (st_internal pc)) false.
Proof. exact handler_panic_seen_as_500_lemma. Qed.
Print Assumptions C04_handler_panic_seen_as_500.

(* the session ended instead of a reply: 102 Connection Closed *)
Theorem C04_disconnected_seen_as_102 :
  forall (enc : status -> bytes) (dec : bytes -> status) fixed P f c rn,
  server_side P f = SDisconnected -> no_pre_write_veto c ->
  call_view enc dec fixed P f c rn = Sees (Some st_conn_closed) false.
Proof. exact caller_disconnected_lemma. Qed.
Print Assumptions C04_disconnected_seen_as_102.

(* vetoes on the caller's own side, exactly *)
Theorem C04_pre_write_veto_seen_exactly :
  forall (enc : status -> bytes) (dec : bytes -> status) fixed P f c rn s,
  c_pre_write c = Some s -> st_code s <> 0 ->
  call_view enc dec fixed P f c rn = Sees (Some s) false.
Proof. exact caller_pre_write_veto_lemma. Qed.
Print Assumptions C04_pre_write_veto_seen_exactly.

Theorem C04_reply_header_veto_seen_exactly : forall fixed c fs hb s,
  c_post_header c = VStat s -> st_code s <> 0 ->
  caller_side fixed c fs hb = Sees (Some s) false.
Proof. exact caller_reply_header_veto_lemma. Qed.
Print Assumptions C04_reply_header_veto_seen_exactly.

Theorem C04_reply_pre_body_veto_seen_exactly : forall fixed c fs hb s,
  hook (c_post_header c) = HookOk -> c_pre_body c = VStat s -> st_code s <> 0 ->
  caller_side fixed c fs hb = Sees (Some s) false.
Proof. exact caller_reply_pre_body_veto_lemma. Qed.
Print Assumptions C04_reply_pre_body_veto_seen_exactly.

(* ---- the reply body cannot be decoded into the caller's result ---- *)
Theorem C04_undecodable_reply_seen_as_400 : forall c k,
  caller_passes c -> c_decode c = Some k ->
  caller_side true c None true = Sees (Some (st_bad_message CLib)) false.
Proof. exact caller_decode_error_lemma. Qed.
Print Assumptions C04_undecodable_reply_seen_as_400.

Definition quiet : stage -> verdict := fun _ => VNil.
Definition plain_caller (d : option bool) : caller := mkCaller None VNil VNil VNil d.
Definition ok_call : frame :=
  mkFrame 1 x01 false RKnown (RBody None) quiet (HReturn None) WOk WOk WOk false false true.
Definition failing_call (s : status) : frame :=
  mkFrame 1 x01 false RKnown (RBody None) quiet (HReturn (Some s)) WOk WOk WOk false false true.
Definition biz : status := mkStatus 1000 (str "biz") (CText (str "why")).

(* before fix 3aaf53f: handler succeeded, the reply could NOT be decoded (codec known),
   and the caller saw OK with nothing decoded *)
Theorem C04_prefix_decode_error_refuted :
  forall (enc : status -> bytes) (dec : bytes -> status),
  exists P f c, p_has_status P = true /\ is_call f /\ c_decode c = Some true /\
    call_view enc dec false P f c true = Sees None false /\
    call_view enc dec true P f c true = Sees (Some (st_bad_message CLib)) false.
Proof.
  intros. exists proto_raw, ok_call, (plain_caller (Some true)).
  repeat split; reflexivity.
Qed.
Print Assumptions C04_prefix_decode_error_refuted.

(* ---- protocols without a status field (finding ws-subproto-no-status) ---- *)
(* whatever the server answered, the caller sees OK *)
Theorem C04_no_status_field_always_ok :
  forall (enc : status -> bytes) (dec : bytes -> status) fixed P f c rn st,
  p_has_status P = false -> server_side P f = SReply st ->
  no_pre_write_veto c -> caller_passes c -> (forall s, hook (c_post_body c) <> HookVeto s) ->
  (st_ok st = true -> rn = true -> c_decode c = None) ->
  exists d, call_view enc dec fixed P f c rn = Sees None d.
Proof. exact no_status_field_lemma. Qed.
Print Assumptions C04_no_status_field_always_ok.

Theorem C04_ws_status_refuted :
  forall (enc : status -> bytes) (dec : bytes -> status),
  server_side proto_ws_pb (failing_call biz) = SReply (Some biz) /\
  call_view enc dec true proto_ws_pb (failing_call biz) (plain_caller None) true = Sees None false /\
  call_view enc dec true proto_ws_json_prefix (failing_call biz) (plain_caller None) true
    = Sees None false.
Proof. intros. repeat split; reflexivity. Qed.
Print Assumptions C04_ws_status_refuted.

(* ---- thriftproto struct before fix 420cf8e: no error reply can be packed ---- *)
Theorem C04_thrift_struct_prefix_refuted :
  forall (enc : status -> bytes) (dec : bytes -> status),
  call_view enc dec true proto_thrift_struct_prefix (failing_call biz) (plain_caller None) true
    = Hangs /\
  (forall lim : status -> Prop, (forall s, lim s -> dec (enc s) = s) -> lim biz ->
   call_view enc dec true proto_thrift_struct (failing_call biz) (plain_caller None) true
     = Sees (Some biz) false).
Proof.
  intros. split; [reflexivity|]. intros lim Hrt Hl.
  apply (caller_status_exact_lemma enc dec lim Hrt); try reflexivity; auto.
  split; reflexivity.
Qed.
Print Assumptions C04_thrift_struct_prefix_refuted.

(* ---- per protocol ---- *)
Theorem C04_protocols_with_status_field :
  Forall (fun P => p_has_status P = true /\ p_err_packable P = true)
         [proto_raw; proto_json; proto_pb; proto_http; proto_thrift_binary; proto_thrift_struct;
          proto_ws_json] /\
  p_has_status proto_ws_pb = false.
Proof. split; [repeat constructor | reflexivity]. Qed.
Print Assumptions C04_protocols_with_status_field.

(* ---- non-vacuity ---- *)
Example C04_ok_call_seen_ok : forall (enc : status -> bytes) (dec : bytes -> status),
  call_view enc dec true proto_raw ok_call (plain_caller None) true = Sees None true.
Proof. reflexivity. Qed.

Example C04_ok_iff_rhs_inhabited :
  no_pre_write_veto (plain_caller None) /\ server_side proto_raw ok_call = SReply None /\
  caller_passes (plain_caller None).
Proof. repeat split. Qed.
