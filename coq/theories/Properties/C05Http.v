(* C05 - Wire protocols round-trip every message and never lose frame sync.
   Part 6: proto/httproto. Unpack - the repository's own HTTP reader (5-byte prefix, lines
   read byte by byte, split at the first colon, TrimSpace, Atoi, Content-Length body) - is
   modelled byte exactly; Pack hands an http.Header to net/http: the lines it writes are the
   section variable [hdr_write] over the concrete list of Set/Add calls, url.Parse is
   [url_parse] and URL.EscapedPath of the parsed service method [url_esc] (the request line
   carries the ESCAPED path - repaired code), the JSON form of a status [st_json]/[st_unjson], the filter registry by name
   [by_name]. Contract on the header lines (hdr_contract, checked on the implementation for
   every generated case by the correspondence): well-formed lines within the limit, each
   protocol header (X-Seq, X-Mtype, Content-Type, Content-Length, X-Content-Encoding) exactly
   once with the value Pack set. Supported field set: requests (req_ok m path): call / auth-call, a
   service method that net/url parses to the path [path] without query and host and whose
   escaped form - no blank, no line feed, hypotheses on the url library, exercised on the
   implementation by the correspondence - parses back to [path]; what arrives as service
   method is [path], i.e. the method itself whenever it is its own path (blanks, non-ASCII
   bytes included; before the repair the decoded path went out raw and was cut at a blank:
   http_method_unguarded_refuted, C05_http_raw_path_prefix_refuted), one of the five codecs with a content type of their own
   (http_codec_unguarded_refuted), no status; replies with status OK (resp_ok): reply /
   auth-reply, no service method (not carried); pipe: none or one gzip filter (pipe_ok).
   Metadata is mapped onto HTTP headers: what comes back is what the header lines yield
   (hs_meta of the fold) - exempted by the property. The reported size is a function of the
   frame's own text (line lengths without their CR LF, plus the body). A reply with a
   business-error status (the body is replaced by the status as JSON) is covered by the
   correspondence only. *)
From Coq Require Import Strings.String Strings.Byte.
From Coq Require Import List Arith NArith ZArith Bool Lia.
From Verif Require Import Base.Bytes Base.Outcome Model.Quote Model.Args Model.Numfmt
  Model.StatusQuery Model.Xfer Model.RawProto Model.FrameStream Model.JsonFrame Model.HttpFrame
  Proofs.XferProofs Proofs.RawProofs Proofs.JsonProofs Proofs.HttpProofs.
Import ListNotations.
Local Open Scope N_scope.

(* the repository's line reader on a CR LF terminated line *)
Theorem C05_http_read_line : forall lim x acc n rest,
  nolf x = true -> n + blen x + 2 <= lim ->
  read_line lim (x ++ CR :: LF :: rest) acc n = Ok (rev acc ++ x, rest).
Proof. exact read_line_crlf. Qed.
Print Assumptions C05_http_read_line.

(* the header loop on any well-formed block of lines equals the pure fold over the lines *)
Theorem C05_http_header_loop : forall by_name lim L fuel st rest,
  Forall (line_wf lim) L -> (length L < fuel)%nat -> 2 <= lim ->
  http_headers by_name fuel lim (ser_lines L ++ CR :: LF :: rest) st
  = (st' <- hfold by_name lim L st ;;
     if over lim (hs_size st' + 0) then Err else Ok (bump st' 0, rest)).
Proof. exact headers_parse. Qed.
Print Assumptions C05_http_header_loop.

(* strconv.Atoi on what strconv.FormatInt wrote (X-Seq, X-Mtype, Content-Length) *)
Theorem C05_http_atoi_roundtrip : forall z,
  (-4294967295 <= z <= 4294967295)%Z -> atoi (format_int 10 z) = Some z.
Proof. exact atoi_format. Qed.
Print Assumptions C05_http_atoi_roundtrip.

Theorem C05_http_request_roundtrip :
  forall hdr_write url_parse st_json st_unjson by_name url_esc lim p m path f size rest,
  req_ok url_parse url_esc m path -> pipe_ok by_name p ->
  http_pack hdr_write url_parse url_esc st_json lim p m = Ok (f, size) ->
  (forall body' ops0, http_pipe p (m_body m) [] = Some (body', ops0) ->
     let L := hdr_write (ops_request ops0 m [] (blen body')) in
     hdr_contract lim L (m_seq m) (m_mtype m)
                  (content_type (m_codec m) (str "text/plain;charset=utf-8")) (blen body') (map hf_name p)
     /\ blen body' <= 4294967295
     /\ hs_size (pfold by_name L (mkHs x00 0 [] 0 x01 [] 0)) <= lim) ->
  blen (first_req url_esc m) + 2 <= lim ->
  exists L body',
    f = first_req url_esc m ++ crlf ++ ser_lines L ++ crlf ++ body' /\
    let st := pfold by_name L (mkHs x00 0 [] 0 x01 [] 0) in
    http_unpack url_parse st_unjson by_name lim (f ++ rest)
    = Ok (mkMsg (m_seq m) (m_mtype m) path status_zero (hs_meta st) (m_codec m) (m_body m),
          pipe_ids_h p, final_size lim (hs_size st + 0 + blen (first_req url_esc m)), rest).
Proof. exact http_request_roundtrip_lemma. Qed.
Print Assumptions C05_http_request_roundtrip.

Theorem C05_http_response_roundtrip :
  forall hdr_write url_parse st_json st_unjson by_name url_esc lim p m f size rest,
  resp_ok m -> pipe_ok by_name p ->
  http_pack hdr_write url_parse url_esc st_json lim p m = Ok (f, size) ->
  (forall body' ops0, http_pipe p (m_body m) [] = Some (body', ops0) ->
     let L := hdr_write (ops_response ops0 m (content_type (m_codec m) (str "text/plain")) (blen body')) in
     hdr_contract lim L (m_seq m) (m_mtype m)
                  (content_type (m_codec m) (str "text/plain")) (blen body') (map hf_name p)
     /\ blen body' <= 4294967295
     /\ hs_size (pfold by_name L (hs0 x02)) <= lim) ->
  17 <= lim ->
  exists L body',
    f = first_ok ++ crlf ++ ser_lines L ++ crlf ++ body' /\
    let st := pfold by_name L (hs0 x02) in
    http_unpack url_parse st_unjson by_name lim (f ++ rest)
    = Ok (mkMsg (m_seq m) (m_mtype m) [] status_zero (hs_meta st) (m_codec m) (m_body m),
          pipe_ids_h p, final_size lim (hs_size st + 0 + blen first_ok), rest).
Proof. exact http_response_roundtrip_lemma. Qed.
Print Assumptions C05_http_response_roundtrip.

(* back-to-back frames: every frame that unpacks to its observation whatever follows it (the
   two theorems above) is decoded to that observation in any stream *)
Theorem C05_http_stream : forall url_parse st_unjson by_name lim
  (xs : list (bytes * (msg * list byte * N))) fuel,
  Forall (hframe_ok url_parse st_unjson by_name lim) xs -> (length xs < fuel)%nat ->
  decode_all fuel (fun s => retuple (http_unpack url_parse st_unjson by_name lim s)) (concat (map fst xs))
  = (map snd xs, Ok tt).
Proof. exact http_stream_lemma. Qed.
Print Assumptions C05_http_stream.

Theorem C05_http_size_message_alone : forall url_parse st_unjson by_name lim pre1 pre2 x d,
  Forall (hframe_ok url_parse st_unjson by_name lim) pre1 ->
  Forall (hframe_ok url_parse st_unjson by_name lim) pre2 ->
  hframe_ok url_parse st_unjson by_name lim x ->
  let dec pre := fst (decode_all (S (S (length pre)))
                        (fun s => retuple (http_unpack url_parse st_unjson by_name lim s))
                        (concat (map fst (pre ++ [x])))) in
  last (dec pre1) d = last (dec pre2) d /\ last (dec pre1) d = snd x.
Proof. exact http_size_alone_lemma. Qed.
Print Assumptions C05_http_size_message_alone.

Theorem C05_http_method_unguarded_refuted :
  exists target, split1 " "%byte (target ++ " "%byte :: str "HTTP/1.1") [] <> Some (target, str "HTTP/1.1").
Proof. exact http_method_unguarded_refuted. Qed.
Print Assumptions C05_http_method_unguarded_refuted.

(* before the repair the decoded path went into the request line raw: "/a b" arrives as "/a" *)
Theorem C05_http_raw_path_prefix_refuted :
  exists path, nolf path = true /\
    line_target (str "POST " ++ path ++ str " HTTP/1.1") = Some (str "/a") /\ str "/a" <> path.
Proof. exact http_raw_path_prefix_refuted. Qed.
Print Assumptions C05_http_raw_path_prefix_refuted.

Theorem C05_http_codec_unguarded_refuted :
  exists c, body_codec (content_type c (str "text/plain;charset=utf-8")) <> c.
Proof. exact http_codec_unguarded_refuted. Qed.
Print Assumptions C05_http_codec_unguarded_refuted.

(* non-vacuity: a guarded request whose service method holds a blank (escaped in the request
   line, with an instance of the url library's two functions on the strings involved), and
   header lines (as net/http writes them: sorted) that meet the contract; the model's Unpack
   reads the frame back with the same service method *)
Example C05_http_example :
  let m := mkMsg (-7) x01 (str "/home/a b") status_zero [(str "X-Trace", str "v")] "j"%byte [x00; xff; x0a] in
  let L := [(str "Accept-Encoding", str "gzip"); (K_clen, str "3");
            (K_ctype, str "application/json;charset=utf-8"); (str "User-Agent", str "erpc-httproto/1.1");
            (K_mtype, str "1"); (K_seq, str "-7"); (str "X-Trace", str "v")] in
  let up := fun t : bytes => if bytes_eqb t (str "/home/a%20b") then Some (str "/home/a b", @nil byte, @nil byte)
                             else Some (t, @nil byte, @nil byte) in
  let ue := fun t : bytes => if bytes_eqb t (str "/home/a b") then str "/home/a%20b" else t in
  req_ok up ue m (str "/home/a b") /\ pipe_ok (fun _ => None) [] /\
  hdr_contract 1000 L (m_seq m) (m_mtype m) (content_type (m_codec m) (str "text/plain;charset=utf-8")) 3 [] /\
  exists f size usize, http_pack (fun _ => L) up ue (fun _ => []) 1000 [] m = Ok (f, size) /\
    http_unpack up (fun _ => Err) (fun _ => None) 1000 f
    = Ok (mkMsg (-7) x01 (str "/home/a b") status_zero
                [(str "Accept-Encoding", str "gzip"); (str "User-Agent", str "erpc-httproto/1.1"); (str "X-Trace", str "v")]
                "j"%byte [x00; xff; x0a], [], usize, []).
Proof.
  intros m L up ue. split; [repeat split; try (left; reflexivity); reflexivity|].
  split; [left; reflexivity|]. split.
  - split; [|repeat split; reflexivity].
    repeat constructor; vm_compute; try reflexivity; intros H; discriminate H.
  - remember (http_pack (fun _ => L) up ue (fun _ => []) 1000 [] m) as r eqn:E. vm_compute in E. subst r.
    eexists. eexists. eexists. split; [reflexivity|]. vm_compute. reflexivity.
Qed.
