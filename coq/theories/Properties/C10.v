(* C10 - Registered routes dispatch to exactly their handler; unknown names do not.
   Statements only; every proof is [exact <lemma>].
   Model: Model/Mapper.v (name mappers), Model/Router.v (route tables, reg, lookups).
   [run k init ops = Ok (r, lg)] : the registration sequence [ops] (Route*/SetUnknown* on the
   root or on any nested group) completed without the process being terminated; [Error n] :
   reg called Fatalf (os.Exit(1)) on the conflicting name n.
   [returned_log k ops] : every (namespace, handler, name) such that a registration of [ops]
   returned [name] for [handler].
   Model/RouteWire.v: [wire p s n] = what the serving peer's binding sees when the caller asks
   for [n] in namespace [s] over the wire protocol [p] (Pack on one side, Unpack on the other);
   [dispatch_wire] = that, then the lookup. *)
From Coq Require Import Strings.String Strings.Byte.
From Coq Require Import List Arith NArith Bool Lia.
From Verif Require Import Base.Bytes Model.Mapper Model.Router Proofs.MapperProofs Proofs.RouterProofs.
From Verif Require Import Model.RouteWire Proofs.RouteWireProofs.
Import ListNotations.

(* ---- name mapping ---- *)

(* FINITE-DOMAIN PROOF: the 16 rows of the documented mapping table (README.md "Service
   method mapping" = router.go doc comments), both mappers, empty prefix.  The claim is
   about exactly these rows and is closed by computation. *)
Theorem C10_mapper_table :
  Forall (fun row => let '(k, name, want) := row in mapper k [] (str name) = str want) readme_table.
Proof. exact readme_table_rows. Qed.
Print Assumptions C10_mapper_table.

(* A mapper is a total function of (prefix, name): every input has exactly one image
   (stated for completeness; the model functions are Gallina functions). *)
Theorem C10_mapper_deterministic_total :
  forall k prefix name, exists! r, mapper k prefix name = r.
Proof. exact mapper_functional. Qed.
Print Assumptions C10_mapper_deterministic_total.

(* The indexed store in toServiceMethods cannot go out of range, for any name. *)
Theorem C10_mapper_no_panic : forall sep name,
  tsm_loop_chk sep name [] x00 = Some (tsm_loop sep name [] x00).
Proof. exact tsm_no_panic. Qed.
Print Assumptions C10_mapper_no_panic.

(* Shape of HTTP names, any prefix and any name (no guard on '.' / '..' needed: Clean is
   modelled in full for rooted paths): "/" + elements joined by "/", no element empty, "."
   or "..", no element containing "/". *)
Theorem C10_http_name_normal_form : forall prefix name,
  http_mapper prefix name = c_sl :: join_with c_sl (http_segments prefix name) /\
  Forall good_seg (http_segments prefix name) /\
  Forall (fun seg => ~ In c_sl seg) (http_segments prefix name).
Proof.
  exact (fun p n => conj (proj1 (http_mapper_segments p n))
                         (conj (proj2 (http_mapper_segments p n)) (http_segments_no_slash p n))).
Qed.
Print Assumptions C10_http_name_normal_form.

(* The restriction named in DESIGN.md, as boolean guards: for a prefix over [A-Za-z0-9_/] and a
   Go identifier as name (more generally: no '.' byte in either), no path element is "." or
   "..", and path.Join only squeezes slashes: the name is "/" + the non-empty "/"-separated
   pieces of prefix + "/" + toServiceMethods(name). *)
Theorem C10_http_mapper_plain : forall prefix name,
  plain_prefix prefix = true -> is_ident name = true ->
  http_mapper prefix name =
  c_sl :: join_with c_sl
            (filter nonempty (split_on c_sl (prefix ++ c_sl :: to_service_methods name c_sl true) [])).
Proof.
  exact (fun p n Hp Hn => http_mapper_plain p n (plain_prefix_no_dot p Hp) (is_ident_no_dot n Hn)).
Qed.
Print Assumptions C10_http_mapper_plain.

(* RPC names neither start nor end with '.' *)
Theorem C10_rpc_name_trimmed : forall prefix name,
  match rpc_mapper prefix name with [] => True | x :: _ => x <> c_dot end /\
  match rev (rpc_mapper prefix name) with [] => True | x :: _ => x <> c_dot end.
Proof. exact rpc_mapper_no_outer_dot. Qed.
Print Assumptions C10_rpc_name_trimmed.

(* The identifier handed to the mapper is exactly the declared one: for a type string / runtime
   function name "<qualifier>.<ident>" (ident without '.'), ctrlStructName / handlerFuncName
   return ident unchanged - no character is added or removed, whatever ident ends in - and an
   unqualified name is returned as is. *)
Theorem C10_object_ident_exact : forall q ident,
  ~ In c_dot ident ->
  object_ident (q ++ c_dot :: ident) = ident /\ object_ident ident = ident.
Proof. exact object_ident_exact. Qed.
Print Assumptions C10_object_ident_exact.

(* ---- routing, for ALL registration sequences (induction over the list of operations) ---- *)

(* After any successful sequence, a lookup in namespace s finds handler h under name n
   iff some registration in namespace s returned n for h. *)
Theorem C10_reg_names_exact : forall k ops r lg,
  run k init ops = Ok (r, lg) ->
  forall s n h, get r s n = Found h <-> In (s, h, n) (returned_log k ops).
Proof. exact reg_names_exact_lemma. Qed.
Print Assumptions C10_reg_names_exact.

(* the same, spelled out on the operations *)
Theorem C10_reg_names_exact_ops : forall k ops r lg,
  run k init ops = Ok (r, lg) ->
  forall s n h, get r s n = Found h <->
    exists g it, In (OReg s g it) ops /\ In (n, h) (handlers_of k (group_prefix k g) it).
Proof. exact reg_names_exact_ops. Qed.
Print Assumptions C10_reg_names_exact_ops.

(* CALL and PUSH are separate: a registration in one namespace changes no lookup in the
   other ... *)
Theorem C10_namespaces_separate_step : forall k r lg s g it r' lg',
  step k (r, lg) (OReg s g it) = Ok (r', lg') ->
  forall s', s' <> s -> forall n, get r' s' n = get r s' n.
Proof. exact reg_frame. Qed.
Print Assumptions C10_namespaces_separate_step.

(* ... and whatever was registered in the other namespace, a name that no registration
   of namespace s returned is never found in s. *)
Theorem C10_namespaces_separate : forall k ops r lg,
  run k init ops = Ok (r, lg) ->
  forall s n,
  (forall g it, In (OReg s g it) ops -> ~ In n (returned_names k g it)) ->
  forall h, get r s n <> Found h.
Proof. exact namespaces_separate_lemma. Qed.
Print Assumptions C10_namespaces_separate.

(* Setting an unknown-handler changes no registered route and nothing in the other namespace. *)
Theorem C10_set_unknown_frame : forall k r lg s g h r' lg',
  step k (r, lg) (OSetUnknown s g h) = Ok (r', lg') ->
  (forall s' n x, get r' s' n = Found x <-> get r s' n = Found x) /\
  (forall s', s' <> s -> forall n, get r' s' n = get r s' n).
Proof. exact unknown_frame. Qed.
Print Assumptions C10_set_unknown_frame.

(* An unregistered name yields the unknown-handler of its namespace - the one set last, on
   the root or on any group - if one was set, else NotFound; never a registered handler. *)
Theorem C10_unknown_fallback : forall k ops r lg,
  run k init ops = Ok (r, lg) ->
  forall s n, (forall h, ~ In (s, h, n) (returned_log k ops)) ->
  get r s n = match last_unknown s ops None with Some u => Unknown u | None => NotFound end.
Proof. exact unknown_fallback_lemma. Qed.
Print Assumptions C10_unknown_fallback.

(* Two registrations never silently share a name: in a sequence that completed, all
   (namespace, name) pairs returned are pairwise distinct ... *)
Theorem C10_no_silent_sharing : forall k ops r lg,
  run k init ops = Ok (r, lg) -> NoDup (map key (returned_log k ops)).
Proof. exact run_ok_nodup. Qed.
Print Assumptions C10_no_silent_sharing.

(* ... and conversely reg is fatal ONLY in that case: a sequence completes iff the
   (namespace, name) pairs it would return are pairwise distinct (no spurious exit) ... *)
Theorem C10_fatal_iff_shared_name : forall k ops,
  (exists r lg, run k init ops = Ok (r, lg)) <-> NoDup (map key (returned_log k ops)).
Proof. exact run_ok_iff_nodup. Qed.
Print Assumptions C10_fatal_iff_shared_name.

(* ... because a registration that maps to a name already taken in its namespace is fatal
   at that registration, whatever follows ... *)
Theorem C10_conflict_is_error : forall k pre r lg s g it post n h,
  run k init pre = Ok (r, lg) ->
  In n (returned_names k g it) -> In (s, h, n) lg ->
  exists n', run k init (pre ++ OReg s g it :: post) = Error n'.
Proof. exact conflict_is_error. Qed.
Print Assumptions C10_conflict_is_error.

(* ... and so is one controller two of whose methods map to the same name. *)
Theorem C10_self_conflict_is_error : forall k pre st s g it post a n b c,
  run k init pre = Ok st ->
  returned_names k g it = a ++ n :: b ++ n :: c ->
  exists n', run k init (pre ++ OReg s g it :: post) = Error n'.
Proof. exact self_conflict_is_error. Qed.
Print Assumptions C10_self_conflict_is_error.

(* ---- what a request does (bindCall / bindPush): non-empty names ---- *)
Theorem C10_dispatch_exact : forall k ops r lg,
  run k init ops = Ok (r, lg) ->
  forall s n h, n <> [] ->
  (dispatch r s n = DRun h false <-> In (s, h, n) (returned_log k ops)).
Proof. exact dispatch_exact_lemma. Qed.
Print Assumptions C10_dispatch_exact.

Theorem C10_dispatch_unregistered : forall k ops r lg,
  run k init ops = Ok (r, lg) ->
  forall s n, n <> [] -> (forall h, ~ In (s, h, n) (returned_log k ops)) ->
  dispatch r s n = match last_unknown s ops None with Some u => DRun u true | None => DNotFound end.
Proof. exact dispatch_unregistered_lemma. Qed.
Print Assumptions C10_dispatch_unregistered.

(* With the default (HTTP) mapper every returned name is non-empty, so the guard above is
   vacuous for it: every handler is reachable under every name returned for it. *)
Theorem C10_http_names_nonempty : forall ops s h n,
  In (s, h, n) (returned_log MHTTP ops) -> n <> [].
Proof. exact http_names_nonempty. Qed.
Print Assumptions C10_http_names_nonempty.

(* REFUTED for the RPC mapper without the guard: a function named "__" registered on the
   root is returned the EMPTY name; the table holds it, but bindCall refuses an empty service
   method with 400 before the lookup, so the handler can never be invoked under the name
   its registration returned (finding key empty-name-unreachable). *)
Theorem C10_rpc_empty_name_refuted :
  exists ops r lg h,
    run MRPC init ops = Ok (r, lg) /\ In (CALL, h, []) (returned_log MRPC ops) /\
    get r CALL [] = Found h /\ dispatch r CALL [] = DBadMessage.
Proof. exact rpc_empty_name_unreachable. Qed.
Print Assumptions C10_rpc_empty_name_refuted.

(* REFUTED for the code before the repair (see known_findings.txt): an unknown-handler set
   through a group's ToRouter() was ignored by every lookup. *)
Theorem C10_unknown_via_group_prefix_refuted :
  exists ops r lg u n,
    run_prefix MHTTP init ops = Ok (r, lg) /\ last_unknown CALL ops None = Some u /\
    (forall h, ~ In (CALL, h, n) (returned_log MHTTP ops)) /\ get r CALL n = NotFound.
Proof. exact unknown_via_group_prefix_ignored. Qed.
Print Assumptions C10_unknown_via_group_prefix_refuted.

(* ---- from the name a caller asks for to the name that is looked up: the wire protocols ---- *)

(* Every shipped protocol (raw, json, protobuf, thrift, http, websocket json / protobuf)
   carries a plain name - letters, digits, '_' '/' '.' '-', at most 255 bytes, no leading
   "//" - byte for byte (httproto can only carry a CALL). *)
Theorem C10_wire_plain_exact : forall p s n,
  wire_plain n = true -> (p = PHttp -> s = CALL) -> wire p s n = WSeen n.
Proof. exact wire_plain_exact. Qed.
Print Assumptions C10_wire_plain_exact.

(* ... so, after any successful registration sequence, asking for a plain name over any
   protocol runs handler h iff a registration returned exactly that name for h. *)
Theorem C10_dispatch_over_wire_exact : forall k ops r lg p s n h,
  run k init ops = Ok (r, lg) ->
  wire_plain n = true -> (p = PHttp -> s = CALL) -> n <> [] ->
  (dispatch_wire p r s n = WDispatched (DRun h false) <-> In (s, h, n) (returned_log k ops)).
Proof. exact dispatch_wire_plain_exact. Qed.
Print Assumptions C10_dispatch_over_wire_exact.

(* The default (HTTP) mapper, identifiers and group names over [A-Za-z0-9_/] ([plain_op]: every
   SubRoute argument, struct, method and function identifier of the sequence): every name a
   registration returned (up to the raw protocol's 255 bytes) arrives unchanged over every
   protocol and runs the handler it was returned for. *)
Theorem C10_http_returned_names_reachable_over_wire : forall ops r lg p s n h,
  run MHTTP init ops = Ok (r, lg) -> forallb plain_op ops = true ->
  In (s, h, n) (returned_log MHTTP ops) -> (length n <= 255)%nat -> (p = PHttp -> s = CALL) ->
  wire p s n = WSeen n /\ dispatch_wire p r s n = WDispatched (DRun h false).
Proof. exact http_returned_names_reachable_over_wire. Qed.
Print Assumptions C10_http_returned_names_reachable_over_wire.

(* Whatever bytes are asked for: a registered handler runs only if the name that ARRIVED
   is one its registration returned ... *)
Theorem C10_dispatch_over_wire_only_under : forall k ops r lg p s n h,
  run k init ops = Ok (r, lg) ->
  dispatch_wire p r s n = WDispatched (DRun h false) ->
  exists n', wire p s n = WSeen n' /\ In (s, h, n') (returned_log k ops).
Proof. exact dispatch_wire_only_under. Qed.
Print Assumptions C10_dispatch_over_wire_only_under.

(* ... outside httproto the name that arrives IS the name asked for, whatever its bytes
   (protobuf: bytes < 0x80 in this model) ... *)
Theorem C10_wire_seen_same : forall p s n n',
  p <> PHttp -> wire p s n = WSeen n' -> n' = n.
Proof. exact wire_seen_same. Qed.
Print Assumptions C10_wire_seen_same.

(* ... hence over raw, json, protobuf, thrift and both websocket sub-protocols, for ALL names:
   the handler runs only under a name its registration returned. *)
Theorem C10_dispatch_wire_transparent : forall k ops r lg p s n h,
  run k init ops = Ok (r, lg) ->
  p <> PHttp ->
  dispatch_wire p r s n = WDispatched (DRun h false) -> In (s, h, n) (returned_log k ops).
Proof. exact dispatch_wire_transparent. Qed.
Print Assumptions C10_dispatch_wire_transparent.

(* json (escapeBody, then gjson's un-escaping; repaired by 7ef806c): EVERY byte string
   arrives as it was asked for, over jsonproto and over the websocket json sub-protocol. *)
Theorem C10_json_wire : forall s n,
  wire PJson s n = WSeen n /\ wire PWsJson s n = WSeen n.
Proof. exact (fun s n => conj (wire_json_exact n) (wire_json_exact n)). Qed.
Print Assumptions C10_json_wire.

(* the code BEFORE that repair (strconv.Quote / %q), names of bytes < 0x80: what arrived was
   the name up to its first byte that Quote writes as \a, \v or \xNN ... *)
Theorem C10_json_wire_prefix : forall n,
  ascii_only n = true -> wire_json_prefix n = WSeen (take_while json_ok n).
Proof. exact wire_json_prefix_eq. Qed.
Print Assumptions C10_json_wire_prefix.

(* ... REFUTED for that code (fixed: json-name-truncated): "/test" + NUL is not registered, the
   router alone answers Not Found, yet over both json protocols the handler registered as
   "/test" ran; on the repaired code the same request is Not Found. *)
Theorem C10_json_name_truncated_refuted :
  exists ops r lg h n,
    run MHTTP init ops = Ok (r, lg) /\ ascii_only n = true /\
    (forall h', ~ In (CALL, h', n) (returned_log MHTTP ops)) /\
    dispatch r CALL n = DNotFound /\
    dispatch_wire_prefix PJson r CALL n = WDispatched (DRun h false) /\
    dispatch_wire_prefix PWsJson r CALL n = WDispatched (DRun h false) /\
    dispatch_wire PJson r CALL n = WDispatched DNotFound /\
    dispatch_wire PWsJson r CALL n = WDispatched DNotFound.
Proof. exact json_name_truncated_prefix. Qed.
Print Assumptions C10_json_name_truncated_refuted.

(* httproto reads the caller's string as a URI reference (README: "POST /home/test?peer_id=110")
   and writes u.EscapedPath() into the request line.  When that is the path itself (nothing
   in it needs an escape), the path holds no control byte, blank, '?', '#', '%' or ':' and does
   not begin with "//", and the raw query brings no control byte or '#', the serving peer
   looks up exactly that path. *)
Theorem C10_http_wire_uri_path : forall n p rp q,
  ascii_only n = true -> url_parse_x n = XOk p rp q -> escaped_path p rp = p ->
  target_safe p = true -> query_safe q = true ->
  wire PHttp CALL n = WSeen p.
Proof. exact (wire_http_gen_uri_path escaped_path). Qed.
Print Assumptions C10_http_wire_uri_path.

(* The inputs recorded with finding http-target-not-escaped, on the repaired code: the path
   of the URI reference arrives (escaped '?', '#', blank, '%', doubly escaped bytes, even an
   escaped CR LF) - FINITE list, by computation. *)
Theorem C10_http_repaired_inputs :
  Forall (fun np => url_parse (fst np) = UOk (snd np) [] /\ wire PHttp CALL (fst np) = WSeen (snd np))
    [(str "/test%3fx", str "/test?x"); (str "/test%23x", str "/test#x"); (str "/test%20x", str "/test x");
     (str "/%2574est", str "/%74est"); (str "/test%25", str "/test%"); (str "/test x", str "/test x");
     (str "/test%0d%0aX-Y: z", str "/test" ++ [n2b 13; n2b 10] ++ str "X-Y: z")].
Proof. exact http_repaired_inputs. Qed.
Print Assumptions C10_http_repaired_inputs.

(* REFUTED for the code before the repair (fixed: http-target-not-escaped, packRequest wrote
   the UNESCAPED path): "/test%3fx" asks for the path "/test?x", which is not registered, and
   the handler registered as "/test" ran; "/test%25" ended the session.  On the repaired code
   the path arrives and is Not Found. *)
Theorem C10_http_target_not_escaped_refuted :
  (exists ops r lg h n path q,
    run MHTTP init ops = Ok (r, lg) /\ ascii_only n = true /\ url_parse n = UOk path q /\
    (forall h', ~ In (CALL, h', path) (returned_log MHTTP ops)) /\
    dispatch r CALL path = DNotFound /\
    dispatch_wire_prefix PHttp r CALL n = WDispatched (DRun h false) /\
    wire PHttp CALL n = WSeen path /\ dispatch_wire PHttp r CALL n = WDispatched DNotFound) /\
  (url_parse (str "/test%25") = UOk (str "/test%") [] /\
   wire_prefix PHttp CALL (str "/test%25") = WBroken /\
   wire PHttp CALL (str "/test%25") = WSeen (str "/test%")).
Proof. exact (conj http_target_not_escaped_prefix http_target_breaks_session_prefix). Qed.
Print Assumptions C10_http_target_not_escaped_refuted.

(* REFUTED, still, for the residue (finding http-target-not-escaped as narrowed): a caller's
   string whose raw path is not a valid encoding makes EscapedPath fall back to the default
   escaping of the path, which leaves a ':' in a rootless first segment (and a leading "//")
   raw.  "a%3ab c" asks for the path "a:b c"; the receiver reads a scheme, looks up the empty
   name and answers 400; "a%3ab" alone is carried; "%2f/a b" reads as an authority. *)
Theorem C10_http_escaped_path_residue_refuted :
  url_parse (str "a%3ab c") = UOk (str "a:b c") [] /\
  wire PHttp CALL (str "a%3ab c") = WSeen [] /\
  (forall r, dispatch_wire PHttp r CALL (str "a%3ab c") = WDispatched DBadMessage) /\
  wire PHttp CALL (str "a%3ab") = WSeen (str "a:b") /\
  wire PHttp CALL (str "%2f/a b") = WOutside.
Proof. exact http_escaped_path_residue. Qed.
Print Assumptions C10_http_escaped_path_residue_refuted.

(* REFUTED for a receiver that normalises the path it read (path.Clean in Unpack): the plain
   names "/test/", "/./test", "/x/../test", "/test/." were returned by no registration and
   get Not Found from the code as it is, but run the handler registered as "/test". *)
Theorem C10_http_cleaning_receiver_refuted :
  exists ops r lg h,
    run MHTTP init ops = Ok (r, lg) /\
    Forall (fun n => wire_plain n = true /\
                     (forall h', ~ In (CALL, h', n) (returned_log MHTTP ops)) /\
                     dispatch_wire PHttp r CALL n = WDispatched DNotFound /\
                     dispatch_wire_cleaning r n = WDispatched (DRun h false))
           [str "/test/"; str "/./test"; str "/x/../test"; str "/test/."].
Proof. exact http_cleaning_receiver_refuted. Qed.
Print Assumptions C10_http_cleaning_receiver_refuted.

(* A PUSH cannot be packed by httproto; a request that does not arrive runs nothing. *)
Theorem C10_not_delivered_runs_nothing : forall p r s n,
  wire p s n = WRefused \/ wire p s n = WBroken -> dispatch_wire p r s n = WNotDelivered.
Proof. exact dispatch_wire_not_delivered. Qed.
Print Assumptions C10_not_delivered_runs_nothing.

(* ---- non-vacuity ---- *)
Definition ex_ops : list op :=
  [ OReg CALL [] (IStruct (str "User") [(str "Get", str "h1"); (str "Set_Name", str "h2")]);
    OReg PUSH [str "v1"; str "admin_x"] (IFunc (str "ABcXYz") (str "h3"));
    OSetUnknown PUSH [str "v1"] (str "u") ].

(* a successful sequence with nested groups, both namespaces, an unknown-handler *)
Example C10_example_run :
  exists r lg, run MHTTP init ex_ops = Ok (r, lg) /\
    get r CALL (str "/user/set/name") = Found (str "h2") /\
    get r PUSH (str "/v1/admin/x/abc_xyz") = Found (str "h3") /\
    get r PUSH (str "/user/get") = Unknown (str "u") /\
    get r CALL (str "/v1/admin/x/abc_xyz") = NotFound /\
    get r CALL (str "/User/Get") = NotFound.
Proof. eexists. eexists. split; [vm_compute; reflexivity|]. vm_compute. repeat split. Qed.

(* a conflicting sequence: group "aa" + func Bb against root func Aa_Bb *)
Example C10_example_conflict :
  run MHTTP init [ OReg CALL [] (IFunc (str "Aa_Bb") (str "h1"));
                   OReg PUSH [str "aa"] (IFunc (str "Bb") (str "h2"));
                   OReg CALL [str "aa"] (IFunc (str "Bb") (str "h3")) ] = Error (str "/aa/bb").
Proof. vm_compute. reflexivity. Qed.

(* a controller conflicting with itself *)
Example C10_example_self_conflict :
  run MRPC init [ OReg CALL [] (IStruct (str "T") [(str "Aa_B", str "h1"); (str "Aa__B", str "h2");
                                                   (str "Aa", str "h3")]) ] = Ok
    (mkRouter [(str "T.Aa", str "h3"); (str "T.Aa_B", str "h2"); (str "T.Aa.B", str "h1")] [] None None,
     [(CALL, str "h1", str "T.Aa.B"); (CALL, str "h2", str "T.Aa_B"); (CALL, str "h3", str "T.Aa")])
  /\ run MHTTP init [ OReg CALL [] (IStruct (str "T") [(str "AaB", str "h1"); (str "Aa__B", str "h2")]) ]
     = Error (str "/t/aa_b").
Proof. split; vm_compute; reflexivity. Qed.

(* identifiers ending in f / m / -, a method expression, a bound method value *)
Example C10_example_object_ident :
  object_ident (str "verifharness/cmd/c10/corpus/callf.Confirm") = str "Confirm" /\
  object_ident (str "*callc.Handoff") = str "Handoff" /\
  object_ident (str "verifharness/cmd/c10/corpus/callf.(*Mx).Buff") = str "Buff" /\
  object_ident (str "verifharness/cmd/c10/corpus/callf.(*Bd).Inform-fm") = str "Inform-fm".
Proof. vm_compute. repeat split. Qed.

(* the guards of C10_http_mapper_plain are satisfiable *)
Example C10_example_plain :
  plain_prefix (str "/api//v2/") = true /\ is_ident (str "Get_ID__x") = true /\
  http_mapper (str "/api//v2/") (str "Get_ID__x") = str "/api/v2/get/id_x".
Proof. vm_compute. repeat split. Qed.

(* the mappers are not injective, so the conflict theorems are not vacuous *)
Example C10_example_not_injective :
  http_mapper [] (str "AaBb") = http_mapper [] (str "Aa__Bb") /\
  http_mapper (str "aa") (str "Bb") = http_mapper [] (str "Aa_Bb") /\
  rpc_mapper (str "Aa") (str "Bb") = rpc_mapper [] (str "Aa_Bb").
Proof. exact mapper_not_injective. Qed.

(* the hypotheses of C10_http_wire_uri_path are satisfiable (the README's request); a full URL
   has an authority part and is outside the model *)
Example C10_example_http_uri :
  let n := str "/home/test?peer_id=110" in
  ascii_only n = true /\
  url_parse_x n = XOk (str "/home/test") (Some (str "/home/test")) (str "peer_id=110") /\
  escaped_path (str "/home/test") (Some (str "/home/test")) = str "/home/test" /\
  target_safe (str "/home/test") = true /\ query_safe (str "peer_id=110") = true /\
  wire PHttp CALL n = WSeen (str "/home/test") /\
  wire PHttp CALL (str "http://localhost:9090/home/test?peer_id=110") = WOutside.
Proof. vm_compute. repeat split. Qed.

(* the premises of C10_http_returned_names_reachable_over_wire hold of the example sequence *)
Example C10_example_plain_ops :
  forallb plain_op ex_ops = true /\
  exists r lg, run MHTTP init ex_ops = Ok (r, lg) /\
    In (PUSH, str "h3", str "/v1/admin/x/abc_xyz") (returned_log MHTTP ex_ops) /\
    dispatch_wire PThrift r PUSH (str "/v1/admin/x/abc_xyz") = WDispatched (DRun (str "h3") false) /\
    dispatch_wire PHttp r CALL (str "/user/set/name") = WDispatched (DRun (str "h2") false).
Proof.
  split; [vm_compute; reflexivity|]. eexists. eexists. split; [vm_compute; reflexivity|].
  split; [vm_compute; tauto|]. split; vm_compute; reflexivity.
Qed.

(* wire_plain holds of mapped names, and its "//" guard is needed *)
Example C10_example_wire_plain :
  wire_plain (http_mapper (str "/api//v2/") (str "Get_ID__x")) = true /\
  wire_plain (rpc_mapper (str "Aa.Bb") (str "Get_ID")) = true /\
  wire PHttp PUSH (str "/home/test") = WRefused /\
  wire PHttp CALL (str "//test") = WOutside /\ wire PRaw CALL (str "//test") = WSeen (str "//test").
Proof. vm_compute. repeat split. Qed.
