(* C05, thrift: the reset sites and size sites of the byte counters, regenerated from the
   CURRENT source of proto/thriftproto (translator/gen_c05counters.go ->
   Generated/C05Counters.v), against the sites of the model (Model/ThriftFrame.v [bin_sites],
   [struct_sites]). Pack and Unpack of one protocol object run concurrently on one
   utils.ReadWriteCounter; by C05_thrift_sizes_own_iff (Properties/C05Thrift.v) the sizes
   reported are those of the messages' own frames in every interleaving exactly when Pack
   zeroes the write counter only and Unpack zeroes the read counter only. Here: that is what
   every function of the source that reports a size does. *)
From Coq Require Import Strings.String Strings.Byte.
From Coq Require Import List Arith NArith ZArith Bool Lia.
From Verif Require Import Base.Bytes Model.ThriftFrame.
From Verif Require Generated.C05Counters.
Import ListNotations.
Local Open Scope string_scope.

Definition has (o : string) (ops : list string) : bool := existsb (String.eqb o) ops.
Definition read_side (o : string) : bool :=
  String.eqb o "zero-read" || String.eqb o "size-read" || String.eqb o "peek-read".
Definition write_side (o : string) : bool :=
  String.eqb o "zero-write" || String.eqb o "size-write" || String.eqb o "peek-write".

(* the reset site of a function: the first zero it performs *)
Fixpoint zero_site (ops : list string) : option zkind :=
  match ops with
  | [] => None
  | o :: r =>
      if String.eqb o "zero-read" then Some ZR
      else if String.eqb o "zero-write" then Some ZW
      else if String.eqb o "zero-both" then Some ZB
      else zero_site r
  end.

Definition zkind_eqb (a b : zkind) : bool :=
  match a, b with ZR, ZR | ZW, ZW | ZB, ZB => true | _, _ => false end.

Definition first_is (o : string) (ops : list string) : bool :=
  match ops with x :: _ => String.eqb x o | [] => false end.

(* a function that reports the size of a packed message (size-write) is a Pack: it stays on the
   write counter and begins by zeroing it - the model's [pack_zero]; one that reports the size
   of a received message (size-read) is an Unpack - the model's [unpack_zero]; any other
   function touches one side only *)
Definition site_ok (s : sites) (row : string * list string) : bool :=
  let ops := snd row in
  (forallb read_side ops || forallb write_side ops)
  && (negb (has "size-write" ops)
      || (first_is "zero-write" ops
          && match zero_site ops with Some k => zkind_eqb k (pack_zero s) | None => false end))
  && (negb (has "size-read" ops)
      || (first_is "zero-read" ops
          && match zero_site ops with Some k => zkind_eqb k (unpack_zero s) | None => false end)).

Definition is_struct_fn (row : string * list string) : bool :=
  String.prefix "tStructProto." (fst row).

Theorem C05_thrift_reset_sites_are_the_sources :
  forallb (fun row => site_ok (if is_struct_fn row then struct_sites else bin_sites) row)
          Generated.C05Counters.c05_counter_sites = true.
Proof. vm_compute. reflexivity. Qed.
Print Assumptions C05_thrift_reset_sites_are_the_sources.

(* the table is not empty of what it is about: both directions report sizes somewhere *)
Theorem C05_thrift_size_sites_present :
  existsb (fun row => has "size-write" (snd row)) Generated.C05Counters.c05_counter_sites = true /\
  existsb (fun row => has "size-read" (snd row)) Generated.C05Counters.c05_counter_sites = true.
Proof. split; vm_compute; reflexivity. Qed.
Print Assumptions C05_thrift_size_sites_present.

(* the obligation rejects the shared-zero variants (seeded C05-r5m1: Unpack calls
   ReadWriteCounter.Zero; C05-r3m2 / C14-r5m1: Pack does; 31634c9: Unpack zeroed the write
   counter) and a dropped reset, and accepts the current shape *)
Example C05_thrift_site_ok_examples :
  site_ok struct_sites ("f", ["zero-both"; "size-read"]) = false /\
  site_ok bin_sites ("f", ["zero-both"; "size-write"]) = false /\
  site_ok bin_sites ("f", ["zero-write"; "size-read"]) = false /\
  site_ok bin_sites ("f", ["size-read"]) = false /\
  site_ok bin_sites ("f", ["zero-read"; "zero-write"; "size-read"]) = false /\
  site_ok bin_sites ("f", ["zero-read"; "size-read"]) = true /\
  site_ok bin_sites ("f", ["zero-write"; "size-write"]) = true /\
  site_ok bin_sites ("f", ["peek-read"]) = true.
Proof. repeat split; vm_compute; reflexivity. Qed.
