(* C03 - Each received CALL is handled at most once and answered exactly once.
   Statements only; every proof is [exact <lemma>] or a computed witness.
   [dispatch effw pf f] is the list of visible actions one iteration of the read loop
   produces for the frame class [f] (Model/Dispatch.v); [effw] / [pf] select the tree:
   [dispatch_now] = current tree (context fix bd93e2a and pool fix),
   [dispatch_prefix] = pinned tree (neither).  A frame class fixes the
   type byte (all 256), the route, the read/decode outcome, every plugin verdict, the
   handler outcome, the reply-write results, context expiry, goroutine availability
   and the session state - all theorems quantify over ALL of them. *)
From Coq Require Import Strings.String Strings.Byte.
From Coq Require Import List Arith NArith ZArith Bool Lia.
From Verif Require Import Base.Bytes Model.Dispatch Proofs.DispatchProofs.
Import ListNotations.
Local Open Scope Z_scope.

(* ---- at most one handler invocation: any frame, any environment, both trees ---- *)
Theorem C03_call_at_most_one_invocation : forall effw pf f,
  is_call f -> (count is_invoke (dispatch effw pf f) <= 1)%nat.
Proof. exact call_at_most_one_invocation_lemma. Qed.
Print Assumptions C03_call_at_most_one_invocation.

Theorem C03_any_frame_at_most_one_invocation : forall effw pf f,
  (count is_invoke (dispatch effw pf f) <= 1)%nat.
Proof. exact any_frame_at_most_one_invocation_lemma. Qed.
Print Assumptions C03_any_frame_at_most_one_invocation.

(* ---- never answered twice, and only with the CALL's own sequence number ---- *)
Theorem C03_call_never_answered_twice : forall effw pf f,
  is_call f ->
  (count is_reply (dispatch effw pf f) <= 1)%nat /\
  (forall s st, In (Reply s st) (dispatch effw pf f) -> s = f_seq f).
Proof. exact call_never_answered_twice_lemma. Qed.
Print Assumptions C03_call_never_answered_twice.

(* ---- a CALL ends in exactly one of three ways ---- *)
Theorem C03_call_trichotomy : forall effw pf f,
  is_call f ->
  answered_once (f_seq f) (dispatch effw pf f) \/ disconnected_instead (dispatch effw pf f) \/
  dropped (dispatch effw pf f).
Proof. exact call_trichotomy_lemma. Qed.
Print Assumptions C03_call_trichotomy.

(* ---- the property: exactly one reply with the same seq, or the session is
        disconnected instead.  Current tree; the one hypothesis left: a body-less
        error frame is never refused for a reason other than a closed connection. ---- *)
Theorem C03_call_exactly_one_reply_or_disconnect : forall f,
  is_call f -> error_frames_writable f ->
  answered_once (f_seq f) (dispatch_now f) \/ disconnected_instead (dispatch_now f).
Proof. exact call_exactly_one_reply_or_disconnect_lemma. Qed.
Print Assumptions C03_call_exactly_one_reply_or_disconnect.

Definition quiet_verdicts : stage -> verdict := fun _ => VNil.

(* The unguarded property is false: neither the reply nor the fallback error frame
   can be written (finding reply-dropped-error-frame-unwritable). *)
Theorem C03_call_exactly_one_reply_or_disconnect_refuted :
  exists f, is_call f /\ f_spawn_failed f = false /\ f_ctx_expired f = false /\
            dispatch_now f = [Invoke HKnown; Drop] /\
            ~ (answered_once (f_seq f) (dispatch_now f) \/ disconnected_instead (dispatch_now f)).
Proof.
  exists (mkFrame 7 x01 false RKnown (RBody None) quiet_verdicts
                  (HReturn (Some (mkStatus 1000 (str "biz") (CText (str "why")))))
                  WOk WRefused WRefused false false true).
  repeat split; try reflexivity.
  vm_compute. intros [(H & _)|(_ & H & _)]; discriminate.
Qed.
Print Assumptions C03_call_exactly_one_reply_or_disconnect_refuted.

(* Before the pool fix: the goroutine pool is exhausted, the context is put back and
   the CALL is dropped (was finding call-dropped-gopool-exhausted); now it is refused
   with a 500 on the read goroutine, its handler not run. *)
Theorem C03_pre_pool_fix_gopool_exhausted_refuted :
  exists f, is_call f /\ error_frames_writable f /\ f_ctx_expired f = false /\
            f_spawn_failed f = true /\
            dispatch eff_write false f = [Drop] /\
            dispatch_now f = [Reply (f_seq f) (Some st_no_goroutine)].
Proof.
  exists (mkFrame 7 x01 false RKnown (RBody None) quiet_verdicts (HReturn None)
                  WOk WOk WOk false true true).
  repeat split; try discriminate; reflexivity.
Qed.
Print Assumptions C03_pre_pool_fix_gopool_exhausted_refuted.

Theorem C03_pre_pool_fix_guarded : forall f,
  is_call f -> f_spawn_failed f = false -> error_frames_writable f ->
  answered_once (f_seq f) (dispatch eff_write false f) \/
  disconnected_instead (dispatch eff_write false f).
Proof. exact call_exactly_one_reply_or_disconnect_pre_pool_lemma. Qed.
Print Assumptions C03_pre_pool_fix_guarded.

(* Before fix bd93e2a: the handling context expires while the handler runs, both
   writes are refused, the call is dropped on a healthy session (was finding
   reply-dropped-context-expired). *)
Theorem C03_prefix_context_expired_refuted :
  exists f, is_call f /\ f_spawn_failed f = false /\ error_frames_writable f /\
            f_w_ok f = WOk /\ f_ctx_expired f = true /\
            dispatch_prefix f = [Invoke HKnown; Drop] /\
            dispatch_now f = [Invoke HKnown; Reply (f_seq f) None].
Proof.
  exists (mkFrame 7 x01 false RKnown (RBody None) quiet_verdicts (HReturn None)
                  WOk WOk WOk true false true).
  repeat split; try discriminate; vm_compute; reflexivity.
Qed.
Print Assumptions C03_prefix_context_expired_refuted.

Theorem C03_prefix_agrees_while_context_alive : forall f,
  f_ctx_expired f = false -> f_spawn_failed f = false -> dispatch_prefix f = dispatch_now f.
Proof. exact prefix_agrees_lemma. Qed.
Print Assumptions C03_prefix_agrees_while_context_alive.

(* ---- PUSH: at most one invocation, never a reply (both trees, any environment) ---- *)
Theorem C03_push_never_replied : forall effw pf f,
  classify_type (f_type f) = TPush ->
  count is_reply (dispatch effw pf f) = 0%nat /\ count is_drop (dispatch effw pf f) = 0%nat /\
  (count is_invoke (dispatch effw pf f) <= 1)%nat.
Proof. exact push_never_replied_lemma. Qed.
Print Assumptions C03_push_never_replied.

(* nothing but a CALL is ever answered *)
Theorem C03_noncall_never_replied : forall effw pf f,
  classify_type (f_type f) <> TCall ->
  count is_reply (dispatch effw pf f) = 0%nat /\ count is_drop (dispatch effw pf f) = 0%nat.
Proof. exact noncall_never_replied_lemma. Qed.
Print Assumptions C03_noncall_never_replied.

(* ---- unsupported type byte: the only action is the disconnect ---- *)
Theorem C03_unsupported_type_disconnects : forall effw pf f,
  classify_type (f_type f) = TOther -> pf = true \/ f_spawn_failed f = false ->
  dispatch effw pf f = [Disconnect].
Proof. exact unsupported_type_disconnects_lemma. Qed.
Print Assumptions C03_unsupported_type_disconnects.

Theorem C03_type_classification_total : forall b,
  classify_type b = TOther <-> (b <> x01 /\ b <> x02 /\ b <> x03).
Proof. exact classify_type_total. Qed.
Print Assumptions C03_type_classification_total.

Theorem C03_unsupported_type_disconnects_now : forall f,
  classify_type (f_type f) = TOther -> dispatch_now f = [Disconnect].
Proof. intros f H. apply unsupported_type_disconnects_lemma; [exact H | left; reflexivity]. Qed.
Print Assumptions C03_unsupported_type_disconnects_now.

(* before the pool fix even that was lost with the pool exhausted: the frame was ignored *)
Theorem C03_pre_pool_fix_unsupported_type_refuted :
  exists f, classify_type (f_type f) = TOther /\ dispatch eff_write false f = [].
Proof.
  exists (mkFrame 7 x09 false RKnown (RBody None) quiet_verdicts (HReturn None)
                  WOk WOk WOk false true true).
  split; reflexivity.
Qed.
Print Assumptions C03_pre_pool_fix_unsupported_type_refuted.

(* ---- reply_status_rule ---- *)
(* Every status a CALL is answered with is: OK, 404, 400 (invalid method / bad body),
   500, the status of a vetoing pre-handler plugin stage, or the handler's own. *)
Theorem C03_reply_status_source : forall f q st,
  is_call f -> In (Reply q st) (dispatch_now f) -> reply_source f st.
Proof. exact reply_status_source_lemma. Qed.
Print Assumptions C03_reply_status_source.

Theorem C03_rule_unknown_route_404 : forall f e,
  normal_env f -> f_read f = RBody e -> passes (f_verdict f SPostReadCallHeader) ->
  f_sm_empty f = false -> f_route f = RNone ->
  dispatch_now f = [Reply (f_seq f) (Some st_not_found)].
Proof. exact rule_not_found_lemma. Qed.
Print Assumptions C03_rule_unknown_route_404.

Theorem C03_rule_empty_method_400 : forall f e,
  normal_env f -> f_read f = RBody e -> passes (f_verdict f SPostReadCallHeader) ->
  f_sm_empty f = true ->
  dispatch_now f = [Reply (f_seq f) (Some st_invalid_method)].
Proof. exact rule_invalid_method_lemma. Qed.
Print Assumptions C03_rule_empty_method_400.

Theorem C03_rule_undecodable_body_400 : forall f,
  normal_env f -> f_read f = RBody (Some true) -> passes (f_verdict f SPostReadCallHeader) ->
  f_sm_empty f = false -> f_route f = RKnown -> passes (f_verdict f SPreReadCallBody) ->
  dispatch_now f = [Reply (f_seq f) (Some (st_bad_message CLib))].
Proof. exact rule_bad_body_lemma. Qed.
Print Assumptions C03_rule_undecodable_body_400.

Theorem C03_rule_undecodable_body_no_codec_disconnects : forall effw pf f,
  f_verdict f SPreReadHeader = VNil -> f_read f = RBody (Some false) ->
  passes (f_verdict f SPostReadCallHeader) ->
  f_sm_empty f = false -> f_route f = RKnown -> passes (f_verdict f SPreReadCallBody) ->
  is_call f -> dispatch effw pf f = [Disconnect].
Proof. exact rule_bad_body_no_codec_lemma. Qed.
Print Assumptions C03_rule_undecodable_body_no_codec_disconnects.

Theorem C03_rule_veto_post_read_header : forall f e s,
  normal_env f -> f_read f = RBody e ->
  f_verdict f SPostReadCallHeader = VStat s -> st_code s <> 0 -> st_code s <> 405 ->
  dispatch_now f = [Reply (f_seq f) (Some s)].
Proof. exact rule_veto_header_lemma. Qed.
Print Assumptions C03_rule_veto_post_read_header.

Theorem C03_rule_veto_405_disconnects : forall effw pf f e s,
  base_env f -> f_read f = RBody e ->
  f_verdict f SPostReadCallHeader = VStat s -> st_code s = 405 ->
  dispatch effw pf f = [Disconnect].
Proof. exact rule_veto_405_lemma. Qed.
Print Assumptions C03_rule_veto_405_disconnects.

Theorem C03_rule_veto_pre_read_body : forall f e s,
  normal_env f -> f_read f = RBody e -> passes (f_verdict f SPostReadCallHeader) ->
  f_sm_empty f = false -> f_route f <> RNone ->
  f_verdict f SPreReadCallBody = VStat s -> st_code s <> 0 -> st_code s <> 405 ->
  dispatch_now f = [Reply (f_seq f) (Some s)].
Proof. exact rule_veto_body_lemma. Qed.
Print Assumptions C03_rule_veto_pre_read_body.

Theorem C03_rule_veto_post_read_body : forall f k s,
  normal_env f -> reaches_post_body f k ->
  f_verdict f SPostReadCallBody = VStat s -> st_code s <> 0 ->
  dispatch_now f = [Reply (f_seq f) (Some s)].
Proof. exact rule_veto_post_body_lemma. Qed.
Print Assumptions C03_rule_veto_post_read_body.

Theorem C03_rule_handler_status : forall f k hs,
  normal_env f -> reaches_post_body f k -> passes (f_verdict f SPostReadCallBody) ->
  f_handler f = HReturn (Some hs) -> st_code hs <> 0 ->
  dispatch_now f = [Invoke k; Reply (f_seq f) (Some hs)].
Proof. exact rule_handler_status_lemma. Qed.
Print Assumptions C03_rule_handler_status.

Theorem C03_rule_handler_ok : forall f k hs,
  normal_env f -> reaches_post_body f k -> passes (f_verdict f SPostReadCallBody) ->
  f_handler f = HReturn hs -> st_ok hs = true ->
  dispatch_now f = [Invoke k; Reply (f_seq f) None].
Proof. exact rule_handler_ok_lemma. Qed.
Print Assumptions C03_rule_handler_ok.

Theorem C03_rule_handler_panic_500 : forall f k c,
  normal_env f -> reaches_post_body f k -> passes (f_verdict f SPostReadCallBody) ->
  f_handler f = HPanic c ->
  dispatch_now f = [Invoke k; Reply (f_seq f) (Some (st_internal c))].
Proof. exact rule_handler_panic_lemma. Qed.
Print Assumptions C03_rule_handler_panic_500.

Theorem C03_rule_unwritable_result_500 : forall f k hs,
  base_env f -> reaches_post_body f k -> passes (f_verdict f SPostReadCallBody) ->
  f_handler f = HReturn hs -> st_ok hs = true ->
  f_w_ok f = WRefused -> f_w_err2 f = WOk ->
  dispatch_now f = [Invoke k; Reply (f_seq f) (Some (st_internal CLib))].
Proof. exact rule_unwritable_result_lemma. Qed.
Print Assumptions C03_rule_unwritable_result_500.

Theorem C03_rule_encoder_panic_500 : forall f k c,
  normal_env f -> reaches_post_body f k -> passes (f_verdict f SPostReadCallBody) ->
  f_handler f = HEncodePanic c ->
  dispatch_now f = [Invoke k; Reply (f_seq f) (Some (st_internal c))].
Proof. exact rule_encode_panic_lemma. Qed.
Print Assumptions C03_rule_encoder_panic_500.

Theorem C03_rule_plugin_panic_on_handler_goroutine_500 : forall f k c,
  normal_env f -> reaches_post_body f k -> f_verdict f SPostReadCallBody = VPanic c ->
  dispatch_now f = [Reply (f_seq f) (Some (st_internal c))].
Proof. exact rule_post_body_panic_lemma. Qed.
Print Assumptions C03_rule_plugin_panic_on_handler_goroutine_500.

(* no goroutine available: refused with a 500, the handler is not run *)
Theorem C03_rule_no_goroutine_500 : forall f k,
  is_call f -> f_verdict f SPreReadHeader = VNil -> f_goon f = true ->
  f_spawn_failed f = true -> (forall c, f_verdict f SPreWriteReply <> VPanic c) ->
  f_w_err1 f = WOk -> reaches_post_body f k ->
  dispatch_now f = [Reply (f_seq f) (Some st_no_goroutine)].
Proof. exact rule_no_goroutine_lemma. Qed.
Print Assumptions C03_rule_no_goroutine_500.

Theorem C03_rule_plugin_panic_on_read_goroutine_disconnects : forall effw pf f e c,
  f_verdict f SPreReadHeader = VNil -> is_call f -> f_read f = RBody e ->
  f_verdict f SPostReadCallHeader = VPanic c -> dispatch effw pf f = [Disconnect].
Proof. exact rule_header_panic_lemma. Qed.
Print Assumptions C03_rule_plugin_panic_on_read_goroutine_disconnects.

Definition ok_frame : frame :=
  mkFrame 5 x01 false RKnown (RBody None) quiet_verdicts (HReturn None) WOk WOk WOk false false true.

(* ---- plugin chains: a stage answers with its FIRST refusing plugin ---- *)
Theorem C03_stage_status_is_first_refusal : forall l v,
  hook v <> HookOk ->
  (stage_verdict l = v /\ hook (stage_verdict l) <> HookOk <->
   exists pre post, l = pre ++ v :: post /\ Forall (fun x => hook x = HookOk) pre).
Proof. exact stage_verdict_first_refusal. Qed.
Print Assumptions C03_stage_status_is_first_refusal.

Theorem C03_stage_passes_iff_all_pass : forall l,
  hook (stage_verdict l) = HookOk <-> Forall (fun x => hook x = HookOk) l.
Proof. exact stage_verdict_passes_iff. Qed.
Print Assumptions C03_stage_passes_iff_all_pass.

(* "the last plugin's answer stands" is not what the chain does: a veto followed by a passing
   plugin would be lost, the handler would run and the caller would see OK *)
Theorem C03_stage_last_wins_refuted :
  exists l s, st_code s <> 0 /\ stage_verdict l = VStat s /\
              hook (stage_verdict_last_wins l VNil) = HookOk /\
              dispatch_now (with_chains ok_frame (fun st => match st with SPostReadCallBody => l | _ => [] end))
                = [Reply 5 (Some s)].
Proof.
  exists [VStat (mkStatus 1000 (str "biz") (CText (str "why"))); VNil],
         (mkStatus 1000 (str "biz") (CText (str "why"))).
  repeat split; try reflexivity. discriminate.
Qed.
Print Assumptions C03_stage_last_wins_refuted.

(* ---- non-vacuity ---- *)
Example C03_normal_env_inhabited : normal_env ok_frame /\ reaches_post_body ok_frame HKnown.
Proof.
  split; [split; [split|..]|split]; try reflexivity; try (intros c; discriminate);
    try (left; reflexivity).
Qed.

Example C03_ok_frame_answered :
  dispatch_now ok_frame = [Invoke HKnown; Reply 5 None] /\
  answered_once 5 (dispatch_now ok_frame).
Proof. split; [reflexivity | vm_compute; auto]. Qed.

Example C03_disconnect_example :
  dispatch_now (mkFrame 5 x01 false RKnown (RBody (Some false)) quiet_verdicts (HReturn None)
                        WOk WOk WOk false false true) = [Disconnect].
Proof. reflexivity. Qed.
