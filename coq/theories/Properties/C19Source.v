(* C19 - obligation over the table regenerated from plugin/proxy/proxy.go on every run
   (translator/gen_c19proxy.go -> Generated/C19Proxy.v): the current source is the [fixed]
   variant that Properties/C19.v is about - the caller's codec is forwarded and the backend's
   reply codec kept, the reply metadata is nil-checked, Bad Gateway is a new status object,
   X-Real-IP is set (not appended) under the emptiness test, its value is ctx.IP() (the caller's
   remote address, not the session id or anything else) - each handler hands the request to
   the forwarder at exactly one call site outside any loop, request metadata is copied with
   Add and reply metadata with Set, and the connection-class test has the modelled bounds. *)
From Coq Require Import Strings.String Strings.Byte.
From Coq Require Import List Arith NArith ZArith Bool Lia.
From Verif Require Import Base.Bytes Model.Proxy Generated.C19Proxy Generated.C19Session
  Proofs.ProxySourceProofs.
Import ListNotations.

Theorem C19_source_is_the_modelled_variant :
  mkVariant src_forward_codec src_nil_guard src_copy_status src_set_real_ip = fixed /\
  src_real_ip_is_remote_addr = true /\
  src_single_forward = true /\ src_request_meta_add = true /\ src_reply_meta_set = true /\
  forall s, conn_class s =
            negb (Z.eqb (st_code s) 0) && Z.ltb src_class_above (st_code s)
            && Z.ltb (st_code s) src_class_below.
Proof. exact source_variant_lemma. Qed.
Print Assumptions C19_source_is_the_modelled_variant.

(* Second table (translator/gen_c19session.go -> Generated/C19Session.v, from session.go):
   session.Call has exactly one AsyncCall call site, outside any branch, loop or goto, so
   the forwarder's Call is [client_call false] - the call is issued once; and the only
   repetition inside AsyncCall and Push is the `goto W` guarded by
   `stat == statConnClosed && s.redialForClient(usedConn)` directly after the refused
   s.write(output) (nothing was sent).  Hence the second hop of the CURRENT source is one of
   the three failure phases, and C19_redial_forwarded_at_most_once /
   C19_redial_status_is_direct_or_bad_gateway are about it.  A Call that issues the call a
   second time (C19_reissuing_call_refuted) makes this theorem fail to build. *)
Theorem C19_source_call_issues_once :
  src_call_reissues = false /\ src_write_retry_guarded = true /\
  forall h cl ft be pa frq,
    client_call src_call_reissues h cl ft be pa frq
    = session_forwarder be pa (fault_failure cl ft) frq.
Proof. exact source_call_lemma. Qed.
Print Assumptions C19_source_call_issues_once.
