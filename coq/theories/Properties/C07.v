(* C07 - Session lifecycle follows one state machine; the session index is exact.
   Statements only; every proof is [exact <lemma>].  The machine is Model/Lifecycle.v +
   CallLife.v + Graceful.v ([pstep] on a peer, [sstep] on one session); a history is any
   finite list of events, [prun peer0 es = Some p] says every event of [es] was enabled.
   All theorems quantify over ALL histories (and therefore all interleavings of the
   sessions' goroutines, Close against a concurrent disconnect included).  An accept is two
   steps: [PAccept] = hooks' verdict, status ok, index insert with Close() started on the
   displaced session; the read loop is started by the session's own first reader step, any time
   later (the accepting goroutine may be parked inside the insert while the displaced session's
   Close waits for its handlers), so further accepts, SetIDs and Closes interleave in between. *)
From Coq Require Import Strings.String Strings.Byte.
From Coq Require Import List Arith NArith Bool Lia.
From Coq Require Import ZArith.
From Verif Require Import Model.Lifecycle Model.CallLife Model.Graceful Model.AcceptHooks
  Proofs.LifecycleProofs Proofs.PeerProofs Proofs.C07Lemmas Proofs.AcceptHooksProofs.
Import ListNotations.

(* At every quiescent point (no goroutine of any session can move) the index maps an id to
   a session iff that session is live (status ok) and has that id - after SetID, after a
   newer session took over an id, after Close, disconnects and peer Close. *)
Theorem C07_index_exact : forall es p,
  prun peer0 es = Some p -> pquiescent p ->
  forall id n, idx_get (pindex p) id = Some n <->
               exists s, nth_error (sessions p) n = Some s /\ sid s = id /\ st s = Ok.
Proof. exact index_exact_reach. Qed.
Print Assumptions C07_index_exact.

(* A session is healthy, and its read loop exists, only after its hooks succeeded. *)
Theorem C07_healthy_only_after_hooks : forall s,
  reach_sess s -> (st s = Ok -> estab s = true) /\ (rd s <> RNone -> estab s = true).
Proof. exact healthy_only_after_hooks_lemma. Qed.
Print Assumptions C07_healthy_only_after_hooks.

(* ---- the hooks behind the verdict (Model/AcceptHooks.v): every accept / dial carries the outcome
        of each PostAccept / PostDial plugin of the peer - nil, a status object, a panic ---- *)
(* The runner (postAccept / postDial with its recover) reports success iff every plugin returned
   an OK status; [pc] is the code of the status its recover() builds, which is not 0. *)
Theorem C07_hook_verdict : forall pc outs, pc <> 0%Z ->
  (verdict true pc outs = true <-> Forall (fun o => hout_ok o = true) outs).
Proof. exact verdict_iff. Qed.
Print Assumptions C07_hook_verdict.

(* The first plugin that does not return OK decides: the plugins before it all agreed, nothing
   behind it is called, and the runner returns that plugin's status - for a panic the status
   built by the recover(). *)
Theorem C07_hooks_stop_at_first_failure : forall pc outs,
  forallb hout_ok outs = false ->
  exists pre o post, outs = pre ++ o :: post /\ forallb hout_ok pre = true /\ hout_ok o = false /\
    hooks_ran true pc outs = S (length pre) /\
    hooks_code true pc outs = match o with HkStat c => c | _ => pc end.
Proof. exact first_failure. Qed.
Print Assumptions C07_hooks_stop_at_first_failure.

(* For every history of accepts (ServeConn or the listener loop), dials, SetIDs, closes, session
   events: a session that is healthy, or whose read loop exists (it handles messages), or that
   the index lists under its id, has had its plugins called ([hlog] = the calls made for it, in
   order) and every one of them returned an OK status - none a non-OK status, none panicked. *)
Theorem C07_live_only_if_every_hook_ok : forall es h n s,
  hrun hpeer0 es = Some h -> nth_error (sessions (hp h)) n = Some s ->
  st s = Ok \/ rd s <> RNone \/ idx_get (pindex (hp h)) (sid s) = Some n ->
  exists outs, nth_error (hlog h) n = Some outs /\ Forall (fun o => hout_ok o = true) outs.
Proof. exact live_only_if_every_hook_ok_lemma. Qed.
Print Assumptions C07_live_only_if_every_hook_ok.

(* The same runner with a recover() that does not reach the result (an unnamed result and a local
   variable, the style of the other hook runners of plugin.go; seeded change C07-r5m1): the second
   of three plugins panics, and the session is healthy, indexed and reading. *)
Theorem C07_live_only_if_every_hook_ok_unnamed_result_refuted :
  exists h s, hrun_cfg false hpeer0 panic_accept_history = Some h /\
              nth_error (sessions (hp h)) 0 = Some s /\ st s = Ok /\ rd s = R0 /\
              idx_get (pindex (hp h)) 1%N = Some 0 /\
              nth_error (hlog h) 0 = Some [HkOk; HkPanic].
Proof. exact unnamed_result_refuted_lemma. Qed.
Print Assumptions C07_live_only_if_every_hook_ok_unnamed_result_refuted.

(* Non-vacuity: on the machine as it is the same accept is refused (its read loop cannot start),
   and an accept whose three plugins return nil / an OK status object / nil is established. *)
Example C07_panic_accept_refused :
  exists h s, hrun hpeer0 panic_accept_history = None /\
              hrun hpeer0 (firstn 1 panic_accept_history) = Some h /\
              nth_error (sessions (hp h)) 0 = Some s /\ st s = Preparing /\ cl s = C0 /\ rd s = RNone /\
              pindex (hp h) = [] /\ nth_error (hlog h) 0 = Some [HkOk; HkPanic].
Proof. exact panic_accept_refused. Qed.

Example C07_ok_accept_established :
  exists h s, hrun hpeer0 [HAccept 1%N [HkOk; HkStat 0; HkOk]; HOther (PSess 0 (EReader true))] = Some h /\
              nth_error (sessions (hp h)) 0 = Some s /\ st s = Ok /\ rd s = R0 /\
              idx_get (pindex (hp h)) 1%N = Some 0 /\ nth_error (hlog h) 0 = Some [HkOk; HkStat 0; HkOk].
Proof. exact ok_accept_established. Qed.

(* A closed status is never left, whatever happens next on the peer. *)
Theorem C07_closed_absorbing : forall es p e p' n s,
  prun peer0 es = Some p -> pstep p e = Some p' -> nth_error (sessions p) n = Some s ->
  closed (st s) = true -> exists s', nth_error (sessions p') n = Some s' /\ st s' = st s.
Proof. exact closed_absorbing_lemma. Qed.
Print Assumptions C07_closed_absorbing.

(* ... and the healthy status is never entered by an existing session. *)
Theorem C07_healthy_not_reentered : forall es p e p' n s s',
  prun peer0 es = Some p -> pstep p e = Some p' -> nth_error (sessions p) n = Some s ->
  nth_error (sessions p') n = Some s' -> st s' = Ok -> st s = Ok.
Proof. exact healthy_not_reentered_lemma. Qed.
Print Assumptions C07_healthy_not_reentered.

(* The close notification fires at most once, and has fired once the session is closed. *)
Theorem C07_notify_once : forall s,
  reach_sess s -> notified s <= 1 /\ (closed (st s) = true -> notified s = 1).
Proof. exact notify_once_lemma. Qed.
Print Assumptions C07_notify_once.

(* The disconnect hook runs at most once - under every interleaving of Close with the read
   loop's disconnect path -, not before the session is closed, and exactly once by the time
   the closed session is quiescent. *)
Theorem C07_disconnect_hook_once : forall s,
  reach_sess s ->
  hooks s <= 1 /\ (closed (st s) = false -> hooks s = 0) /\
  (closed (st s) = true -> terminal s = true -> hooks s = 1).
Proof. exact hook_once_lemma. Qed.
Print Assumptions C07_disconnect_hook_once.

(* A call issued on a closed session is never blocked, never reaches the socket, and has
   completed with connection-closed (or a pre-write hook's veto) when AsyncCall returns. *)
Theorem C07_post_close_call_fails_fast : forall s i c,
  reach_sess s -> nth_error (calls s) i = Some c -> c_ic c = true ->
  match c_a c with
  | ADone => c_dones c = 1 /\ c_wrote c = false /\ (c_stat c = StConnClosed \/ c_stat c = StVeto)
  | _ => c_wrote c = false /\ exists s', caller_step s i false (wr_choice s) = Some s'
  end.
Proof. exact call_fails_fast_lemma. Qed.
Print Assumptions C07_post_close_call_fails_fast.

Theorem C07_post_close_push_fails_fast : forall s j h,
  reach_sess s -> nth_error (hctxs s) j = Some h -> k_ic h = true ->
  match k_pc h with
  | KDone => k_res h = WrRefused \/ k_res h = WrVeto
  | _ => k_pc h <> K2w /\ exists s', handler_step s j false (wr_choice s) = Some s'
  end.
Proof. exact push_fails_fast_lemma. Qed.
Print Assumptions C07_post_close_push_fails_fast.

(* [c_ic] / [k_ic] mark exactly the calls / pushes issued while the status was closed. *)
Theorem C07_issue_marks : forall s,
  exists c, nth_error (calls (issue s)) (length (calls s)) = Some c /\ c_ic c = closed (st s).
Proof. exact issue_marks. Qed.
Print Assumptions C07_issue_marks.

Theorem C07_push_marks : forall s,
  exists h, nth_error (hctxs (push_call s)) (length (hctxs s)) = Some h /\
            k_ic h = closed (st s) /\ k_kind h = KPushOut.
Proof. exact push_marks. Qed.
Print Assumptions C07_push_marks.

(* From a quiescent closed session on, no user handler ever starts again. *)
Theorem C07_no_handler_after_close : forall s es s',
  reach_sess s -> terminal s = true -> closed (st s) = true -> srun s es = Some s' ->
  starts s' = starts s.
Proof. exact no_handler_after_close_lemma. Qed.
Print Assumptions C07_no_handler_after_close.

(* ---- the pinned tree (before the fix commits), same machine with one repair off ---- *)
(* index removal by id: after a.SetID(7); b.SetID(7) the close of the displaced session
   removes b's entry; b is healthy and not indexed at a quiescent point *)
Theorem C07_index_exact_prefix_refuted :
  exists p, prun_cfg cfg_nodel peer0 takeover_history = Some p /\
            forallb (terminal_cfg cfg_nodel) (sessions p) = true /\
            exists s, nth_error (sessions p) 1 = Some s /\ st s = Ok /\ idx_get (pindex p) (sid s) = None.
Proof. exact index_exact_prefix_refuted_lemma. Qed.
Print Assumptions C07_index_exact_prefix_refuted.

(* plain store of passive-closing after a separate status read: both paths run the hook *)
Theorem C07_disconnect_hook_once_prefix_refuted :
  exists s, srun_cfg cfg_nocas live_session close_race_history = Some s /\ hooks s = 2 /\
            terminal_cfg cfg_nocas s = true.
Proof. exact hook_once_prefix_refuted_lemma. Qed.
Print Assumptions C07_disconnect_hook_once_prefix_refuted.

(* accept order "index insert first, status ok afterwards by a plain store" (serveListener before
   6514bc6; the seeded change C07-r2m2 puts it into ServeConn): O serves a handler, A is accepted
   under O's id and its goroutine parks in O's Close, B is accepted under the same id and closes
   A (active-closed, notified, hook ran), then A's goroutine carries on: A is ok again, and ends
   passive-closed with the hook run twice *)
Theorem C07_closed_absorbing_prefix_refuted :
  (exists p s, prun_cfg cfg_noacc peer0 (firstn 21 resurrect_history) = Some p /\
               nth_error (sessions p) 1 = Some s /\ st s = ActiveClosed /\ notified s = 1 /\ hooks s = 1) /\
  (exists p s, prun_cfg cfg_noacc peer0 resurrect_history = Some p /\
               nth_error (sessions p) 1 = Some s /\ st s = Ok /\ notified s = 1) /\
  (exists p s, prun_cfg cfg_noacc peer0
                 (resurrect_history ++ [PSess 1 (EReader true); PSess 1 (EFrame FrErr)] ++ repeat (PSess 1 (EReader true)) 10) = Some p /\
               nth_error (sessions p) 1 = Some s /\ st s = PassiveClosed /\ hooks s = 2).
Proof. exact closed_absorbing_prefix_refuted_lemma. Qed.
Print Assumptions C07_closed_absorbing_prefix_refuted.

Example C07_resurrect_fixed :
  exists p s, prun peer0 (resurrect_history ++ [PSess 1 (EReader true)] ++ repeat (PSess 1 (EReader true)) 2) = Some p /\
              nth_error (sessions p) 1 = Some s /\ st s = ActiveClosed /\ hooks s = 1 /\ rd s = RDone.
Proof. exact resurrect_fixed. Qed.

(* Non-vacuity: the same two histories on the repaired machine reach quiescent states in
   which the premises of the theorems above hold. *)
Example C07_takeover_fixed :
  exists p, prun peer0 takeover_history = Some p /\ idx_get (pindex p) 7%N = Some 1 /\ length (pindex p) = 1.
Proof. exact takeover_fixed. Qed.

Example C07_close_race_fixed :
  exists s, srun live_session (firstn 7 close_race_history ++ repeat (EReader true) 7 ++ repeat ECloser 7) = Some s
            /\ hooks s = 1 /\ notified s = 1 /\ st s = ActiveClosed /\ terminal s = true.
Proof. exact close_race_fixed. Qed.
