(* C12 - Transfer-filter pipes invert exactly; the integrity filter detects change.
   Statements only; every proof is [exact <lemma>]. *)
From Coq Require Import Strings.String Strings.Byte.
From Coq Require Import List Arith NArith Bool Lia.
From Verif Require Import Base.Bytes Model.Xfer Model.Md5 Proofs.XferProofs.
Import ListNotations.

(* Any pipe accepted by Append over a registry of inverting filters (any length up
   to 255, repeats allowed) restores every payload it packed. *)
Theorem C12_pipe_roundtrip :
  forall reg ids p, (forall f, In f reg -> inverts f) ->
  pipe_append reg [] ids = (p, None) ->
  forall d y, pipe_pack p d = Some y -> pipe_unpack p y = Some d.
Proof. exact registered_pipe_roundtrip. Qed.
Print Assumptions C12_pipe_roundtrip.

(* Composition order: packing applies the last filter first, unpacking the first. *)
Theorem C12_pack_order : forall p q d,
  pipe_pack (p ++ q) d = match pipe_pack q d with Some d' => pipe_pack p d' | None => None end.
Proof. exact pipe_pack_app. Qed.
Print Assumptions C12_pack_order.

Theorem C12_unpack_order : forall p q d,
  pipe_unpack (p ++ q) d = match pipe_unpack p d with Some d' => pipe_unpack q d' | None => None end.
Proof. exact pipe_unpack_app. Qed.
Print Assumptions C12_unpack_order.

(* The receiver learns the pipe from the ids: an accepted Append yields exactly the
   named filters, in order. *)
Theorem C12_append_exact : forall reg ids p,
  pipe_append reg [] ids = (p, None) ->
  pipe_ids p = ids /\ length ids <= 255 /\ Forall (fun f => reg_get reg (f_id f) = Some f) p.
Proof. exact append_ok_ids. Qed.
Print Assumptions C12_append_exact.

(* A pipe naming an unregistered filter is refused. *)
Theorem C12_unregistered_refused : forall reg p ids,
  (exists id, In id ids /\ reg_get reg id = None) ->
  exists p' id', pipe_append reg p ids = (p', Some (EUnknownId id')) /\ reg_get reg id' = None.
Proof. exact append_unknown_refused. Qed.
Print Assumptions C12_unregistered_refused.

Theorem C12_too_long_refused : forall reg ids,
  255 < length ids -> exists p' e, pipe_append reg [] ids = (p', Some e).
Proof. exact append_too_long. Qed.
Print Assumptions C12_too_long_refused.

(* A reply to a call is sent through the caller's pipe: the reply's pipe is the request's pipe
   (as the outer-most filters) followed by whatever the handler appended - for every reply,
   error replies included, since the copy is made before the status is looked at. *)
Theorem C12_reply_keeps_callers_pipe : forall reg req added,
  exists q, reply_pipe reg req added = req ++ q.
Proof. exact reply_pipe_keeps_request. Qed.
Print Assumptions C12_reply_keeps_callers_pipe.

Theorem C12_reply_pipe_is_callers_when_handler_adds_none : forall reg req,
  reply_pipe reg req [] = req.
Proof. exact reply_pipe_no_addition. Qed.
Print Assumptions C12_reply_pipe_is_callers_when_handler_adds_none.

(* Integrity filter, for any digest function with 16-byte output. *)
Theorem C12_md5_accepts_iff : forall H, (forall x, length (H x) = 16) ->
  forall y d, md5_unpack H y = Some d <-> y = d ++ H d.
Proof. exact md5_accepts_iff_lemma. Qed.
Print Assumptions C12_md5_accepts_iff.

Theorem C12_md5_inverts : forall H, (forall x, length (H x) = 16) ->
  forall id, inverts (md5_filter H id).
Proof. exact md5_inverts. Qed.
Print Assumptions C12_md5_inverts.

Theorem C12_md5_rejects_altered_checksum : forall H, (forall x, length (H x) = 16) ->
  forall d t, length t = 16 -> t <> H d -> md5_unpack H (d ++ t) = None.
Proof. exact md5_rejects_altered_trailer_lemma. Qed.
Print Assumptions C12_md5_rejects_altered_checksum.

(* Every single-byte corruption of a packed payload is rejected - or it is a
   collision of the (unkeyed) digest on the content, which no filter built on a
   digest can exclude; stated, not hidden. *)
Theorem C12_md5_single_byte_corruption : forall H, (forall x, length (H x) = 16) ->
  forall d i b, i < length (d ++ H d) -> b <> nth i (d ++ H d) x00 ->
  md5_unpack H (set_nth i b (d ++ H d)) = None \/
  (i < length d /\ set_nth i b d <> d /\ H (set_nth i b d) = H d).
Proof. exact md5_single_byte_lemma. Qed.
Print Assumptions C12_md5_single_byte_corruption.

(* The concrete digest used when the model is run has the required length. *)
Theorem C12_md5_concrete_length : forall x, length (md5 x) = 16.
Proof. exact md5_length. Qed.
Print Assumptions C12_md5_concrete_length.

(* "The receiver learns the pipe from the frame itself": for a call whose pipe names registered
   filters only, the server learns exactly the caller's ids and the client learns exactly them
   back from the reply frame ... *)
Theorem C12_both_ends_learn_the_callers_pipe : forall reg ids p,
  pipe_append reg [] ids = (p, None) -> exchange reg ids [] = Some (ids, ids).
Proof. exact exchange_learns_callers_pipe. Qed.
Print Assumptions C12_both_ends_learn_the_callers_pipe.

(* ... a call naming an unregistered filter is refused whatever else it carries ... *)
Theorem C12_exchange_refuses_unregistered : forall reg ids added,
  (exists id, In id ids /\ reg_get reg id = None) -> exchange reg ids added = None.
Proof. exact exchange_refuses_unregistered. Qed.
Print Assumptions C12_exchange_refuses_unregistered.

(* ... and on a connection carrying any sequence of calls, what the two ends observe for one
   call is a function of that call alone - not of the calls before or after it on the same
   connection (no pipe outlives its frame). *)
Theorem C12_pipe_is_per_frame_not_per_connection : forall reg before c after,
  nth_error (conn_exchange reg (before ++ c :: after)) (length before) =
  Some (exchange reg (fst c) (snd c)).
Proof. exact conn_exchange_positionwise. Qed.
Print Assumptions C12_pipe_is_per_frame_not_per_connection.

(* A filter that bounds what it unpacks (gzip under xfer.SizeLimit) restores the payload exactly
   or refuses it - it never hands over an altered (truncated) payload. *)
Theorem C12_bounded_filter_exact_or_refused : forall lim f x y,
  inverts f -> f_pack (limit_filter lim f) x = Some y ->
  f_unpack (limit_filter lim f) y = if over_limit lim x then None else Some x.
Proof. exact limit_filter_exact_or_refused. Qed.
Print Assumptions C12_bounded_filter_exact_or_refused.

Theorem C12_bounded_filter_never_alters : forall lim f d x,
  f_unpack (limit_filter lim f) d = Some x -> f_unpack f d = Some x /\ over_limit lim x = false.
Proof. exact limit_filter_never_alters. Qed.
Print Assumptions C12_bounded_filter_never_alters.

(* Non-vacuity: a registry of inverting filters and a non-trivial accepted pipe. *)
Example C12_example :
  let reg := [md5_filter md5 "m"%byte] in
  exists p, pipe_append reg [] ["m"%byte; "m"%byte] = (p, None) /\
            pipe_pack p (str "hi") <> None.
Proof. eexists. split; [reflexivity | vm_compute; discriminate]. Qed.
