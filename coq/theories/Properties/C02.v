(* C02 - Every call completes exactly once; none hangs, none completes twice.
   Statements only.  Machine: Model/Lifecycle.v + CallLife.v + Graceful.v; [reach_sess s]
   = s is a session state of some peer history (any interleaving of callers, reader, reply
   handlers, Close and the disconnect path; any reply frames, malformed input, losses). *)
From Coq Require Import Strings.String Strings.Byte.
From Coq Require Import List Arith NArith Bool Lia.
From Verif Require Import Model.Lifecycle Model.CallLife Model.Graceful
  Proofs.LifecycleProofs Proofs.PeerProofs Proofs.C07Lemmas Proofs.CallLifeProofs Proofs.GracefulProofs
  Proofs.NoOrphanProofs.
Import ListNotations.

(* the done signal fires at most once, and the completion channel gets exactly as many
   deliveries as the done signal fired *)
Theorem C02_complete_at_most_once : forall s i c,
  reach_sess s -> nth_error (calls s) i = Some c -> c_dones c <= 1 /\ c_sends c = c_dones c.
Proof. exact complete_at_most_once_lemma. Qed.
Print Assumptions C02_complete_at_most_once.

(* a completed call has left the pending table and carries an error status or a reply that
   was bound to it by the read loop *)
Theorem C02_completion_carries_reply_or_error : forall s i c,
  reach_sess s -> nth_error (calls s) i = Some c -> c_dones c = 1 ->
  c_tab c = false /\ (c_stat c = StOk -> c_rep c = true).
Proof. exact completion_carries_lemma. Qed.
Print Assumptions C02_completion_carries_reply_or_error.

(* every internal step (any goroutine of the session; the read error that a lost connection
   or a closed socket must produce) strictly decreases the measure [mu] ... *)
Theorem C02_internal_steps_terminate : forall s e s' fx,
  internal s e = true -> sstep s e = Some (s', fx) -> mu s' < mu s.
Proof. exact internal_step_mu. Qed.
Print Assumptions C02_internal_steps_terminate.

(* ... so from any state at most [mu s] internal steps can happen before a terminal state:
   whatever completion is owed follows without a further external event *)
Theorem C02_internal_runs_bounded : forall es s s',
  all_internal s es -> srun s es = Some s' -> length es + mu s' <= mu s.
Proof. exact internal_run_bounded. Qed.
Print Assumptions C02_internal_runs_bounded.

(* no_orphan: in a terminal state (no goroutine of the session can move and no read error is
   pending) in which the connection is lost, the socket is closed or the status is closed, every
   issued call has completed exactly once *)
Theorem C02_no_orphan : forall s,
  reach_sess s -> terminal s = true ->
  (conn s = false \/ sock s = false \/ closed (st s) = true) ->
  forall i c, nth_error (calls s) i = Some c -> c_dones c = 1.
Proof. exact no_orphan_lemma. Qed.
Print Assumptions C02_no_orphan.

(* handlers_waiting_for_calls_finish: a handler may itself issue a call on the session it was
   entered on and wait for its completion (EHWait; any handler, any call of the session).  In a
   terminal state in which the connection is lost no handler is left waiting (nor running):
   the disconnect path cancels the pending calls before it waits for the handlers. *)
Theorem C02_handlers_waiting_for_calls_finish : forall s,
  reach_sess s -> terminal s = true ->
  (conn s = false \/ sock s = false \/ closed (st s) = true) ->
  forall j h, nth_error (hctxs s) j = Some h -> k_pc h = KDone.
Proof. exact handlers_finish_lemma. Qed.
Print Assumptions C02_handlers_waiting_for_calls_finish.

(* ---- the pinned tree ---- *)
(* read loop's early exit leaves the bound call's mutex locked: after the connection is lost
   the disconnect path blocks on it, the state is terminal and the call is still pending *)
Theorem C02_no_orphan_prefix_refuted :
  exists s c, srun_cfg cfg_noabort live_session hang_history = Some s /\
              terminal_cfg cfg_noabort s = true /\ conn s = false /\
              nth_error (calls s) 0 = Some c /\ c_dones c = 0 /\ c_tab c = true.
Proof. exact no_orphan_prefix_refuted_lemma. Qed.
Print Assumptions C02_no_orphan_prefix_refuted.

(* a duplicate reply that waited for the call's mutex re-binds the completed call *)
Theorem C02_complete_at_most_once_prefix_refuted :
  exists s c, srun_cfg cfg_nodup live_session dup_history = Some s /\
              nth_error (calls s) 0 = Some c /\ c_dones c = 2 /\ c_sends c = 2.
Proof. exact at_most_once_prefix_refuted_lemma. Qed.
Print Assumptions C02_complete_at_most_once_prefix_refuted.

(* cancel loop only after the handler wait (before 33a3798): a handler waits for its own call,
   the connection is lost, the disconnect path waits for the handler - nobody can move, the
   call is pending for ever *)
Theorem C02_no_orphan_cancel_after_wait_refuted :
  exists s c h, srun_cfg cfg_nopre live_session (wait_history ++ [EReader true]) = Some s /\
                terminal_cfg cfg_nopre s = true /\ conn s = false /\ rd s = D3 Ok /\ ctxWG s = 1 /\
                nth_error (calls s) 0 = Some c /\ c_dones c = 0 /\ c_tab c = true /\
                nth_error (hctxs s) 0 = Some h /\ k_pc h = K1w 0.
Proof. exact cancel_after_wait_refuted_lemma. Qed.
Print Assumptions C02_no_orphan_cancel_after_wait_refuted.

(* the same histories on the repaired machine *)
Example C02_hang_fixed :
  exists s c, srun live_session (issue_and_write ++ [EFrame (FrReply 0 FErr0); EReader true; EReader true; EReader true;
                      EConnLost] ++ repeat (EReader true) 9) = Some s /\
              terminal s = true /\ nth_error (calls s) 0 = Some c /\ c_dones c = 1 /\ c_stat c = StBadMsg /\ rd s = RDone.
Proof. exact hang_fixed. Qed.

Example C02_dup_fixed :
  exists s c, srun live_session (firstn 16 dup_history) = Some s /\
              nth_error (calls s) 0 = Some c /\ c_dones c = 1 /\ c_sends c = 1 /\ rd s = R3 (XMsg KUnbound).
Proof. exact dup_fixed. Qed.

Example C02_wait_fixed :
  exists s c h, srun live_session (wait_history ++ [EReader true; EVisit 0; EReader true]
                                   ++ repeat (EHandler 0 false WOk) 4 ++ repeat (EReader true) 5) = Some s /\
                terminal s = true /\ rd s = RDone /\ st s = PassiveClosed /\
                nth_error (calls s) 0 = Some c /\ c_dones c = 1 /\ c_stat c = StConnClosed /\
                nth_error (hctxs s) 0 = Some h /\ k_pc h = KDone.
Proof. exact wait_fixed. Qed.
