(* C06 for the two size-prefixed protocols (jsonproto, pbproto) - statements only.
   The decoder applied to a complete frame (gjson / protobuf / xfer filters / body codecs) is a
   universally quantified function: every theorem holds WHATEVER a frame decodes to, including
   an error or a panic. *)
From Coq Require Import Strings.String Strings.Byte.
From Coq Require Import List Arith NArith ZArith Bool Lia.
From Verif Require Import Base.Bytes Base.Outcome Model.ReadLoop Model.SizedLoop
  Proofs.SizedLoopProofs.
Import ListNotations.
Local Open Scope N_scope.

(* every buffer requested while reading one message is within the read limit ... *)
Theorem C06_sized_alloc_bounded : forall lim s,
  Forall (fun a => a <= N.max 4 lim) (sized_allocs lim s).
Proof. exact sized_allocs_bounded. Qed.
Print Assumptions C06_sized_alloc_bounded.

(* ... and is decided by the 4-byte size field alone *)
Theorem C06_sized_alloc_decided_by_size_field : forall lim b4 r1 r2,
  length b4 = 4%nat -> sized_allocs lim (b4 ++ r1) = sized_allocs lim (b4 ++ r2).
Proof. exact sized_allocs_prefix. Qed.
Print Assumptions C06_sized_alloc_decided_by_size_field.

Theorem C06_sized_oversize_disconnects_before_payload : forall decode lim s b4 rest,
  ltake 4 s = Some (b4, rest) -> lim < N_of_be b4 ->
  forall fuel pre, sized_reader decode (S fuel) lim s pre = (pre + 1, Disconnected).
Proof. exact sized_oversize_disconnects. Qed.
Print Assumptions C06_sized_oversize_disconnects_before_payload.

Theorem C06_sized_reader_terminates : forall decode lim fuel s pre,
  (length s < fuel)%nat -> snd (sized_reader decode fuel lim s pre) <> OutOfFuel.
Proof. exact sized_reader_never_out_of_fuel. Qed.
Print Assumptions C06_sized_reader_terminates.

Theorem C06_sized_reader_endings : forall decode lim fuel s pre,
  (length s < fuel)%nat ->
  let e := snd (sized_reader decode fuel lim s pre) in
  e = Blocked \/ e = Disconnected \/ e = Unsupported.
Proof. exact sized_reader_endings. Qed.
Print Assumptions C06_sized_reader_endings.

(* a complete frame is handled on its own, whatever follows it *)
Theorem C06_sized_frame_handled_alone : forall decode lim b4 frame tail fuel pre,
  length b4 = 4%nat -> N_of_be b4 <= lim -> N_of_be b4 <> 0 -> blen frame = N_of_be b4 ->
  sized_reader decode (S fuel) lim (b4 ++ frame ++ tail) pre =
  match decode frame with
  | FOk mt | FErrCodec mt =>
      if supported mt then sized_reader decode fuel lim tail (pre + 1) else (pre + 1, Unsupported)
  | FErrNil | FPanic => (pre + 1, Disconnected)
  end.
Proof. exact sized_frame_step. Qed.
Print Assumptions C06_sized_frame_handled_alone.

(* the loop depends on the decoder through the framed frames only (this is what licenses the
   correspondence run to take the decoder as a table of the library's answers on those frames) *)
Theorem C06_sized_decoder_consulted_on_frames_only : forall d1 d2 lim fuel s pre,
  Forall (fun fr => d1 fr = d2 fr) (sized_frames fuel lim s) ->
  sized_reader d1 fuel lim s pre = sized_reader d2 fuel lim s pre.
Proof. exact sized_reader_decoder_local. Qed.
Print Assumptions C06_sized_decoder_consulted_on_frames_only.

(* non-vacuity: a frame that makes the decoder panic, followed by a valid one *)
Example C06_sized_example :
  sized_reader (fun fr => match fr with ["001"%byte] => FOk "001"%byte | _ => FPanic end) 20 100
    (hex "00000001" ++ ["001"%byte] ++ hex "00000002ffff" ++ hex "0000000101") 0 = (2, Disconnected).
Proof. vm_compute. reflexivity. Qed.
Example C06_sized_example_oversize :
  sized_reader (fun _ => FPanic) 10 1000 (hex "7fffffff") 0 = (1, Disconnected).
Proof. vm_compute. reflexivity. Qed.
