(* C20 - obligations over the table regenerated from /repo's CURRENT source on every run
   (translator/gen_c20reset.go -> Generated/C20Reset.v): every field of every pooled struct is
   reset by the struct's reset routine, or is on the committed retained-list below. A field
   added to a struct and forgotten in its reset breaks C20_reset_covers_fields on the next run
   even if no test ever dirties it. *)
From Coq Require Import Strings.String Strings.Byte.
From Coq Require Import List Arith Bool.
From Verif Require Import Generated.C20Reset Generated.C20Puts.
Import ListNotations.
Local Open Scope string_scope.

(* ---- committed: fields deliberately NOT reset, with the reason --------------------- *)
Definition retained : list (string * string * string) := [
  ("Args", "buf",
   "scratch buffer; its only users QueryString and Parse truncate it (a.buf[:0]) before writing: args_query / args_parse in Model/Pools.v, covered by C20_args_recycled_like_fresh");
  ("handlerCtx", "start",
   "assigned by binding / Push / send before any cost is computed; exact boundary: C20_ctx_cost_needs_start and the start_ok guard of C20_ctx_recycled_like_fresh");
  ("socket", "idMutex", "lock without data; Reset takes and releases it around the id assignment");
  ("socket", "swapMutex", "lock without data; Reset takes and releases it around the swap assignment");
  ("socket", "mu", "lock without data; Reset holds it for the whole reset");
  ("socket", "fromPool", "pool membership, constant for the lifetime of the object (set once by socketPool.New)")
].

(* ---- committed: the values a reset may assign (anything else must be looked at) ---- *)
Definition default_values : list (string * string * string) := [
  ("message", "bodyCodec", "codec.NilCodecID");
  ("handlerCtx", "arg", "emptyValue");
  ("socket", "Conn", "netConn");
  ("socket", "protocol", "getProto(protoFunc, s)");
  ("socket", "curState", "normal")
].

(* ---- committed: the nested reset each pointer/slice field is cleared through ------- *)
Definition nested_resets : list (string * string * string) := [
  ("message", "meta", "Reset");
  ("message", "xferPipe", "Reset");
  ("handlerCtx", "input", "Reset");
  ("handlerCtx", "output", "Reset");
  ("socket", "readerWithBuffer", "Reset")
].

(* ---- committed: the field lists Model/Pools.v was written against ------------------ *)
Definition model_fields : list (string * list string) := [
  ("message", ["serviceMethod"; "status"; "meta"; "body"; "newBodyFunc"; "xferPipe"; "ctx"; "size"; "seq"; "mtype"; "bodyCodec"]);
  ("handlerCtx", ["sess"; "input"; "output"; "handler"; "arg"; "callCmd"; "swap"; "start"; "cost"; "pluginContainer"; "stat"; "context"]);
  ("socket", ["Conn"; "readerWithBuffer"; "protocol"; "id"; "idMutex"; "swap"; "swapMutex"; "mu"; "curState"; "fromPool"]);
  ("Args", ["args"; "buf"]);
  ("XferPipe", ["filters"]);
  ("ByteBuffer", ["B"])
].

(* ---- committed: what each pool entry point must call, in this order ---------------- *)
Definition site_orders : list (string * string * string) := [
  ("socket.PutMessage", "Reset", "Put");          (* reset before the object is visible to others *)
  ("utils.ReleaseArgs", "Reset", "Put");
  ("erpc.peer.getContext", "Get", "clean");       (* contexts are cleaned on acquisition *)
  ("erpc.peer.getContext", "clean", "reInit");
  ("socket.GetSocket", "Get", "Reset");
  ("utils.BufferPool.Put", "Reset", "Put")
].

(* ---- checks ------------------------------------------------------------------------ *)
Definition triple_in (t : list (string * string * string)) (a b : string) : bool :=
  existsb (fun x => String.eqb (fst (fst x)) a && String.eqb (snd (fst x)) b) t.

Definition triple_has (t : list (string * string * string)) (a b c : string) : bool :=
  existsb (fun x => String.eqb (fst (fst x)) a && String.eqb (snd (fst x)) b && String.eqb (snd x) c) t.

Definition is_retained (f : field_reset) : bool := triple_in retained (fr_struct f) (fr_field f).

Definition kind_is (f : field_reset) (k : string) : bool := String.eqb (fr_kind f) k.

(* a field counts as reset when its reset routine assigns it unconditionally with a zero
   value, a slice truncation to length 0, a committed default value, or a committed nested
   reset call *)
Definition reset_ok (f : field_reset) : bool :=
  negb (fr_cond f) &&
  (kind_is f "zero" || kind_is f "trunc0"
   || ((kind_is f "ident" || kind_is f "call" || kind_is f "atomic")
       && triple_has default_values (fr_struct f) (fr_field f) (fr_rhs f))
   || (kind_is f "nested" && triple_has nested_resets (fr_struct f) (fr_field f) (fr_rhs f))).

Definition covered (f : field_reset) : bool :=
  if is_retained f then kind_is f "none" else reset_ok f.

Definition retained_exists (r : string * string * string) : bool :=
  existsb (fun f => String.eqb (fr_struct f) (fst (fst r)) && String.eqb (fr_field f) (snd (fst r))) c20_fields.

Definition fields_of (s : string) : list string :=
  map fr_field (filter (fun f => String.eqb (fr_struct f) s) c20_fields).

Fixpoint strs_eqb (a b : list string) : bool :=
  match a, b with
  | [], [] => true
  | x :: a', y :: b' => String.eqb x y && strs_eqb a' b'
  | _, _ => false
  end.

Definition model_current (m : string * list string) : bool := strs_eqb (fields_of (fst m)) (snd m).

Definition struct_known (f : field_reset) : bool :=
  existsb (fun m => String.eqb (fst m) (fr_struct f)) model_fields.

(* first occurrence of a before some later occurrence of b *)
Fixpoint after (l : list string) (b : string) : bool :=
  match l with [] => false | x :: r => String.eqb x b || after r b end.
Fixpoint ordered (l : list string) (a b : string) : bool :=
  match l with
  | [] => false
  | x :: r => if String.eqb x a then after r b else ordered r a b
  end.

Definition site_ok (o : string * string * string) : bool :=
  existsb (fun s => String.eqb (fst s) (fst (fst o)) && ordered (snd s) (snd (fst o)) (snd o)) c20_pool_sites.

Lemma forallb_Forall {A} (p : A -> bool) l : forallb p l = true -> Forall (fun x => p x = true) l.
Proof. intros H. apply Forall_forall. apply (proj1 (forallb_forall p l) H). Qed.

(* every field of message, handlerCtx, socket, Args, XferPipe, ByteBuffer - as they are in the
   source right now - is reset, or is retained for a recorded reason and really left alone *)
Theorem C20_reset_covers_fields : Forall (fun f => covered f = true) c20_fields.
Proof. apply forallb_Forall. vm_compute. reflexivity. Qed.
Print Assumptions C20_reset_covers_fields.

(* the retained-list does not rot: each entry names a field that exists today *)
Theorem C20_retained_list_is_current : Forall (fun r => retained_exists r = true) retained.
Proof. apply forallb_Forall. vm_compute. reflexivity. Qed.
Print Assumptions C20_retained_list_is_current.

(* the structs have exactly the fields the model records were written for, in order: a new
   field - even a correctly reset one - demands a look at Model/Pools.v *)
Theorem C20_model_fields_are_current :
  Forall (fun m => model_current m = true) model_fields /\ Forall (fun f => struct_known f = true) c20_fields.
Proof. split; apply forallb_Forall; vm_compute; reflexivity. Qed.
Print Assumptions C20_model_fields_are_current.

(* the pool entry points reset before they publish, and clean on acquisition *)
Theorem C20_pool_sites_reset_in_order : Forall (fun o => site_ok o = true) site_orders.
Proof. apply forallb_Forall. vm_compute. reflexivity. Qed.
Print Assumptions C20_pool_sites_reset_in_order.

(* ---- exclusive ownership: no path of any function puts one object into its pool twice ---- *)
(* committed: the users that must be in the table (so that it cannot silently go empty) *)
Definition put_sites : list (string * string) := [
  ("erpc.session.PreCall", "output"); ("erpc.session.PreSend", "output");
  ("erpc.session.PreReply", "output"); ("erpc.session.RawPush", "output");
  ("erpc.session.Push", "ctx"); ("erpc.session.startReadAndHandle.loop1", "ctx");
  ("socket.rawProto.Pack", "bb"); ("socket.rawProto.Unpack", "bb")
].

Definition put_once (r : string * string * nat * nat) : bool := Nat.leb (snd r) 1.
Definition put_site_present (p : string * string) : bool :=
  existsb (fun r => String.eqb (fst (fst (fst r))) (fst p) && String.eqb (snd (fst (fst r))) (snd p)
                    && Nat.eqb (snd r) 1) c20_puts.

(* along every path of every function, closure and loop body that returns pooled objects
   (messages, handler contexts, Args, byte buffers), deferred calls included, each variable is
   put at most once - the users' side of C20_pool_get_is_exclusive; and every path was followed *)
Theorem C20_each_object_put_at_most_once :
  Forall (fun r => put_once r = true) c20_puts /\ c20_puts_truncated = 0 /\
  Forall (fun p => put_site_present p = true) put_sites.
Proof. split; [apply forallb_Forall; vm_compute; reflexivity|split; [reflexivity|apply forallb_Forall; vm_compute; reflexivity]]. Qed.
Print Assumptions C20_each_object_put_at_most_once.

(* ---- every Put in a pool entry point (calls inside deferred closures and function literals
        included, in source order) comes after a Reset of the object since the previous Put - except
        where the committed list says the cleaning happens on acquisition instead ---- *)
Definition cleaned_on_acquisition : list (string * string) := [
  ("erpc.peer.putContext", "handler contexts are cleaned by getContext (Get, clean, reInit: C20_pool_sites_reset_in_order), putContext only returns them")
].
Fixpoint puts_guarded (seen : bool) (l : list string) : bool :=
  match l with
  | [] => true
  | x :: r => if String.eqb x "Put" then seen && puts_guarded false r
              else puts_guarded (seen || String.eqb x "Reset") r
  end.
Definition site_puts_ok (s : string * list string) : bool :=
  existsb (fun e => String.eqb (fst e) (fst s)) cleaned_on_acquisition || puts_guarded false (snd s).

Theorem C20_every_put_follows_a_reset : Forall (fun s => site_puts_ok s = true) c20_pool_sites.
Proof. apply forallb_Forall. vm_compute. reflexivity. Qed.
Print Assumptions C20_every_put_follows_a_reset.

(* the rule rejects an entry point that returns a dirtied object on an error path
   (GetMessage putting the message back from a deferred recover: seeded change C20-r6m2) *)
Example C20_put_without_reset_rejected :
  site_puts_ok ("socket.GetMessage", ["Get"; "recover"; "Put"; "panic"; "doSetting"]) = false /\
  site_puts_ok ("socket.GetMessage", ["Get"; "doSetting"]) = true /\
  site_puts_ok ("socket.PutMessage", ["Reset"; "Put"; "Put"]) = false.
Proof. vm_compute. repeat split. Qed.

(* ---- no function hands its caller a value read out of an object it has just returned to the pool
        (v.B, v.Bytes(), v[i:j] ... with Put(v) on the same path, deferred Puts included): the pool may give
        the object to another goroutine at once, whose writes would then show through the returned value ---- *)
Theorem C20_no_released_object_returned : c20_put_and_returned = [].
Proof. reflexivity. Qed.
Print Assumptions C20_no_released_object_returned.

(* non-vacuity: the table is not empty and covers all six structs *)
Example C20_table_nonempty :
  Nat.leb 37 (length c20_fields) = true /\ Nat.leb 7 (length c20_pool_sites) = true
  /\ existsb (fun f => negb (is_retained f)) c20_fields = true.
Proof. repeat split; reflexivity. Qed.
