(* C13 - A redial-enabled client session survives connection loss.
   Statements only; every proof is [exact <lemma>].  [reachable n uid p d s] : s is the state
   after ANY finite sequence of events (losses, reader / caller / redial-round steps in any
   interleaving, lock hand-offs, replies, new calls) from the state right after Peer.Dial,
   with redial budget n, a user-assigned (uid) or address-derived id, and any plan (p, d) of
   per-attempt answers of the environment (unreachable / reachable+hooks accept / hook rejects). *)
From Coq Require Import Strings.String Strings.Byte.
From Coq Require Import List Arith NArith ZArith Bool Lia.
From Verif Require Import Base.Bytes.
From Verif Require Import Model.Redial Proofs.RedialProofs Proofs.RedialLiveProofs Proofs.RedialReaderProofs.
From Verif Require Import Model.RedialMod Proofs.RedialModProofs Model.SockId Proofs.SockIdProofs.
Import ListNotations.

(* Calls in flight at the loss complete with connection-closed: when either cancel pass of the
   disconnecting reader (the one before the wait for the handlers, or the one after) over the
   n calls tabled at its start completes, every one of them that was waiting for a reply is
   done with RClosed, none is left waiting, none was skipped while still inside AsyncCall. *)
Theorem C13_inflight_at_loss_complete_with_conn_error : forall s i c x n,
  nth_error (readers s) i = Some (c, RWantMu1 x n) \/ nth_error (readers s) i = Some (c, RWantMu x n) ->
  existsb holds_mu (firstn n (calls s)) = false ->
  forall k cl, k < n -> nth_error (calls s) k = Some cl ->
    nth_error (calls (reader_step s i)) k = Some (cancelled cl) /\
    (forall c', c_pc (cancelled cl) <> CAwait c') /\ holds_mu cl = false.
Proof. exact d4_both_lemma. Qed.
Print Assumptions C13_inflight_at_loss_complete_with_conn_error.

(* Same session, same id: whenever the session is Ok a user-assigned id is in place ... *)
Theorem C13_same_session_same_id : forall n p d s,
  reachable n true p d s -> status_ s = SOk -> id s = IdUser.
Proof. exact id_kept_lemma. Qed.
Print Assumptions C13_same_session_same_id.

(* ... and an address-derived id is the one of the current connection. *)
Theorem C13_address_id_refreshed : forall n p d s,
  reachable n false p d s -> status_ s = SOk -> id s = IdAddr (conn s).
Proof. exact id_refreshed_lemma. Qed.
Print Assumptions C13_address_id_refreshed.

(* The dial hooks run again with isRedial = true, and the number of accepting runs is exactly
   the number of successful redials (plus the run in progress). *)
Theorem C13_dial_hooks_rerun : forall n uid p d s,
  reachable n uid p d s ->
  Forall (fun h => fst h = true) (hooks s) /\
  length (filter (fun h => accepts (snd h)) (hooks s)) = okrounds s + hook_pending (lock s) /\
  okrounds s = length (filter (fun x => snd x) (rounds s)).
Proof. exact hooks_lemma. Qed.
Print Assumptions C13_dial_hooks_rerun.

(* At most 1+n dial attempts per round, finished or in progress, when n >= 0. *)
Theorem C13_attempts_bounded : forall n uid p d s,
  reachable n uid p d s -> (0 <= n)%Z ->
  Forall (fun x => (Z.of_nat (fst x) <= 1 + n)%Z) (rounds s) /\
  (forall r, lock s = Some r -> (Z.of_nat (r_att r) <= 1 + n)%Z \/ r_pc r = RdLocked).
Proof. exact attempts_bounded_lemma. Qed.
Print Assumptions C13_attempts_bounded.

(* Status excursions: which statuses are visible in which phase of a round; in particular
   Redialing / Preparing are only visible while somebody holds the session lock inside a
   round (no_stuck_status for the two transient redial statuses). *)
Theorem C13_status_by_phase : forall n uid p d s,
  reachable n uid p d s ->
  match lock s with
  | None => status_unlocked (status_ s)
  | Some r => match r_pc r with
              | RdLocked => status_unlocked (status_ s)
              | RdDial | RdReset _ => status_dialing (status_ s)
              | RdHook _ => status_hooking (status_ s)
              end
  end.
Proof. exact status_phase_lemma. Qed.
Print Assumptions C13_status_by_phase.

Theorem C13_transient_status_has_owner : forall n uid p d s,
  reachable n uid p d s -> status_ s = SRedialing \/ status_ s = SPreparing ->
  exists r, lock s = Some r /\ r_pc r <> RdLocked.
Proof. exact transient_status_owned. Qed.
Print Assumptions C13_transient_status_has_owner.

(* The closeLocked call on exhaustion never gets past its status test (the status is never
   Ok/Preparing there): the session is NOT closed by the closure. *)
Theorem C13_closeLocked_on_exhaustion_is_noop : forall n uid p d s,
  reachable n uid p d s -> wedged s = false.
Proof. exact wedged_lemma. Qed.
Print Assumptions C13_closeLocked_on_exhaustion_is_noop.

(* exhausted_ends, the half that holds: when the exhausted round belonged to the reader, the
   reader ends the session (passive-closed, close notification, disconnect hook); Health is
   then still true iff redial is configured, exactly as coded. *)
Theorem C13_exhausted_ends_reader_round_partial : forall s i c,
  nth_error (readers s) i = Some (c, RAfterFail) ->
  let s' := reader_step s i in
  status_ s' = SPassiveClosed /\ notified s' = (if Nat.eqb (notified s) 0 then 1 else notified s) /\
  dischooks s' = S (dischooks s) /\ health s' = negb (Z.eqb (budget s) 0).
Proof. exact d8_lemma. Qed.
Print Assumptions C13_exhausted_ends_reader_round_partial.

(* exhausted_ends fails in general: budget 1, a writer's round is exhausted (2 attempts) after
   a rejected hook replaced the socket's connection; everything has run to completion, the
   call failed with connection-closed, the status is redial-failed, and the close
   notification never fired. *)
Theorem C13_exhausted_ends_refuted : exists evs,
  let s := run (init 1 true [VJ; VU] VU) evs in
  status_ s = SRedialFailed /\ rounds s = [(2, false)] /\ notified s = 0 /\ dischooks s = 0 /\
  quiescent s = true /\ nth_error (calls s) 0 = Some (mkCall false false None (CDone RClosed)).
Proof. exact (ex_intro _ w_exhausted w_exhausted_lemma). Qed.
Print Assumptions C13_exhausted_ends_refuted.

(* ... and with an address-derived id the ended session is still in the index. *)
Theorem C13_exhausted_unindexed_refuted : exists evs,
  let s := run (init 1 false [VJ; VU] VU) evs in
  status_ s = SRedialFailed /\ rounds s = [(2, false)] /\ notified s = 0 /\
  index s = [IdAddr 0] /\ id s = IdAddr 1 /\ quiescent s = true.
Proof. exact (ex_intro _ w_exhausted w_exhausted_indexed_lemma). Qed.
Print Assumptions C13_exhausted_unindexed_refuted.

(* no_stuck_status in full: "from every reachable state in which the server is reachable there
   is a finite path of internal steps to Ok".  Refuted: budget 2, server always reachable and
   hooks accepting; after this schedule the status is passive-closing, no close notification,
   not indexed, and NO internal step is enabled, so no internal path leaves this state. *)
Theorem C13_no_stuck_status_refuted : exists evs,
  let s := run (init 2 true [] VA) evs in
  status_ s = SPassiveClosing /\ notified s = 0 /\ index s = [] /\ okrounds s = 2 /\
  plan s = [] /\ pdef s = VA /\ quiescent s = true /\
  forall e, internal e = true -> step s e = s.
Proof. exact (ex_intro _ w_stuck w_stuck_lemma). Qed.
Print Assumptions C13_no_stuck_status_refuted.

(* The writer-triggered redial overlapping the old reader's disconnect path: after the
   writer's round the session is Ok on a live connection, indexed, with a call waiting on the
   new connection; the old reader then un-indexes the session, cancels that call and closes
   the NEW connection while the status stays Ok. *)
Theorem C13_stale_reader_closes_new_connection_refuted : exists evs k,
  let s1 := run (init 2 true [] VA) (firstn k evs) in
  let s := run (init 2 true [] VA) evs in
  (status_ s1 = SOk /\ mem (conn s1) (lost s1) = false /\ index s1 = [IdUser] /\
   nth_error (calls s1) 0 = Some (mkCall true false (Some (conn s1)) (CAwait (conn s1)))) /\
  (status_ s = SOk /\ health s = true /\ conn s = conn s1 /\ mem (conn s) (lost s) = true /\
   index s = [] /\ okrounds s = 1 /\
   nth_error (calls s) 0 = Some (mkCall true false (Some (conn s1)) (CDone RClosed))).
Proof. exact (ex_intro _ w_overlap (ex_intro _ 12 w_overlap_lemma)). Qed.
Print Assumptions C13_stale_reader_closes_new_connection_refuted.

(* no_stuck_status / "later calls succeed once the server is reachable", the part that holds:
   from EVERY reachable quiescent state that is not Ok (passive-closing limbo, passive-closed,
   redial-failed), with redial configured and the server reachable, one further user call brings
   the same session back to Ok in 8 steps: one round of one attempt, hooks re-run once, new
   reader, and the call has passed write()'s status check on the new connection. *)
Theorem C13_later_call_recovers_partial : forall n uid p d s,
  reachable n uid p d s -> quiescent s = true -> n <> 0%Z ->
  status_ s <> SOk -> plan s = [] -> pdef s = VA ->
  let k := length (calls s) in
  let s' := run s (recover_events k) in
  status_ s' = SOk /\ health s' = true /\ okrounds s' = S (okrounds s) /\
  conn s' = fresh s /\ lock s' = None /\
  nth_error (calls s') k = Some (mkCall false false None (CAtPrelock (conn s'))) /\
  readers s' = readers s ++ [(conn s', RReading)] /\
  rounds s' = rounds s ++ [(1, true)] /\ hooks s' = hooks s ++ [(true, VA)].
Proof. exact one_call_recovers_lemma. Qed.
Print Assumptions C13_later_call_recovers_partial.

(* exhausted_ends, "later calls fail with a connection error after at most one further bounded
   round": from every reachable quiescent non-Ok state, budget b > 0, server unreachable, a
   later call completes with connection-closed after exactly one round of 1+b attempts and
   leaves the status redial-failed and Health false. *)
Theorem C13_later_call_fails_after_one_round : forall n uid p d s b,
  reachable n uid p d s -> quiescent s = true -> n = Z.of_nat b -> b <> 0 ->
  status_ s <> SOk -> plan s = [] -> pdef s = VU ->
  let k := length (calls s) in
  let s' := run s (fail_events k b) in
  nth_error (calls s') k = Some (mkCall false false None (CDone RClosed)) /\
  rounds s' = rounds s ++ [(S b, false)] /\ status_ s' = SRedialFailed /\ health s' = false /\
  lock s' = None /\ notified s' = notified s /\ index s' = index s.
Proof. exact later_call_fails_lemma. Qed.
Print Assumptions C13_later_call_fails_after_one_round.

(* Every successful redial starts a read loop on the new connection, unconditionally: the
   number of read loops ever started is 1 (first dial) + the number of successful redials.
   (In the code this is AnywayGo, which waits for a slot of the goroutine pool; a start that
   can be dropped when the pool is full breaks it - harness: pool saturated at redial time.) *)
Theorem C13_successful_redial_starts_reader : forall n uid p d s,
  reachable n uid p d s -> length (readers s) = S (okrounds s).
Proof. exact readers_count_lemma. Qed.
Print Assumptions C13_successful_redial_starts_reader.

(* ---- dial hooks that replace the socket (Session.ModifySocket) ---------------------------
   A PostDial plugin may replace the session's connection through ModifySocket on the first
   dial and again on every redial (a wrapper conn; mixer/websocket's client plugin, whose conn
   prints renamed addresses).  [reachable_m cfg ..]: the machine of Model.Redial with such a
   plugin in front of or behind the plugin that gives the hook verdict (Model.RedialMod);
   [m_inherit cfg = true] is ModifySocket as coded: id := s.ID(); socket.Reset; SetID(id). *)

(* "keeping a user-assigned id" with such hooks, for every kind of replacement, either plugin
   order, all event sequences: whenever the session is Ok the user's id is in place ... *)
Theorem C13_modify_socket_hooks_keep_user_id : forall cfg n p d s,
  m_inherit cfg = true -> reachable_m cfg n true p d s -> status_ s = SOk -> id s = IdUser.
Proof. exact user_id_kept_with_modify_hooks. Qed.
Print Assumptions C13_modify_socket_hooks_keep_user_id.

(* ... and the step that completes a redial round (the hooks have accepted) leaves the session
   Ok with the user-assigned id AND stored in the index under that very key. *)
Theorem C13_successful_redial_keeps_user_id_and_index_key : forall cfg n p d s r v,
  m_inherit cfg = true -> reachable_m cfg n true p d s ->
  lock s = Some r -> r_pc r = RdHook v -> accepts v = true ->
  let s' := step_m cfg s EvRound in
  status_ s' = SOk /\ id s' = IdUser /\ idmem IdUser (index s') = true /\
  okrounds s' = S (okrounds s) /\ lock s' = None.
Proof. exact successful_round_keeps_user_id. Qed.
Print Assumptions C13_successful_redial_keeps_user_id_and_index_key.

(* The invariants proved above for the plain machine hold for the machine with the plugin -
   with a user-assigned id for every kind of replacement, with an address-derived id for the
   replacements that keep the addresses: status by phase, hooks re-run with isRedial = true and
   accepting runs = successful redials, at most 1+n attempts per round, closeLocked in the
   closure never runs, and the id (user's / current local address) whenever the session is Ok.
   (The machine is NOT the plain one: ModifySocket puts another net.Conn object into the
   socket, so a caller that captured the raw connection between socket.Reset and the plugin
   does not redial again when it gets the lock - Model.RedialMod.restamp; the harness sees
   exactly that.) *)
Theorem C13_invariants_hold_with_modify_socket_hooks : forall cfg n uid p d s,
  m_inherit cfg = true -> (uid = true \/ renames (m_kind cfg) = false) ->
  reachable_m cfg n uid p d s ->
  match lock s with
  | None => status_unlocked (status_ s)
  | Some r => match r_pc r with
              | RdLocked => status_unlocked (status_ s)
              | RdDial | RdReset _ => status_dialing (status_ s)
              | RdHook _ => status_hooking (status_ s)
              end
  end /\
  (Forall (fun h => fst h = true) (hooks s) /\
   length (filter (fun h => accepts (snd h)) (hooks s)) = okrounds s + hook_pending (lock s) /\
   okrounds s = length (filter (fun x => snd x) (rounds s))) /\
  ((0 <= n)%Z -> Forall (fun x => (Z.of_nat (fst x) <= 1 + n)%Z) (rounds s) /\
                 (forall r, lock s = Some r -> (Z.of_nat (r_att r) <= 1 + n)%Z \/ r_pc r = RdLocked)) /\
  wedged s = false /\
  (status_ s = SOk -> if uid then id s = IdUser else id s = IdAddr (conn s)).
Proof. exact invariants_with_modify_hooks. Qed.
Print Assumptions C13_invariants_hold_with_modify_socket_hooks.

(* A plugin whose function returns (nil, nil) - ModifySocket's early return - or no plugin:
   the plain machine, step for step. *)
Theorem C13_modify_socket_without_replacement_is_invisible : forall cfg s e,
  resets (m_kind cfg) = false -> step_m cfg s e = step s e.
Proof. exact step_m_no_replacement. Qed.
Print Assumptions C13_modify_socket_without_replacement_is_invisible.

(* The variant of ModifySocket that reads the id AFTER socket.Reset (SetID(s.ID()) behind the
   Reset): one loss, one redial with a wrapper-conn plugin, and the session is Ok under the
   remote address; the user's id is gone from the session and from the index. *)
Theorem C13_id_read_after_reset_refuted : exists cfg evs,
  m_inherit cfg = false /\
  let s := run_m cfg (init_m cfg 3 true [] VA) evs in
  status_ s = SOk /\ rounds s = [(1, true)] /\ hooks s = [(true, VA)] /\ quiescent s = true /\
  id s = IdNone /\ index s = [IdNone] /\ idmem IdUser (index s) = false.
Proof. exact (ex_intro _ cfg_late (ex_intro _ w_late (conj eq_refl w_late_lemma))). Qed.
Print Assumptions C13_id_read_after_reset_refuted.

(* An address-derived id behind a conn that prints renamed addresses (websocket): the closure's
   test oldIP == oldID never holds, the id given at the first dial is kept verbatim (it is not
   refreshed as C13_address_id_refreshed says for plain connections). *)
Theorem C13_renamed_address_id_kept_verbatim : forall cfg n p d s,
  m_inherit cfg = true -> renames (m_kind cfg) = true -> reachable_m cfg n false p d s ->
  id s = IdAddr 0 \/ (id s = IdNone /\ at_reset (lock s)).
Proof. exact renamed_address_id_kept. Qed.
Print Assumptions C13_renamed_address_id_kept_verbatim.

(* The same on strings (Model.SockId: socket.ID / SetID / Reset, ModifySocket, the closure's
   restore rule, the hub keys).  ModifySocket's contract, "inherit the previous session id": *)
Theorem C13_modify_socket_inherits_id : forall k w,
  sock_ID k <> [] -> sock_ID (modify_socket k w) = sock_ID k /\ k_conn (modify_socket k w) = wrap_conn w (k_conn k).
Proof. exact modify_socket_contract. Qed.
Print Assumptions C13_modify_socket_inherits_id.

(* One redial round - any number of attempts, each unreachable or a fresh connection with any
   list of hooks (replace by any conn / pass / refuse) - leaves a user-assigned id (non-empty,
   not the local address) in place, and a successful round stores the session under it. *)
Theorem C13_redial_round_keeps_user_id_string : forall u k h l,
  u <> [] -> k_id k = u -> c_local (k_conn k) <> u ->
  let '(k1, h1, ok) := redial_round modify_socket (k, h) l in
  k_id k1 = u /\ sock_ID k1 = u /\
  (k_conn k1 = k_conn k \/ In (k_conn k1) (flat_map attempt_conns l)) /\
  (ok = true -> hub_has h1 u = true) /\ (ok = false -> h1 = h).
Proof. exact redial_round_user_id. Qed.
Print Assumptions C13_redial_round_keeps_user_id_string.

(* ... and so does any sequence of losses and rounds, as long as no connection ever prints the
   user's id as its local address. *)
Theorem C13_life_keeps_user_id_string : forall u ops k h,
  u <> [] -> k_id k = u -> c_local (k_conn k) <> u ->
  (forall o c, In o ops -> In c (op_conns o) -> c_local c <> u) ->
  let '(k1, _) := life modify_socket (k, h) ops in
  k_id k1 = u /\ sock_ID k1 = u.
Proof. exact life_user_id. Qed.
Print Assumptions C13_life_keeps_user_id_string.

(* The late-reading variant on strings: user id "user-1", one round, one transparent wrapper:
   ID() is the remote address and the hub holds the session under it, not under "user-1". *)
Theorem C13_id_read_after_reset_string_refuted : exists k l,
  let '(k1, h1, ok) := redial_round modify_socket_late (k, []) l in
  ok = true /\ sock_ID k = str "user-1" /\ c_local (k_conn k) <> str "user-1" /\
  sock_ID k1 = str "127.0.0.1:9090" /\ hub_has h1 (str "user-1") = false /\
  hub_has h1 (str "127.0.0.1:9090") = true.
Proof. exact (ex_intro _ w_sock (ex_intro _ [AConn w_conn1 [HMod WPlain]] late_variant_loses_user_id)). Qed.
Print Assumptions C13_id_read_after_reset_string_refuted.

(* Address-derived ids on strings: refreshed behind transparent replacements; behind a renaming
   one the first dial leaves an id that LocalAddr() no longer prints, i.e. one the closure will
   treat as user-assigned (previous two theorems with u := that id). *)
Theorem C13_address_id_strings :
  (forall k c hs, k_id k = c_local (k_conn k) -> k_id k <> [] -> c_local c <> [] ->
     forallb transparent hs = true ->
     let k1 := fst (redial_attempt modify_socket (sock_ID k) (c_local (k_conn k)) k c hs) in
     k_id k1 = c_local c /\ k_conn k1 = c) /\
  (forall k c t, t <> [] -> c_local c <> [] ->
     let k0 := fst (first_dial modify_socket k c [HMod (WRename t)]) in
     k_id k0 = c_local c /\ c_local (k_conn k0) <> k_id k0).
Proof. exact (conj address_id_refreshed first_dial_renamed). Qed.
Print Assumptions C13_address_id_strings.

(* Non-vacuity of the hypotheses above: a websocket-like plugin, user id, loss, redial. *)
Example C13_modify_example :
  let cfg := mkMod MRename false true in
  let s := run_m cfg (init_m cfg 3 true [] VA)
               [EvCut; EvReader 0; EvReader 0; EvReader 0; EvReader 0; EvReader 0; EvReader 0; EvReader 0;
                EvAcquire (OwR 0); EvRound; EvRound; EvRound] in
  (exists r, lock s = Some r /\ r_pc r = RdHook VA) /\ id s = IdUser /\ status_ s = SPreparing.
Proof. vm_compute. split; [eexists; split; reflexivity | split; reflexivity]. Qed.

(* Non-vacuity: a plain loss followed by a reader-triggered redial on the second attempt. *)
Example C13_example :
  let s := run (init 3 true [VU; VA] VA)
               [EvCut; EvReader 0; EvReader 0; EvReader 0; EvReader 0; EvReader 0; EvReader 0; EvReader 0;
                EvAcquire (OwR 0); EvRound; EvRound; EvRound; EvRound; EvRound] in
  status_ s = SOk /\ id s = IdUser /\ rounds s = [(2, true)] /\ hooks s = [(true, VA)] /\
  index s = [IdUser] /\ quiescent s = true.
Proof. vm_compute. repeat split; reflexivity. Qed.
