(* C20 - Recycled messages, contexts, metadata and sockets behave like fresh ones.
   Statements only; every proof is [exact <lemma>] (lemmas: Proofs/PoolsProofs.v).

   The states quantified over are ALL values of the model records (Model/Pools.v), which
   include the hidden parts Go keeps across reuse: stale slots behind len, stale key/value
   buffers inside those slots, the scratch buffer Args.buf, spare capacity, and - as the
   parameters g, g' - the runtime's slice growth policy on either side.  [run] applies any
   list of public calls and collects everything each call returned. *)
From Coq Require Import Strings.String Strings.Byte.
From Coq Require Import List Arith NArith ZArith Bool Lia.
From Verif Require Import Base.Bytes Base.Val Model.Pools Proofs.PoolsProofs.
Import ListNotations.

(* ============================ reset_is_fresh, per pooled type ======================= *)

(* utils.Args (ReleaseArgs / message.Reset -> meta.Reset) *)
Theorem C20_args_reset_is_fresh : forall dirty : args,
  abs_args (args_reset dirty) = abs_args args_fresh.
Proof. exact args_reset_abs. Qed.
Print Assumptions C20_args_reset_is_fresh.

(* socket.message (PutMessage -> Reset): every getter and everything Pack reads; the call
   sequences below include MPack = rawProto.Pack, whose result is the transmitted frame *)
Theorem C20_message_reset_is_fresh : forall dirty : message,
  abs_msg (msg_reset dirty) = abs_msg msg_fresh.
Proof. exact msg_reset_abs. Qed.
Print Assumptions C20_message_reset_is_fresh.

(* handlerCtx (getContext = ctxPool.Get, clean, reInit): whatever context comes out of the
   pool, the next user reads exactly what it would read from a newly built one *)
Theorem C20_ctx_get_is_fresh : forall (dirty : hctx) sess sock_swap,
  abs_ctx (ctx_get dirty sess sock_swap) = abs_ctx (ctx_get ctx_new sess sock_swap).
Proof. exact ctx_get_abs. Qed.
Print Assumptions C20_ctx_get_is_fresh.

(* pooled socket (GetSocket = socketPool.Get().Reset): the whole state, not only a view *)
Theorem C20_socket_get_is_fresh : forall (dirty : sock) conn data proto,
  s_from_pool dirty = true ->
  sock_get dirty conn data proto = sock_get sock_pool_new conn data proto.
Proof. exact sock_get_eq. Qed.
Print Assumptions C20_socket_get_is_fresh.

(* ============================ ops_commute_with_abs ================================= *)
(* Two objects that agree on the observable state answer every later call sequence with the
   same results and keep agreeing - for any hidden state and growth policy on either side.
   [rrel R x y]: both sides finish with R-related results, or both panic, or both fail. *)

Theorem C20_args_ops_commute_with_abs : forall g g' ops (a1 a2 : args),
  abs_args a1 = abs_args a2 ->
  rrel args_rel (run (args_step g) a1 ops) (run (args_step g') a2 ops).
Proof. exact args_run_sim. Qed.
Print Assumptions C20_args_ops_commute_with_abs.

Theorem C20_message_ops_commute_with_abs : forall g g' registered size_limit filter_pack ops (m1 m2 : message),
  abs_msg m1 = abs_msg m2 ->
  rrel msg_rel (run (msg_step g registered size_limit filter_pack) m1 ops)
               (run (msg_step g' registered size_limit filter_pack) m2 ops).
Proof. exact msg_run_sim. Qed.
Print Assumptions C20_message_ops_commute_with_abs.

(* handlerCtx.start is the one field clean() does not assign; it is only an operand of
   recordCost.  [start_ok set ops]: every CRecordCost in ops comes after a CSetStart
   (binding / Push / send assign start before anything computes a cost). *)
Theorem C20_ctx_ops_commute_with_abs : forall g g' registered size_limit filter_pack ops set (c1 c2 : hctx),
  abs_ctx c1 = abs_ctx c2 -> (set = true -> c_start c1 = c_start c2) -> start_ok set ops = true ->
  rrel ctx_rel (run (ctx_step g registered size_limit filter_pack) c1 ops)
               (run (ctx_step g' registered size_limit filter_pack) c2 ops).
Proof. exact ctx_run_sim. Qed.
Print Assumptions C20_ctx_ops_commute_with_abs.

(* ============================ recycled = fresh, all histories ====================== *)
(* the two above combined: ANY previous use (any dirty state), then ANY later calls *)

Theorem C20_args_recycled_like_fresh : forall g g' (dirty : args) ops,
  rrel args_rel (run (args_step g) (args_reset dirty) ops) (run (args_step g') args_fresh ops).
Proof. exact args_recycled. Qed.
Print Assumptions C20_args_recycled_like_fresh.

Theorem C20_message_recycled_like_fresh : forall g g' registered size_limit filter_pack (dirty : message) ops,
  rrel msg_rel (run (msg_step g registered size_limit filter_pack) (msg_reset dirty) ops)
               (run (msg_step g' registered size_limit filter_pack) msg_fresh ops).
Proof. exact msg_recycled. Qed.
Print Assumptions C20_message_recycled_like_fresh.

Theorem C20_ctx_recycled_like_fresh : forall g g' registered size_limit filter_pack (dirty : hctx) sess sw ops,
  start_ok false ops = true ->
  rrel ctx_rel (run (ctx_step g registered size_limit filter_pack) (ctx_get dirty sess sw) ops)
               (run (ctx_step g' registered size_limit filter_pack) (ctx_get ctx_new sess sw) ops).
Proof. exact ctx_recycled. Qed.
Print Assumptions C20_ctx_recycled_like_fresh.

Theorem C20_socket_recycled_like_fresh : forall (dirty : sock) conn data proto ops,
  s_from_pool dirty = true ->
  run sock_res (sock_get dirty conn data proto) ops
  = run sock_res (sock_get sock_pool_new conn data proto) ops.
Proof. exact sock_recycled. Qed.
Print Assumptions C20_socket_recycled_like_fresh.

(* transfer pipe of a recycled message: same ids, same error code as on a new pipe *)
Theorem C20_xferpipe_recycled_like_fresh : forall g g' registered (dirty : xpipe) ids,
  vis (fst (xp_append g registered (xp_reset dirty) ids)) = vis (fst (xp_append g' registered xp_fresh ids))
  /\ snd (xp_append g registered (xp_reset dirty) ids) = snd (xp_append g' registered xp_fresh ids).
Proof. exact xp_recycled. Qed.
Print Assumptions C20_xferpipe_recycled_like_fresh.

(* pooled ByteBuffer: every call except the raw length change (see below) *)
Theorem C20_bytebuffer_recycled_like_fresh : forall g g' (dirty : bbuf) default_size ops,
  forallb bop_safe ops = true ->
  rrel bb_rel (run (bb_res g) (bb_put dirty) ops) (run (bb_res' g') (bb_fresh default_size) ops).
Proof. exact bb_recycled. Qed.
Print Assumptions C20_bytebuffer_recycled_like_fresh.

(* ============================ the exact boundaries ================================= *)
(* ByteBuffer.ChangeLen(n) is a raw reslice: on a pooled buffer it shows the previous
   contents (callers in /repo overwrite all n bytes with io.ReadFull right away, which is
   the covered op BChangeLenFill). Stated so the guard above is not mistaken for vacuous. *)
Theorem C20_bytebuffer_raw_changelen_exposes_stale :
  exists dirty n,
    rmap snd (run (bb_res g0) (bb_put dirty) [BChangeLen 2; BBytes])
    <> rmap snd (run (bb_res g0) (bb_fresh n) [BChangeLen 2; BBytes]).
Proof. exact bb_changelen_witness. Qed.
Print Assumptions C20_bytebuffer_raw_changelen_exposes_stale.

(* handlerCtx.start survives clean(): a cost computed before start is assigned would be
   taken from the previous user's start. *)
Theorem C20_ctx_cost_needs_start :
  exists dirty sess sw,
    rmap snd (run (ctx_step g0 (fun _ => true) 1000%N (fun _ d => Some d)) (ctx_get dirty sess sw) [CRecordCost 10%Z; CObserve])
    <> rmap snd (run (ctx_step g0 (fun _ => true) 1000%N (fun _ d => Some d)) (ctx_get ctx_new sess sw) [CRecordCost 10%Z; CObserve]).
Proof. exact ctx_cost_witness. Qed.
Print Assumptions C20_ctx_cost_needs_start.

(* ============================ non-vacuity ========================================= *)
(* a dirtied Args really carries hidden state after Reset: the old pairs sit behind len,
   and the next Add reuses the first stale slot's buffers, yet shows only the new pair *)
Example C20_hidden_state_is_real :
  let g := g0 in
  match run (args_step g) args_fresh [AAdd (str "secret-key") (str "secret-value"); AAdd (str "k2") (str "v2")] with
  | Ok (dirty, _) =>
      let r := args_reset dirty in
      length (hid (a_args r)) = 2 /\ abs_args r = [] /\
      match run (args_step g) r [AAdd (str "a") (str ""); AVisit; AQuery] with
      | Ok (a, obs) =>
          obs = [VL [VL [VB (str "a"); VB []]]; VB (str "a")] /\
          (* the slot's key buffer still holds the tail of the old key behind len *)
          option_map (fun kv => hid (k_key kv)) (last_opt (vis (a_args a))) = Some (str "ecret-key")
      | _ => False
      end
  | _ => False
  end.
Proof. vm_compute. repeat split. Qed.

(* a reset that kept len would not pass: the model distinguishes it *)
Example C20_reset_keeping_len_is_not_fresh :
  exists dirty : args, abs_args dirty <> abs_args args_fresh.
Proof. exists (mkArgs (mkGs [kv_zero] [] 0) gs_nil). discriminate. Qed.

(* delAllArgs parks the deleted slot behind len, and skips the element after a match *)
Example C20_del_as_coded :
  match run (args_step g0) args_fresh
        [AAdd (str "k") (str "1"); AAdd (str "k") (str "2"); AAdd (str "x") (str "3"); ADel (str "k"); AVisit] with
  | Ok (a, obs) => obs = [VL [VL [VB (str "k"); VB (str "2")]; VL [VB (str "x"); VB (str "3")]]]
                   /\ length (hid (a_args a)) = 1
  | _ => False
  end.
Proof. vm_compute. split; reflexivity. Qed.
