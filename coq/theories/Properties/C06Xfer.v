(* C06 for the transfer filters the shipped packages register (xfer/gzip, xfer/md5) - statements
   only. The size a gzip payload ANNOUNCES (its ISIZE trailer) is an explicit input of the model,
   chosen by the sender independently of the deflate stream; the runtime's slice growth is a
   quantified function constrained by what growslice guarantees. *)
From Coq Require Import Strings.String Strings.Byte.
From Coq Require Import List Arith NArith ZArith Bool Lia.
From Verif Require Import Base.Bytes Model.GunzipAlloc Proofs.GunzipAllocProofs.
From Verif Require Generated.C06Xfer.
Import ListNotations.
Local Open Scope N_scope.

(* Gzip.OnUnpack under a read limit: every output buffer it requests, and their sum, is bounded
   by a function of the limit alone - for every header verdict, every inflated content, every CRC
   verdict and EVERY announced size; the requests are literally the same as for an announced
   size of 0 *)
Theorem C06_gunzip_alloc_independent_of_isize :
  forall grow, (forall c, 5 * c <= 4 * grow c) -> (forall c, grow c <= 2 * c + 768) ->
  forall fuel lim hdr inflated crc announced,
    0 < lim ->
    let g := mk_gzsrc hdr inflated crc announced in
    Forall (fun a => a <= gunzip_cap_bound lim) (gunzip_allocs grow fuel lim g) /\
    sum_N (gunzip_allocs grow fuel lim g) <= gunzip_total_bound lim /\
    gunzip_allocs grow fuel lim g = gunzip_allocs grow fuel lim (mk_gzsrc hdr inflated crc 0).
Proof. exact gunzip_alloc_independent_of_isize. Qed.
Print Assumptions C06_gunzip_alloc_independent_of_isize.

(* the variant that sizes the output buffer from the trailer before inflating is not bounded by
   any function of the limit: for every limit a payload that inflates to NOTHING makes it
   request more than the bound *)
Theorem C06_gunzip_presized_refuted :
  forall grow fuel lim, exists g,
    gz_inflated g = [] /\
    ~ Forall (fun a => a <= gunzip_total_bound lim) (gunzip_allocs_presized grow fuel lim g).
Proof. exact gunzip_presized_unbounded. Qed.
Print Assumptions C06_gunzip_presized_refuted.

(* what is delivered is within the limit, and a trailer that announces anything but the true
   length (mod 2^32) is refused *)
Theorem C06_gunzip_result_bounded : forall lim g y,
  0 < lim -> gunzip_result lim g = Some y -> blen y <= lim.
Proof. exact gunzip_result_bounded. Qed.
Print Assumptions C06_gunzip_result_bounded.

Theorem C06_gunzip_forged_isize_refused : forall lim g,
  gz_isize g <> blen (gz_inflated g) mod 4294967296 -> gunzip_result lim g = None.
Proof. exact gunzip_forged_isize_refused. Qed.
Print Assumptions C06_gunzip_forged_isize_refused.

(* md5: nothing is sized from the payload, the result is shorter than the input *)
Theorem C06_md5_unpack_alloc_constant : forall len,
  Forall (fun a => a <= 16) (md5_unpack_allocs len).
Proof. exact md5_unpack_allocs_constant. Qed.
Print Assumptions C06_md5_unpack_alloc_constant.

Theorem C06_md5_unpack_result_shorter : forall len ok n,
  md5_unpack_result len ok = Some n -> n + 16 = len /\ ok = true.
Proof. exact md5_unpack_result_shorter. Qed.
Print Assumptions C06_md5_unpack_result_shorter.

(* regenerated from xfer/*/ on every run: the packages that register a transfer filter are the
   ones whose filters cmd/c06 drives (table [shipped] in harness/cmd/c06/forged.go) - a new
   shipped filter breaks this until it is driven too ... *)
Theorem C06_shipped_filters_are_the_driven_ones :
  Generated.C06Xfer.c06_shipped_filter_pkgs = ["gzip"%string; "md5"%string].
Proof. vm_compute. reflexivity. Qed.
Print Assumptions C06_shipped_filters_are_the_driven_ones.

(* ... and no function on the unpack path of a shipped filter sizes an allocation at run time
   from anything but the length of data it already holds (no make / Grow / ChangeLen / CopyN /
   Repeat whose size is read out of the payload); every such package has an OnUnpack row *)
Definition ends_with (s suf : string) : bool :=
  String.eqb (substring (String.length s - String.length suf) (String.length suf) s) suf.

Theorem C06_unpack_paths_size_nothing_at_run_time :
  forallb (fun r => N.eqb (snd r) 0) Generated.C06Xfer.c06_unpack_path_table = true /\
  forallb (fun p => existsb (fun r => String.eqb (fst (fst r)) p && ends_with (snd (fst r)) ".OnUnpack")
                            Generated.C06Xfer.c06_unpack_path_table)
          Generated.C06Xfer.c06_shipped_filter_pkgs = true.
Proof. split; vm_compute; reflexivity. Qed.
Print Assumptions C06_unpack_paths_size_nothing_at_run_time.

(* non-vacuity: Go's growth for byte slices (double below 256, a quarter more plus 192 above,
   before the size-class round-up) satisfies the two constraints; a 45-byte payload announcing
   256 MiB under a 64 KiB limit: HEAD requests 512 bytes, the pre-sizing variant 256 MiB *)
Example C06_go_grow_lo : forall c, 5 * c <= 4 * go_grow c.
Proof. exact go_grow_lo. Qed.
Example C06_go_grow_hi : forall c, go_grow c <= 2 * c + 768.
Proof. exact go_grow_hi. Qed.
Example C06_example_forged_isize_head :
  gunzip_allocs go_grow 100 65536 (mk_gzsrc true [] false 268435456) = [512].
Proof. vm_compute. reflexivity. Qed.
Example C06_example_forged_isize_presized :
  gunzip_allocs_presized go_grow 100 65536 (mk_gzsrc true [] false 268435456) = [268435968].
Proof. vm_compute. reflexivity. Qed.
Example C06_example_bomb_cut_off :
  gunzip_result 4096 (mk_gzsrc true (repeat "z"%byte 5000) true 5000) = None.
Proof. vm_compute. reflexivity. Qed.
