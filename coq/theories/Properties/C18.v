(* C18 - The overload plugin never admits more than its connection and rate limits.
   Statements only; every proof is [exact <lemma>].
   Models: Model/ConnLimiter.v (lstep true = repaired overloader.go, lstep false = pinned),
           Model/TokenBucket.v (qstep true = repaired qpslimiter.go, qstep false = pinned).
   A trace is ANY sequence of events, i.e. any interleaving of the atomic steps of any
   number of connections / threads with connect, refuse, close, redial, retry, duplicate
   disconnect and limit-update events; [lrun] / [qrun] return None when an event is not
   enabled, so the theorems quantify over exactly the executions of the model. *)
From Coq Require Import Strings.String Strings.Byte.
From Coq Require Import List Arith NArith ZArith Bool Lia.
From Verif Require Import Base.Bytes Model.Threads Model.ConnLimiter Model.TokenBucket
  Model.OverloaderConn
  Proofs.ThreadsProofs Proofs.ConnLimiterProofs Proofs.TokenBucketProofs Proofs.OverloaderConnProofs.
Import ListNotations.
Local Open Scope Z_scope.

(* ---------------- connection limit ---------------- *)

(* In every reachable state the number of admitted sessions is at most the current
   limit, provided no update of the history LOWERED the limit. *)
Theorem C18_admitted_le_limit : forall m tr s,
  0 < m -> lrun true (linit m) tr = Some s -> mono_updates m tr ->
  admitted s <= c_lim (l_c s).
Proof. exact admitted_le_limit. Qed.
Print Assumptions C18_admitted_le_limit.

(* With arbitrary updates: the bound is the history variable l_hw = the largest limit
   configured since the slot holders last fitted under the limit ... *)
Theorem C18_admitted_le_bound : forall s, reach s -> admitted s <= l_hw s.
Proof. exact admitted_le_bound. Qed.
Print Assumptions C18_admitted_le_bound.

(* ... which falls back to the current limit as soon as they fit again (sessions
   admitted before a decrease are not evicted; nothing else exceeds the new limit). *)
Theorem C18_bound_decays : forall s, reach s ->
  c_tmp (l_c s) <= c_lim (l_c s) -> l_hw s = c_lim (l_c s).
Proof. exact bound_decays. Qed.
Print Assumptions C18_bound_decays.

(* The guard on decreases is necessary: a ticket drawn before a decrease is still
   honoured after it (both in the pinned and in the repaired code). *)
Theorem C18_admitted_le_current_limit_after_decrease_refuted :
  exists s, lrun true (linit 2) witness_decrease = Some s /\
            admitted s = 2 /\ c_lim (l_c s) = 1 /\ l_hw s = 2.
Proof. exact stale_ticket_after_decrease. Qed.
Print Assumptions C18_admitted_le_current_limit_after_decrease_refuted.

(* The counters are exactly the sessions that hold a slot, in every reachable state
   (mid-take and mid-release included) ... *)
Theorem C18_counters_exact : forall s, reach s ->
  c_now (l_c s) = sumz now_of (l_ss s) /\ c_tmp (l_c s) = sumz tmp_of (l_ss s).
Proof. exact counters_exact. Qed.
Print Assumptions C18_counters_exact.

(* ... so when no hook is in progress, now = tmp = admitted sessions (+ dials refused
   by a later plugin, see C18_dial_refused_by_later_plugin_keeps_slot_refuted). *)
Theorem C18_counters_quiescent : forall s, reach s -> quiescent s ->
  c_now (l_c s) = admitted s + leaked s /\ c_tmp (l_c s) = admitted s + leaked s.
Proof. exact counters_quiescent. Qed.
Print Assumptions C18_counters_quiescent.

(* A slot is released at most once and only after it was taken; a finished connection
   has released exactly what it took; a live session holds exactly one slot.  Holds
   even if the framework delivers PostDisconnect twice (event EDupDisc). *)
Theorem C18_slot_released_once : forall s i, reach s ->
  let x := getn sess0 i (l_ss s) in
  0 <= s_rel x <= s_took x /\ s_took x <= 1 /\
  (s_pc x = LDone -> s_rel x = s_took x) /\
  (s_pc x = LLive -> s_took x = 1 /\ s_rel x = 0).
Proof. exact slot_released_once. Qed.
Print Assumptions C18_slot_released_once.

(* A connection refused by an earlier plugin or by the limit never takes a slot, never
   releases one, contributes nothing to the counters and is never admitted. *)
Theorem C18_rejected_takes_no_slot : forall s i, reach s ->
  let x := getn sess0 i (l_ss s) in
  s_rej x = true ->
  s_took x = 0 /\ s_rel x = 0 /\ tmp_of x = 0 /\ now_of x = 0 /\ s_pc x <> LLive.
Proof. exact rejected_takes_no_slot. Qed.
Print Assumptions C18_rejected_takes_no_slot.

(* The pinned code: limit 1, A admitted, B refused by the limit, C admitted while A is
   alive (B's disconnect hook released a slot B never held). *)
Theorem C18_admitted_le_limit_prefix_refuted :
  exists s, lrun false (linit 1) witness_abc = Some s /\
            admitted s = 2 /\ c_lim (l_c s) = 1 /\ quiescent s /\ mono_updates 1 witness_abc.
Proof. exact prefix_over_admission. Qed.
Print Assumptions C18_admitted_le_limit_prefix_refuted.

Theorem C18_rejected_takes_no_slot_prefix_refuted :
  exists s, lrun false (linit 1) [EConnect 0 SAccept false; EStep 0; EStep 0] = Some s /\
            s_rej (getn sess0 0 (l_ss s)) = true /\ s_took (getn sess0 0 (l_ss s)) = 0 /\
            s_rel (getn sess0 0 (l_ss s)) = 1 /\ c_now (l_c s) = -1 /\ c_tmp (l_c s) = -1.
Proof. exact prefix_rejected_releases. Qed.
Print Assumptions C18_rejected_takes_no_slot_prefix_refuted.

(* Not repaired (outside the plugin): peer.Dial runs no disconnect hook for a dial that
   a plugin AFTER the overloader refuses, so the slot taken for it is never returned. *)
Theorem C18_dial_refused_by_later_plugin_keeps_slot_refuted :
  exists s, lrun true (linit 1) witness_dial_leak = Some s /\
            quiescent s /\ admitted s = 0 /\ c_now (l_c s) = 1 /\ c_tmp (l_c s) = 1 /\
            exists s', lrun true s (tr_refused_fixed 1) = Some s' /\ admitted s' = 0.
Proof. exact dial_refused_later_keeps_slot. Qed.
Print Assumptions C18_dial_refused_by_later_plugin_keeps_slot_refuted.

(* Limiter instances.  Update(MaxConn <= 0) drops the limiter, a later Update(MaxConn > 0)
   builds a fresh one; a slot belongs to the instance it was taken from.  In every state
   reachable by connects, refusals, disconnects, limit stores and off/on switches in any
   order, EVERY instance that ever existed (current or replaced) has now/tmp equal to
   the slots held by its own connections - never negative -, its admitted sessions are
   at most its counter and its bound, and at most its limit whenever its holders fit. *)
Theorem C18_every_limiter_instance : forall M g, mreach M ->
  let s := getn ldef g (m_gens M) in
  c_now (l_c s) = sumz now_of (l_ss s) /\ c_tmp (l_c s) = sumz tmp_of (l_ss s) /\
  0 <= c_now (l_c s) /\ 0 <= c_tmp (l_c s) /\
  admitted s <= c_now (l_c s) /\ admitted s <= l_hw s /\
  (c_tmp (l_c s) <= c_lim (l_c s) -> admitted s <= c_lim (l_c s)).
Proof. exact every_instance. Qed.
Print Assumptions C18_every_limiter_instance.

(* The variant that releases through the plugin's CURRENT limiter: limit 1, A admitted,
   limit off, limit 1 again, A disconnects (the fresh instance drops to -1), B and C are
   both admitted through the fresh instance. *)
Theorem C18_release_on_current_limiter_refuted :
  exists M, mrun true minit witness_release_on_current = Some M /\
            let s := getn ldef 1 (m_gens M) in
            admitted s = 2 /\ c_lim (l_c s) = 1 /\ l_hw s = 1 /\ c_now (l_c s) = 1 /\
            sumz now_of (l_ss s) = 2.
Proof. exact release_on_current_refuted. Qed.
Print Assumptions C18_release_on_current_limiter_refuted.

(* The lifecycle obligation the theorems rest on: EClose (= the PostDisconnect plugins run)
   is the only way out of LLive.  If an admitted session could end without the hook (e.g.
   closeLocked returning early because socket.Close reported an error) its slot stays taken:
   limit 1, nobody connected, the next connection is refused; the state is outside the
   invariant. *)
Theorem C18_session_end_without_disconnect_hook_refuted :
  exists s s', lrun true (linit 1) (tr_admit 0) = Some s /\ end_without_hook s 0 = Some s' /\
    quiescent s' /\ admitted s' = 0 /\ c_now (l_c s') = 1 /\ c_tmp (l_c s') = 1 /\
    ~ inv s' /\
    exists s'', lrun true s' (tr_refused_fixed 1) = Some s'' /\ admitted s'' = 0.
Proof. exact end_without_hook_refuted. Qed.
Print Assumptions C18_session_end_without_disconnect_hook_refuted.


(* ---------------- Overloader.Update as an event of the history ---------------- *)

(* The whole plugin (Model/OverloaderConn.v): Update(MaxConn) - limit raised, lowered,
   removed (<= 0), re-created - is ONE event next to the connect / hook-step / verdict / close
   / redial / retry / duplicate-disconnect events of any number of sessions; limiter
   instances have identities, a session belongs to the instance whose pointer its hook read
   and its release goes to that instance.  [oreach] = every history from the plugin as
   overloader.New builds it.  In every reachable state EVERY limiter instance (current or
   replaced) has now/tmp equal to the slots of its own sessions, never negative; the sessions
   admitted through it are at most its counter and its bound, and at most its limit whenever
   its holders fit. *)
Theorem C18_update_history_every_instance : forall st g, oreach st ->
  let s := inst st g in
  c_now (l_c s) = sumz now_of (l_ss s) /\ c_tmp (l_c s) = sumz tmp_of (l_ss s) /\
  0 <= c_now (l_c s) /\ 0 <= c_tmp (l_c s) /\
  admitted s <= c_now (l_c s) /\ admitted s <= l_hw s /\
  (c_tmp (l_c s) <= c_lim (l_c s) -> admitted s <= c_lim (l_c s)).
Proof. exact update_history_every_instance. Qed.
Print Assumptions C18_update_history_every_instance.

(* ... and when none of its sessions is inside a hook, its counters are exactly the number
   of live sessions it admitted (+ the dials a later plugin refused, the known finding). *)
Theorem C18_update_history_instance_quiescent : forall st g, oreach st ->
  let s := inst st g in
  quiescent s ->
  c_now (l_c s) = admitted s + leaked s /\ c_tmp (l_c s) = admitted s + leaked s.
Proof. exact update_history_instance_quiescent. Qed.
Print Assumptions C18_update_history_instance_quiescent.

(* Sessions remember the instance that admitted them: whatever Updates happened since, a
   session that appears in the books of instance g (drew a ticket, holds a slot, is live, is
   being released ...) is recorded for g and is in the books of no other instance - so the
   release at its end can only go to g. *)
Theorem C18_session_belongs_to_one_instance : forall st g k, oreach st ->
  s_pc (getn sess0 k (l_ss (inst st g))) <> LIdle ->
  getn HNone k (o_where st) = HInst g /\
  forall g', g' <> g -> s_pc (getn sess0 k (l_ss (inst st g'))) = LIdle.
Proof. exact session_belongs_to_one_instance. Qed.
Print Assumptions C18_session_belongs_to_one_instance.

(* After any history the pointer agrees with the stored configuration: a limiter exists
   exactly when the configured MaxConn is positive, and its limit is the configured value. *)
Theorem C18_limit_is_configured : forall st, oreach st ->
  match o_cur st with
  | None => o_cfg st <= 0
  | Some g => (g < length (o_gens st))%nat /\ 0 < o_cfg st /\ c_lim (l_c (inst st g)) = o_cfg st
  end.
Proof. exact limit_is_configured. Qed.
Print Assumptions C18_limit_is_configured.

(* Limit m at start and any history whose Updates raise or lower the limit but never remove
   it: there is ONE instance and it counts every admitted session, so the TOTAL number of
   admitted sessions is at most its bound, and at most the configured limit whenever the
   holders fit under it (after a decrease: once enough of them have left). *)
Theorem C18_total_admitted_without_limiter_removal : forall m tr st,
  0 < m -> never_removed tr -> orun false oempty (OUpdate m :: tr) = Some st ->
  o_cur st = Some 0%nat /\ oadmitted st = admitted (inst st 0) /\
  oadmitted st <= l_hw (inst st 0) /\
  (c_tmp (l_c (inst st 0)) <= o_cfg st -> oadmitted st <= o_cfg st).
Proof. exact total_admitted_without_removal. Qed.
Print Assumptions C18_total_admitted_without_limiter_removal.

(* The hypothesis is needed: a limiter re-created by Update(0), Update(N) starts from zero
   and does not count the sessions that live on (limit 1: A admitted, off, on(1), B
   admitted: two sessions, configured limit 1, each instance within its own limit).
   This is what HEAD does; the per-instance statement above is the one that holds. *)
Theorem C18_total_admitted_across_recreation_refuted :
  exists st, orun false oempty witness_recreate = Some st /\
             oadmitted st = 2 /\ o_cfg st = 1 /\ o_cur st = Some 1%nat /\
             admitted (inst st 0) = 1 /\ admitted (inst st 1) = 1 /\
             c_lim (l_c (inst st 0)) = 1 /\ c_lim (l_c (inst st 1)) = 1.
Proof. exact total_across_recreation_refuted. Qed.
Print Assumptions C18_total_admitted_across_recreation_refuted.

(* The variant whose releaseConnFor releases through the CURRENT limiter: limit 2, A and B
   admitted, Update(0), Update(2), A and B end, then FOUR sessions are admitted through the
   fresh instance whose limit is 2 (its counter says 2), and the replaced instance still
   books the two sessions that are gone. *)
Theorem C18_release_to_current_instance_refuted :
  exists st, orun true oempty witness_release_to_current = Some st /\
             let s := inst st 1 in
             o_cfg st = 2 /\ c_lim (l_c s) = 2 /\ admitted s = 4 /\ oadmitted st = 4 /\
             c_now (l_c s) = 2 /\ sumz now_of (l_ss s) = 4 /\
             c_now (l_c (inst st 0)) = 2 /\ admitted (inst st 0) = 0.
Proof. exact release_to_current_refuted. Qed.
Print Assumptions C18_release_to_current_instance_refuted.

(* ---------------- rate limit ---------------- *)

(* Any window [tr] of any interleaving starting in any well-formed state: the takes
   admitted in the window are at most the tokens present at its start plus the refill
   amounts of the ticks completed in it.  No slack term at all. *)
Theorem C18_bucket_bound : forall s tr s' os,
  wf s -> qrun true s tr = Some (s', os) ->
  count_admitted os <= Z.max (b_tokens (q_b s)) 0 + (q_refill s' - q_refill s).
Proof. exact bucket_window. Qed.
Print Assumptions C18_bucket_bound.

(* Constant configuration (capacity l, refill o per tick): admitted in any window of
   any history <= capacity + once * ticks-in-window (hence also with the one admission
   of slack per tick that the property grants). *)
Theorem C18_bucket_bound_const : forall l o tr0 tr s os0 s' os,
  0 < o -> o <= l ->
  Forall (fun e => is_set e = false) tr0 -> Forall (fun e => is_set e = false) tr ->
  qrun true (qinit l o) tr0 = Some (s, os0) ->
  qrun true s tr = Some (s', os) ->
  count_admitted os <= l + o * count_ticks os.
Proof. exact bucket_bound_const. Qed.
Print Assumptions C18_bucket_bound_const.

(* The bucket never holds more than the largest capacity configured so far. *)
Theorem C18_tokens_le_capacity : forall cas l o tr s os,
  o <= l -> qrun cas (qinit l o) tr = Some (s, os) -> b_tokens (q_b s) <= q_cap s.
Proof. exact tokens_le_capacity. Qed.
Print Assumptions C18_tokens_le_capacity.

(* The pinned updateToken (load ... store): every take that falls between the load and
   the store is handed out again; capacity 3, refill 1: one tick, six admissions. *)
Theorem C18_bucket_bound_one_per_tick_prefix_refuted :
  exists s' os, qrun false (qinit 3 1) witness_lost_update = Some (s', os) /\
    Forall (fun e => is_set e = false) witness_lost_update /\
    count_ticks os = 1 /\ count_admitted os = 6 /\
    3 + 1 * count_ticks os + count_ticks os < count_admitted os.
Proof. exact prefix_one_per_tick_refuted. Qed.
Print Assumptions C18_bucket_bound_one_per_tick_prefix_refuted.

(* What the pinned code does guarantee, with one ticker goroutine (qrun1: a tick starts
   only when no updateToken is in progress): the slack is exactly the number of takes
   admitted between the load and the store of the window's ticks (history variable
   q_slack) - up to a whole bucket per tick, not one admission per tick. *)
Theorem C18_bucket_bound_prefix_exact_slack : forall l o tr0 s os0 tr s' os, 0 < o ->
  qrun1 false (qinit l o) tr0 = Some (s, os0) ->
  qrun1 false s tr = Some (s', os) ->
  count_admitted os <=
    Z.max (b_tokens (q_b s)) 0 + (q_refill s' - q_refill s) + (q_slack s' - q_slack s).
Proof. exact bucket_window_prefix. Qed.
Print Assumptions C18_bucket_bound_prefix_exact_slack.

(* ... and it is tight up to the last refill: the refuting schedule has 6 admissions with capacity 3, refill 1, slack 3 (one refilled token is left over). *)
Theorem C18_bucket_bound_prefix_slack_attained :
  exists s' os, qrun1 false (qinit 3 1) witness_lost_update = Some (s', os) /\
                count_admitted os = 6 /\ q_refill s' = 1 /\ q_slack s' = 3.
Proof. exact prefix_witness_one_ticker. Qed.
Print Assumptions C18_bucket_bound_prefix_slack_attained.

(* One refill source per limiter: after any sequence of update() calls (limit and/or
   interval changes in any direction) exactly one ticker still fires, it has the
   configured interval, so at most w / interval + 1 ticks fall into a wall-clock window
   of length w - this is what turns "once * ticks" into a bound per unit of time. *)
Theorem C18_one_refill_source : forall l iv us w,
  let s := kupdates true (kinit l iv) us in
  firing s = 1 /\ fires_in w s = w / k_interval s + 1.
Proof. exact ticker_sources. Qed.
Print Assumptions C18_one_refill_source.

(* What the code on HEAD also does: each interval change leaves one goroutine behind
   (Ticker.Stop does not close the channel startTicker ranges over) - a goroutine leak,
   not a refill source. *)
Theorem C18_ticker_goroutines : forall b us s,
  goroutines (kupdates b s us) = goroutines s + interval_changes (k_limit s) (k_interval s) us.
Proof. exact ticker_goroutines. Qed.
Print Assumptions C18_ticker_goroutines.

(* The variant of update() without q.stopTicker(): the old ticker keeps refilling. *)
Theorem C18_one_refill_source_without_stop_refuted :
  let s := kupdates false (kinit 100 10000000) [(100, 100000000)] in
  firing s = 2 /\ fires_in 1000000000 s = 112 /\ 1000000000 / k_interval s + 1 = 11.
Proof. exact no_stop_two_sources. Qed.
Print Assumptions C18_one_refill_source_without_stop_refuted.

(* A call or push is refused exactly when the total bucket or (after it) the handler's
   bucket has no token; a refused call gets an error reply with code 500 and its
   handler does not run; a refused push is dropped. *)
Theorem C18_rejected_gets_error_reply : forall total handler,
  let '(v, total', handler') := post_read_header total handler in
  (v = VPass <-> has_token total /\ has_token handler) /\
  (v <> VPass -> v = VReject 500 /\ call_outcome v = ErrorReply 500 /\ push_outcome v = Dropped /\
                 handler' = handler).
Proof. exact hook_verdict. Qed.
Print Assumptions C18_rejected_gets_error_reply.

(* Overloader.Update on a rate limiter never refills: a limiter that existed before keeps
   exactly its tokens (limit and refill amount are stored, 1 <= once <= limit as the
   QSetOnce event of C18_bucket_bound requires); only a limiter that did not exist is
   created, full; MaxQPS <= 0 removes it. *)
Theorem C18_qps_update_never_refills : forall cur m iv b',
  ov_update cur m iv = Some (Some b') ->
  b_limit b' = m /\ 0 < b_once b' <= m /\
  match cur with
  | Some b => b_tokens b' = b_tokens b
  | None => b_tokens b' = m
  end.
Proof. exact ov_update_no_refill. Qed.
Print Assumptions C18_qps_update_never_refills.

(* ---------------- non-vacuity ---------------- *)
Example C18_example_reach :
  exists s, reach s /\ admitted s = 1 /\ quiescent s.
Proof.
  eexists. split; [exists 1, (tr_admit 0 ++ tr_refused_fixed 1); split; [lia | vm_compute; reflexivity]|].
  split; [vm_compute; reflexivity | repeat constructor].
Qed.

Example C18_example_bucket :
  exists s os, qrun true (qinit 3 1) ([QTick 0; QStep 0] ++ take_now 1) = Some (s, os) /\
               wf s /\ count_admitted os = 1.
Proof.
  eexists. eexists. split; [vm_compute; reflexivity|]. split; [|vm_compute; reflexivity].
  split; [vm_compute; reflexivity | repeat constructor].
Qed.

Example C18_example_oreach :
  exists st, oreach st /\ oadmitted st = 2 /\ length (o_gens st) = 2%nat /\
             quiescent (inst st 0) /\ quiescent (inst st 1).
Proof.
  eexists. split; [exists witness_recreate; vm_compute; reflexivity|].
  split; [vm_compute; reflexivity|]. split; [vm_compute; reflexivity|].
  split; vm_compute; repeat constructor.
Qed.

Example C18_example_without_removal :
  exists st, orun false oempty (OUpdate 2 :: (o_admit 0 ++ [OUpdate 3; OUpdate 1] ++ o_end 0)) = Some st /\
             never_removed (o_admit 0 ++ [OUpdate 3; OUpdate 1] ++ o_end 0) /\ o_cfg st = 1.
Proof.
  eexists. split; [vm_compute; reflexivity|]. split; [cbn; repeat split; lia | vm_compute; reflexivity].
Qed.
