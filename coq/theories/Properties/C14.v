(* C14 - documented concurrent use of sessions and peers is free of data races (PARTIAL).
   What is proved: the logic "every shared location is consistently protected => no race", for
   every well-formed execution of the lockset model (Model/Lockset.v), and that the access table
   regenerated from /repo's current source (Generated/C14Locks.v) satisfies the premise, up to
   the committed exceptions of Model/C14Allow.v. What is not proved: that the Go code's
   executions are executions of the model (the translator's lexical lock tracking is trusted);
   actual races are searched with the Go race detector (harness/cmd/c14).
   Statements only. *)
From Coq Require Import Strings.String Strings.Byte.
From Coq Require Import List Arith NArith Bool Lia.
From Verif Require Import Model.Lockset Model.LockTable Model.C14Allow Model.Handed
     Proofs.LocksetProofs Proofs.LockTableProofs Proofs.LocksetExecProofs Proofs.HandedProofs
     Generated.C14Locks Generated.C14Handed.
Import ListNotations.

(* For every execution - any number of threads, any interleaving that respects mutual exclusion
   and pre-publication ownership - if every access to an already published location follows
   that location's discipline (all atomic / never written / a common lock, writers in write
   mode), no two conflicting accesses are unordered by happens-before. *)
Theorem consistent_locksets_race_free :
  forall (D : loc -> discipline) (tr : list event),
    wf init tr -> follows D init tr = true -> ~ race tr.
Proof. exact lockset_race_free. Qed.
Print Assumptions consistent_locksets_race_free.

(* Table level: a consistent table is such a discipline. [cls] names the (struct, field) of a
   location, [lk x L] the instance of lock class L that guards x's object; an execution
   conforms when each shared access is an instance of a row (same kind and atomicity, holding
   at least the row's locks). *)
Theorem C14_consistent_table_race_free :
  forall (T : list acc) (cls : loc -> key) (lk : loc -> string -> lock),
    all_consistent T = true ->
    forall tr, wf init tr -> conforms T cls lk init tr -> ~ race tr.
Proof. exact table_race_free_lemma. Qed.
Print Assumptions C14_consistent_table_race_free.

(* The table derived from the current source: every location's post-publication accesses are
   all atomic, or all reads, or all under one lock (writers in write mode) - except the
   committed allow-list and the known finding. Re-evaluated on every run. *)
Theorem all_locations_consistent :
  all_consistent (effective (c14_allow ++ c14_findings) c14_accesses) = true.
Proof. vm_compute. reflexivity. Qed.
Print Assumptions all_locations_consistent.

(* hence: executions that conform to the generated table have no race *)
Theorem C14_generated_table_race_free :
  forall (cls : loc -> key) (lk : loc -> string -> lock) tr,
    wf init tr ->
    conforms (effective (c14_allow ++ c14_findings) c14_accesses) cls lk init tr -> ~ race tr.
Proof. exact (fun cls lk => table_race_free_lemma _ cls lk all_locations_consistent). Qed.
Print Assumptions C14_generated_table_race_free.

(* every call site of a function with a caller-holds summary (closeLocked, callCmd.done/cancel,
   socket.initOptimize, the redialForClientLocked closure, the Overloader.update* helpers) holds
   the summarised lock, or still owns the object *)
Theorem C14_callers_hold_summarised_locks : calls_ok c14_calls = true.
Proof. vm_compute. reflexivity. Qed.
Print Assumptions C14_callers_hold_summarised_locks.

(* no exception is stale: each allow-list / finding entry still matches a row *)
Theorem C14_exceptions_all_used : allow_used (c14_allow ++ c14_findings) c14_accesses = true.
Proof. vm_compute. reflexivity. Qed.
Print Assumptions C14_exceptions_all_used.

(* Known finding (redial): without excluding the unlocked loads of socket.Conn (promoted
   net.Conn methods, ID) the table is NOT consistent - socket.Reset rewrites Conn under
   socket.mu while those readers take no lock. Confirmed by the race detector. *)
Theorem C14_unguarded_socket_conn_refuted :
  In ("socket", "Conn")%string (bad_locations (effective c14_allow c14_accesses)).
Proof. vm_compute. left. reflexivity. Qed.
Print Assumptions C14_unguarded_socket_conn_refuted.

(* The discipline matters: a well-formed execution with a race exists once it is dropped, and
   that execution follows no discipline at all. *)
Theorem C14_broken_discipline_refuted : exists tr, wf init tr /\ race tr.
Proof. exact broken_discipline_races. Qed.
Print Assumptions C14_broken_discipline_refuted.

Theorem C14_racy_trace_follows_no_discipline : forall D, follows D init racy_trace = false.
Proof. exact racy_trace_follows_nothing. Qed.
Print Assumptions C14_racy_trace_follows_no_discipline.

(* The executable definitions that the correspondence check runs against the Go race detector
   (Corr/C14.v: [wfb], [races]) are exactly the relational notions of the theorems above. *)
Theorem C14_executable_races_exact : forall tr i j, In (i, j) (races tr) <-> race_at tr i j.
Proof. exact races_exact. Qed.
Print Assumptions C14_executable_races_exact.

Theorem C14_executable_raceb_exact : forall tr, raceb tr = true <-> race tr.
Proof. exact raceb_exact. Qed.
Print Assumptions C14_executable_raceb_exact.

Theorem C14_executable_wfb_exact : forall tr, wfb tr = true <-> wf init tr.
Proof. exact wfb_exact. Qed.
Print Assumptions C14_executable_wfb_exact.

(* ---- results handed to the user versus recycled (pooled) objects (Model/Handed.v) ----
   After a call has completed, its callCmd's fields are read by the caller at any later time and
   from any of its goroutines (threads 1, 2, ...), while the read loops (thread 0) keep recycling
   their pooled per-message context. [handover s sched]: the reader fills the pooled object and
   the call's field (a copy in memory of its own: [SrcCopy]; the pooled object itself:
   [SrcAlias]), publishes the result by close(doneChan), then [sched] - any sequence of user
   reads of the result and recycling writes of the pooled object.

   A result that owns its memory: no race, for every continuation. *)
Theorem C14_owned_result_race_free :
  forall sched, wf init (handover SrcCopy sched) /\ ~ race (handover SrcCopy sched).
Proof. exact handover_copy_race_free. Qed.
Print Assumptions C14_owned_result_race_free.

(* A result that aliases the recycled object: every continuation is a legal execution, and as
   soon as it contains one user read and one recycling write - in either order, whatever else
   happens - it has a data race. *)
Theorem C14_recycled_alias_refuted :
  forall sched u, In (URead u) sched -> In Recycle sched ->
    wf init (handover SrcAlias sched) /\ race (handover SrcAlias sched).
Proof.
  intros sched u Hu Hr. split; [apply handover_alias_wf | eapply handover_alias_races; eauto].
Qed.
Print Assumptions C14_recycled_alias_refuted.

(* ... and no locking discipline whatsoever describes it once the object is recycled *)
Theorem C14_recycled_alias_follows_no_discipline :
  forall D sched, existsb is_recycle sched = true ->
    follows D init (handover SrcAlias sched) = false.
Proof. exact handover_alias_no_discipline. Qed.
Print Assumptions C14_recycled_alias_follows_no_discipline.

(* The table derived from the current source (Generated/C14Handed.v, translator/
   gen_c14handed.go): no value stored into a reference-typed field of callCmd / fakeCallCmd is an
   alias of memory that a pooled object (handlerCtx, message, Args, ByteBuffer, socket) retains
   across recycling, and no such field's object is given back to a pool. Re-evaluated on every
   run. *)
Theorem C14_user_results_not_recycled : handed_ok c14_handed = true.
Proof. vm_compute. reflexivity. Qed.
Print Assumptions C14_user_results_not_recycled.

(* hence every row is, in the model, a result that owns its memory *)
Theorem C14_handed_results_race_free :
  forall r, In r c14_handed -> forall sched,
    wf init (handover (src_of_row r) sched) /\ ~ race (handover (src_of_row r) sched).
Proof. exact (handed_rows_race_free c14_handed C14_user_results_not_recycled). Qed.
Print Assumptions C14_handed_results_race_free.

(* a row classified recycled / released is the racy variant *)
Theorem C14_recycled_row_races :
  forall r, handed_bad r = true ->
    forall sched u, In (URead u) sched -> In Recycle sched -> race (handover (src_of_row r) sched).
Proof. exact handed_bad_row_races. Qed.
Print Assumptions C14_recycled_row_races.

(* Non-vacuity: the reply metadata of a call is stored by bindReply from the Args pool (owned
   from then on); the analysis knows the memory it must not alias - message.meta is retained
   across message.Reset and returned by the accessor Meta(), the context keeps its two messages -
   and it knows the releasing functions. *)
Example C14_example_handed :
  existsb (fun r => String.eqb (h_struct r) "callCmd" && String.eqb (h_field r) "inputMeta" &&
                    String.eqb (h_fn r) "handlerCtx.bindReply" && String.eqb (h_kind r) "pool")
          c14_handed = true /\
  retained_in c14_pooled "socket.message" "meta" = true /\
  retained_in c14_pooled "erpc.handlerCtx" "input" = true /\
  retained_in c14_pooled "socket.message" "status" = false /\
  In ("socket.message", "Meta", "meta")%string c14_accessors /\
  In "erpc/utils.ReleaseArgs"%string c14_releasers /\
  12 <= length c14_handed.
Proof. vm_compute. repeat split; auto 20; repeat constructor. Qed.

(* Non-vacuity of the premises: a disciplined, well-formed two-thread execution. *)
Example C14_example_locked :
  wf init locked_trace /\ follows (fun _ => DLock 7) init locked_trace = true.
Proof. exact locked_trace_ok. Qed.

(* Non-vacuity of the table theorem: the effective table has several hundred rows and every
   kind of verdict occurs. *)
Example C14_example_verdicts :
  let T := effective (c14_allow ++ c14_findings) c14_accesses in
  verdict_of (rows_of ("session", "status")%string T) = VAtomic /\
  verdict_of (rows_of ("session", "sessionAge")%string T) = VLock "session.sessionAgeLock" /\
  verdict_of (rows_of ("session", "socket")%string T) = VReadOnly /\
  200 <= length T.
Proof. vm_compute. repeat split; repeat constructor. Qed.
