(* C20 (with C01) - obligation over the table regenerated from /repo's CURRENT source on every run
   (translator/gen_c20zerocopy.go -> Generated/C20ZeroCopy.v): every place where the library makes a
   string out of a []byte (or the reverse) WITHOUT copying, or uses unsafe.Pointer, is one of the sites
   committed below.  A zero-copy value shares its bytes with the buffer it was made from; made from a
   pooled read buffer, a recycled message or a recycled context it changes under the user's hands as
   soon as the buffer's next user writes into it - exactly what C20 ("no ... body ... of a previous use
   can be observed") and C01 ("no byte of any other message is ever observable") exclude.  The committed
   list is the set of sites of the tree on which the aliasing oracles of the C01 / C05 / C11 / C20
   harnesses pass, each with the reason why the shared bytes do not outlive the call.  A new site, or
   one more call inside a listed function, breaks C20_zero_copy_sites_reviewed on the next run even if
   no generated schedule happens to reuse the buffer in time. *)
From Coq Require Import Strings.String Strings.Byte.
From Coq Require Import List Arith Bool.
From Verif Require Import Generated.C20ZeroCopy.
Import ListNotations.
Local Open Scope string_scope.

(* (package directory, function, callee, calls allowed, reason) *)
Definition reviewed_sites : list (string * string * string * nat * string) := [
  ("", "(package level)", "StringToBytes", 1, "process-level strings (listener inheritance env, log line, accept-codec meta lookup used as a map key within the call)");
  ("", "GetAcceptBodyCodec", "BytesToString", 1, "process-level strings (listener inheritance env, log line, accept-codec meta lookup used as a map key within the call)");
  ("", "initParentLaddrList", "StringToBytes", 1, "process-level strings (listener inheritance env, log line, accept-codec meta lookup used as a map key within the call)");
  ("", "loggerOutput", "StringToBytes", 1, "process-level strings (listener inheritance env, log line, accept-codec meta lookup used as a map key within the call)");
  ("", "makeCallHandlersFromFunc", "unsafe.Pointer", 3, "reflect: handler argument pointer passed to the user function; the argument value is freshly allocated per request (newArgs), no buffer involved");
  ("", "makeCallHandlersFromStruct", "unsafe.Pointer", 2, "reflect: handler argument pointer passed to the user function; the argument value is freshly allocated per request (newArgs), no buffer involved");
  ("", "makePushHandlersFromFunc", "unsafe.Pointer", 3, "reflect: handler argument pointer passed to the user function; the argument value is freshly allocated per request (newArgs), no buffer involved");
  ("", "makePushHandlersFromStruct", "unsafe.Pointer", 2, "reflect: handler argument pointer passed to the user function; the argument value is freshly allocated per request (newArgs), no buffer involved");
  ("", "setParentLaddrList", "BytesToString", 1, "process-level strings (listener inheritance env, log line, accept-codec meta lookup used as a map key within the call)");
  ("codec", "FormCodec.Marshal", "StringToBytes", 5, "Marshal: the []byte view of a string the codec just built or of the caller's own string, consumed by the frame writer before the call returns; Unmarshal: the string view is parsed (url.ParseQuery / strconv) into fresh values within the call and not retained (PlainCodec *string destinations use string(data), a copy: C11 + c01 aliasing oracle)");
  ("codec", "FormCodec.Unmarshal", "BytesToString", 1, "Marshal: the []byte view of a string the codec just built or of the caller's own string, consumed by the frame writer before the call returns; Unmarshal: the string view is parsed (url.ParseQuery / strconv) into fresh values within the call and not retained (PlainCodec *string destinations use string(data), a copy: C11 + c01 aliasing oracle)");
  ("codec", "PlainCodec.Marshal", "StringToBytes", 3, "Marshal: the []byte view of a string the codec just built or of the caller's own string, consumed by the frame writer before the call returns; Unmarshal: the string view is parsed (url.ParseQuery / strconv) into fresh values within the call and not retained (PlainCodec *string destinations use string(data), a copy: C11 + c01 aliasing oracle)");
  ("codec", "formatProperType", "BytesToString", 1, "Marshal: the []byte view of a string the codec just built or of the caller's own string, consumed by the frame writer before the call returns; Unmarshal: the string view is parsed (url.ParseQuery / strconv) into fresh values within the call and not retained (PlainCodec *string destinations use string(data), a copy: C11 + c01 aliasing oracle)");
  ("codec", "parseProperType", "BytesToString", 1, "Marshal: the []byte view of a string the codec just built or of the caller's own string, consumed by the frame writer before the call returns; Unmarshal: the string view is parsed (url.ParseQuery / strconv) into fresh values within the call and not retained (PlainCodec *string destinations use string(data), a copy: C11 + c01 aliasing oracle)");
  ("mixer/websocket/jsonSubProto", "jsonSubProto.Pack", "StringToBytes", 1, "wire protocol Pack/Unpack: header fields parsed (strconv, gjson, DecodeQuery, ParseBytes copy into the message's own buffers) or written within the call; the body goes through UnmarshalBody, which copies into the destination (C05 recycled-message and deferred-render oracles)");
  ("mixer/websocket/jsonSubProto", "jsonSubProto.Unpack", "BytesToString", 1, "wire protocol Pack/Unpack: header fields parsed (strconv, gjson, DecodeQuery, ParseBytes copy into the message's own buffers) or written within the call; the body goes through UnmarshalBody, which copies into the destination (C05 recycled-message and deferred-render oracles)");
  ("mixer/websocket/jsonSubProto", "jsonSubProto.Unpack", "StringToBytes", 3, "wire protocol Pack/Unpack: header fields parsed (strconv, gjson, DecodeQuery, ParseBytes copy into the message's own buffers) or written within the call; the body goes through UnmarshalBody, which copies into the destination (C05 recycled-message and deferred-render oracles)");
  ("plugin/binder", "toSliceString", "BytesToString", 1, "plugin reads a metadata value as a string for a comparison / conversion within the hook, or hands the handler's own string to the codec; nothing retained beyond the call (C17/C19 harness)");
  ("plugin/heartbeat", "handelHeartbeat", "BytesToString", 1, "plugin reads a metadata value as a string for a comparison / conversion within the hook, or hands the handler's own string to the codec; nothing retained beyond the call (C17/C19 harness)");
  ("plugin/proxy", "proxy.call", "BytesToString", 3, "plugin reads a metadata value as a string for a comparison / conversion within the hook, or hands the handler's own string to the codec; nothing retained beyond the call (C17/C19 harness)");
  ("plugin/proxy", "proxy.push", "BytesToString", 1, "plugin reads a metadata value as a string for a comparison / conversion within the hook, or hands the handler's own string to the codec; nothing retained beyond the call (C17/C19 harness)");
  ("plugin/secure", "decryptPlugin.PostReadCallBody", "StringToBytes", 1, "plugin reads a metadata value as a string for a comparison / conversion within the hook, or hands the handler's own string to the codec; nothing retained beyond the call (C17/C19 harness)");
  ("plugin/secure", "decryptPlugin.PreReadCallBody", "BytesToString", 1, "plugin reads a metadata value as a string for a comparison / conversion within the hook, or hands the handler's own string to the codec; nothing retained beyond the call (C17/C19 harness)");
  ("plugin/secure", "encryptPlugin.PreWriteCall", "BytesToString", 1, "plugin reads a metadata value as a string for a comparison / conversion within the hook, or hands the handler's own string to the codec; nothing retained beyond the call (C17/C19 harness)");
  ("plugin/secure", "isSecure", "BytesToString", 1, "plugin reads a metadata value as a string for a comparison / conversion within the hook, or hands the handler's own string to the codec; nothing retained beyond the call (C17/C19 harness)");
  ("proto/httproto", "httproto.Pack", "BytesToString", 3, "wire protocol Pack/Unpack: header fields parsed (strconv, gjson, DecodeQuery, ParseBytes copy into the message's own buffers) or written within the call; the body goes through UnmarshalBody, which copies into the destination (C05 recycled-message and deferred-render oracles)");
  ("proto/httproto", "httproto.Unpack", "BytesToString", 5, "wire protocol Pack/Unpack: header fields parsed (strconv, gjson, DecodeQuery, ParseBytes copy into the message's own buffers) or written within the call; the body goes through UnmarshalBody, which copies into the destination (C05 recycled-message and deferred-render oracles)");
  ("proto/httproto", "httproto.Unpack", "StringToBytes", 1, "wire protocol Pack/Unpack: header fields parsed (strconv, gjson, DecodeQuery, ParseBytes copy into the message's own buffers) or written within the call; the body goes through UnmarshalBody, which copies into the destination (C05 recycled-message and deferred-render oracles)");
  ("proto/httproto", "httproto.unpack", "BytesToString", 5, "wire protocol Pack/Unpack: header fields parsed (strconv, gjson, DecodeQuery, ParseBytes copy into the message's own buffers) or written within the call; the body goes through UnmarshalBody, which copies into the destination (C05 recycled-message and deferred-render oracles)");
  ("proto/jsonproto", "jsonproto.Pack", "BytesToString", 1, "wire protocol Pack/Unpack: header fields parsed (strconv, gjson, DecodeQuery, ParseBytes copy into the message's own buffers) or written within the call; the body goes through UnmarshalBody, which copies into the destination (C05 recycled-message and deferred-render oracles)");
  ("proto/jsonproto", "jsonproto.Unpack", "StringToBytes", 3, "wire protocol Pack/Unpack: header fields parsed (strconv, gjson, DecodeQuery, ParseBytes copy into the message's own buffers) or written within the call; the body goes through UnmarshalBody, which copies into the destination (C05 recycled-message and deferred-render oracles)");
  ("proto/thriftproto", "tBinaryProto.binaryPack", "BytesToString", 2, "wire protocol Pack/Unpack: header fields parsed (strconv, gjson, DecodeQuery, ParseBytes copy into the message's own buffers) or written within the call; the body goes through UnmarshalBody, which copies into the destination (C05 recycled-message and deferred-render oracles)");
  ("proto/thriftproto", "tBinaryProto.binaryUnpack", "StringToBytes", 2, "wire protocol Pack/Unpack: header fields parsed (strconv, gjson, DecodeQuery, ParseBytes copy into the message's own buffers) or written within the call; the body goes through UnmarshalBody, which copies into the destination (C05 recycled-message and deferred-render oracles)");
  ("proto/thriftproto", "tStructProto.structPack", "BytesToString", 1, "wire protocol Pack/Unpack: header fields parsed (strconv, gjson, DecodeQuery, ParseBytes copy into the message's own buffers) or written within the call; the body goes through UnmarshalBody, which copies into the destination (C05 recycled-message and deferred-render oracles)");
  ("proto/thriftproto", "tStructProto.structUnpack", "StringToBytes", 1, "wire protocol Pack/Unpack: header fields parsed (strconv, gjson, DecodeQuery, ParseBytes copy into the message's own buffers) or written within the call; the body goes through UnmarshalBody, which copies into the destination (C05 recycled-message and deferred-render oracles)");
  ("socket", "message.String", "BytesToString", 1, "wire protocol Pack/Unpack: header fields parsed (strconv, gjson, DecodeQuery, ParseBytes copy into the message's own buffers) or written within the call; the body goes through UnmarshalBody, which copies into the destination (C05 recycled-message and deferred-render oracles)");
  ("socket", "message.String", "StringToBytes", 1, "wire protocol Pack/Unpack: header fields parsed (strconv, gjson, DecodeQuery, ParseBytes copy into the message's own buffers) or written within the call; the body goes through UnmarshalBody, which copies into the destination (C05 recycled-message and deferred-render oracles)");
  ("socket", "rawProto.readHeader", "BytesToString", 1, "wire protocol Pack/Unpack: header fields parsed (strconv, gjson, DecodeQuery, ParseBytes copy into the message's own buffers) or written within the call; the body goes through UnmarshalBody, which copies into the destination (C05 recycled-message and deferred-render oracles)");
  ("socket", "rawProto.writeHeader", "StringToBytes", 2, "wire protocol Pack/Unpack: header fields parsed (strconv, gjson, DecodeQuery, ParseBytes copy into the message's own buffers) or written within the call; the body goes through UnmarshalBody, which copies into the destination (C05 recycled-message and deferred-render oracles)");
  ("utils", "AppendHTMLEscapeBytes", "b2s", 1, "Args / bytesconv: the string is used as a lookup key or appended (copied) into the container's own kv buffers within the call (append(kv.key[:0], key...)); covered by C20_args_recycled_like_fresh and the c20 args sub-run");
  ("utils", "Args.AddBytesK", "b2s", 1, "Args / bytesconv: the string is used as a lookup key or appended (copied) into the container's own kv buffers within the call (append(kv.key[:0], key...)); covered by C20_args_recycled_like_fresh and the c20 args sub-run");
  ("utils", "Args.AddBytesKV", "b2s", 2, "Args / bytesconv: the string is used as a lookup key or appended (copied) into the container's own kv buffers within the call (append(kv.key[:0], key...)); covered by C20_args_recycled_like_fresh and the c20 args sub-run");
  ("utils", "Args.AddBytesV", "b2s", 1, "Args / bytesconv: the string is used as a lookup key or appended (copied) into the container's own kv buffers within the call (append(kv.key[:0], key...)); covered by C20_args_recycled_like_fresh and the c20 args sub-run");
  ("utils", "Args.DelBytes", "b2s", 1, "Args / bytesconv: the string is used as a lookup key or appended (copied) into the container's own kv buffers within the call (append(kv.key[:0], key...)); covered by C20_args_recycled_like_fresh and the c20 args sub-run");
  ("utils", "Args.HasBytes", "b2s", 1, "Args / bytesconv: the string is used as a lookup key or appended (copied) into the container's own kv buffers within the call (append(kv.key[:0], key...)); covered by C20_args_recycled_like_fresh and the c20 args sub-run");
  ("utils", "Args.PeekMultiBytes", "b2s", 1, "Args / bytesconv: the string is used as a lookup key or appended (copied) into the container's own kv buffers within the call (append(kv.key[:0], key...)); covered by C20_args_recycled_like_fresh and the c20 args sub-run");
  ("utils", "Args.SetBytesK", "b2s", 1, "Args / bytesconv: the string is used as a lookup key or appended (copied) into the container's own kv buffers within the call (append(kv.key[:0], key...)); covered by C20_args_recycled_like_fresh and the c20 args sub-run");
  ("utils", "Args.SetBytesV", "b2s", 1, "Args / bytesconv: the string is used as a lookup key or appended (copied) into the container's own kv buffers within the call (append(kv.key[:0], key...)); covered by C20_args_recycled_like_fresh and the c20 args sub-run");
  ("utils", "Args.SetUintBytes", "b2s", 1, "Args / bytesconv: the string is used as a lookup key or appended (copied) into the container's own kv buffers within the call (append(kv.key[:0], key...)); covered by C20_args_recycled_like_fresh and the c20 args sub-run");
  ("utils", "CountString.String", "BytesToString", 1, "Args / bytesconv: the string is used as a lookup key or appended (copied) into the container's own kv buffers within the call (append(kv.key[:0], key...)); covered by C20_args_recycled_like_fresh and the c20 args sub-run");
  ("utils", "ParseHTTPDate", "b2s", 1, "Args / bytesconv: the string is used as a lookup key or appended (copied) into the container's own kv buffers within the call (append(kv.key[:0], key...)); covered by C20_args_recycled_like_fresh and the c20 args sub-run");
  ("utils", "appendArgBytes", "b2s", 2, "Args / bytesconv: the string is used as a lookup key or appended (copied) into the container's own kv buffers within the call (append(kv.key[:0], key...)); covered by C20_args_recycled_like_fresh and the c20 args sub-run");
  ("utils", "b2s", "unsafe.Pointer", 1, "the conversion helpers themselves");
  ("utils", "delAllArgsBytes", "b2s", 1, "Args / bytesconv: the string is used as a lookup key or appended (copied) into the container's own kv buffers within the call (append(kv.key[:0], key...)); covered by C20_args_recycled_like_fresh and the c20 args sub-run");
  ("utils", "s2b", "unsafe.Pointer", 2, "the conversion helpers themselves");
  ("utils", "setArgBytes", "b2s", 2, "Args / bytesconv: the string is used as a lookup key or appended (copied) into the container's own kv buffers within the call (append(kv.key[:0], key...)); covered by C20_args_recycled_like_fresh and the c20 args sub-run");
  ("utils/color", "IsTerminal", "unsafe.Pointer", 3, "terminal colouring (syscalls on the console handle); no message data");
  ("utils/color", "NewColorable", "unsafe.Pointer", 1, "terminal colouring (syscalls on the console handle); no message data");
  ("utils/color", "Writer.Write", "unsafe.Pointer", 25, "terminal colouring (syscalls on the console handle); no message data")
].

Definition site_key_eqb (a : string * string * string * nat) (b : string * string * string * nat * string) : bool :=
  let '(d, f, c, _) := a in let '(d', f', c', _, _) := b in
  String.eqb d d' && String.eqb f f' && String.eqb c c'.

(* a site of the current source is covered when a committed entry names the same directory,
   function and callee and allows at least as many calls *)
Definition site_reviewed (a : string * string * string * nat) : bool :=
  existsb (fun b => site_key_eqb a b && Nat.leb (snd a) (snd (fst b))) reviewed_sites.

Lemma forallb_Forall {A} (f : A -> bool) l : forallb f l = true -> Forall (fun x => f x = true) l.
Proof. intros H. apply Forall_forall. apply forallb_forall. exact H. Qed.

Theorem C20_zero_copy_sites_reviewed : Forall (fun s => site_reviewed s = true) zero_copy_sites.
Proof. apply forallb_Forall. vm_compute. reflexivity. Qed.
Print Assumptions C20_zero_copy_sites_reviewed.

(* the committed list is not vacuous and the check is not trivially true: a site that is not listed
   (one more zero-copy string in PlainCodec.Unmarshal, the seeded change C01-r5m1 / C16-r5m2) is rejected *)
Example C20_zero_copy_new_site_rejected :
  site_reviewed ("codec", "PlainCodec.Unmarshal", "BytesToString", 1) = false /\
  site_reviewed ("codec", "parseProperType", "BytesToString", 2) = false /\
  site_reviewed ("codec", "parseProperType", "BytesToString", 1) = true.
Proof. vm_compute. repeat split. Qed.
