(* C06 - No received byte sequence crashes, wedges or over-allocates a peer.
   Statements only; every proof is [exact <lemma>] (or a vm_compute over a generated table).
   PARTIAL: "does not crash the process" and "no goroutine stays blocked" are statements about
   the Go runtime; the model contributes (i) the allocation bounds and early refusal, (ii) the
   totality/termination of the read loop on every finite input with every decoder panic ending
   in the recover path, (iii) the regenerated table showing each function that decodes received
   bytes or runs a user handler recovers. The rest is exercised by the harness (cmd/c06). *)
From Coq Require Import Strings.String Strings.Byte.
From Coq Require Import List Arith NArith ZArith Bool Lia.
From Verif Require Import Base.Bytes Base.Outcome Model.Xfer Model.RawProto Model.ReadLoop
  Proofs.RawProofs Proofs.ReadLoopProofs.
From Verif Require Generated.C06Recover.
Import ListNotations.
Local Open Scope N_scope.

(* every buffer the raw reader sizes while reading one message is within the read limit *)
Theorem C06_raw_alloc_bounded : forall lim s,
  Forall (fun a => a <= N.max 4 lim) (raw_allocs lim s).
Proof. exact raw_allocs_bounded. Qed.
Print Assumptions C06_raw_alloc_bounded.

(* a frame announcing a larger size is refused right after its size field ... *)
Theorem C06_raw_oversize_rejected : forall reg lim s b4 rest,
  take 4 s = Ok (b4, rest) -> lim < N_of_be b4 -> raw_unpack reg lim s = Err.
Proof. exact raw_oversize_rejected. Qed.
Print Assumptions C06_raw_oversize_rejected.

(* ... and on a live connection that means disconnection as soon as the 4 bytes have
   arrived, before (and whether or not) any payload is received *)
Theorem C06_oversize_disconnects_before_payload : forall reg lim s b4 rest,
  ltake 4 s = Some (b4, rest) -> lim < N_of_be b4 ->
  forall fuel pre, reader (S fuel) reg lim s pre = (pre + 1, Disconnected).
Proof. exact live_oversize_disconnects. Qed.
Print Assumptions C06_oversize_disconnects_before_payload.

(* the read loop terminates on every finite input (each frame read consumes >= 5 bytes) ... *)
Theorem C06_reader_terminates : forall reg lim fuel s pre,
  (length s < fuel)%nat -> snd (reader fuel reg lim s pre) <> OutOfFuel.
Proof. exact reader_never_out_of_fuel. Qed.
Print Assumptions C06_reader_terminates.

(* ... and ends waiting for more input, disconnected (every decoder error AND every decoder
   panic), closed for an unsupported type, or in the one spot where the code's own outcome
   depends on a recycled buffer's capacity (it then blocks or disconnects) *)
Theorem C06_reader_endings : forall reg lim fuel s pre,
  (length s < fuel)%nat ->
  let e := snd (reader fuel reg lim s pre) in
  e = Blocked \/ e = Disconnected \/ e = Unsupported \/ e = Ambiguous.
Proof. exact reader_endings. Qed.
Print Assumptions C06_reader_endings.

(* the live reader accepts exactly the frames the stream decoder of C05 accepts *)
Theorem C06_live_agrees_with_decoder : forall reg lim s x,
  raw_unpack_live reg lim s = LOk x <-> raw_unpack reg lim s = Ok x.
Proof. exact live_ok_iff. Qed.
Print Assumptions C06_live_agrees_with_decoder.

(* httproto (repaired): no header line, and no body buffer, is ever sized beyond the limit *)
Theorem C06_http_alloc_bounded : forall lim steps size body,
  (body <= Z.of_N lim)%Z -> Forall (fun a => a <= lim) (fst (http_allocs lim steps size body)).
Proof. exact http_allocs_bounded. Qed.
Print Assumptions C06_http_alloc_bounded.

(* gzip filter (repaired): an inflated payload beyond the limit is refused *)
Theorem C06_gunzip_bounded : forall lim x y, gunzip_limited lim x = Some y -> blen y <= lim.
Proof. exact gunzip_limited_bounded. Qed.
Print Assumptions C06_gunzip_bounded.

(* regenerated from session.go / context.go on every run: every function that reads a
   message from the connection or calls a user handler has a deferred recover, and the read
   loop is among them *)
Definition recover_row_ok (r : string * bool * bool * bool) : bool :=
  let '(_, recovers, reads, user) := r in negb (reads || user) || recovers.

Theorem C06_decoders_and_handlers_recover :
  forallb recover_row_ok Generated.C06Recover.c06_recover_table = true /\
  existsb (fun r => String.eqb (fst (fst (fst r))) "session.startReadAndHandle")
          Generated.C06Recover.c06_recover_table = true.
Proof. split; vm_compute; reflexivity. Qed.
Print Assumptions C06_decoders_and_handlers_recover.

(* non-vacuity *)
Example C06_example_oversize :
  reader 10 [] 1000 (hex "7fffffff") 0 = (1, Disconnected).
Proof. vm_compute. reflexivity. Qed.
Example C06_example_panic_is_disconnect :   (* status "%FF." -> index out of range, recovered *)
  snd (reader 50 [] 1000 (hex"000000120001310100000425ff2e2e000000") 0) = Disconnected.
Proof. vm_compute. reflexivity. Qed.
