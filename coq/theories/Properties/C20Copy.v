(* C20 - metadata copies (Args.CopyTo, behind handlerCtx.CopyMeta and callCmd.InputMeta) are
   independent of the container they were taken from, for every destination capacity and every
   later use of either side (refill by Reset+Parse, Add, Set, Del, release and re-acquisition).
   Model: Model/PoolsAlias.v (two containers over one heap of byte buffers, so that sharing is
   representable); lemmas: Proofs/PoolsAliasProofs.v. Statements only. *)
From Coq Require Import Strings.String Strings.Byte.
From Coq Require Import List Arith NArith ZArith Bool Lia.
From Verif Require Import Base.Bytes Base.Val Model.Pools Model.PoolsAlias Proofs.PoolsAliasProofs.
Import ListNotations.

(* [Inv w]: every buffer id a container reaches exists, and no buffer is reached by both
   containers (through visible OR stale slots). It holds for two new containers ... *)
Theorem C20_copy_new_containers_apart : Inv world_empty.
Proof. exact Inv_empty. Qed.
Print Assumptions C20_copy_new_containers_apart.

(* ... is kept by every call on either side - including other.CopyTo(this) into a destination
   of any capacity - and that call leaves what the OTHER container shows unchanged. *)
Theorem C20_copy_independent : forall g w s op, Inv w ->
  Inv (wstep g false w (s, op)) /\
  habs (w_heap (wstep g false w (s, op))) (other s (wstep g false w (s, op)))
  = habs (w_heap w) (other s w).
Proof. exact wstep_independent. Qed.
Print Assumptions C20_copy_independent.

(* after any history (any interleaving of calls and copies in both directions) ... *)
Theorem C20_copy_reachable_worlds_apart : forall g ops, Inv (fst (wrun g false world_empty ops)).
Proof. intros g ops. apply wrun_Inv. exact Inv_empty. Qed.
Print Assumptions C20_copy_reachable_worlds_apart.

(* ... any later operation sequence on one container leaves the other one's abstraction as
   it was: a copy handed to a user never changes behind the user's back, and writing to a
   recycled copy never reaches another message's metadata. *)
Theorem C20_copy_one_side_sequences : forall g s ops w, Inv w ->
  Inv (fst (wrun g false w (map (fun op => (s, op)) ops))) /\
  habs (w_heap (fst (wrun g false w (map (fun op => (s, op)) ops))))
       (other s (fst (wrun g false w (map (fun op => (s, op)) ops))))
  = habs (w_heap w) (other s w).
Proof. exact wrun_one_side. Qed.
Print Assumptions C20_copy_one_side_sequences.

(* The variant of copyArgs that seeds a too-small destination with the SOURCE slots
   (copy(tmp, src) for copy(tmp, dst)) violates it: the copy is right when it is made, and
   shows the next user's pairs once the source has been recycled and refilled. *)
Theorem C20_copy_aliasing_variant_refuted :
  let w2 := fst (wrun g1 true world_empty (firstn 2 alias_history)) in
  let w3 := fst (wrun g1 true world_empty alias_history) in
  habs (w_heap w2) (w_b w2) = [(str "user", str "alice"); (str "role", str "guest")] /\
  habs (w_heap w3) (w_b w3) = [(str "user", str "mallo"); (str "role", str "admin")].
Proof. exact alias_witness. Qed.
Print Assumptions C20_copy_aliasing_variant_refuted.

(* second face: the released copy is re-acquired from the pool and written to; the write lands
   in the other message's metadata *)
Theorem C20_copy_aliasing_variant_refuted_writethrough :
  let w := fst (wrun g1 true world_empty alias_history2) in
  habs (w_heap w) (w_a w) = [(str "auth", str "admin"); (str "role", str "guest")].
Proof. exact alias_witness2. Qed.
Print Assumptions C20_copy_aliasing_variant_refuted_writethrough.

(* the code as it is, on the same history *)
Example C20_copy_as_coded :
  let w3 := fst (wrun g1 false world_empty alias_history) in
  habs (w_heap w3) (w_b w3) = [(str "user", str "alice"); (str "role", str "guest")].
Proof. exact alias_as_coded. Qed.
