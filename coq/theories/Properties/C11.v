(* C11 - Body codecs round-trip their value domain and fail cleanly on garbage.
   Statements only; every proof is [exact <lemma>].
   Models: Model/Strconv.v, Model/UrlQuery.v, Model/PlainCodec.v, Model/FormCodec.v (the
   repaired code of /repo; the [_prefix] definitions are the code as pinned), Model/LibCodecs.v. *)
From Coq Require Import Strings.String Strings.Byte.
From Coq Require Import List Arith NArith ZArith Bool Lia Permutation.
From Verif Require Import Base.Bytes Model.Strconv Model.UrlQuery Model.PlainCodec Model.FormCodec
  Model.LibCodecs Model.MsgBody Model.EncBuffer Proofs.EncBufferProofs Proofs.MsgBodyProofs Proofs.StrconvProofs Proofs.UrlQueryProofs Proofs.PlainCodecProofs
  Proofs.FormCodecProofs Proofs.LibCodecsProofs.
Import ListNotations.

(* ---- shared helpers: decimal text and query escaping, for all values ---- *)

(* ParseInt(FormatInt(z), 10, b) = z for every z of a b-bit signed type *)
Theorem C11_decimal_int_roundtrip : forall bitsz z,
  (- Z.of_N (2 ^ (bitsz - 1)) <= z < Z.of_N (2 ^ (bitsz - 1)))%Z ->
  parse_int bitsz (format_int z) = Some z.
Proof. exact parse_int_format. Qed.
Print Assumptions C11_decimal_int_roundtrip.

Theorem C11_decimal_uint_roundtrip : forall bitsz n,
  (n < 2 ^ bitsz)%N -> parse_uint bitsz (format_uint n) = Some n.
Proof. exact parse_uint_format. Qed.
Print Assumptions C11_decimal_uint_roundtrip.

(* QueryUnescape(QueryEscape(s)) = s for every byte string *)
Theorem C11_query_escape_roundtrip : forall s, query_unescape (query_escape s) = Some s.
Proof. exact unescape_escape. Qed.
Print Assumptions C11_query_escape_roundtrip.

(* ParseQuery(Encode(q)) is q minus the keys without values, for every map q (any keys, any
   values, any number of values per key, value order kept) *)
Theorem C11_values_roundtrip : forall q,
  NoDup (map fst q) ->
  exists form, parse_query (values_encode q) = Some form /\
               forall k, vget form k = nonempty_of (vget q k).
Proof. exact values_roundtrip_lemma. Qed.
Print Assumptions C11_values_roundtrip.

(* A Go map has no order; the model fills an insertion-ordered list.  Encode sorts the keys, so
   its output does not depend on that order (this is what makes the list a faithful stand-in). *)
Theorem C11_encode_order_independent : forall q q',
  Permutation q q' -> NoDup (map fst q) -> values_encode q = values_encode q'.
Proof. exact values_encode_order_independent. Qed.
Print Assumptions C11_encode_order_independent.

(* ---- plain codec ---- *)

(* For every supported value (string, []byte, bool, every int/uint width within its range,
   through any chain of non-nil pointers) and every destination of the same Go type, whatever
   it held before: Unmarshal(Marshal(v)) stores exactly v. *)
Theorem C11_plain_roundtrip : forall v d r,
  plain_pair v d r -> exists s, plain_marshal v = Ok s /\ plain_unmarshal s d = Ok r.
Proof. exact plain_roundtrip_lemma. Qed.
Print Assumptions C11_plain_roundtrip.

(* For every byte string and EVERY destination (any kind, settable or not, nil pointers at any
   level including a nil *string / *[]byte as the destination itself) the plain decoder returns
   a value or an error, never a panic. *)
Theorem C11_plain_decode_total : forall data d, plain_unmarshal data d <> Panic.
Proof. exact plain_decode_total_lemma. Qed.
Print Assumptions C11_plain_decode_total.

(* Whatever the bytes, a successful reflective decode leaves a value of the destination's
   type whose integers lie within the range of their width. *)
Theorem C11_plain_decode_keeps_type : forall data l b l',
  parse_into data l b = Some l' -> same_shape l l' = true /\ ints_in_range l' = true.
Proof. exact parse_into_shape. Qed.
Print Assumptions C11_plain_decode_keeps_type.

(* ---- form codec (repaired code) ---- *)

(* For every well-formed struct value - exported fields of kind string, bool, any int/uint
   width within range, slices and arrays of those of ANY length, untagged nested structs to any
   depth, arbitrary tag and field names provided the flattened keys are distinct - decoding the
   encoding into the zero value of the type yields the value, element order included. *)
Theorem C11_form_roundtrip : forall fs,
  wf_struct fs = true ->
  exists enc, form_marshal (SStruct fs) = Ok enc /\
              form_unmarshal enc (TStruct (zero_fields fs)) = Ok (RStruct fs).
Proof. exact form_roundtrip_lemma. Qed.
Print Assumptions C11_form_roundtrip.

(* url.Values / map[string][]string through the form codec *)
Theorem C11_form_values_roundtrip : forall q,
  NoDup (map fst q) ->
  exists enc form, form_marshal (SValues q) = Ok enc /\
                   form_unmarshal enc TValues = Ok (RValues form) /\
                   forall k, vget form k = nonempty_of (vget q k).
Proof. exact form_values_roundtrip_lemma. Qed.
Print Assumptions C11_form_values_roundtrip.

(* For every byte string and EVERY destination (any struct shape: unsupported kinds, pointers,
   tagged structs, duplicate keys, unexported fields, arrays of any length including 0; maps;
   pointers to interface types whether or not they can hold the map; foreign types) the form
   decoder returns a value or an error, never a panic. *)
Theorem C11_form_decode_total : forall data d, form_unmarshal data d <> Panic.
Proof. exact form_decode_total_lemma. Qed.
Print Assumptions C11_form_decode_total.

(* an interface destination receives the parsed map exactly when it can hold it *)
Theorem C11_form_interface_destination : forall data form,
  parse_query data = Some form ->
  form_unmarshal data (TIface true) = Ok (RValues form) /\ form_unmarshal data (TIface false) = Err.
Proof. exact form_iface_lemma. Qed.
Print Assumptions C11_form_interface_destination.

(* The decoder stays inside the destination: an accepted array keeps its length, the elements
   of an accepted slice are of the element type, a set field keeps its kind and width. *)
(* struct level: whatever the bytes, a successful decode yields a value of the destination's
   type - same fields in the same order, leaves of the same kind and width (or untouched),
   slices of the element type (or untouched), arrays of the same length, recursively. *)
Theorem C11_form_decode_keeps_type : forall data fs fs',
  form_unmarshal data (TStruct fs) = Ok (RStruct fs') -> fields_rel fs fs'.
Proof. exact form_decode_keeps_type_lemma. Qed.
Print Assumptions C11_form_decode_keeps_type.

(* The content of a struct destination after the call, failed or not ([form_unmarshal_struct_st],
   which the correspondence run compares with the real destination after an error): it agrees
   with the decoder on the outcome and on the value, and even after an error it is a value of
   the destination's type - a failed decode leaves fields and array elements written before the
   failing one, never anything of another kind, width or length. *)
Theorem C11_form_state_agrees : forall data fs,
  form_unmarshal data (TStruct fs) = omap RStruct (collapse (form_unmarshal_struct_st data fs)).
Proof. exact form_unmarshal_st_agrees. Qed.
Print Assumptions C11_form_state_agrees.

Theorem C11_form_failed_decode_keeps_type : forall data fs,
  fields_rel fs (fst (form_unmarshal_struct_st data fs)).
Proof. exact form_failed_decode_keeps_type_lemma. Qed.
Print Assumptions C11_form_failed_decode_keeps_type.

Theorem C11_form_decode_array_length : forall elems vals es,
  set_array elems vals = Ok es -> length es = length elems.
Proof. exact set_array_length. Qed.
Print Assumptions C11_form_decode_array_length.

Theorem C11_form_decode_slice_kinds : forall p vals es,
  set_slice p vals = Ok es ->
  Forall (fun e => leaf_kind_eq p e = true) es /\ length es = length vals.
Proof. exact set_slice_kinds. Qed.
Print Assumptions C11_form_decode_slice_kinds.

Theorem C11_form_decode_field_kind : forall cur s l,
  set_with_proper_type cur s = Ok l -> leaf_kind_eq cur l = true.
Proof. exact set_wpt_kind. Qed.
Print Assumptions C11_form_decode_field_kind.

(* ---- the key of a field is the same at the two sites, for every tag ----
   setStructToForm and mapFormToStruct each read the `form` tag on their own.  [set_fields_k] /
   [map_fields_k] are the two loops with the reader of the tag explicit ([whole_tag]: the whole
   value of Tag.Get, [cut_comma]: the name up to the first comma, as encoding/json reads tags). *)

(* the model of /repo is the instance in which BOTH sites read the whole tag *)
Theorem C11_form_sites_read_whole_tag : forall fs data,
  form_marshal (SStruct fs) = Ok (form_marshal_struct_k whole_tag fs) /\
  form_unmarshal data (TStruct fs) = omap RStruct (form_unmarshal_struct_k whole_tag data fs).
Proof. exact form_sites_whole_tag_lemma. Qed.
Print Assumptions C11_form_sites_read_whole_tag.

(* For EVERY pair of readers that make the same thing of every tag occurring in the struct (at
   any depth) and every struct that is well formed as they show it: round trip.  Nothing is
   assumed about the tags themselves: commas, spaces, reserved characters, any bytes. *)
Theorem C11_form_key_agreement_roundtrip : forall tr_enc tr_dec fs,
  tags_agree tr_enc tr_dec fs = true ->
  wf_struct (retag tr_enc fs) = true ->
  form_unmarshal_struct_k tr_dec (form_marshal_struct_k tr_enc fs) (zero_fields fs) = Ok fs.
Proof. exact form_key_agreement_roundtrip_lemma. Qed.
Print Assumptions C11_form_key_agreement_roundtrip.

(* the readers of /repo *)
Theorem C11_form_whole_tag_roundtrip : forall fs,
  wf_struct fs = true ->
  form_unmarshal_struct_k whole_tag (form_marshal_struct_k whole_tag fs) (zero_fields fs) = Ok fs.
Proof. exact form_whole_tag_roundtrip_lemma. Qed.
Print Assumptions C11_form_whole_tag_roundtrip.

(* Agreement is necessary: whenever the two sites compute different keys for a field, the
   decoder succeeds and leaves that field zero, whatever value was encoded (for every pair of
   readers, every field name, every tag, every leaf). *)
Theorem C11_form_key_agreement_necessary : forall tr_enc tr_dec name tag l,
  eff_name name (tr_enc tag) <> eff_name name (tr_dec tag) ->
  let fs := FCons name tag true (FLeaf l) FNil in
  form_unmarshal_struct_k tr_dec (form_marshal_struct_k tr_enc fs) (zero_fields fs)
  = Ok (zero_fields fs).
Proof. exact form_key_disagreement_lemma. Qed.
Print Assumptions C11_form_key_agreement_necessary.

(* one site cutting the tag at the first comma while the other keeps the whole tag loses every
   field whose tag contains a comma (scalar, array, slice, nested): encoder side ... *)
Theorem C11_form_encoder_cuts_comma_refuted :
  exists fs, wf_struct fs = true /\ wf_struct (retag cut_comma fs) = true /\
    form_unmarshal_struct_k whole_tag (form_marshal_struct_k cut_comma fs) (zero_fields fs) <> Ok fs.
Proof. exact form_encoder_cuts_comma_refuted_lemma. Qed.
Print Assumptions C11_form_encoder_cuts_comma_refuted.

(* ... and decoder side *)
Theorem C11_form_decoder_cuts_comma_refuted :
  exists fs, wf_struct fs = true /\ wf_struct (retag cut_comma fs) = true /\
    form_unmarshal_struct_k cut_comma (form_marshal_struct_k whole_tag fs) (zero_fields fs) <> Ok fs.
Proof. exact form_decoder_cuts_comma_refuted_lemma. Qed.
Print Assumptions C11_form_decoder_cuts_comma_refuted.

(* ---- the code as pinned violates both halves of the property (four defects, all repaired) ---- *)

(* {A: []int{1,2,3}} `form:"a"` encodes as a=3&a=2&a=1 and decodes to [3 2 1] *)
Theorem C11_form_order_refuted :
  exists fs, wf_struct fs = true /\
  exists enc, form_marshal_prefix (SStruct fs) = Ok enc /\
              form_unmarshal_prefix enc (TStruct (zero_fields fs)) <> Ok (RStruct fs).
Proof. exact form_order_refuted_lemma. Qed.
Print Assumptions C11_form_order_refuted.

(* b=1&b=2&b=3 into {B [2]string `form:"b"`} panics *)
Theorem C11_form_total_refuted :
  exists data fs, form_unmarshal_prefix data (TStruct fs) = Panic.
Proof. exact form_total_refuted_lemma. Qed.
Print Assumptions C11_form_total_refuted.

(* a=1 into a *io.Reader panics in reflect.Value.Set *)
Theorem C11_form_interface_refuted : exists data, form_unmarshal_prefix data (TIface false) = Panic.
Proof. exact form_iface_refuted_lemma. Qed.
Print Assumptions C11_form_interface_refuted.

(* any bytes into a nil *string dereference nil; away from nil *string / *[]byte destinations
   the pinned plain decoder was already total *)
Theorem C11_plain_total_refuted : exists data d, plain_unmarshal_prefix data d = Panic.
Proof. exact plain_total_refuted_lemma. Qed.
Print Assumptions C11_plain_total_refuted.

Theorem C11_plain_decode_total_prefix_guarded : forall data d,
  dst_nonnil d = true -> plain_unmarshal_prefix data d <> Panic.
Proof. exact plain_decode_total_prefix_lemma. Qed.
Print Assumptions C11_plain_decode_total_prefix_guarded.

(* ---- delegating codecs (json, xml, protobuf, thrift): the repository's dispatch keeps the
        library's contract; the contract itself is a hypothesis, tested by the harness ---- *)
Theorem C11_lib_dispatch_roundtrip :
  forall (msg : Type) (lib_marshal : msg -> outcome bytes)
         (lib_unmarshal : bytes -> msg -> outcome msg) (empty : msg),
  (forall m d s, lib_marshal m = Ok s -> lib_unmarshal s d = Ok m) ->
  forall m d s,
    dispatch_marshal msg lib_marshal empty (LMsg msg m) = Ok s ->
    dispatch_unmarshal msg lib_unmarshal s (LDMsg msg d) = Ok (Some m).
Proof. exact dispatch_roundtrip_lemma. Qed.
Print Assumptions C11_lib_dispatch_roundtrip.

Theorem C11_lib_dispatch_total :
  forall (msg : Type) (lib_unmarshal : bytes -> msg -> outcome msg),
  (forall data d, lib_unmarshal data d <> Panic) ->
  forall data d, dispatch_unmarshal msg lib_unmarshal data d <> Panic.
Proof. exact dispatch_total_lemma. Qed.
Print Assumptions C11_lib_dispatch_total.

(* ---- socket/message.go: the byte-stream bypass of MarshalBody / UnmarshalBody ----
   for every codec table (typed bodies delegate to it), every codec id, every payload *)

(* After UnmarshalBody into a *[]byte the body equals the payload exactly, length included,
   whatever the destination held before (longer, shorter, empty, nil slice), whatever its spare
   capacity, whatever the codec id, with or without newBodyFunc. *)
Theorem C11_body_bytes_exact :
  forall T (cu : byte -> option (bytes -> T -> outcome T)) id data s nb,
  data <> [] ->
  exists s', unmarshal_body T cu id data (DPtr T s) nb = Ok (DPtr T s') /\ bs_vis s' = data.
Proof. exact unmarshal_bytes_exact. Qed.
Print Assumptions C11_body_bytes_exact.

Theorem C11_body_bytes_exact_newbody :
  forall T (cu : byte -> option (bytes -> T -> outcome T)) id data s,
  data <> [] ->
  exists s', unmarshal_body T cu id data (DNone T) (Some (DPtr T s)) = Ok (DPtr T s') /\ bs_vis s' = data.
Proof. exact unmarshal_bytes_exact_newbody. Qed.
Print Assumptions C11_body_bytes_exact_newbody.

(* The exception the code makes: an EMPTY payload returns before the type switch, so the body is
   left exactly as it is - a reused *[]byte keeps its old bytes, a typed body is not handed to
   its codec.  (Stated, not hidden: with a fresh destination, as newBodyFunc provides, the body
   is then the empty value.) *)
Theorem C11_body_empty_payload_untouched :
  forall T (cu : byte -> option (bytes -> T -> outcome T)) id (d : mdst T),
  unmarshal_body T cu id [] d None = Ok d.
Proof. exact unmarshal_empty_payload. Qed.
Print Assumptions C11_body_empty_payload_untouched.

(* MarshalBody hands a []byte / *[]byte through unchanged and UnmarshalBody restores it, under
   any pair of codec ids *)
Theorem C11_body_bytes_roundtrip :
  forall T cm (cu : byte -> option (bytes -> T -> outcome T)) id id' b (p : bool) s nb,
  b <> [] ->
  exists enc s', marshal_body T cm id (if p then SPtr T b else SVal T b) = Ok enc /\
                 unmarshal_body T cu id' enc (DPtr T s) nb = Ok (DPtr T s') /\ bs_vis s' = b.
Proof. exact body_bytes_roundtrip. Qed.
Print Assumptions C11_body_bytes_roundtrip.

(* the store stays inside the destination's backing array: a payload that fits the capacity
   leaves the window's length and the bytes beyond the payload untouched *)
Theorem C11_body_store_inside_capacity : forall s data,
  length data <= bs_cap s ->
  length (bs_window (store s data)) = bs_cap s /\
  bs_spare (store s data) = skipn (length data) (bs_window s).
Proof. exact store_inside_capacity. Qed.
Print Assumptions C11_body_store_inside_capacity.

(* UnmarshalBody never panics as long as the codec it delegates to does not (nil body, nil
   *[]byte, unknown codec id included) *)
Theorem C11_body_decode_total :
  forall T (cu : byte -> option (bytes -> T -> outcome T)) id data d nb,
  (forall u x t, cu id = Some u -> u x t <> Panic) ->
  unmarshal_body T cu id data d nb <> Panic.
Proof. exact unmarshal_body_total. Qed.
Print Assumptions C11_body_decode_total.

(* a rewrite that only grows the destination (no truncation) violates exactness: "s" into a
   body holding "longer" gives "songer" *)
Theorem C11_body_no_truncation_refuted :
  forall T (cu : byte -> option (bytes -> T -> outcome T)),
  exists id data s, data <> [] /\
    forall s', unmarshal_body_notrunc T cu id data (DPtr T s) None = Ok (DPtr T s') -> bs_vis s' <> data.
Proof. exact unmarshal_notrunc_refuted. Qed.
Print Assumptions C11_body_no_truncation_refuted.

(* the pinned code dereferenced a nil *[]byte body *)
Theorem C11_body_nil_pointer_refuted :
  forall T (cu : byte -> option (bytes -> T -> outcome T)),
  exists id data, unmarshal_body_prefix T cu id data (DPtrNil T) None = Panic.
Proof. exact unmarshal_nil_ptr_refuted. Qed.
Print Assumptions C11_body_nil_pointer_refuted.

(* ---- an encoder's result is a value ----
   ThriftMarshal returns a slice of the buffer it wrote into.  With a buffer per call (the code of
   /repo) the result reads back as the encoding whatever is encoded afterwards, any number of
   times; a variant that recycles the buffer through a pool loses exactly that.  (In the codec
   models above Marshal is a function to bytes, which presupposes this; the harness checks it on
   the implementation by keeping every encoder result alive, uncopied, across later encodes.) *)
Theorem C11_encode_result_is_a_value : forall enc h encs,
  let (h1, r) := marshal_fresh enc h in read (later marshal_fresh encs h1) r = enc.
Proof. exact fresh_result_is_a_value. Qed.
Print Assumptions C11_encode_result_is_a_value.

Theorem C11_pooled_buffer_refuted :
  exists enc e2 h, let (h1, r) := marshal_pooled enc h in read (later marshal_pooled [e2] h1) r <> enc.
Proof. exact pooled_result_overwritten. Qed.
Print Assumptions C11_pooled_buffer_refuted.

(* ---- non-vacuity ---- *)

(* a nested, tagged, multi-kind struct inside the round-trip domain *)
Example C11_wf_example :
  wf_struct
    (FCons (str "Inner") [] true
       (FStruct (FCons (str "X") [] true (FLeaf (LInt W0 (-5)))
                (FCons (str "Y") (str "y&=") true (FSlice (LStr []) [LStr (str "a b"); LStr []; LStr (str "%;")]) FNil)))
    (FCons (str "D") (str "d") true (FArray (LInt W8 0) [LInt W8 (-128); LInt W8 127])
    (FCons (str "U") [] true (FLeaf (LUint W64 18446744073709551615))
    (FCons (str "B") [] true (FSlice (LBool false) [LBool true; LBool false]) FNil)))) = true.
Proof. vm_compute. reflexivity. Qed.

Example C11_plain_pair_example :
  plain_pair (PRefl (LPtr (LPtr (LInt W16 (-32768))))) (DRefl (LPtr (LPtr (LPtr (LInt W16 7)))))
             (Some (LPtr (LPtr (LPtr (LInt W16 (-32768)))))).
Proof. apply pp_refl_val; reflexivity. Qed.

(* the repaired code on the two inputs that defeat the pinned code *)
Example C11_repaired_on_witnesses :
  form_marshal (SStruct witness_order) = Ok (str "a=1&a=2&a=3") /\
  form_unmarshal (str "b=1&b=2&b=3") (TStruct witness_array)
  = Ok (RStruct (FCons (str "B") (str "b") true
                       (FArray (LStr []) [LStr (str "1"); LStr (str "2")]) FNil)).
Proof. exact form_repaired_on_witnesses. Qed.

(* a nil *string as destination: an error now *)
Example C11_plain_nil_destination : plain_unmarshal (str "x") DStrNil = Err.
Proof. reflexivity. Qed.

(* tags with commas are inside the round-trip domain of the code of /repo: the whole tag is the
   key (escaped on the wire), and the same struct is well formed for a comma-cutting reader too *)
Example C11_comma_tags_example :
  wf_struct witness_comma = true /\ wf_struct (retag cut_comma witness_comma) = true /\
  tags_agree whole_tag cut_comma witness_comma = false /\
  form_marshal_struct_k whole_tag witness_comma
    = str "%2Comitempty=b&%2Comitempty=&%2Comitempty=c%2Cd&name%2Comitempty=x&pair%2Cstring=18446744073709551615&pair%2Cstring=7&zip%2Comitempty=-2147483648&zip%2Comitempty=2147483647" /\
  form_unmarshal_struct_k whole_tag (form_marshal_struct_k whole_tag witness_comma) (zero_fields witness_comma)
    = Ok witness_comma.
Proof. vm_compute. repeat split. Qed.
