(* C01 - A call's result is the reply to that call, under any concurrency.
   Statements only; every proof is [exact <lemma>].

   The model (Model/Wire.v): two sessions joined by one connection (a byte queue per
   direction); any number of goroutines per session; the sequence counter is an int32 that
   wraps; a frame is written as a sequence of chunks under an explicit write-lock bit; the
   pending table is keyed by sequence number and Store replaces; the reader decodes the head
   of its queue with the byte-exact raw protocol (Model/RawProto.v) and dispatches CALL to an
   arbitrary handler function, REPLY to the pending entry with that number, PUSH to the
   receiver.  [reach cfg st]: [st] is reachable from the initial state by ANY sequence of
   steps of ANY number of goroutines on both sides, through states that satisfy the two
   stated hypotheses [sane]:
     window_ok  - for every call still in the table, fewer than 2^32 sequence numbers have
                  been allocated since its own (the code has no guard against wrap);
     frames_ok  - every packed frame is within the documented limits of the raw protocol
                  (the guard of C05_raw_roundtrip).
   The write lock ([cf_lock cfg = true]), the call's own mutex held until AsyncCall returns
   ([cf_callmu cfg = true]) and inverting transfer filters are hypotheses of each theorem; the
   counter-models without the lock and with the early unlock are refuted below.
   PARTIAL: the theorems are about the model's atomic steps; that the Go code's steps are
   atomic where the model says so is validated by forced schedules (harness c01), not proved. *)
From Coq Require Import Strings.String Strings.Byte.
From Coq Require Import List Arith NArith ZArith Bool Lia.
From Verif Require Import Base.Bytes Base.Outcome Model.Quote Model.Args Model.Numfmt
  Model.StatusQuery Model.Xfer Model.Md5 Model.RawProto Model.Wire
  Proofs.XferProofs Proofs.RawProofs Proofs.WireProofs Proofs.WireInv Proofs.WireTheorems
  Proofs.WireOnce Proofs.WireWitness Model.ReadBuf Proofs.ReadBufProofs.
Import ListNotations.
Local Open Scope N_scope.

(* Under the lock discipline, whatever the chunking of each frame and whatever the
   interleaving, each direction's queue is a concatenation of whole well-formed frames plus at
   most one partial frame, which is the already written part of the only goroutine inside
   WriteMessage. *)
Theorem C01_frames_atomic_on_wire : forall cfg,
  cf_lock cfg = true -> (forall g, In g (cf_reg cfg) -> inverts g) -> cf_callmu cfg = true ->
  forall st, reach cfg st -> forall s,
  exists whole partial,
    Forall (Wire.wf_frame cfg) whole /\
    queue st s = concat (map fr_bytes whole) ++ partial /\
    (length (e_writers (ep_of st s)) <= 1)%nat /\
    ((partial = [] /\ e_writers (ep_of st s) = []) \/
     exists x rest, e_writers (ep_of st s) = [(x, partial, rest)] /\
                    partial ++ concat rest = fr_bytes x /\ concat rest <> []).
Proof. exact frames_atomic_lemma. Qed.
Print Assumptions C01_frames_atomic_on_wire.

(* ... and the reader never meets a complete frame that does not decode, nor a message type
   it does not know: it never loses frame sync. *)
Theorem C01_reader_never_desyncs : forall cfg,
  cf_lock cfg = true -> (forall g, In g (cf_reg cfg) -> inverts g) -> cf_callmu cfg = true ->
  forall st, reach cfg st -> forall s, e_broken (ep_of st s) = false.
Proof. exact reader_in_sync_lemma. Qed.
Print Assumptions C01_reader_never_desyncs.

(* When no goroutine is inside WriteMessage, decoding the whole queue frame by frame yields
   exactly the messages written and not yet read, in order, each with its own size. *)
Theorem C01_queue_decodes_to_frames_written : forall cfg,
  cf_lock cfg = true -> (forall g, In g (cf_reg cfg) -> inverts g) -> cf_callmu cfg = true ->
  forall st, reach cfg st -> forall s,
  e_writers (ep_of st s) = [] ->
  exists whole : list frame_rec,
    queue st s = concat (map fr_bytes whole) /\
    raw_decode_all (S (length whole)) (cf_reg cfg) (cf_lim cfg) (queue st s)
    = (map (fun '(ids, m, f) => (m, ids, blen f)) whole, Ok tt).
Proof. exact queue_decodes_lemma. Qed.
Print Assumptions C01_queue_decodes_to_frames_written.

(* The lock hypothesis is necessary: in the counter-model without the write lock a schedule
   of two callers whose chunks interleave makes the peer's handler see a body that no call
   supplied (bytes of the second frame inside the first message). *)
Theorem C01_frames_atomic_without_lock_refuted :
  exists cfg st, cf_lock cfg = false /\ (forall g, In g (cf_reg cfg) -> inverts g) /\
    reach_any cfg st /\
    exists h, In h (e_seen (ep_of st SB)) /\ h_push h = false /\
      forall c, In c (e_issued (ep_of st SA)) -> h_body h <> c_args c.
Proof.
  exact (ex_intro _ cfg_nolock
    (match nolock_breaks_sync with
     | ex_intro _ st (conj R W) => ex_intro _ st (conj eq_refl (conj reg_md5_inverts (conj R W)))
     end)).
Qed.
Print Assumptions C01_frames_atomic_without_lock_refuted.

(* The sequence counter is an int32 incremented with wrap-around. *)
Theorem C01_seq_counter_wraps : forall n,
  int32_ok (seq_of_count n) = true /\
  seq_of_count (n + 1) = int32_wrap (seq_of_count n + 1).
Proof. exact (fun n => conj (seq_of_count_int32 n) (seq_of_count_succ n)). Qed.
Print Assumptions C01_seq_counter_wraps.

(* Under the window hypothesis every pending call is stored under its own number, which is
   the counter value at its issue, and the number the NEXT call will get is not the key of
   any pending call: pending sequence numbers are pairwise distinct and Store never
   replaces a live entry. *)
Theorem C01_pending_seqs_distinct : forall cfg,
  cf_lock cfg = true -> (forall g, In g (cf_reg cfg) -> inverts g) -> cf_callmu cfg = true ->
  forall st, reach cfg st -> forall s q c,
  pget (e_pending (ep_of st s)) q = Some c ->
  c_seq c = q /\ q = seq_of_count (c_no c) /\ In c (e_issued (ep_of st s)) /\
  q <> seq_of_count (e_count (ep_of st s) + 1).
Proof. exact pending_seq_lemma. Qed.
Print Assumptions C01_pending_seqs_distinct.

Theorem C01_store_never_overwrites : forall cfg,
  cf_lock cfg = true -> (forall g, In g (cf_reg cfg) -> inverts g) -> cf_callmu cfg = true ->
  forall st, reach cfg st -> forall s,
  pget (e_pending (ep_of st s)) (seq_of_count (e_count (ep_of st s) + 1)) = None.
Proof. exact store_fresh_lemma. Qed.
Print Assumptions C01_store_never_overwrites.

(* Without the window hypothesis (the code has no guard): a call is issued, 2^32 - 1 further
   sequence numbers are used up while it is pending, the next call gets the same number and
   replaces the table entry; the reply to the first call then completes the second call with
   the handler's output for the FIRST call's arguments. Lock held, frames within limits. *)
Theorem C01_pending_seqs_distinct_unguarded_refuted :
  exists cfg st, cf_lock cfg = true /\ (forall g, In g (cf_reg cfg) -> inverts g) /\
    reach_any cfg st /\
    exists c stt b mt, In (c, RReply stt b mt) (e_done (ep_of st SA)) /\ st_code stt = 0%Z /\
      b <> fst (fst (cf_handler cfg SB (c_method c) (c_args c) (c_meta c))).
Proof.
  exact (ex_intro _ cfg_locked
    (match wrap_rebinds with
     | ex_intro _ st (conj R W) => ex_intro _ st (conj eq_refl (conj reg_md5_inverts (conj R W)))
     end)).
Qed.
Print Assumptions C01_pending_seqs_distinct_unguarded_refuted.

(* No step of the system sets the sequence counter back - in particular a redial keeps
   session.seq (peer.go's redial closure does not touch it) ... *)
Theorem C01_seq_counter_never_set_back : forall cfg st ev st',
  step cfg st ev = Some st' -> forall s, e_count (ep_of st s) <= e_count (ep_of st' s).
Proof. exact step_count_mono. Qed.
Print Assumptions C01_seq_counter_never_set_back.

(* ... and that is necessary: from a state reached under ALL hypotheses in which a call is
   pending, setting the counter back to 0 (a redial that re-numbered from 1) lets the next call
   take the pending call's number, replace it in the table and be completed - OK - by the
   pending call's reply. *)
Theorem C01_seq_counter_reset_refuted :
  exists cfg st evs st', cf_lock cfg = true /\ cf_callmu cfg = true /\
    (forall g, In g (cf_reg cfg) -> inverts g) /\ reach cfg st /\
    run cfg (reset_count st SA) evs = Some st' /\
    exists c stt b mt, In (c, RReply stt b mt) (e_done (ep_of st' SA)) /\ st_code stt = 0%Z /\
      b <> fst (fst (cf_handler cfg SB (c_method c) (c_args c) (c_meta c))).
Proof.
  exact (ex_intro _ cfg_locked
    (match counter_reset_rebinds with
     | ex_intro _ st (ex_intro _ evs (ex_intro _ st' (conj R (conj E W)))) =>
         ex_intro _ st (ex_intro _ evs (ex_intro _ st'
           (conj eq_refl (conj eq_refl (conj reg_md5_inverts (conj R (conj E W)))))))
     end)).
Qed.
Print Assumptions C01_seq_counter_reset_refuted.

(* Whenever the reader decodes a REPLY frame, the table entry under the frame's sequence
   number is a call that was issued on this session with exactly that number, and the
   frame's content is the peer handler's output for that call's own method, arguments and
   metadata: the reply completes exactly the call it answers. *)
Theorem C01_reply_binds_issuer : forall cfg,
  cf_lock cfg = true -> (forall g, In g (cf_reg cfg) -> inverts g) -> cf_callmu cfg = true ->
  forall st, reach cfg st -> forall s m ids sz rest,
  raw_unpack (cf_reg cfg) (cf_lim cfg) (queue st (other s)) = Ok (m, ids, sz, rest) ->
  m_mtype m = x02 ->
  exists c, pget (e_pending (ep_of st s)) (m_seq m) = Some c /\
            In c (e_issued (ep_of st s)) /\ c_seq c = m_seq m /\
            m = reply_msg (c_seq c) (c_codec c)
                  (cf_handler cfg (other s) (c_method c) (c_args c) (c_meta c)).
Proof. exact reply_binds_lemma. Qed.
Print Assumptions C01_reply_binds_issuer.

(* Every call completed by a reply was issued on that session; status, body and metadata
   handed to the caller are those of the reply the peer's handler produced for THIS call's
   method, arguments and metadata; for an OK status the body and metadata are the handler's
   output itself. *)
Theorem C01_result_is_own_handler_output : forall cfg,
  cf_lock cfg = true -> (forall g, In g (cf_reg cfg) -> inverts g) -> cf_callmu cfg = true ->
  forall st, reach cfg st -> forall s c stt b mt,
  In (c, RReply stt b mt) (e_done (ep_of st s)) ->
  In c (e_issued (ep_of st s)) /\
  RReply stt b mt = res_of (reply_msg (c_seq c) (c_codec c)
                             (cf_handler cfg (other s) (c_method c) (c_args c) (c_meta c))) /\
  (st_code stt = 0%Z ->
     b = fst (fst (cf_handler cfg (other s) (c_method c) (c_args c) (c_meta c))) /\
     mt = snd (fst (cf_handler cfg (other s) (c_method c) (c_args c) (c_meta c)))).
Proof. exact result_own_lemma. Qed.
Print Assumptions C01_result_is_own_handler_output.

(* Every input of a CALL handler is the method, arguments and metadata of a call the peer
   issued; every input of a push receiver is a push the peer handed to its session. *)
Theorem C01_handler_sees_sender_bytes : forall cfg,
  cf_lock cfg = true -> (forall g, In g (cf_reg cfg) -> inverts g) -> cf_callmu cfg = true ->
  forall st, reach cfg st -> forall s h,
  In h (e_seen (ep_of st s)) ->
  if h_push h then In (h_method h, h_body h, h_meta h) (e_sent (ep_of st (other s)))
  else exists c, In c (e_issued (ep_of st (other s))) /\
                 h = mkHin false (c_method c) (c_args c) (c_meta c).
Proof. exact handler_input_lemma. Qed.
Print Assumptions C01_handler_sees_sender_bytes.

(* Corollary: no byte of any other message is observable in an OK call result, a handler
   input or a push, for all numbers of goroutines, interleavings, chunkings and payloads. *)
Corollary C01_no_foreign_byte : forall cfg,
  cf_lock cfg = true -> (forall g, In g (cf_reg cfg) -> inverts g) -> cf_callmu cfg = true ->
  forall st, reach cfg st -> forall s,
  (forall c stt b mt, In (c, RReply stt b mt) (e_done (ep_of st s)) -> st_code stt = 0%Z ->
     In c (e_issued (ep_of st s)) /\
     b = fst (fst (cf_handler cfg (other s) (c_method c) (c_args c) (c_meta c))) /\
     mt = snd (fst (cf_handler cfg (other s) (c_method c) (c_args c) (c_meta c)))) /\
  (forall h, In h (e_seen (ep_of st s)) ->
     if h_push h then In (h_method h, h_body h, h_meta h) (e_sent (ep_of st (other s)))
     else exists c, In c (e_issued (ep_of st (other s))) /\
                    h_method h = c_method c /\ h_body h = c_args c /\ h_meta h = c_meta c).
Proof. exact no_foreign_byte_lemma. Qed.
Print Assumptions C01_no_foreign_byte.

(* The status a reply gave a call is never overwritten: AsyncCall holds the call's own mutex
   from the Store until it has returned (and assigned the status of its write), bindReply
   waits for that mutex; so when the returning caller assigns its write status, its call is
   still in the table and no completion is changed. *)
Theorem C01_completed_status_never_overwritten : forall cfg,
  cf_lock cfg = true -> (forall g, In g (cf_reg cfg) -> inverts g) -> cf_callmu cfg = true ->
  forall st, reach cfg st -> forall s k st',
  step cfg st (EUnlock s k) = Some st' -> e_done (ep_of st' s) = e_done (ep_of st s).
Proof. exact status_kept_lemma. Qed.
Print Assumptions C01_completed_status_never_overwritten.

(* A call whose handler refused it (error status) never completes with an OK status. *)
Theorem C01_refused_call_never_completes_ok : forall cfg,
  cf_lock cfg = true -> (forall g, In g (cf_reg cfg) -> inverts g) -> cf_callmu cfg = true ->
  forall st, reach cfg st -> forall s c stt b mt,
  In (c, RReply stt b mt) (e_done (ep_of st s)) -> st_code stt = 0%Z ->
  status_ok (snd (cf_handler cfg (other s) (c_method c) (c_args c) (c_meta c))) = true.
Proof. exact refused_never_ok_lemma. Qed.
Print Assumptions C01_refused_call_never_completes_ok.

(* The variant that releases the call's mutex right after the Store: the refusal is read and
   handled while the caller is between its Write and its return, the caller then assigns the
   OK status of its write - the refused call is complete with an OK status (and, in the code,
   whatever the result variable held). Write lock held, window and frame limits respected. *)
Theorem C01_status_overwritten_by_early_unlock_refuted :
  exists cfg st, cf_lock cfg = true /\ cf_callmu cfg = false /\
    (forall g, In g (cf_reg cfg) -> inverts g) /\ reach_any cfg st /\
    exists c stt b mt, In (c, RReply stt b mt) (e_done (ep_of st SA)) /\ st_code stt = 0%Z /\
      status_ok (snd (cf_handler cfg SB (c_method c) (c_args c) (c_meta c))) = false.
Proof.
  exact (ex_intro _ cfg_early
    (match early_unlock_overwrites with
     | ex_intro _ st (conj R W) =>
         ex_intro _ st (conj eq_refl (conj eq_refl (conj reg_md5_inverts (conj R W))))
     end)).
Qed.
Print Assumptions C01_status_overwritten_by_early_unlock_refuted.

(* A call is completed at most once - by every step sequence whatsoever, with or without
   the lock and the hypotheses above: the allocation numbers in the completion history are
   pairwise distinct and a completed call is no longer in the table (a second reply with the
   same sequence number finds no entry). *)
Theorem C01_call_completes_at_most_once : forall cfg st, reach_any cfg st -> forall s,
  NoDup (map (fun cr : callrec * result => c_no (fst cr)) (e_done (ep_of st s))) /\
  (forall cr q c, In cr (e_done (ep_of st s)) -> pget (e_pending (ep_of st s)) q = Some c ->
     c_no c <> c_no (fst cr)).
Proof. exact completes_once_lemma. Qed.
Print Assumptions C01_call_completes_at_most_once.

(* "One frame = one Write" is the other sufficient discipline: WITHOUT the write lock, if
   every frame is handed to the connection as a single chunk ([reach1]: every ELock carries
   exactly one chunk; a Write call of the connection is atomic), a partial frame is never on
   the wire, the reader never desyncs and no foreign byte is observable. The code has both
   disciplines; the harness checks both (no overlapping Write calls on a connection under a
   mid-frame stall; every Write call is exactly one frame). *)
Theorem C01_single_write_frames_whole : forall cfg,
  cf_lock cfg = false -> (forall g, In g (cf_reg cfg) -> inverts g) -> cf_callmu cfg = true ->
  forall st, reach1 cfg st -> forall s,
  exists whole, Forall (Wire.wf_frame cfg) whole /\ queue st s = concat (map fr_bytes whole).
Proof. exact single_write_whole_lemma. Qed.
Print Assumptions C01_single_write_frames_whole.

Theorem C01_single_write_no_foreign_byte : forall cfg,
  cf_lock cfg = false -> (forall g, In g (cf_reg cfg) -> inverts g) -> cf_callmu cfg = true ->
  forall st, reach1 cfg st -> forall s,
  e_broken (ep_of st s) = false /\
  (forall c stt b mt, In (c, RReply stt b mt) (e_done (ep_of st s)) -> st_code stt = 0%Z ->
     In c (e_issued (ep_of st s)) /\
     b = fst (fst (cf_handler cfg (other s) (c_method c) (c_args c) (c_meta c))) /\
     mt = snd (fst (cf_handler cfg (other s) (c_method c) (c_args c) (c_meta c)))) /\
  (forall h, In h (e_seen (ep_of st s)) ->
     if h_push h then In (h_method h, h_body h, h_meta h) (e_sent (ep_of st (other s)))
     else exists c, In c (e_issued (ep_of st (other s))) /\
                    h_method h = c_method c /\ h_body h = c_args c /\ h_meta h = c_meta c).
Proof. exact single_write_no_foreign_lemma. Qed.
Print Assumptions C01_single_write_no_foreign_byte.

(* The sender's own memory: the repaired integrity filter (xfer/md5 OnPack allocates its
   result) leaves the backing array of the slice it is given untouched and returns content ++
   digest, for every slice window, capacity and digest function ... *)
Theorem C01_pack_preserves_callers_memory : forall H s,
  snd (md5_pack_slice_fresh H s) = s_arr s /\
  slice_bytes (fst (md5_pack_slice_fresh H s)) = slice_bytes s ++ H (slice_bytes s).
Proof. exact (fun H s => conj (md5_pack_fresh_preserves H s) (md5_pack_fresh_value H s)). Qed.
Print Assumptions C01_pack_preserves_callers_memory.

(* ... whereas the pinned OnPack (append onto its argument) wrote the digest of the message
   into the sender's array behind the body whenever the slice had spare capacity. *)
Theorem C01_pack_inplace_clobbers_refuted :
  exists H s, (forall x, length (H x) = 16%nat) /\ snd (md5_pack_slice_inplace H s) <> s_arr s.
Proof. exact md5_pack_inplace_clobbers. Qed.
Print Assumptions C01_pack_inplace_clobbers_refuted.

(* Non-vacuity: the hypotheses are satisfiable by a non-trivial concurrent run - registry
   with the md5 filter (inverting), write lock, two calls (one through the md5 pipe) and a
   push in the opposite direction, frames written in two chunks interleaved with the other
   direction's traffic, replies delivered in the reverse order of the calls; every visited
   state is [sane]; both calls complete, both handlers and the push receiver ran, the table
   and both queues end empty. *)
Example C01_example_inverting_registry : forall g, In g (cf_reg cfg_locked) -> inverts g.
Proof. exact reg_md5_inverts. Qed.

Example C01_example_run :
  exists st, reach cfg_locked st /\
    length (e_done (ep_of st SA)) = 2%nat /\
    length (e_seen (ep_of st SB)) = 2%nat /\ length (e_seen (ep_of st SA)) = 1%nat /\
    e_pending (ep_of st SA) = [] /\ queue st SA = [] /\ queue st SB = [].
Proof. exact good_run_exists. Qed.

(* the single-write hypotheses are satisfiable: no lock, two goroutines inside WriteMessage at
   the same time on each side, every frame one chunk, both calls complete *)
Example C01_example_single_write_run :
  exists st, reach1 cfg_nolock st /\
    length (e_done (ep_of st SA)) = 2%nat /\ length (e_seen (ep_of st SB)) = 2%nat /\
    e_pending (ep_of st SA) = [] /\ queue st SA = [] /\ queue st SB = [].
Proof. exact single_write_run_exists. Qed.

(* with the call's mutex held until AsyncCall returns, the early-unlock schedule is refused:
   the reply waits *)
Example C01_example_mutex_blocks_reply : run cfg_held init early_trace = None.
Proof. exact held_mutex_blocks_reply. Qed.

(* the interleaving schedule of the counter-model is refused by the lock *)
Example C01_example_lock_refuses : run cfg_locked init nolock_trace = None.
Proof. exact locked_refuses_second_writer. Qed.

(* ---- the memory a decoded body lives in (Model/ReadBuf.v) ----
   A handler input / a call result is a Go value decoded from a frame that was read into a
   POOLED buffer; the buffer is handed out again for the next message of this or any other
   session.  [rrun zc evs]: ANY sequence of reads, each into ANY array of the pool (or a fresh
   one), of ANY messages, decoded under the zero-copy table [zc]; [views] is what the holder
   of each decoded body reads from its value after the last read.

   A value decoded by a COPYING case - or behind a pipe that produces fresh bytes - reads as
   the bytes its own sender supplied for ever, whatever is read later into whichever buffer:
   no byte of any other message is ever observable in it. *)
Theorem C01_held_value_never_changes : forall zc evs i a m,
  nth_error evs i = Some (a, m) ->
  zc (rm_kind m) && negb (rm_fresh m) = false ->
  nth_error (views (rrun zc evs)) i = Some (rm_body m).
Proof. exact held_copy_stable_lemma. Qed.
Print Assumptions C01_held_value_never_changes.

(* ... which, for the code as it is ([code_zc], after the repair 46f1f9c), is EVERY destination
   kind: the *[]byte body, the plain codec's *string, *[]byte, named string and named []byte
   cases, form keys and values, the JSON / XML / protobuf / thrift codecs ... *)
Theorem C01_copying_codecs_hold : forall evs i a m,
  nth_error evs i = Some (a, m) ->
  nth_error (views (rrun code_zc evs)) i = Some (rm_body m).
Proof. exact code_copying_kinds_hold_lemma. Qed.
Print Assumptions C01_copying_codecs_hold.

(* ... so that after ANY sequence of reads the holders read exactly the bodies, in order ... *)
Theorem C01_code_views_are_the_bodies : forall evs,
  views (rrun code_zc evs) = map (fun ev => rm_body (snd ev)) evs.
Proof. exact code_all_views_lemma. Qed.
Print Assumptions C01_code_views_are_the_bodies.

(* ... and every kind behind the gzip filter. *)
Theorem C01_fresh_pipe_protects : forall zc evs i a m,
  nth_error evs i = Some (a, m) -> rm_fresh m = true ->
  nth_error (views (rrun zc evs)) i = Some (rm_body m).
Proof. exact fresh_pipe_protects_lemma. Qed.
Print Assumptions C01_fresh_pipe_protects.

(* When all reads copy, the holders read exactly the bodies, in order. *)
Corollary C01_all_copying_views : forall zc evs,
  (forall ev, In ev evs -> zc (rm_kind (snd ev)) && negb (rm_fresh (snd ev)) = false) ->
  views (rrun zc evs) = map (fun ev => rm_body (snd ev)) evs.
Proof. exact all_copy_views_lemma. Qed.
Print Assumptions C01_all_copying_views.

(* At the moment it is decoded EVERY value reads right, zero-copy or not (which is why a
   check that looks at once sees nothing) ... *)
Theorem C01_value_right_when_decoded : forall zc st a m,
  rd (r_heap (rstep zc st (a, m))) (decoded zc m (arr_of st (a, m))) = rm_body m.
Proof. exact fresh_value_right_lemma. Qed.
Print Assumptions C01_value_right_when_decoded.

(* ... and a zero-copy value stays right exactly as long as no later read goes into the array
   it points into (the strongest true statement about such a value) ... *)
Theorem C01_window_intact_until_buffer_reused : forall zc st a m evs,
  (forall ev st', In ev evs -> arr_of st' ev = arr_of st (a, m) -> False) ->
  nth_error (views (rfold zc (rstep zc st (a, m)) evs)) (length (r_held st)) = Some (rm_body m).
Proof. exact window_intact_lemma. Qed.
Print Assumptions C01_window_intact_until_buffer_reused.

(* ... but the pool hands the array out again: with the plain codec's *string case converted
   in place ([string_zc]) the holder of one string reads the body of a LATER message. *)
Theorem C01_plain_string_zero_copy_refuted :
  exists evs a m a2 m2,
    nth_error evs 0 = Some (a, m) /\ nth_error evs 1 = Some (a2, m2) /\
    rm_kind m = KPlainString /\ rm_fresh m = false /\ rm_body m <> rm_body m2 /\
    nth_error (views (rrun string_zc evs)) 0 = Some (rm_body m2).
Proof. exact string_zc_leaks_lemma. Qed.
Print Assumptions C01_plain_string_zero_copy_refuted.

(* The code BEFORE 46f1f9c ([code_zc_prefix]) decoded three kinds without copying (plain codec
   into a named string or named []byte type: parseProperType; form codec keys / values that need
   no unescaping): for each of them the property failed - found by the retention scenario,
   repaired in /repo 46f1f9c (known_findings.txt: fixed). *)
Theorem C01_named_and_form_values_alias_buffer_refuted :
  forall k, In k [KPlainNamedString; KPlainNamedBytes; KFormValue] ->
  exists evs a m a2 m2,
    nth_error evs 0 = Some (a, m) /\ nth_error evs 1 = Some (a2, m2) /\
    rm_kind m = k /\ rm_fresh m = false /\ rm_body m <> rm_body m2 /\
    nth_error (views (rrun code_zc_prefix evs)) 0 = Some (rm_body m2).
Proof. exact code_zc_prefix_leaks_lemma. Qed.
Print Assumptions C01_named_and_form_values_alias_buffer_refuted.

(* Non-vacuity: a run in which the buffer IS reused and a copying decode holds its value. *)
Example C01_example_copy_survives_reuse :
  views (rrun code_zc (two_reads KPlainNamedString)) = [str "AAAA-0000"; str "BBBB-0002"] /\
  r_heap (rrun code_zc (two_reads KPlainNamedString)) = [str "hBBBBB-0002"].
Proof. split; vm_compute; reflexivity. Qed.
