(* C05 - Wire protocols round-trip every message and never lose frame sync.
   Part 4: mixer/websocket (proto.go) with its two sub-protocols, jsonSubProto (repaired body
   escaping, /repo commit 77f1e44) and pbSubProto. A sub-protocol writes one message; the
   websocket layer sends it as one websocket message and hands the receiver exactly the bytes
   of one websocket message. The hybi framing of the vendored websocket library is the pair
   [ws_frame] / [ws_unframe] with the contract [unframe (frame b ++ rest) = (b, rest)].
   Supported field sets: jsonSubProto as jsonproto (json_ok); pbSubProto (wspb_ok): no status
   (the frame has no status member: wspb_status_unguarded_refuted; finding of property C04),
   any service method bytes, int32 sequence number, metadata without an empty/empty pair.
   Reported size: the byte length of the message, or 0 when that exceeds the size limit (the
   refusal of SetSize is ignored) - a function of the message's bytes and the limit only. *)
From Coq Require Import Strings.String Strings.Byte.
From Coq Require Import List Arith NArith ZArith Bool Lia.
From Verif Require Import Base.Bytes Base.Outcome Model.Quote Model.Args Model.Numfmt
  Model.StatusQuery Model.Xfer Model.RawProto Model.FrameStream Model.JsonFrame Model.PbFrame
  Model.WsFrames
  Proofs.XferProofs Proofs.RawProofs Proofs.JsonProofs Proofs.PbProofs.
Import ListNotations.
Local Open Scope N_scope.

Theorem C05_wsjson_roundtrip : forall quote_hi gjson_other reg lim ids p m b size,
  (forall g, In g reg -> inverts g) ->
  pipe_append reg [] ids = (p, None) ->
  json_ok m = true ->
  wsj_pack quote_hi jesc_byte lim p m = Ok (b, size) ->
  wsj_unpack gjson_other reg lim b = Ok (m, ids, size) /\ size = sub_size lim b.
Proof. exact wsj_roundtrip_lemma. Qed.
Print Assumptions C05_wsjson_roundtrip.

Theorem C05_wspb_roundtrip : forall skip_group reg lim ids p m b size,
  (forall g, In g reg -> inverts g) ->
  pipe_append reg [] ids = (p, None) ->
  wspb_ok m = true ->
  (forall body, pipe_pack p (m_body m) = Some body -> len_ok m body ids) ->
  wspb_pack lim p m = Ok (b, size) ->
  wspb_unpack skip_group reg lim b = Ok (m, ids, size) /\ size = sub_size lim b.
Proof. exact wspb_roundtrip_lemma. Qed.
Print Assumptions C05_wspb_roundtrip.

(* through the websocket layer: one websocket message followed by arbitrary bytes *)
Theorem C05_ws_roundtrip : forall ws_frame ws_unframe,
  (forall b rest, ws_unframe (ws_frame b ++ rest) = Ok (b, rest)) ->
  forall sub b m ids size rest,
  sub b = Ok (m, ids, size) ->
  ws_unpack ws_unframe sub (ws_frame b ++ rest) = Ok (m, ids, size, rest).
Proof. exact ws_roundtrip_lemma. Qed.
Print Assumptions C05_ws_roundtrip.

(* any number of back-to-back websocket messages decode to the same message sequence *)
Theorem C05_ws_stream : forall ws_frame ws_unframe,
  (forall b rest, ws_unframe (ws_frame b ++ rest) = Ok (b, rest)) ->
  (forall b, ws_frame b <> []) ->
  forall sub (xs : list (bytes * (msg * list byte * N))) fuel,
  Forall (fun x => sub (fst x) = Ok (snd x)) xs ->
  (length xs < fuel)%nat ->
  decode_all fuel (fun s => retuple (ws_unpack ws_unframe sub s))
             (concat (map (fun x => ws_frame (fst x)) xs))
  = (map snd xs, Ok tt).
Proof. exact ws_stream_lemma. Qed.
Print Assumptions C05_ws_stream.

(* the size reported for a websocket message is determined by that message's own bytes (and
   the limit), whatever was received before: the sub-protocol readers keep no state *)
Theorem C05_wsjson_size_message_alone : forall gjson_other reg lim b m ids size,
  wsj_unpack gjson_other reg lim b = Ok (m, ids, size) -> size = sub_size lim b.
Proof. exact wsj_size_own. Qed.
Print Assumptions C05_wsjson_size_message_alone.

Theorem C05_wspb_size_message_alone : forall skip_group reg lim b m ids size,
  wspb_unpack skip_group reg lim b = Ok (m, ids, size) -> size = sub_size lim b.
Proof. exact wspb_size_own. Qed.
Print Assumptions C05_wspb_size_message_alone.

Theorem C05_wsjson_body_prefix_refuted : forall quote_hi gjson_other,
  exists m b size, json_ok m = true /\ wsj_pack quote_hi jesc_byte_v0 1000 [] m = Ok (b, size) /\
                   wsj_unpack gjson_other [] 1000 b <> Ok (m, [], size).
Proof. exact wsj_body_v0_refuted. Qed.
Print Assumptions C05_wsjson_body_prefix_refuted.

Theorem C05_wspb_status_unguarded_refuted : forall skip_group,
  exists m b size, wspb_pack 1000 [] m = Ok (b, size) /\
                   wspb_unpack skip_group [] 1000 b <> Ok (m, [], size).
Proof. exact wspb_status_unguarded_refuted. Qed.
Print Assumptions C05_wspb_status_unguarded_refuted.

(* jsonSubProto before the repair of the service method member (%q): "/test" + 0x00 *)
Theorem C05_wsjson_method_prefix_refuted : forall quote_hi gjson_other,
  exists m b size, json_ok m = true /\ wsj_pack_prefix quote_hi jesc_byte 1000 [] m = Ok (b, size) /\
                   wsj_unpack gjson_other [] 1000 b <> Ok (m, [], size).
Proof. exact wsj_method_prefix_refuted. Qed.
Print Assumptions C05_wsjson_method_prefix_refuted.

Example C05_wsjson_example :
  let m := mkMsg 7 x01 [ "/"%byte; x00; x0b; x7f; xff; dqt; bsl ] (mkStatus 500 (str "x") None) [(str "k", [dqt; bsl])] x6a [bsl; x0a; dqt] in
  json_ok m = true /\ exists b size, wsj_pack (fun b => b) jesc_byte 1000 [] m = Ok (b, size).
Proof.
  intros m. split; [vm_compute; reflexivity|].
  remember (wsj_pack (fun b => b) jesc_byte 1000 [] m) as r eqn:E. vm_compute in E. subst r.
  eexists. eexists. reflexivity.
Qed.

Example C05_wspb_example :
  let m := mkMsg (-7) x03 [xff; x00] status_zero [(str "k", [xff])] x6a [x00; xff] in
  wspb_ok m = true /\ (forall body, pipe_pack [] (m_body m) = Some body -> len_ok m body []) /\
  exists b size, wspb_pack 1000 [] m = Ok (b, size).
Proof.
  intros m. split; [vm_compute; reflexivity|]. split.
  - intros body H. cbn in H. injection H as <-. repeat split; vm_compute; reflexivity.
  - remember (wspb_pack 1000 [] m) as r eqn:E. vm_compute in E. subst r.
    eexists. eexists. reflexivity.
Qed.
