(* C05 - Wire protocols round-trip every message and never lose frame sync.
   Part 3: proto/pbproto. Frame: {4-byte size}{pipe length}{pipe ids}{payload through the
   pipe}; the payload is the proto3 encoding of pb/payload.proto, modelled concretely
   (Model/PbFrame.v). Limits / supported field set (pb_ok, len_ok): int32 sequence number
   and status code; a service method that is valid UTF-8 (a proto3 string: anything else is
   refused by Pack, pb_method_unguarded_refuted); metadata = ordered multimap of arbitrary
   byte strings without a pair whose key and value are both empty; any message type, codec id,
   status text and body bytes; every field shorter than 2^64 bytes, the frame below 2^32
   bytes and within the size limit. [skip_group]: the library's skipping of protobuf groups
   (never reached for written frames). *)
From Coq Require Import Strings.String Strings.Byte.
From Coq Require Import List Arith NArith ZArith Bool Lia.
From Verif Require Import Base.Bytes Base.Outcome Model.Quote Model.Args Model.Numfmt
  Model.StatusQuery Model.Xfer Model.RawProto Model.FrameStream Model.JsonFrame Model.PbFrame
  Proofs.XferProofs Proofs.RawProofs Proofs.JsonProofs Proofs.PbProofs.
Import ListNotations.
Local Open Scope N_scope.

(* varints of every 64-bit value (negative int32 = 10 bytes) *)
Theorem C05_pb_varint_roundtrip : forall strict n rest,
  n < 18446744073709551616 -> read_varint strict (varint n ++ rest) = Ok (n, rest).
Proof. exact read_varint_enc. Qed.
Print Assumptions C05_pb_varint_roundtrip.

Theorem C05_pb_int32_roundtrip : forall z, int32_ok z = true -> i32_of_u64 (u64_of_z z) = z.
Proof. exact i32_u64. Qed.
Print Assumptions C05_pb_int32_roundtrip.

(* the encoded payload message decodes to its seven fields (defaults omitted on the wire) *)
Theorem C05_pb_payload_roundtrip : forall skip_group m,
  pb_ok m = true -> len_ok m (m_body m) [] ->
  pb_decode true skip_group schema_pb (pb_payload m)
  = Ok (mkPbraw (m_seq m) (byte_z (m_mtype m)) (m_method m) (status_encode (m_status m))
                (args_encode (m_meta m)) (byte_z (m_codec m)) (m_body m) []).
Proof. exact pb_decode_payload. Qed.
Print Assumptions C05_pb_payload_roundtrip.

Theorem C05_pb_roundtrip : forall skip_group reg lim ids p m f size rest,
  (forall g, In g reg -> inverts g) ->
  pipe_append reg [] ids = (p, None) ->
  pb_ok m = true -> len_ok m (m_body m) [] ->
  pb_pack lim p m = Ok (f, size) ->
  blen f < 4294967296 ->
  pb_unpack skip_group reg lim (f ++ rest) = Ok (m, ids, size, rest) /\ 4 + size = blen f.
Proof. exact pb_roundtrip_lemma. Qed.
Print Assumptions C05_pb_roundtrip.

Theorem C05_pb_stream : forall skip_group reg lim,
  (forall g, In g reg -> inverts g) ->
  forall (xs : list (list byte * msg * bytes)) fuel,
  Forall (wf_pbframe reg lim) xs ->
  (length xs < fuel)%nat ->
  decode_all fuel (fun s => retuple (pb_unpack skip_group reg lim s)) (concat (map snd xs))
  = (map (fun '(ids, m, f) => (m, ids, blen f - 4)) xs, Ok tt).
Proof. exact pb_stream_lemma. Qed.
Print Assumptions C05_pb_stream.

Theorem C05_pb_size_message_alone : forall skip_group reg lim,
  (forall g, In g reg -> inverts g) ->
  forall pre1 pre2 x d,
  Forall (wf_pbframe reg lim) pre1 -> Forall (wf_pbframe reg lim) pre2 -> wf_pbframe reg lim x ->
  let dec pre := fst (decode_all (S (S (length pre))) (fun s => retuple (pb_unpack skip_group reg lim s))
                                 (concat (map snd (pre ++ [x])))) in
  last (dec pre1) d = last (dec pre2) d /\
  last (dec pre1) d = (let '(ids, m, f) := x in (m, ids, blen f - 4)).
Proof. exact pb_size_alone_lemma. Qed.
Print Assumptions C05_pb_size_message_alone.

(* outside the guard: a service method that is not valid UTF-8 cannot even be packed *)
Theorem C05_pb_method_unguarded_refuted :
  exists m, int32_ok (m_seq m) = true /\ pb_pack 1000 [] m = Err.
Proof. exact pb_method_unguarded_refuted. Qed.
Print Assumptions C05_pb_method_unguarded_refuted.

Example C05_pb_example :
  let m := mkMsg (-1) x02 [ "/"%byte; xc3; xa9; xf0; x9f; x98; x80 ]
                 (mkStatus (-7) (str "Not Found") (Some [x00; xff]))
                 [(str "k", [xff; x00]); (str "k", []); ([], str "=")] x00 [x00; xff; x80] in
  pb_ok m = true /\ len_ok m (m_body m) [] /\
  exists f size, pb_pack 1000 [] m = Ok (f, size) /\ blen f < 4294967296.
Proof.
  intros m. split; [vm_compute; reflexivity|]. split; [repeat split; vm_compute; reflexivity|].
  remember (pb_pack 1000 [] m) as r eqn:E. vm_compute in E. subst r.
  eexists. eexists. split; [reflexivity|]. vm_compute. reflexivity.
Qed.
