From Coq Require Import Strings.String Strings.Byte.
From Coq Require Import List Arith NArith ZArith Bool Lia.
From Verif Require Import Base.Bytes Model.GunzipAlloc.
Import ListNotations.
Local Open Scope N_scope.

Section Grow.
  Variable grow : N -> N.
  (* what the runtime's growslice guarantees for a byte slice: at least a quarter more
     (doubling below 256 elements), at most doubling plus the size-class round-up *)
  Hypothesis grow_lo : forall c, 5 * c <= 4 * grow c.
  Hypothesis grow_hi : forall c, grow c <= 2 * c + 768.

  (* every capacity ReadAll requests for a reader of n <= m bytes, from capacity c on *)
  Lemma readall_caps_each fuel : forall c n m,
    n <= m -> Forall (fun a => a <= 2 * m + 768) (readall_caps grow fuel c n).
  Proof.
    induction fuel as [|f IH]; intros c n m Hn; cbn [readall_caps]; [constructor|].
    destruct (n <? c) eqn:E; [constructor|].
    apply N.ltb_ge in E. constructor.
    - pose proof (grow_hi c). lia.
    - apply IH. exact Hn.
  Qed.

  (* ... and their sum: the capacities grow geometrically, so the sum is within a constant
     factor of the last one *)
  Lemma readall_caps_sum fuel : forall c n m,
    n <= m -> c <= 2 * m + 768 ->
    sum_N (readall_caps grow fuel c n) + 5 * c <= 6 * (2 * m + 768).
  Proof.
    induction fuel as [|f IH]; intros c n m Hn Hc; cbn [readall_caps sum_N fold_right]; [lia|].
    destruct (n <? c) eqn:E; cbn [sum_N fold_right]; [lia|].
    apply N.ltb_ge in E.
    pose proof (grow_lo c) as Hlo. pose proof (grow_hi c) as Hhi.
    assert (Hg : grow c <= 2 * m + 768) by lia.
    specialize (IH (grow c) n m Hn Hg). unfold sum_N in IH. lia.
  Qed.

  Lemma delivered_le lim g : 0 < lim -> delivered lim g <= lim + 1.
  Proof.
    intros Hl. unfold delivered. destruct (lim =? 0) eqn:E; [apply N.eqb_eq in E; lia|].
    apply N.le_min_r.
  Qed.

  Theorem gunzip_allocs_each fuel lim g :
    0 < lim -> Forall (fun a => a <= gunzip_cap_bound lim) (gunzip_allocs grow fuel lim g).
  Proof.
    intros Hl. unfold gunzip_allocs, gunzip_cap_bound.
    destruct (gz_header_ok g); [|constructor].
    constructor; [lia|].
    pose proof (readall_caps_each fuel 512 _ _ (delivered_le lim g Hl)) as H.
    eapply Forall_impl; [|exact H]. cbn beta. intros a Ha. lia.
  Qed.

  Theorem gunzip_allocs_total fuel lim g :
    0 < lim -> sum_N (gunzip_allocs grow fuel lim g) <= gunzip_total_bound lim.
  Proof.
    intros Hl. unfold gunzip_allocs, gunzip_total_bound.
    destruct (gz_header_ok g); [|cbn; lia].
    cbn [sum_N fold_right].
    assert (Hc : 512 <= 2 * (lim + 1) + 768) by lia.
    pose proof (readall_caps_sum fuel 512 _ _ (delivered_le lim g Hl) Hc) as H.
    unfold sum_N in H. lia.
  Qed.

  (* the announced size is not looked at *)
  Theorem gunzip_allocs_ignore_isize fuel lim g a :
    gunzip_allocs grow fuel lim (set_isize a g) = gunzip_allocs grow fuel lim g.
  Proof. reflexivity. Qed.

  (* the pre-sizing variant requests what the sender announces *)
  Theorem gunzip_presized_follows_isize fuel lim g :
    gz_header_ok g = true ->
    In (gz_isize g + 512) (gunzip_allocs_presized grow fuel lim g).
  Proof. intros H. unfold gunzip_allocs_presized. rewrite H. left. reflexivity. Qed.
End Grow.

Theorem gunzip_alloc_independent_of_isize :
  forall grow, (forall c, 5 * c <= 4 * grow c) -> (forall c, grow c <= 2 * c + 768) ->
  forall fuel lim hdr inflated crc announced,
    0 < lim ->
    let g := mk_gzsrc hdr inflated crc announced in
    Forall (fun a => a <= gunzip_cap_bound lim) (gunzip_allocs grow fuel lim g) /\
    sum_N (gunzip_allocs grow fuel lim g) <= gunzip_total_bound lim /\
    gunzip_allocs grow fuel lim g = gunzip_allocs grow fuel lim (mk_gzsrc hdr inflated crc 0).
Proof.
  intros grow Hlo Hhi fuel lim hdr inflated crc announced Hl g. split; [|split].
  - apply gunzip_allocs_each; assumption.
  - apply gunzip_allocs_total; assumption.
  - reflexivity.
Qed.

Theorem gunzip_presized_unbounded :
  forall grow fuel lim, exists g,
    gz_inflated g = [] /\
    ~ Forall (fun a => a <= gunzip_total_bound lim) (gunzip_allocs_presized grow fuel lim g).
Proof.
  intros grow fuel lim.
  exists (mk_gzsrc true [] true (gunzip_total_bound lim)). split; [reflexivity|].
  intros H. unfold gunzip_allocs_presized in H. cbn [gz_header_ok gz_isize] in H.
  inversion H as [|x l Hx Hl]; subst. lia.
Qed.

Theorem gunzip_result_bounded lim g y :
  0 < lim -> gunzip_result lim g = Some y -> blen y <= lim.
Proof.
  intros Hl. unfold gunzip_result.
  destruct (negb (gz_header_ok g)); [discriminate|].
  apply N.ltb_lt in Hl. rewrite Hl. cbn [andb].
  destruct (lim <? blen (gz_inflated g)) eqn:E; [discriminate|].
  apply N.ltb_ge in E.
  destruct (gz_crc_ok g && (gz_isize g =? blen (gz_inflated g) mod 4294967296)); [|discriminate].
  intros H; inversion H; subst. exact E.
Qed.

Theorem gunzip_forged_isize_refused lim g :
  gz_isize g <> blen (gz_inflated g) mod 4294967296 -> gunzip_result lim g = None.
Proof.
  intros Hne. unfold gunzip_result.
  destruct (negb (gz_header_ok g)); [reflexivity|].
  destruct ((0 <? lim) && (lim <? blen (gz_inflated g))); [reflexivity|].
  apply N.eqb_neq in Hne. rewrite Hne. rewrite andb_false_r. reflexivity.
Qed.

Theorem md5_unpack_allocs_constant len :
  Forall (fun a => a <= 16) (md5_unpack_allocs len).
Proof. unfold md5_unpack_allocs. destruct (len <? 16); repeat constructor; lia. Qed.

Theorem md5_unpack_result_shorter len ok n :
  md5_unpack_result len ok = Some n -> n + 16 = len /\ ok = true.
Proof.
  unfold md5_unpack_result. destruct (len <? 16) eqn:E; [discriminate|].
  apply N.ltb_ge in E. destruct ok; [|discriminate]. intros H; inversion H; subst. split; [lia|reflexivity].
Qed.

Lemma go_grow_lo c : 5 * c <= 4 * go_grow c.
Proof.
  unfold go_grow. destruct (c <? 256); [lia|].
  pose proof (N.div_mod (c + 768) 4 ltac:(lia)) as H.
  pose proof (N.mod_upper_bound (c + 768) 4 ltac:(lia)) as H2.
  set (q := (c + 768) / 4) in *. set (m := (c + 768) mod 4) in *. clearbody q m. lia.
Qed.
Lemma go_grow_hi c : go_grow c <= 2 * c + 768.
Proof.
  unfold go_grow. destruct (c <? 256); [lia|].
  pose proof (N.div_mod (c + 768) 4 ltac:(lia)) as H.
  pose proof (N.mod_upper_bound (c + 768) 4 ltac:(lia)) as H2.
  set (q := (c + 768) / 4) in *. set (m := (c + 768) mod 4) in *. clearbody q m. lia.
Qed.
