(* Lemmas about the form codec model: round trip on the well-formed domain, totality of the
   repaired decoder, type preservation, and the witnesses against the pinned code. *)
From Coq Require Import Strings.String Strings.Byte.
From Coq Require Import List Arith NArith ZArith Bool Lia Permutation.
From Verif Require Import Base.Bytes Model.Strconv Model.UrlQuery Model.PlainCodec Model.FormCodec
  Proofs.StrconvProofs Proofs.UrlQueryProofs Proofs.PlainCodecProofs.
Import ListNotations.

Scheme fval_mut := Induction for fval Sort Prop
  with fields_mut := Induction for fields Sort Prop.

(* induction over a struct with the hypothesis available for nested structs *)
Lemma fields_induction (P : fields -> Prop) :
  P FNil ->
  (forall name tag e v rest,
      (forall sub, v = FStruct sub -> P sub) -> P rest -> P (FCons name tag e v rest)) ->
  forall fs, P fs.
Proof.
  intros Hnil Hcons.
  apply (fields_mut (fun v => forall sub, v = FStruct sub -> P sub) P).
  - intros l sub H. discriminate.
  - intros p es sub H. discriminate.
  - intros p es sub H. discriminate.
  - intros fs IH sub H. inversion H; subst. exact IH.
  - exact Hnil.
  - intros. apply Hcons; assumption.
Qed.

(* does the field loop recurse into this field (untagged struct)? *)
Definition recurses (tag : bytes) (v : fval) : bool :=
  match tag, v with [], FStruct _ => true | _, _ => false end.

Lemma recurses_true tag v : recurses tag v = true -> tag = [] /\ exists sub, v = FStruct sub.
Proof. destruct tag; destruct v; cbn; intros H; try discriminate. split; eauto. Qed.

(* ---- the encoder as a fold over the flattened fields ---- *)
Fixpoint flat (fs : fields) : list (bytes * list bytes) :=
  match fs with
  | FNil => []
  | FCons name tag _ v rest =>
      match tag, v with
      | [], FStruct sub => flat sub ++ flat rest
      | _, _ => (eff_name name tag, fmt_field (fun es => es) v) :: flat rest
      end
  end.

Definition appf (q : values) (e : bytes * list bytes) : values := vappend_all q (fst e) (snd e).

Lemma flat_plain name tag e v rest :
  recurses tag v = false ->
  flat (FCons name tag e v rest) = (eff_name name tag, fmt_field (fun es => es) v) :: flat rest.
Proof. destruct tag; destruct v; cbn [recurses]; intros H; try discriminate; reflexivity. Qed.

Lemma flat_names_plain name tag e v rest :
  recurses tag v = false ->
  flat_names (FCons name tag e v rest) = eff_name name tag :: flat_names rest.
Proof. destruct tag; destruct v; cbn [recurses]; intros H; try discriminate; reflexivity. Qed.

Lemma set_fields_plain rv q name tag e v rest :
  recurses tag v = false ->
  set_fields_gen rv q (FCons name tag e v rest) =
  set_fields_gen rv (vappend_all q (eff_name name tag) (fmt_field rv v)) rest.
Proof. destruct tag; destruct v; cbn [recurses]; intros H; try discriminate; reflexivity. Qed.

Lemma map_fields_plain over form name tag v rest :
  recurses tag v = false ->
  map_fields_gen over form (FCons name tag true v rest) =
  let continue := fun v' => omap (FCons name tag true v') (map_fields_gen over form rest) in
  match vget form (eff_name name tag) with
  | None => continue v
  | Some vals => obind (set_field_gen over v vals) continue
  end.
Proof. destruct tag; destruct v; cbn [recurses]; intros H; try discriminate; reflexivity. Qed.

Lemma set_fields_flat fs : forall q, set_fields q fs = fold_left appf (flat fs) q.
Proof.
  induction fs as [|name tag e v rest IHsub IHrest] using fields_induction; intros q.
  - reflexivity.
  - destruct (recurses tag v) eqn:R.
    + apply recurses_true in R as [-> [sub ->]].
      cbn [set_fields set_fields_gen flat]. rewrite fold_left_app.
      fold (set_fields q sub). rewrite (IHsub sub eq_refl q).
      apply IHrest.
    + unfold set_fields. rewrite set_fields_plain, flat_plain by exact R.
      cbn [fold_left]. apply IHrest.
Qed.

Lemma flat_keys fs : map fst (flat fs) = flat_names fs.
Proof.
  induction fs as [|name tag e v rest IHsub IHrest] using fields_induction.
  - reflexivity.
  - destruct (recurses tag v) eqn:R.
    + apply recurses_true in R as [-> [sub ->]].
      cbn [flat flat_names]. rewrite map_app, (IHsub sub eq_refl), IHrest. reflexivity.
    + rewrite flat_plain, flat_names_plain by exact R. cbn [map fst]. rewrite IHrest. reflexivity.
Qed.

(* ---- the map built by a fold of appends ---- *)
Definition concat_for (k : bytes) (es : list (bytes * list bytes)) : list bytes :=
  flat_map (fun e => if bytes_eqb (fst e) k then snd e else []) es.

Definition has_key (k : bytes) (es : list (bytes * list bytes)) : bool :=
  existsb (fun e => bytes_eqb (fst e) k) es.

Lemma concat_for_nokey k es : has_key k es = false -> concat_for k es = [].
Proof.
  induction es as [|[k0 v0] r IH]; cbn [has_key existsb concat_for flat_map fst snd]; [reflexivity|].
  intros H. apply orb_false_iff in H as [H1 H2]. rewrite H1. cbn [app]. apply IH. exact H2.
Qed.

Lemma vget_fold_appf es : forall q k,
  vget (fold_left appf es q) k =
  if has_key k es
  then Some ((match vget q k with Some a => a | None => [] end) ++ concat_for k es)
  else vget q k.
Proof.
  induction es as [|[k0 v0] r IH]; intros q k; cbn [fold_left has_key existsb concat_for flat_map fst snd].
  - reflexivity.
  - rewrite IH. unfold appf. cbn [fst snd]. rewrite vget_vappend_all.
    fold (has_key k r). fold (concat_for k r).
    destruct (bytes_eqb k0 k) eqn:E.
    + apply bytes_eqb_eq in E. subst k0. cbn [orb].
      destruct (has_key k r) eqn:Hk.
      * destruct (vget q k); cbn [app]; rewrite ?app_assoc; reflexivity.
      * rewrite (concat_for_nokey _ _ Hk). destruct (vget q k); cbn [app]; rewrite ?app_nil_r; reflexivity.
    + cbn [orb app]. reflexivity.
Qed.

Lemma concat_for_nodup es k vs :
  NoDup (map fst es) -> In (k, vs) es -> has_key k es = true /\ concat_for k es = vs.
Proof.
  induction es as [|[k0 v0] r IH]; intros Hnd Hin; [contradiction|].
  cbn [map fst] in Hnd. inversion Hnd as [|? ? Hnotin Hnd']; subst.
  cbn [has_key existsb concat_for flat_map fst snd]. fold (has_key k r). fold (concat_for k r).
  destruct Hin as [Hin|Hin].
  - inversion Hin; subst. rewrite bytes_eqb_refl. split; [reflexivity|].
    rewrite concat_for_nokey; [apply app_nil_r|].
    destruct (has_key k r) eqn:Hk; [|reflexivity]. exfalso. apply Hnotin.
    unfold has_key in Hk. apply existsb_exists in Hk as (x & Hx & Hxk).
    apply bytes_eqb_eq in Hxk. subst. apply in_map. exact Hx.
  - destruct (IH Hnd' Hin) as [H1 H2]. rewrite H1, H2, orb_true_r.
    destruct (bytes_eqb k0 k) eqn:E.
    + apply bytes_eqb_eq in E. subst k0. exfalso. apply Hnotin.
      apply in_map_iff. exists (k, vs). split; [reflexivity | exact Hin].
    + split; reflexivity.
Qed.

(* keys stay unique under q[k] = ... *)
Lemma vset_keys q k vs x : In x (map fst (vset q k vs)) -> x = k \/ In x (map fst q).
Proof.
  induction q as [|[k0 v0] r IH]; cbn [vset map fst In].
  - intros [H|[]]. left. congruence.
  - destruct (bytes_eqb k0 k); cbn [map fst In].
    + intros [H|H]; [right; left; exact H | right; right; exact H].
    + intros [H|H]; [right; left; exact H|]. destruct (IH H) as [H'|H']; [left; exact H' | right; right; exact H'].
Qed.

Lemma vset_nodup q k vs : NoDup (map fst q) -> NoDup (map fst (vset q k vs)).
Proof.
  induction q as [|[k0 v0] r IH]; cbn [vset map fst]; intros Hnd.
  - constructor; [intros [] | constructor].
  - inversion Hnd as [|? ? Hnotin Hnd']; subst. destruct (bytes_eqb k0 k) eqn:E; cbn [map fst].
    + constructor; assumption.
    + constructor; [|apply IH; exact Hnd'].
      intros Hin. apply vset_keys in Hin as [Hin|Hin]; [|contradiction].
      subst. rewrite bytes_eqb_refl in E. discriminate.
Qed.

Lemma fold_appf_nodup es : forall q, NoDup (map fst q) -> NoDup (map fst (fold_left appf es q)).
Proof.
  induction es as [|e r IH]; intros q Hq; cbn [fold_left]; [exact Hq|].
  apply IH. unfold appf, vappend_all. apply vset_nodup. exact Hq.
Qed.

Lemma nodupb_NoDup l : nodupb l = true -> NoDup l.
Proof.
  induction l as [|x r IH]; cbn [nodupb]; intros H; [constructor|].
  apply andb_true_iff in H as [H1 H2]. constructor; [|apply IH; exact H2].
  intros Hin. apply negb_true_iff in H1.
  assert (existsb (bytes_eqb x) r = true); [|congruence].
  apply existsb_exists. exists x. split; [exact Hin | apply bytes_eqb_refl].
Qed.

(* what the decoder finds under each of the struct's keys after encode + ParseQuery *)
Definition agrees (form : values) (es : list (bytes * list bytes)) : Prop :=
  forall k vs, In (k, vs) es -> vget form k = nonempty_of (Some vs).

Lemma encode_parse_agrees fs :
  NoDup (flat_names fs) ->
  exists form, parse_query (values_encode (set_fields [] fs)) = Some form /\ agrees form (flat fs).
Proof.
  intros Hnd. rewrite set_fields_flat.
  destruct (values_roundtrip_lemma (fold_left appf (flat fs) [])) as (form & Hp & Hget).
  { apply fold_appf_nodup. constructor. }
  exists form. split; [exact Hp|]. intros k vs Hin. rewrite Hget, vget_fold_appf.
  rewrite <- flat_keys in Hnd. destruct (concat_for_nodup _ _ _ Hnd Hin) as [H1 H2].
  rewrite H1, H2. reflexivity.
Qed.

(* ---- element level ---- *)
Lemma format_uint_nonnil n : format_uint n <> [].
Proof. destruct (format_uint_head n) as (b & r & E & _). rewrite E. discriminate. Qed.

Lemma format_int_nonnil z : format_int z <> [].
Proof. unfold format_int. destruct (z <? 0)%Z; [discriminate | apply format_uint_nonnil]. Qed.

Lemma or_default_nonnil s d : s <> [] -> or_default s d = s.
Proof. destruct s; [congruence | reflexivity]. Qed.

Lemma set_wpt_roundtrip cur l s :
  scalar_ok l = true -> same_kind cur l = true -> format_leaf l = Some s ->
  set_with_proper_type cur s = Ok l.
Proof.
  destruct l; cbn [scalar_ok]; intros Hok Hk Hf; try discriminate;
    destruct cur; cbn [same_kind] in Hk; try discriminate;
    cbn [format_leaf] in Hf; inversion Hf; subst; cbn [set_with_proper_type].
  - reflexivity.
  - rewrite or_default_nonnil by (destruct b; cbv; discriminate).
    rewrite parse_bool_format. reflexivity.
  - apply width_eqb_eq in Hk. subst.
    rewrite or_default_nonnil by apply format_int_nonnil.
    rewrite parse_int_format; [reflexivity | apply int_in_range_spec; exact Hok].
  - apply width_eqb_eq in Hk. subst.
    rewrite or_default_nonnil by apply format_uint_nonnil.
    rewrite parse_uint_format; [reflexivity | apply uint_in_range_spec; exact Hok].
Qed.

Lemma scalar_format l : scalar_ok l = true -> exists s, format_leaf l = Some s.
Proof. destruct l; cbn; intros H; try discriminate; eauto. Qed.

Lemma fmt_elems_cons e es s : format_leaf e = Some s -> fmt_elems (e :: es) = s :: fmt_elems es.
Proof. intros H. unfold fmt_elems. cbn [flat_map]. rewrite H. reflexivity. Qed.

Lemma set_slice_roundtrip p es :
  forallb (fun e => scalar_ok e && same_kind p e) es = true -> set_slice p (fmt_elems es) = Ok es.
Proof.
  induction es as [|a es IH]; cbn [forallb]; intros H; [reflexivity|].
  apply andb_true_iff in H as [Ha Hr]. apply andb_true_iff in Ha as [Hs Hk].
  destruct (scalar_format a Hs) as [s Hf]. rewrite (fmt_elems_cons _ _ _ Hf). cbn [set_slice].
  rewrite (set_wpt_roundtrip p a s Hs Hk Hf). cbn [obind]. rewrite (IH Hr). reflexivity.
Qed.

Lemma same_kind_zero l : scalar_ok l = true -> same_kind (leaf_zero l) l = true.
Proof. destruct l; cbn; intros H; try discriminate; try reflexivity; apply width_eqb_refl. Qed.

Lemma set_array_roundtrip over es :
  forallb scalar_ok es = true -> set_array_gen over (map leaf_zero es) (fmt_elems es) = Ok es.
Proof.
  induction es as [|a es IH]; cbn [forallb]; intros H; [reflexivity|].
  apply andb_true_iff in H as [Hs Hr].
  destruct (scalar_format a Hs) as [s Hf]. rewrite (fmt_elems_cons _ _ _ Hf). cbn [map set_array_gen].
  rewrite (set_wpt_roundtrip (leaf_zero a) a s Hs (same_kind_zero a Hs) Hf). cbn [obind].
  rewrite (IH Hr). reflexivity.
Qed.

Lemma fmt_elems_nil_iff es : forallb scalar_ok es = true -> fmt_elems es = [] -> es = [].
Proof.
  destruct es as [|a es]; [reflexivity|]. cbn [forallb]. intros H.
  apply andb_true_iff in H as [Hs _]. destruct (scalar_format a Hs) as [s Hf].
  rewrite (fmt_elems_cons _ _ _ Hf). discriminate.
Qed.

Lemma forallb_weaken {A} (f g : A -> bool) l :
  (forall x, f x = true -> g x = true) -> forallb f l = true -> forallb g l = true.
Proof.
  intros Hfg. induction l as [|a l IH]; cbn [forallb]; [reflexivity|].
  intros H. apply andb_true_iff in H as [Ha Hl]. rewrite (Hfg a Ha), (IH Hl). reflexivity.
Qed.

(* one non-recursing field: zero destination, the values the encoder wrote *)
Lemma set_field_roundtrip over v :
  match v with
  | FLeaf l => scalar_ok l = true
  | FSlice p es => forallb (fun e => scalar_ok e && same_kind p e) es = true
  | FArray _ es => forallb scalar_ok es = true
  | FStruct _ => False
  end ->
  let zero := match v with
              | FLeaf l => FLeaf (leaf_zero l)
              | FSlice p _ => FSlice p []
              | FArray p es => FArray p (map leaf_zero es)
              | FStruct sub => FStruct (zero_fields sub)
              end in
  match nonempty_of (Some (fmt_field (fun es => es) v)) with
  | None => zero = v
  | Some vals => set_field_gen over zero vals = Ok v
  end.
Proof.
  destruct v as [l|p es|p es|sub]; intros H; cbn [fmt_field]; [| | |contradiction].
  - destruct (scalar_format l H) as [s Hf]. rewrite (fmt_elems_cons _ _ _ Hf).
    cbn [fmt_elems flat_map nonempty_of set_field_gen].
    rewrite (set_wpt_roundtrip (leaf_zero l) l s H (same_kind_zero l H) Hf). reflexivity.
  - destruct (fmt_elems es) as [|s0 r0] eqn:E; cbn [nonempty_of].
    + rewrite (fmt_elems_nil_iff es); [reflexivity| |exact E].
      eapply forallb_weaken; [|exact H]. intros x Hx. apply andb_true_iff in Hx as [Hx _]. exact Hx.
    + cbn [set_field_gen]. rewrite <- E, (set_slice_roundtrip p es H). reflexivity.
  - destruct (fmt_elems es) as [|s0 r0] eqn:E; cbn [nonempty_of].
    + rewrite (fmt_elems_nil_iff es H E). reflexivity.
    + cbn [set_field_gen]. rewrite <- E, (set_array_roundtrip over es H). reflexivity.
Qed.

Lemma agrees_app form a b : agrees form (a ++ b) -> agrees form a /\ agrees form b.
Proof.
  intros H. split; intros k vs Hin; apply H; apply in_or_app; [left | right]; exact Hin.
Qed.

Lemma map_fields_roundtrip over fs : forall form,
  fields_ok fs = true -> agrees form (flat fs) ->
  map_fields_gen over form (zero_fields fs) = Ok fs.
Proof.
  induction fs as [|name tag e v rest IHsub IHrest] using fields_induction; intros form Hok Hag.
  - reflexivity.
  - cbn [fields_ok] in Hok. apply andb_true_iff in Hok as [Hok Hrest].
    apply andb_true_iff in Hok as [He Hv]. subst e.
    destruct (recurses tag v) eqn:R.
    + apply recurses_true in R as [-> [sub ->]].
      cbn [flat] in Hag. apply agrees_app in Hag as [Hag1 Hag2].
      cbn [zero_fields map_fields_gen negb].
      rewrite (IHsub sub eq_refl form Hv Hag1). cbn [obind].
      rewrite (IHrest form Hrest Hag2). reflexivity.
    + rewrite flat_plain in Hag by exact R.
      assert (Hkey : vget form (eff_name name tag) = nonempty_of (Some (fmt_field (fun es => es) v))).
      { apply Hag. left. reflexivity. }
      assert (Hag2 : agrees form (flat rest)).
      { intros k vs Hin. apply Hag. right. exact Hin. }
      assert (Hv' : match v with
                    | FLeaf l => scalar_ok l = true
                    | FSlice p es => forallb (fun e => scalar_ok e && same_kind p e) es = true
                    | FArray _ es => forallb scalar_ok es = true
                    | FStruct _ => False
                    end).
      { destruct v; try exact Hv. destruct tag; [discriminate R | discriminate Hv]. }
      pose proof (set_field_roundtrip over v Hv') as Hf. cbn zeta in Hf.
      cbn [zero_fields].
      rewrite map_fields_plain by (destruct tag; destruct v; try reflexivity; try discriminate R; contradiction).
      cbn zeta. rewrite Hkey.
      destruct (nonempty_of (Some (fmt_field (fun es => es) v))) as [vals|].
      * rewrite Hf. cbn [obind]. rewrite (IHrest form Hrest Hag2). reflexivity.
      * rewrite Hf. rewrite (IHrest form Hrest Hag2). reflexivity.
Qed.

Lemma form_roundtrip_lemma fs :
  wf_struct fs = true ->
  exists enc, form_marshal (SStruct fs) = Ok enc /\
              form_unmarshal enc (TStruct (zero_fields fs)) = Ok (RStruct fs).
Proof.
  unfold wf_struct. intros H. apply andb_true_iff in H as [Hok Hnd].
  apply nodupb_NoDup in Hnd.
  destruct (encode_parse_agrees fs Hnd) as (form & Hp & Hag).
  eexists. split; [reflexivity|].
  unfold form_unmarshal, form_unmarshal_gen. fold set_fields. rewrite Hp.
  rewrite (map_fields_roundtrip _ fs form Hok Hag). reflexivity.
Qed.

(* ---- totality of the repaired decoder ---- *)
Lemma set_wpt_total cur s : set_with_proper_type cur s <> Panic.
Proof.
  destruct cur; cbn [set_with_proper_type]; try discriminate.
  - destruct (parse_bool _); discriminate.
  - destruct (parse_int _ _); discriminate.
  - destruct (parse_uint _ _); discriminate.
Qed.

Lemma set_slice_total p vals : set_slice p vals <> Panic.
Proof.
  induction vals as [|s r IH]; cbn [set_slice]; [discriminate|].
  pose proof (set_wpt_total p s). destruct (set_with_proper_type p s); cbn [obind]; try congruence.
  destruct (set_slice p r); cbn [omap]; congruence.
Qed.

Lemma set_array_total elems : forall vals, set_array elems vals <> Panic.
Proof.
  unfold set_array.
  induction elems as [|e er IH]; intros [|s sr]; cbn [set_array_gen]; try discriminate.
  pose proof (set_wpt_total e s). destruct (set_with_proper_type e s); cbn [obind]; try congruence.
  specialize (IH sr). destruct (set_array_gen (Ok []) er sr); cbn [omap]; congruence.
Qed.

Lemma set_field_total v vals : vals <> [] -> set_field_gen (Ok []) v vals <> Panic.
Proof.
  destruct vals as [|s r]; [congruence|]. intros _. destruct v; cbn [set_field_gen].
  - pose proof (set_wpt_total l s). destruct (set_with_proper_type l s); cbn [omap]; congruence.
  - pose proof (set_slice_total proto (s :: r)). destruct (set_slice proto (s :: r)); cbn [omap]; congruence.
  - pose proof (set_array_total elems (s :: r)). unfold set_array in H.
    destruct (set_array_gen (Ok []) elems (s :: r)); cbn [omap]; congruence.
  - discriminate.
Qed.

Lemma map_fields_total fs : forall form, lists_nonempty form -> map_fields form fs <> Panic.
Proof.
  unfold map_fields.
  induction fs as [|name tag e v rest IHsub IHrest] using fields_induction; intros form Hne.
  - discriminate.
  - assert (Hcont : forall v', omap (FCons name tag e v') (map_fields_gen (Ok []) form rest) <> Panic).
    { intros v'. specialize (IHrest form Hne).
      destruct (map_fields_gen (Ok []) form rest); cbn [omap]; congruence. }
    destruct e; [|cbn [map_fields_gen negb]; apply Hcont].
    destruct (recurses tag v) eqn:R.
    + apply recurses_true in R as [-> [sub ->]]. cbn [map_fields_gen negb].
      specialize (IHsub sub eq_refl form Hne).
      destruct (map_fields_gen (Ok []) form sub); cbn [obind]; [apply Hcont | congruence | congruence].
    + rewrite map_fields_plain by exact R. cbn zeta.
      destruct (vget form (eff_name name tag)) as [vals|] eqn:E; [|apply Hcont].
      pose proof (set_field_total v vals (Hne _ _ E)).
      destruct (set_field_gen (Ok []) v vals); cbn [obind]; [apply Hcont | congruence | congruence].
Qed.

Lemma form_decode_total_lemma data d : form_unmarshal data d <> Panic.
Proof.
  unfold form_unmarshal, form_unmarshal_gen.
  destruct (parse_query data) as [form|] eqn:E; [|discriminate].
  destruct d; try discriminate.
  - pose proof (map_fields_total fs form (parse_query_nonempty _ _ E)) as H. unfold map_fields in H.
    destruct (map_fields_gen (Ok []) form fs); cbn [omap]; congruence.
  - destruct assignable; discriminate.
Qed.

(* ---- the decoder never changes the type of the destination:
        same fields, same kinds and widths, same array lengths ---- *)
Definition leaf_kind_eq (a b : leaf) : bool :=
  match a, b with
  | LStr _, LStr _ | LBool _, LBool _ => true
  | LInt w _, LInt w' _ | LUint w _, LUint w' _ => width_eqb w w'
  | _, _ => false
  end.

Fixpoint kinds_eq (a b : list leaf) : bool :=
  match a, b with
  | [], [] => true
  | x :: a', y :: b' => leaf_kind_eq x y && kinds_eq a' b'
  | _, _ => false
  end.

Lemma set_wpt_kind cur s l : set_with_proper_type cur s = Ok l -> leaf_kind_eq cur l = true.
Proof.
  destruct cur; cbn [set_with_proper_type]; try discriminate.
  - intros H; inversion H; reflexivity.
  - destruct (parse_bool _); intros H; inversion H; reflexivity.
  - destruct (parse_int _ _); intros H; inversion H; subst. cbn. apply width_eqb_refl.
  - destruct (parse_uint _ _); intros H; inversion H; subst. cbn. apply width_eqb_refl.
Qed.

(* every element an accepted slice holds is of the element type; an accepted array keeps
   its length, and each element it changed keeps its kind *)
Lemma set_slice_kinds p vals es :
  set_slice p vals = Ok es -> Forall (fun e => leaf_kind_eq p e = true) es /\ length es = length vals.
Proof.
  revert es. induction vals as [|s r IH]; intros es; cbn [set_slice].
  - intros H; inversion H; subst. split; [constructor | reflexivity].
  - destruct (set_with_proper_type p s) as [e| |] eqn:E; cbn [obind]; try discriminate.
    destruct (set_slice p r) as [t| |]; cbn [omap]; try discriminate.
    intros H; inversion H; subst. destruct (IH t eq_refl) as [H1 H2].
    split; [constructor; [eapply set_wpt_kind; exact E | exact H1] | cbn; congruence].
Qed.

Lemma set_array_length elems : forall vals es,
  set_array elems vals = Ok es -> length es = length elems.
Proof.
  unfold set_array.
  induction elems as [|e er IH]; intros [|s sr] es; cbn [set_array_gen]; intros H;
    try (inversion H; subst; reflexivity).
  destruct (set_with_proper_type e s) as [e'| |]; cbn [obind] in H; try discriminate.
  destruct (set_array_gen (Ok []) er sr) as [t| |] eqn:E; cbn [omap] in H; try discriminate.
  inversion H; subst. cbn [length]. rewrite (IH sr t E). reflexivity.
Qed.

(* ---- url.Values round trip ---- *)
Lemma form_values_roundtrip_lemma q :
  NoDup (map fst q) ->
  exists enc form, form_marshal (SValues q) = Ok enc /\
                   form_unmarshal enc TValues = Ok (RValues form) /\
                   forall k, vget form k = nonempty_of (vget q k).
Proof.
  intros Hnd. destruct (values_roundtrip_lemma q Hnd) as (form & Hp & Hget).
  exists (values_encode q), form. split; [reflexivity|]. split; [|exact Hget].
  unfold form_unmarshal, form_unmarshal_gen. rewrite Hp. reflexivity.
Qed.

(* ---- the pinned code: witnesses ---- *)
Definition witness_order : fields :=
  FCons (str "A") (str "a") true
        (FSlice (LInt W0 0) [LInt W0 1; LInt W0 2; LInt W0 3]) FNil.

Lemma form_order_prefix_witness :
  wf_struct witness_order = true /\
  form_marshal_prefix (SStruct witness_order) = Ok (str "a=3&a=2&a=1") /\
  form_unmarshal_prefix (str "a=3&a=2&a=1") (TStruct (zero_fields witness_order))
  = Ok (RStruct (FCons (str "A") (str "a") true
                       (FSlice (LInt W0 0) [LInt W0 3; LInt W0 2; LInt W0 1]) FNil)).
Proof. vm_compute. repeat split. Qed.

Definition witness_array : fields :=
  FCons (str "B") (str "b") true (FArray (LStr []) [LStr []; LStr []]) FNil.

Lemma form_total_prefix_witness :
  form_unmarshal_prefix (str "b=1&b=2&b=3") (TStruct witness_array) = Panic.
Proof. vm_compute. reflexivity. Qed.

Lemma form_repaired_on_witnesses :
  form_marshal (SStruct witness_order) = Ok (str "a=1&a=2&a=3") /\
  form_unmarshal (str "b=1&b=2&b=3") (TStruct witness_array)
  = Ok (RStruct (FCons (str "B") (str "b") true
                       (FArray (LStr []) [LStr (str "1"); LStr (str "2")]) FNil)).
Proof. vm_compute. repeat split. Qed.

Lemma form_order_refuted_lemma :
  exists fs, wf_struct fs = true /\
  exists enc, form_marshal_prefix (SStruct fs) = Ok enc /\
              form_unmarshal_prefix enc (TStruct (zero_fields fs)) <> Ok (RStruct fs).
Proof.
  exists witness_order. destruct form_order_prefix_witness as (H1 & H2 & H3).
  split; [exact H1|]. eexists. split; [exact H2|]. rewrite H3. vm_compute. discriminate.
Qed.

Lemma form_total_refuted_lemma :
  exists data fs, form_unmarshal_prefix data (TStruct fs) = Panic.
Proof. exists (str "b=1&b=2&b=3"), witness_array. exact form_total_prefix_witness. Qed.

Lemma form_iface_refuted_lemma : exists data, form_unmarshal_prefix data (TIface false) = Panic.
Proof. exists (str "a=1"). vm_compute. reflexivity. Qed.

(* an interface destination that can hold the map receives it *)
Lemma form_iface_lemma data form :
  parse_query data = Some form ->
  form_unmarshal data (TIface true) = Ok (RValues form) /\ form_unmarshal data (TIface false) = Err.
Proof. intros H. unfold form_unmarshal, form_unmarshal_gen. rewrite H. split; reflexivity. Qed.

(* ---- struct level: a successful decode returns a value of the destination's type ----
   same field names, tags and visibility in the same order; a leaf is untouched or replaced
   by one of its kind and width; a slice is untouched or holds elements of its element type;
   an array keeps its length; nested structs recursively. *)
Inductive ftype_rel : fval -> fval -> Prop :=
| tr_leaf a b : a = b \/ leaf_kind_eq a b = true -> ftype_rel (FLeaf a) (FLeaf b)
| tr_slice p es es' :
    es' = es \/ Forall (fun e => leaf_kind_eq p e = true) es' -> ftype_rel (FSlice p es) (FSlice p es')
| tr_array p es es' : length es' = length es -> ftype_rel (FArray p es) (FArray p es')
| tr_struct fs fs' : fields_rel fs fs' -> ftype_rel (FStruct fs) (FStruct fs')
with fields_rel : fields -> fields -> Prop :=
| fr_nil : fields_rel FNil FNil
| fr_cons n t e v v' r r' :
    ftype_rel v v' -> fields_rel r r' -> fields_rel (FCons n t e v r) (FCons n t e v' r').

Lemma fields_rel_refl fs : fields_rel fs fs.
Proof.
  induction fs as [|name tag e v rest IHsub IHrest] using fields_induction; [constructor|].
  constructor; [|exact IHrest].
  destruct v; constructor; auto.
Qed.

Lemma ftype_rel_refl v : ftype_rel v v.
Proof. destruct v; constructor; auto. apply fields_rel_refl. Qed.

Lemma set_field_type v vals v' : set_field_gen (Ok []) v vals = Ok v' -> ftype_rel v v'.
Proof.
  destruct vals as [|s r]; [discriminate|]. destruct v; cbn [set_field_gen].
  - destruct (set_with_proper_type l s) as [l'| |] eqn:E; cbn [omap]; intros H; inversion H; subst.
    constructor. right. eapply set_wpt_kind. exact E.
  - destruct (set_slice proto (s :: r)) as [es| |] eqn:E; cbn [omap]; intros H; inversion H; subst.
    constructor. right. apply (set_slice_kinds _ _ _ E).
  - destruct (set_array_gen (Ok []) elems (s :: r)) as [es| |] eqn:E; cbn [omap]; intros H; inversion H; subst.
    constructor. apply (set_array_length _ _ _ E).
  - discriminate.
Qed.

Lemma map_fields_type fs : forall form fs', map_fields form fs = Ok fs' -> fields_rel fs fs'.
Proof.
  unfold map_fields.
  induction fs as [|name tag e v rest IHsub IHrest] using fields_induction; intros form fs' H.
  - inversion H. constructor.
  - assert (Hcont : forall v', ftype_rel v v' ->
              omap (FCons name tag e v') (map_fields_gen (Ok []) form rest) = Ok fs' ->
              fields_rel (FCons name tag e v rest) fs').
    { intros v' Hv Hm. destruct (map_fields_gen (Ok []) form rest) as [r'| |] eqn:E; cbn [omap] in Hm;
        inversion Hm; subst. constructor; [exact Hv | eapply IHrest; exact E]. }
    destruct e; [|cbn [map_fields_gen negb] in H; eapply Hcont; [apply ftype_rel_refl | exact H]].
    destruct (recurses tag v) eqn:R.
    + apply recurses_true in R as [-> [sub ->]]. cbn [map_fields_gen negb] in H.
      destruct (map_fields_gen (Ok []) form sub) as [sub'| |] eqn:E; cbn [obind] in H; try discriminate.
      eapply Hcont; [|exact H]. constructor. eapply (IHsub sub eq_refl). exact E.
    + rewrite map_fields_plain in H by exact R. cbn zeta in H.
      destruct (vget form (eff_name name tag)) as [vals|].
      * destruct (set_field_gen (Ok []) v vals) as [v'| |] eqn:E; cbn [obind] in H; try discriminate.
        eapply Hcont; [|exact H]. eapply set_field_type. exact E.
      * eapply Hcont; [apply ftype_rel_refl | exact H].
Qed.

Lemma form_decode_keeps_type_lemma data fs fs' :
  form_unmarshal data (TStruct fs) = Ok (RStruct fs') -> fields_rel fs fs'.
Proof.
  unfold form_unmarshal, form_unmarshal_gen. destruct (parse_query data) as [form|]; [|discriminate].
  destruct (map_fields_gen (Ok []) form fs) as [r| |] eqn:E; cbn [omap]; intros H; inversion H; subst.
  eapply map_fields_type. exact E.
Qed.

(* ---- the state-carrying decoder agrees with the decoder ---- *)
Definition collapse {A} (p : A * outcome unit) : outcome A :=
  match snd p with Ok _ => Ok (fst p) | Err => Err | Panic => Panic end.

Lemma set_array_st_agrees over :
  over = Ok [] \/ over = Panic ->
  forall vals elems, set_array_gen over elems vals = collapse (set_array_st over elems vals).
Proof.
  intros Hover. induction vals as [|s sr IH]; intros elems; destruct elems as [|e er];
    cbn [set_array_gen set_array_st]; try reflexivity.
  - destruct Hover as [-> | ->]; reflexivity.
  - idtac.
    + destruct (set_with_proper_type e s) as [e'| |]; cbn [obind]; try reflexivity.
      rewrite (IH er). destruct (set_array_st over er sr) as [r st]. unfold collapse. cbn [fst snd].
      destruct st; reflexivity.
Qed.

Lemma set_field_st_agrees over v vals :
  over = Ok [] \/ over = Panic ->
  set_field_gen over v vals = collapse (set_field_st over v vals).
Proof.
  intros Hover. destruct v; try (unfold set_field_st; destruct (set_field_gen over _ vals); reflexivity).
  destruct vals as [|s r]; [reflexivity|].
  cbn [set_field_gen set_field_st]. rewrite (set_array_st_agrees over Hover).
  destruct (set_array_st over elems (s :: r)) as [es st]. unfold collapse. cbn [fst snd].
  destruct st; reflexivity.
Qed.

Lemma map_fields_st_agrees over form :
  over = Ok [] \/ over = Panic ->
  forall fs, map_fields_gen over form fs = collapse (map_fields_st over form fs).
Proof.
  intros Hover fs.
  induction fs as [|name tag e v rest IHsub IHrest] using fields_induction.
  - reflexivity.
  - assert (Hcont : forall v',
              omap (FCons name tag e v') (map_fields_gen over form rest) =
              collapse (let (r, st) := map_fields_st over form rest in (FCons name tag e v' r, st))).
    { intros v'. rewrite IHrest. destruct (map_fields_st over form rest) as [r st].
      unfold collapse. cbn [fst snd]. destruct st; reflexivity. }
    destruct e; [|cbn [map_fields_gen map_fields_st negb]; apply Hcont].
    destruct (recurses tag v) eqn:R.
    + apply recurses_true in R as [-> [sub ->]]. cbn [map_fields_gen map_fields_st negb].
      rewrite (IHsub sub eq_refl). destruct (map_fields_st over form sub) as [sub' st].
      unfold collapse at 1. cbn [fst snd]. destruct st; cbn [obind]; [apply Hcont | reflexivity | reflexivity].
    + rewrite map_fields_plain by exact R. cbn zeta.
      assert (Hst : map_fields_st over form (FCons name tag true v rest) =
                    let continue := fun v' =>
                      let (r, st) := map_fields_st over form rest in (FCons name tag true v' r, st) in
                    match vget form (eff_name name tag) with
                    | None => continue v
                    | Some vals =>
                        match snd (set_field_st over v vals) with
                        | Ok _ => continue (fst (set_field_st over v vals))
                        | st => (FCons name tag true (fst (set_field_st over v vals)) rest, st)
                        end
                    end).
      { destruct tag; destruct v; try discriminate R; reflexivity. }
      rewrite Hst. cbn zeta. destruct (vget form (eff_name name tag)) as [vals|]; [|apply Hcont].
      rewrite (set_field_st_agrees over v vals Hover).
      destruct (set_field_st over v vals) as [v' st]. unfold collapse at 1. cbn [fst snd].
      destruct st; cbn [obind]; [apply Hcont | reflexivity | reflexivity].
Qed.

Lemma form_unmarshal_st_agrees data fs :
  form_unmarshal data (TStruct fs) = omap RStruct (collapse (form_unmarshal_struct_st data fs)).
Proof.
  unfold form_unmarshal, form_unmarshal_gen, form_unmarshal_struct_st.
  destruct (parse_query data) as [form|]; [|reflexivity].
  rewrite (map_fields_st_agrees (Ok []) form (or_introl eq_refl)). reflexivity.
Qed.

(* ---- even a FAILED decode leaves a value of the destination's type ---- *)
Lemma set_array_st_length vals : forall elems,
  length (fst (set_array_st (Ok []) elems vals)) = length elems.
Proof.
  induction vals as [|s sr IH]; intros elems; destruct elems as [|e er]; cbn [set_array_st]; try reflexivity.
  destruct (set_with_proper_type e s) as [e'| |]; try reflexivity.
  specialize (IH er). destruct (set_array_st (Ok []) er sr) as [r st]. cbn [fst length] in *. congruence.
Qed.

Lemma set_field_st_type v vals : ftype_rel v (fst (set_field_st (Ok []) v vals)).
Proof.
  destruct v; unfold set_field_st.
  - destruct (set_field_gen (Ok []) (FLeaf l) vals) eqn:E; cbn [fst];
      [eapply set_field_type; exact E | apply ftype_rel_refl | apply ftype_rel_refl].
  - destruct (set_field_gen (Ok []) (FSlice proto elems) vals) eqn:E; cbn [fst];
      [eapply set_field_type; exact E | apply ftype_rel_refl | apply ftype_rel_refl].
  - destruct vals as [|s r]; [apply ftype_rel_refl|].
    pose proof (set_array_st_length (s :: r) elems) as Hl.
    destruct (set_array_st (Ok []) elems (s :: r)) as [es st]. cbn [fst] in *. constructor. exact Hl.
  - destruct (set_field_gen (Ok []) (FStruct fs) vals) eqn:E; cbn [fst];
      [eapply set_field_type; exact E | apply ftype_rel_refl | apply ftype_rel_refl].
Qed.

Lemma map_fields_st_type form fs : fields_rel fs (fst (map_fields_st (Ok []) form fs)).
Proof.
  induction fs as [|name tag e v rest IHsub IHrest] using fields_induction.
  - constructor.
  - assert (Hcont : forall v', ftype_rel v v' ->
              fields_rel (FCons name tag e v rest)
                (fst (let (r, st) := map_fields_st (Ok []) form rest in (FCons name tag e v' r, st)))).
    { intros v' Hv. destruct (map_fields_st (Ok []) form rest) as [r st]. cbn [fst] in *.
      constructor; assumption. }
    assert (Hafter : forall p, ftype_rel v (fst p) ->
              fields_rel (FCons name tag e v rest)
                (fst (match snd p with
                      | Ok _ => let (r, st) := map_fields_st (Ok []) form rest in (FCons name tag e (fst p) r, st)
                      | st => (FCons name tag e (fst p) rest, st)
                      end))).
    { intros p Hp. destruct (snd p); [apply Hcont; exact Hp | |];
        cbn [fst]; (constructor; [exact Hp | apply fields_rel_refl]). }
    destruct e; [|cbn [map_fields_st negb]; apply Hcont, ftype_rel_refl].
    destruct (recurses tag v) eqn:R.
    + apply recurses_true in R as [-> [sub ->]]. cbn [map_fields_st negb].
      specialize (IHsub sub eq_refl). destruct (map_fields_st (Ok []) form sub) as [sub' st].
      apply (Hafter (FStruct sub', st)). cbn [fst] in *. constructor. exact IHsub.
    + assert (Hst : map_fields_st (Ok []) form (FCons name tag true v rest) =
                    match vget form (eff_name name tag) with
                    | None => let (r, st) := map_fields_st (Ok []) form rest in (FCons name tag true v r, st)
                    | Some vals =>
                        match snd (set_field_st (Ok []) v vals) with
                        | Ok _ => let (r, st) := map_fields_st (Ok []) form rest in
                                  (FCons name tag true (fst (set_field_st (Ok []) v vals)) r, st)
                        | st => (FCons name tag true (fst (set_field_st (Ok []) v vals)) rest, st)
                        end
                    end).
      { destruct tag; destruct v; try discriminate R; reflexivity. }
      rewrite Hst. destruct (vget form (eff_name name tag)) as [vals|].
      * apply (Hafter (set_field_st (Ok []) v vals)). apply set_field_st_type.
      * apply Hcont, ftype_rel_refl.
Qed.

Lemma form_failed_decode_keeps_type_lemma data fs :
  fields_rel fs (fst (form_unmarshal_struct_st data fs)).
Proof.
  unfold form_unmarshal_struct_st. destruct (parse_query data) as [form|].
  - apply map_fields_st_type.
  - apply fields_rel_refl.
Qed.

(* ---- the key of a field: the two sites read the tag through a reader ([set_fields_k],
        [map_fields_k]); round trip needs the two readers to agree, and /repo's do ---- *)

(* does a site reading through [tr] recurse into this field? *)
Lemma set_fields_k_step tr q name tag e v rest :
  set_fields_k tr q (FCons name tag e v rest) =
  set_fields_k tr
    (if recurses (tr tag) v
     then match v with FStruct sub => set_fields_k tr q sub | _ => q end
     else vappend_all q (eff_name name (tr tag)) (fmt_field (fun es => es) v)) rest.
Proof. cbn [set_fields_k]. destruct (tr tag); destruct v; reflexivity. Qed.

Lemma map_fields_k_step tr form name tag v rest :
  map_fields_k tr form (FCons name tag true v rest) =
  let continue := fun v' => omap (FCons name tag true v') (map_fields_k tr form rest) in
  if recurses (tr tag) v
  then match v with
       | FStruct sub => obind (map_fields_k tr form sub) (fun sub' => continue (FStruct sub'))
       | _ => continue v
       end
  else match vget form (eff_name name (tr tag)) with
       | None => continue v
       | Some vals => obind (set_field_gen (Ok []) v vals) continue
       end.
Proof. cbn [map_fields_k negb]. destruct (tr tag); destruct v; reflexivity. Qed.

(* the encoder reading through [tr] is the encoder on the struct as [tr] shows it *)
Lemma set_fields_k_retag tr fs : forall q, set_fields_k tr q fs = set_fields q (retag tr fs).
Proof.
  induction fs as [|name tag e v rest IHsub IHrest] using fields_induction; intros q.
  - reflexivity.
  - rewrite set_fields_k_step. cbn [retag]. unfold set_fields.
    destruct (recurses (tr tag) v) eqn:R.
    + apply recurses_true in R as [Ht [sub ->]]. rewrite Ht.
      cbn [set_fields_gen]. fold (set_fields q (retag tr sub)).
      rewrite <- (IHsub sub eq_refl q). apply IHrest.
    + rewrite set_fields_plain.
      * rewrite IHrest. destruct v; reflexivity.
      * destruct (tr tag); destruct v; try reflexivity; discriminate R.
Qed.

(* the reader of /repo: the functions with an explicit reader are the functions of the model *)
Lemma set_fields_k_whole fs : forall q, set_fields_k whole_tag q fs = set_fields q fs.
Proof.
  induction fs as [|name tag e v rest IHsub IHrest] using fields_induction; intros q.
  - reflexivity.
  - cbn [set_fields_k]. change (whole_tag tag) with tag. unfold set_fields. cbn [set_fields_gen].
    destruct tag; destruct v; try (apply IHrest).
    fold (set_fields q fs). rewrite (IHsub fs eq_refl q). apply IHrest.
Qed.

Lemma map_fields_k_whole form fs : map_fields_k whole_tag form fs = map_fields form fs.
Proof.
  unfold map_fields.
  induction fs as [|name tag e v rest IHsub IHrest] using fields_induction.
  - reflexivity.
  - cbn [map_fields_k map_fields_gen]. change (whole_tag tag) with tag. rewrite IHrest.
    destruct (negb e); [reflexivity|].
    destruct tag; destruct v; try reflexivity.
    rewrite (IHsub fs eq_refl). reflexivity.
Qed.

Lemma form_sites_whole_tag_lemma fs data :
  form_marshal (SStruct fs) = Ok (form_marshal_struct_k whole_tag fs) /\
  form_unmarshal data (TStruct fs) = omap RStruct (form_unmarshal_struct_k whole_tag data fs).
Proof.
  unfold form_marshal, form_marshal_gen, form_marshal_struct_k, form_unmarshal, form_unmarshal_gen,
    form_unmarshal_struct_k.
  rewrite set_fields_k_whole. split; [reflexivity|].
  destruct (parse_query data); [|reflexivity]. rewrite map_fields_k_whole. reflexivity.
Qed.

Lemma retag_agree tr1 tr2 fs : tags_agree tr1 tr2 fs = true -> retag tr1 fs = retag tr2 fs.
Proof.
  induction fs as [|name tag e v rest IHsub IHrest] using fields_induction; intros H.
  - reflexivity.
  - cbn [tags_agree] in H. apply andb_true_iff in H as [H Hrest].
    apply andb_true_iff in H as [Ht Hv]. apply bytes_eqb_eq in Ht.
    cbn [retag]. rewrite Ht, (IHrest Hrest). destruct v; try reflexivity.
    rewrite (IHsub fs eq_refl Hv). reflexivity.
Qed.

Lemma tags_agree_refl tr fs : tags_agree tr tr fs = true.
Proof.
  induction fs as [|name tag e v rest IHsub IHrest] using fields_induction; [reflexivity|].
  cbn [tags_agree]. rewrite bytes_eqb_refl, IHrest. destruct v; try reflexivity.
  rewrite (IHsub fs eq_refl). reflexivity.
Qed.

(* the decoder reading through [tr], on the zero value, given what the encoder wrote under the
   keys of the struct as [tr] shows it *)
Lemma map_fields_k_roundtrip tr fs : forall form,
  fields_ok (retag tr fs) = true -> agrees form (flat (retag tr fs)) ->
  map_fields_k tr form (zero_fields fs) = Ok fs.
Proof.
  induction fs as [|name tag e v rest IHsub IHrest] using fields_induction; intros form Hok Hag.
  - reflexivity.
  - cbn [retag fields_ok] in Hok. apply andb_true_iff in Hok as [Hok Hrest].
    apply andb_true_iff in Hok as [He Hv]. subst e.
    cbn [zero_fields]. rewrite map_fields_k_step. cbn zeta.
    destruct (recurses (tr tag) v) eqn:R.
    + apply recurses_true in R as [Ht [sub ->]].
      cbn [retag] in Hag. rewrite Ht in Hag, Hv. cbn [flat] in Hag.
      apply agrees_app in Hag as [Hag1 Hag2].
      cbn [recurses]. rewrite Ht.
      rewrite (IHsub sub eq_refl form Hv Hag1). cbn [obind].
      rewrite (IHrest form Hrest Hag2). reflexivity.
    + assert (Rz : recurses (tr tag)
                     (match v with
                      | FLeaf l => FLeaf (leaf_zero l)
                      | FSlice p _ => FSlice p []
                      | FArray p es => FArray p (map leaf_zero es)
                      | FStruct sub => FStruct (zero_fields sub)
                      end) = false).
      { destruct (tr tag); destruct v; try reflexivity; discriminate R. }
      rewrite Rz.
      assert (Hv' : match v with
                    | FLeaf l => scalar_ok l = true
                    | FSlice p es => forallb (fun e => scalar_ok e && same_kind p e) es = true
                    | FArray _ es => forallb scalar_ok es = true
                    | FStruct _ => False
                    end).
      { destruct v; try exact Hv. destruct (tr tag); [discriminate R | discriminate Hv]. }
      assert (Hflat : flat (retag tr (FCons name tag true v rest)) =
                      (eff_name name (tr tag), fmt_field (fun es => es) v) :: flat (retag tr rest)).
      { cbn [retag]. rewrite flat_plain.
        - destruct v; reflexivity.
        - destruct (tr tag); destruct v; try reflexivity; try discriminate R. }
      rewrite Hflat in Hag.
      assert (Hkey : vget form (eff_name name (tr tag)) = nonempty_of (Some (fmt_field (fun es => es) v))).
      { apply Hag. left. reflexivity. }
      assert (Hag2 : agrees form (flat (retag tr rest))).
      { intros k vs Hin. apply Hag. right. exact Hin. }
      pose proof (set_field_roundtrip (Ok []) v Hv') as Hf. cbn zeta in Hf.
      rewrite Hkey.
      destruct (nonempty_of (Some (fmt_field (fun es => es) v))) as [vals|].
      * rewrite Hf. cbn [obind]. rewrite (IHrest form Hrest Hag2). reflexivity.
      * rewrite Hf. rewrite (IHrest form Hrest Hag2). reflexivity.
Qed.

(* Round trip for EVERY pair of tag readers that agree on the struct's tags, on every struct
   that is well formed as the readers show it. *)
Lemma form_key_agreement_roundtrip_lemma tr_enc tr_dec fs :
  tags_agree tr_enc tr_dec fs = true ->
  wf_struct (retag tr_enc fs) = true ->
  form_unmarshal_struct_k tr_dec (form_marshal_struct_k tr_enc fs) (zero_fields fs) = Ok fs.
Proof.
  intros Hag Hwf. unfold wf_struct in Hwf. apply andb_true_iff in Hwf as [Hok Hnd].
  apply nodupb_NoDup in Hnd.
  destruct (encode_parse_agrees (retag tr_enc fs) Hnd) as (form & Hp & Hagr).
  unfold form_unmarshal_struct_k, form_marshal_struct_k. rewrite set_fields_k_retag, Hp.
  rewrite (retag_agree _ _ _ Hag) in Hok, Hagr.
  apply map_fields_k_roundtrip; assumption.
Qed.

(* the instance of /repo: both sites read the whole tag, so a tag may contain anything, commas
   included; well-formedness is that of the struct as written *)
Lemma retag_whole fs : retag whole_tag fs = fs.
Proof.
  induction fs as [|name tag e v rest IHsub IHrest] using fields_induction; [reflexivity|].
  cbn [retag]. change (whole_tag tag) with tag. rewrite IHrest. destruct v; try reflexivity.
  rewrite (IHsub fs eq_refl). reflexivity.
Qed.

Lemma form_whole_tag_roundtrip_lemma fs :
  wf_struct fs = true ->
  form_unmarshal_struct_k whole_tag (form_marshal_struct_k whole_tag fs) (zero_fields fs) = Ok fs.
Proof.
  intros H. apply form_key_agreement_roundtrip_lemma; [apply tags_agree_refl|].
  rewrite retag_whole. exact H.
Qed.

(* Agreement is necessary: a single scalar field, the encoder writing it under one key and the
   decoder looking under another: the decode succeeds and the field is still zero, whatever
   value was encoded. *)
Lemma form_key_disagreement_lemma tr_enc tr_dec name tag l :
  eff_name name (tr_enc tag) <> eff_name name (tr_dec tag) ->
  let fs := FCons name tag true (FLeaf l) FNil in
  form_unmarshal_struct_k tr_dec (form_marshal_struct_k tr_enc fs) (zero_fields fs)
  = Ok (zero_fields fs).
Proof.
  intros Hne fs. unfold form_unmarshal_struct_k, form_marshal_struct_k.
  subst fs. rewrite set_fields_k_step.
  assert (R : forall t x, recurses t (FLeaf x) = false) by (intros t x; destruct t; reflexivity).
  rewrite R. cbn [set_fields_k].
  set (k1 := eff_name name (tr_enc tag)) in *. set (k2 := eff_name name (tr_dec tag)) in *.
  destruct (values_roundtrip_lemma (vappend_all [] k1 (fmt_field (fun es => es) (FLeaf l))))
    as (form & Hp & Hget).
  { cbn. constructor; [intros [] | constructor]. }
  rewrite Hp. cbn [zero_fields]. rewrite map_fields_k_step. cbn zeta. rewrite R.
  fold k2. rewrite Hget. unfold vappend_all. cbn [vget vset].
  assert (E : bytes_eqb k1 k2 = false) by (apply bytes_eqb_neq; exact Hne).
  rewrite E. cbn [nonempty_of map_fields_k omap]. reflexivity.
Qed.

(* the variant in which only the encoder cuts the tag at the first comma *)
Definition witness_comma : fields :=
  FCons (str "Name") (str "name,omitempty") true (FLeaf (LStr (str "x")))
  (FCons (str "Pair") (str "pair,string") true (FArray (LUint W64 0) [LUint W64 18446744073709551615; LUint W64 7])
  (FCons (str "Tags") (str ",omitempty") true (FSlice (LStr []) [LStr (str "b"); LStr []; LStr (str "c,d")])
  (FCons (str "Inner") [] true
     (FStruct (FCons (str "Zip") (str "zip,omitempty") true (FSlice (LInt W32 0) [LInt W32 (-2147483648); LInt W32 2147483647]) FNil))
   FNil))).

Lemma form_comma_cut_witness :
  wf_struct witness_comma = true /\ wf_struct (retag cut_comma witness_comma) = true /\
  form_marshal_struct_k whole_tag witness_comma
    = str "%2Comitempty=b&%2Comitempty=&%2Comitempty=c%2Cd&name%2Comitempty=x&pair%2Cstring=18446744073709551615&pair%2Cstring=7&zip%2Comitempty=-2147483648&zip%2Comitempty=2147483647" /\
  form_marshal_struct_k cut_comma witness_comma
    = str "Tags=b&Tags=&Tags=c%2Cd&name=x&pair=18446744073709551615&pair=7&zip=-2147483648&zip=2147483647" /\
  form_unmarshal_struct_k whole_tag (form_marshal_struct_k cut_comma witness_comma) (zero_fields witness_comma)
    = Ok (zero_fields witness_comma).
Proof. vm_compute. repeat split. Qed.

Lemma form_encoder_cuts_comma_refuted_lemma :
  exists fs, wf_struct fs = true /\ wf_struct (retag cut_comma fs) = true /\
    form_unmarshal_struct_k whole_tag (form_marshal_struct_k cut_comma fs) (zero_fields fs) <> Ok fs.
Proof.
  exists witness_comma. destruct form_comma_cut_witness as (H1 & H2 & _ & _ & H5).
  split; [exact H1|]. split; [exact H2|]. rewrite H5. vm_compute. discriminate.
Qed.

Lemma form_decoder_cuts_comma_refuted_lemma :
  exists fs, wf_struct fs = true /\ wf_struct (retag cut_comma fs) = true /\
    form_unmarshal_struct_k cut_comma (form_marshal_struct_k whole_tag fs) (zero_fields fs) <> Ok fs.
Proof.
  exists witness_comma. destruct form_comma_cut_witness as (H1 & H2 & _).
  split; [exact H1|]. split; [exact H2|]. vm_compute. discriminate.
Qed.
