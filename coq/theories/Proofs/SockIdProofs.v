(* Lemmas over Model.SockId: the socket id through Reset / ModifySocket / the redial closure. *)
From Coq Require Import Strings.String Strings.Byte.
From Coq Require Import List Arith NArith ZArith Bool Lia.
From Verif Require Import Base.Bytes Model.SockId.
Import ListNotations.

Lemma bytes_eqb_neq x y : x <> y -> bytes_eqb x y = false.
Proof.
  intros H. destruct (bytes_eqb x y) eqn:E; [|reflexivity].
  apply bytes_eqb_eq in E. contradiction.
Qed.

Lemma sock_ID_nonempty k : k_id k <> [] -> sock_ID k = k_id k.
Proof. unfold sock_ID. destruct (k_id k); [congruence | reflexivity]. Qed.

(* ModifySocket's contract: "Inherit the previous session id" *)
(* With an id in place (every call site: the closure and Dial set it before the hooks run) the
   inherited id is the very string; with no id in place the remote address is pinned. *)
Lemma modify_socket_id k w :
  k_id k <> [] -> k_id (modify_socket k w) = k_id k.
Proof.
  intros H. destruct w; cbn; try reflexivity; apply sock_ID_nonempty; exact H.
Qed.

Lemma modify_socket_inherits_id_lemma k w :
  k_id k <> [] -> sock_ID (modify_socket k w) = sock_ID k.
Proof.
  intros H. rewrite (sock_ID_nonempty k H).
  rewrite sock_ID_nonempty; rewrite modify_socket_id; auto.
Qed.

Lemma modify_socket_conn k w : k_conn (modify_socket k w) = wrap_conn w (k_conn k).
Proof. destruct w; reflexivity. Qed.

(* also with no id in place: the remote address that ID() printed before is pinned *)
Lemma modify_socket_inherits_ID k w : sock_ID k <> [] -> sock_ID (modify_socket k w) = sock_ID k.
Proof.
  intros H. destruct w; cbn; try reflexivity; unfold sock_ID at 1; cbn;
    (destruct (sock_ID k) eqn:E; [congruence | reflexivity]).
Qed.

Lemma modify_socket_contract k w :
  sock_ID k <> [] -> sock_ID (modify_socket k w) = sock_ID k /\ k_conn (modify_socket k w) = wrap_conn w (k_conn k).
Proof. intros H. split; [exact (modify_socket_inherits_ID k w H) | exact (modify_socket_conn k w)]. Qed.

(* ---- hooks ---- *)
Lemma run_hooks_id k hs :
  k_id k <> [] -> k_id (fst (run_hooks modify_socket k hs)) = k_id k.
Proof.
  revert k. induction hs as [|h r IH]; intros k H; cbn; [reflexivity|].
  destruct h; cbn; try reflexivity.
  - rewrite IH; rewrite modify_socket_id; auto.
  - apply IH; exact H.
Qed.

Lemma run_hooks_conn k hs :
  In (k_conn (fst (run_hooks modify_socket k hs))) (hook_conns (k_conn k) hs).
Proof.
  revert k. induction hs as [|h r IH]; intros k; cbn; [left; reflexivity|].
  destruct h; cbn.
  - right. rewrite <- modify_socket_conn. apply IH.
  - right. apply IH.
  - left. reflexivity.
Qed.

(* ---- one successful dial inside the closure ---- *)
Lemma redial_attempt_user_id u oldIP k c hs :
  u <> [] -> oldIP <> u ->
  let k1 := fst (redial_attempt modify_socket u oldIP k c hs) in
  k_id k1 = u /\ In (k_conn k1) (hook_conns c hs).
Proof.
  intros Hu Hip. unfold redial_attempt. rewrite (bytes_eqb_neq _ _ Hip). cbn zeta. split.
  - rewrite run_hooks_id; cbn; auto.
  - apply (run_hooks_conn (sock_setid (sock_reset k c) u) hs).
Qed.

Lemma attempts_user_id u oldIP l : forall k,
  u <> [] -> oldIP <> u -> k_id k = u ->
  let k1 := fst (attempts modify_socket u oldIP k l) in
  k_id k1 = u /\ (k_conn k1 = k_conn k \/ In (k_conn k1) (flat_map attempt_conns l)).
Proof.
  induction l as [|a r IH]; intros k Hu Hip Hk; cbn.
  - auto.
  - destruct a as [|c hs].
    + destruct (IH k Hu Hip Hk) as [H1 H2]. auto.
    + destruct (redial_attempt_user_id u oldIP k c hs Hu Hip) as [A1 A2].
      destruct (redial_attempt modify_socket u oldIP k c hs) as [k1 ok] eqn:E. cbn in A1, A2.
      destruct ok; cbn.
      * split; [exact A1|]. right. apply in_or_app. left. exact A2.
      * destruct (IH k1 Hu Hip A1) as [H1 H2]. split; [exact H1|].
        right. apply in_or_app. destruct H2 as [H2|H2]; [left; rewrite H2; exact A2 | right; exact H2].
Qed.

Lemma hub_set_has h k : hub_has (hub_set h k) (sock_ID k) = true.
Proof.
  unfold hub_set. destruct (hub_has h (sock_ID k)) eqn:E; [exact E|].
  unfold hub_has. rewrite existsb_app. cbn. rewrite bytes_eqb_refl. rewrite orb_true_r. reflexivity.
Qed.

(* a redial round, successful or not, leaves the user-assigned id in place; a successful one
   stores the session under that very key *)
Lemma redial_round_user_id u k h l :
  u <> [] -> k_id k = u -> c_local (k_conn k) <> u ->
  let '(k1, h1, ok) := redial_round modify_socket (k, h) l in
  k_id k1 = u /\ sock_ID k1 = u /\
  (k_conn k1 = k_conn k \/ In (k_conn k1) (flat_map attempt_conns l)) /\
  (ok = true -> hub_has h1 u = true) /\ (ok = false -> h1 = h).
Proof.
  intros Hu Hk Hip. unfold redial_round.
  assert (E0 : sock_ID k = u) by (rewrite sock_ID_nonempty; congruence).
  rewrite E0.
  destruct (attempts_user_id u (c_local (k_conn k)) l k Hu Hip Hk) as [A1 A2].
  destruct (attempts modify_socket u (c_local (k_conn k)) k l) as [k1 ok] eqn:E. cbn in A1, A2.
  assert (E1 : sock_ID k1 = u) by (rewrite sock_ID_nonempty; congruence).
  destruct ok; repeat split; auto; try discriminate.
  intros _. rewrite <- E1. apply hub_set_has.
Qed.

(* ---- the whole life: any sequence of losses and rounds ---- *)
Lemma life_user_id u ops : forall k h,
  u <> [] -> k_id k = u -> c_local (k_conn k) <> u ->
  (forall o c, In o ops -> In c (op_conns o) -> c_local c <> u) ->
  let '(k1, _) := life modify_socket (k, h) ops in
  k_id k1 = u /\ sock_ID k1 = u.
Proof.
  induction ops as [|o r IH]; intros k h Hu Hk Hip Hall.
  - cbn. split; [exact Hk|]. rewrite sock_ID_nonempty; congruence.
  - unfold life. cbn [fold_left]. fold (life modify_socket).
    destruct o as [|l].
    + cbn [life_step fst snd]. apply IH; auto. intros o c Ho Hc. apply (Hall o c); [right; exact Ho | exact Hc].
    + cbn [life_step].
      pose proof (redial_round_user_id u k h l Hu Hk Hip) as R.
      destruct (redial_round modify_socket (k, h) l) as [[k1 h1] ok]. cbn [fst].
      destruct R as (R1 & _ & R3 & _).
      apply IH; auto.
      * destruct R3 as [R3|R3]; [rewrite R3; exact Hip|].
        apply (Hall (LRound l) (k_conn k1)); [left; reflexivity | exact R3].
      * intros o c Ho Hc. apply (Hall o c); [right; exact Ho | exact Hc].
Qed.

(* ---- the variant that reads the id after the Reset ---- *)
Definition w_conn0 := mkCn (str "127.0.0.1:5000") (str "127.0.0.1:9090").
Definition w_conn1 := mkCn (str "127.0.0.1:5001") (str "127.0.0.1:9090").
Definition w_sock := mkSock w_conn0 (str "user-1").

Lemma late_variant_loses_user_id :
  let '(k1, h1, ok) := redial_round modify_socket_late (w_sock, []) [AConn w_conn1 [HMod WPlain]] in
  ok = true /\ sock_ID w_sock = str "user-1" /\ c_local (k_conn w_sock) <> str "user-1" /\
  sock_ID k1 = str "127.0.0.1:9090" /\ hub_has h1 (str "user-1") = false /\
  hub_has h1 (str "127.0.0.1:9090") = true.
Proof. vm_compute. repeat split; try reflexivity. discriminate. Qed.

(* the same round on the code as it is *)
Lemma head_keeps_user_id_example :
  let '(k1, h1, ok) := redial_round modify_socket (w_sock, []) [AConn w_conn1 [HMod WPlain]] in
  ok = true /\ sock_ID k1 = str "user-1" /\ h1 = [str "user-1"] /\ k_conn k1 = w_conn1.
Proof. vm_compute. repeat split; reflexivity. Qed.

(* ---- address-derived ids ---- *)
Definition transparent (h : hook) : bool :=
  match h with HMod (WRename _) => false | _ => true end.

Lemma run_hooks_transparent_conn k hs :
  forallb transparent hs = true -> k_conn (fst (run_hooks modify_socket k hs)) = k_conn k.
Proof.
  revert k. induction hs as [|h r IH]; intros k H; cbn; [reflexivity|].
  cbn in H. apply andb_true_iff in H. destruct H as [H1 H2].
  destruct h as [w| |]; cbn; try reflexivity.
  - rewrite IH by exact H2. rewrite modify_socket_conn. destruct w; try reflexivity. discriminate.
  - apply IH. exact H2.
Qed.

(* behind transparent wrappers an address-derived id follows the connection *)
Lemma address_id_refreshed k c hs :
  k_id k = c_local (k_conn k) -> k_id k <> [] -> c_local c <> [] -> forallb transparent hs = true ->
  let k1 := fst (redial_attempt modify_socket (sock_ID k) (c_local (k_conn k)) k c hs) in
  k_id k1 = c_local c /\ k_conn k1 = c.
Proof.
  intros Hk Hne Hc Ht. unfold redial_attempt.
  rewrite (sock_ID_nonempty k Hne), Hk, bytes_eqb_refl. cbn zeta. split.
  - rewrite run_hooks_id; cbn; auto.
  - rewrite run_hooks_transparent_conn by exact Ht. reflexivity.
Qed.

Lemma app_neq_self (t x : bytes) : t <> [] -> t ++ x <> x.
Proof.
  intros Ht E. apply (f_equal (@length byte)) in E. rewrite app_length in E.
  destruct t; [congruence | cbn in E; lia].
Qed.

(* behind a connection that renames its addresses (websocket) the id given at the first dial
   is the raw local address, LocalAddr() prints something else: from then on the restore rule
   of the closure treats it as user-assigned *)
Lemma first_dial_renamed k c t :
  t <> [] -> c_local c <> [] ->
  let k0 := fst (first_dial modify_socket k c [HMod (WRename t)]) in
  k_id k0 = c_local c /\ c_local (k_conn k0) <> k_id k0.
Proof.
  intros Ht Hc. cbn. rewrite sock_ID_nonempty by (cbn; exact Hc). cbn. split; [reflexivity|].
  apply app_neq_self. exact Ht.
Qed.
