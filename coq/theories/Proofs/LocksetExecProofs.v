(* The executable happens-before table and race enumeration of Model/Lockset.v ([hb_table],
   [races], [raceb] - what Corr/C14.v runs against the Go race detector) compute exactly the
   relational [hb] / [race_at] / [race] that the race-freedom theorem is about. *)
From Coq Require Import Strings.String Strings.Byte.
From Coq Require Import List Arith NArith Bool Lia Relations.
From Verif Require Import Model.Lockset Proofs.LocksetProofs.
Import ListNotations.

Lemma memb_In i l : memb i l = true <-> In i l.
Proof.
  induction l as [|j r IH]; cbn [memb In]; [split; [discriminate | tauto]|].
  rewrite orb_true_iff, Nat.eqb_eq, IH. split; intros [H|H]; auto.
Qed.

Lemma union_In i a b : In i (union a b) <-> In i a \/ In i b.
Proof.
  induction a as [|j r IH]; cbn [union In]; [tauto|].
  destruct (memb j b) eqn:M.
  - rewrite IH. apply memb_In in M. split; [tauto|]. intros [[->|H]|H]; auto.
  - cbn [In]. rewrite IH. tauto.
Qed.

Lemma edge_lt tr i j : edge tr i j -> i < j.
Proof. intros H; inversion H; assumption. Qed.

Lemma hb_last tr i k : hb tr i k <-> exists n, edge tr n k /\ (i = n \/ hb tr i n).
Proof.
  unfold hb. split.
  - intros H. apply clos_trans_tn1_iff in H. inversion H as [E | y z E Hc]; subst.
    + exists i. auto.
    + exists y. split; [exact E|]. right. apply clos_trans_tn1_iff. exact Hc.
  - intros (n & E & [->|H]).
    + apply t_step. exact E.
    + eapply t_trans; [exact H | apply t_step; exact E].
Qed.

Section Exec.
  Variable full : list event.

  (* position q holds an atomic write to the location that e reads atomically *)
  Definition AW (e : event) (q : nat) : Prop :=
    exists ei, nth_error full q = Some ei /\ atomic_wr_for ei e = true.

  Lemma atomic_wr_for_inv ei e :
    atomic_wr_for ei e = true ->
    exists t1 t2 x, ei = EAcc t1 x Wr true /\ e = EAcc t2 x Rd true.
  Proof.
    destruct ei as [| | t1 x [|] [|] |], e as [| | t2 y [|] [|] |]; cbn; try discriminate.
    intros E. apply Nat.eqb_eq in E. subst. eauto.
  Qed.

  Lemma edge_iff n k en e :
    n < k -> nth_error full n = Some en -> nth_error full k = Some e ->
    (edge full n k <->
     edgeb en e = true \/ (atomic_wr_for en e = true /\ forall q, n < q -> q < k -> ~ AW e q)).
  Proof.
    intros Hlt Hn Hk. split.
    - intros He. inversion He as [e1 e2 _ H1 H2 Ht | t1 t2 l m1 m2 _ H1 H2 Hc
                                  | t1 t2 x k0 a _ H1 H2 | t1 t2 x _ H1 H2 Hb];
        rewrite Hn in H1; rewrite Hk in H2; inversion H1; inversion H2; subst.
      + left. unfold edgeb. rewrite Ht, Nat.eqb_refl. reflexivity.
      + left. unfold edgeb. rewrite Nat.eqb_refl, Hc. cbn. apply orb_true_r.
      + left. unfold edgeb. rewrite Nat.eqb_refl. apply orb_true_r.
      + right. split; [cbn; apply Nat.eqb_refl|].
        intros q Hq1 Hq2 (ei & Hei & Ha). apply atomic_wr_for_inv in Ha.
        destruct Ha as (u1 & u2 & y & -> & E). inversion E; subst. eapply Hb; eauto.
    - intros [Hb | [Ha Hno]].
      + unfold edgeb in Hb. apply orb_true_iff in Hb. destruct Hb as [Ht | Hm].
        * apply Nat.eqb_eq in Ht. eapply edge_po; eauto.
        * destruct en as [| t1 l m1 | | t1 x], e as [t2 l' m2 | | t2 y k2 a2 |]; try discriminate.
          -- apply andb_true_iff in Hm. destruct Hm as [El Hc]. apply Nat.eqb_eq in El. subst.
             eapply edge_sync; eauto. destruct (compat m1 m2); [discriminate | reflexivity].
          -- apply Nat.eqb_eq in Hm. subst. eapply edge_pub; eauto.
      + destruct (atomic_wr_for_inv _ _ Ha) as (t1 & t2 & x & -> & ->).
        eapply edge_atomic; eauto. intros q t Hq1 Hq2 Hq. eapply Hno; eauto.
        exists (EAcc t x Wr true). split; [exact Hq | cbn; apply Nat.eqb_refl].
  Qed.

  (* tables built so far: one row per position below k, most recent first, each carrying
     exactly the positions that happen before it *)
  Inductive good : nat -> list hbrow -> Prop :=
  | good_nil : good 0 []
  | good_cons : forall k e P tab,
      good k tab -> nth_error full k = Some e -> (forall i, In i P <-> hb full i k) ->
      good (S k) ((k, e, P) :: tab).

  Lemma good_row k tab : good k tab -> forall n, n < k ->
    exists e P, In (n, e, P) tab /\ nth_error full n = Some e /\ (forall i, In i P <-> hb full i n).
  Proof.
    induction 1 as [|k e P tab Hg IH He HP]; intros n Hn; [lia|].
    destruct (Nat.eq_dec n k) as [->|Hne].
    - exists e, P. split; [left; reflexivity | auto].
    - destruct (IH n ltac:(lia)) as (e' & P' & Hin & H1 & H2). exists e', P'. split; [right; exact Hin | auto].
  Qed.

  Lemma good_in k tab : good k tab -> forall n e P, In (n, e, P) tab ->
    n < k /\ nth_error full n = Some e /\ (forall i, In i P <-> hb full i n).
  Proof.
    induction 1 as [|k e P tab Hg IH He HP]; intros n e' P' Hin; [destruct Hin|].
    destruct Hin as [E|Hin].
    - inversion E; subst. split; [lia | auto].
    - destruct (IH _ _ _ Hin) as (H1 & H2 & H3). split; [lia | auto].
  Qed.

  Lemma scan_spec k e : nth_error full k = Some e ->
    forall m tab, good m tab -> m <= k ->
    forall seen, (seen = true <-> exists q, m <= q /\ q < k /\ AW e q) ->
    forall i, In i (preds_scan tab e seen) <->
              exists n, n < m /\ edge full n k /\ (i = n \/ hb full i n).
  Proof.
    intros Hk m tab Hg. induction Hg as [|m en P tab Hg IH Hen HP]; intros Hle seen Hseen i.
    - cbn [preds_scan In]. split; [tauto | intros (n & Hn & _); lia].
    - cbn [preds_scan].
      set (aw := atomic_wr_for en e).
      assert (Haw : aw = true <-> AW e m).
      { unfold aw, AW. split.
        - intros H. exists en. auto.
        - intros (ei & Hei & Ha). rewrite Hen in Hei. inversion Hei; subst. exact Ha. }
      assert (Hseen' : (seen || aw) = true <-> exists q, m <= q /\ q < k /\ AW e q).
      { rewrite orb_true_iff, Hseen, Haw. split.
        - intros [(q & H1 & H2 & H3) | H]; [exists q; repeat split; auto; lia | exists m; repeat split; auto; lia].
        - intros (q & H1 & H2 & H3). destruct (Nat.eq_dec q m) as [->|Hne]; [right; exact H3|].
          left. exists q. repeat split; auto; lia. }
      assert (Hdirect : (edgeb en e || (aw && negb seen)) = true <-> edge full m k).
      { rewrite (edge_iff m k en e ltac:(lia) Hen Hk). rewrite orb_true_iff, andb_true_iff, negb_true_iff.
        fold aw. split; intros [H | [H1 H2]]; auto; right; split; auto.
        - intros q Hq1 Hq2 Hq. assert (seen = true) by (apply Hseen; exists q; repeat split; auto; lia). congruence.
        - destruct seen; [|reflexivity]. destruct (proj1 Hseen eq_refl) as (q & Hq1 & Hq2 & Hq).
          exfalso. eapply H2; eauto. }
      specialize (IH ltac:(lia) (seen || aw) Hseen' i).
      destruct (edgeb en e || (aw && negb seen)) eqn:D.
      + rewrite union_In. cbn [In]. rewrite IH, HP. split.
        * intros [[<- | H] | (n & Hn & He & Hi)].
          -- exists m. repeat split; [lia | apply Hdirect; reflexivity | auto].
          -- exists m. repeat split; [lia | apply Hdirect; reflexivity | auto].
          -- exists n. repeat split; auto; lia.
        * intros (n & Hn & He & Hi). destruct (Nat.eq_dec n m) as [->|Hne].
          -- left. destruct Hi as [->|Hi]; auto.
          -- right. exists n. repeat split; auto; lia.
      + rewrite IH. split; intros (n & Hn & He & Hi).
        * exists n. repeat split; auto; lia.
        * destruct (Nat.eq_dec n m) as [->|Hne].
          -- apply Hdirect in He. discriminate.
          -- exists n. repeat split; auto; lia.
  Qed.

  Lemma preds_of_spec k e tab : good k tab -> nth_error full k = Some e ->
    forall i, In i (preds_of tab e) <-> hb full i k.
  Proof.
    intros Hg Hk i. unfold preds_of.
    rewrite (scan_spec k e Hk k tab Hg (le_n k) false).
    - rewrite hb_last. split.
      + intros (n & _ & He & Hi). exists n. auto.
      + intros (n & He & Hi). exists n. split; [eapply edge_lt; eauto | auto].
    - split; [discriminate | intros (q & H1 & H2 & _); lia].
  Qed.

  Lemma hb_table_good : forall suffix k tab,
    good k tab -> (forall n, nth_error suffix n = nth_error full (k + n)) ->
    good (k + length suffix) (hb_table suffix k tab).
  Proof.
    induction suffix as [|e r IH]; intros k tab Hg Hs; cbn [hb_table length].
    - rewrite Nat.add_0_r. exact Hg.
    - replace (k + S (length r)) with (S k + length r) by lia. apply IH.
      + assert (Hk : nth_error full k = Some e).
        { specialize (Hs 0). cbn in Hs. rewrite Nat.add_0_r in Hs. symmetry. exact Hs. }
        constructor; [exact Hg | exact Hk | apply preds_of_spec; assumption].
      + intros n. specialize (Hs (S n)). cbn in Hs. rewrite Hs. f_equal. lia.
  Qed.
End Exec.

Lemma table_good tr : good tr (length tr) (hb_table tr 0 []).
Proof.
  apply (hb_table_good tr tr 0 []); [constructor | intros n; reflexivity].
Qed.

Lemma conflictingb_iff k1 a1 k2 a2 : conflictingb k1 a1 k2 a2 = true <-> conflicting k1 a1 k2 a2.
Proof.
  unfold conflictingb, conflicting. rewrite andb_true_iff, orb_true_iff, !akind_eqb_eq, negb_true_iff.
  tauto.
Qed.

Lemma races_exact tr i j : In (i, j) (races tr) <-> race_at tr i j.
Proof.
  pose proof (table_good tr) as Hg. unfold races, races_of. rewrite in_flat_map. split.
  - intros ([[j' ej] pj] & Hj & Hin). rewrite in_flat_map in Hin.
    destruct Hin as ([[i' ei] pi] & Hi & Hin).
    destruct (good_in _ _ _ Hg _ _ _ Hj) as (Hjl & Hje & HP).
    destruct (good_in _ _ _ Hg _ _ _ Hi) as (Hil & Hie & _).
    destruct ei as [| | t1 x k1 a1 |]; try (destruct Hin; fail).
    destruct ej as [| | t2 y k2 a2 |]; try (destruct Hin; fail).
    destruct (Nat.ltb i' j' && Nat.eqb x y && conflictingb k1 a1 k2 a2 && negb (memb i' pj)) eqn:C;
      [|destruct Hin].
    destruct Hin as [E|[]]. inversion E; subst i' j'.
    rewrite !andb_true_iff in C. destruct C as [[[C1 C2] C3] C4].
    apply Nat.ltb_lt in C1. apply Nat.eqb_eq in C2. subst y. apply conflictingb_iff in C3.
    apply negb_true_iff in C4.
    exists t1, t2, x, k1, a1, k2, a2. repeat split; auto; try apply C3.
    intros Hhb. apply HP in Hhb. apply memb_In in Hhb. congruence.
  - intros (t1 & t2 & x & k1 & a1 & k2 & a2 & Hlt & Hi & Hj & Hc & Hn).
    assert (Hjl : j < length tr) by (apply nth_error_Some; congruence).
    destruct (good_row _ _ _ Hg j Hjl) as (ej & pj & Hjin & Hje & HP).
    destruct (good_row _ _ _ Hg i ltac:(lia)) as (ei & pi & Hiin & Hie & _).
    rewrite Hj in Hje. inversion Hje; subst ej. rewrite Hi in Hie. inversion Hie; subst ei.
    exists (j, EAcc t2 x k2 a2, pj). split; [exact Hjin|]. rewrite in_flat_map.
    exists (i, EAcc t1 x k1 a1, pi). split; [exact Hiin|].
    assert (C : Nat.ltb i j && Nat.eqb x x && conflictingb k1 a1 k2 a2 && negb (memb i pj) = true).
    { rewrite !andb_true_iff. repeat split.
      - apply Nat.ltb_lt. exact Hlt.
      - apply Nat.eqb_refl.
      - apply conflictingb_iff. exact Hc.
      - apply negb_true_iff. destruct (memb i pj) eqn:M; [|reflexivity].
        exfalso. apply Hn. apply HP. apply memb_In. exact M. }
    rewrite C. left. reflexivity.
Qed.

Lemma raceb_exact tr : raceb tr = true <-> race tr.
Proof.
  unfold raceb, race. split.
  - destruct (races tr) as [|[i j] r] eqn:E; [discriminate|]. intros _.
    exists i, j. apply races_exact. rewrite E. left. reflexivity.
  - intros (i & j & H). apply races_exact in H. destruct (races tr); [destruct H | reflexivity].
Qed.

Lemma wfb_exact tr : wfb tr = true <-> wf init tr.
Proof.
  unfold wfb. rewrite wf_exec. destruct (exec init tr); split; eauto; try discriminate.
  intros [? ?]. discriminate.
Qed.
