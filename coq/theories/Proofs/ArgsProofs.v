From Coq Require Import Strings.String Strings.Byte.
From Coq Require Import List Arith NArith ZArith Bool Lia.
From Verif Require Import Base.Bytes Base.Outcome Model.Quote Model.Args Proofs.QuoteProofs.
Import ListNotations.

Definition noamp (x : bytes) : Prop := forallb (fun c => negb (beqb c "&"%byte)) x = true.
Definition noeq (x : bytes) : Prop := forallb (fun c => negb (beqb c "="%byte)) x = true.

Lemma plain_noamp x : forallb plain x = true -> noamp x.
Proof.
  unfold noamp. induction x as [|c r IH]; cbn [forallb]; [reflexivity|].
  intros H. apply andb_true_iff in H as [Hc Hr]. unfold plain in Hc.
  apply andb_true_iff in Hc as [Ha _]. rewrite Ha. apply IH. exact Hr.
Qed.

Lemma plain_noeq x : forallb plain x = true -> noeq x.
Proof.
  unfold noeq. induction x as [|c r IH]; cbn [forallb]; [reflexivity|].
  intros H. apply andb_true_iff in H as [Hc Hr]. unfold plain in Hc.
  apply andb_true_iff in Hc as [_ Ha]. rewrite Ha. apply IH. exact Hr.
Qed.

Lemma noamp_app x y : noamp x -> noamp y -> noamp (x ++ y).
Proof. unfold noamp. intros Hx Hy. rewrite forallb_app, Hx, Hy. reflexivity. Qed.

Lemma segments_amp x : noamp x -> forall r cur,
  segments (x ++ "&"%byte :: r) cur = (rev cur ++ x) :: segments r [].
Proof.
  unfold noamp. induction x as [|c x IH]; intros Hx r cur.
  - cbn [app segments]. rewrite beqb_refl, frev_rev, app_nil_r. reflexivity.
  - cbn [forallb] in Hx. apply andb_true_iff in Hx as [Hc Hx].
    cbn [app segments]. apply negb_true_iff in Hc. rewrite Hc.
    rewrite IH by exact Hx. cbn [rev]. rewrite <- app_assoc. reflexivity.
Qed.

Lemma segments_last x : noamp x -> forall cur,
  segments x cur = if is_nil (rev cur ++ x) then [] else [rev cur ++ x].
Proof.
  unfold noamp. induction x as [|c x IH]; intros Hx cur.
  - cbn [segments]. rewrite app_nil_r, frev_rev.
    destruct cur as [|a cur]; [reflexivity|]. cbn [is_nil rev].
    destruct (rev cur ++ [a]) eqn:E; [|reflexivity].
    apply app_eq_nil in E as [_ E]. discriminate.
  - cbn [forallb] in Hx. apply andb_true_iff in Hx as [Hc Hx].
    cbn [segments]. apply negb_true_iff in Hc. rewrite Hc.
    rewrite IH by exact Hx. cbn [rev]. rewrite <- app_assoc. reflexivity.
Qed.

Lemma split_eq_found x : noeq x -> forall r cur,
  split_eq (x ++ "="%byte :: r) cur = (rev cur ++ x, Some r).
Proof.
  unfold noeq. induction x as [|c x IH]; intros Hx r cur.
  - cbn [app split_eq]. rewrite beqb_refl, frev_rev, app_nil_r. reflexivity.
  - cbn [forallb] in Hx. apply andb_true_iff in Hx as [Hc Hx].
    cbn [app split_eq]. apply negb_true_iff in Hc. rewrite Hc.
    rewrite IH by exact Hx. cbn [rev]. rewrite <- app_assoc. reflexivity.
Qed.

Lemma split_eq_none x : noeq x -> forall cur, split_eq x cur = (rev cur ++ x, None).
Proof.
  unfold noeq. induction x as [|c x IH]; intros Hx cur.
  - cbn [split_eq]. rewrite frev_rev, app_nil_r. reflexivity.
  - cbn [forallb] in Hx. apply andb_true_iff in Hx as [Hc Hx].
    cbn [split_eq]. apply negb_true_iff in Hc. rewrite Hc.
    rewrite IH by exact Hx. cbn [rev]. rewrite <- app_assoc. reflexivity.
Qed.

Lemma dec_seg_enc p : dec_seg (enc_kv p) = Ok p.
Proof.
  destruct p as [k v]. unfold dec_seg, enc_kv.
  destruct v as [|b v]; cbn [is_nil].
  - rewrite app_nil_r, split_eq_none by (apply plain_noeq, quote_plain).
    cbn [rev app]. rewrite quote_unquote. reflexivity.
  - rewrite split_eq_found by (apply plain_noeq, quote_plain).
    cbn [rev app]. rewrite quote_unquote. cbn [rbind]. rewrite quote_unquote. reflexivity.
Qed.

Lemma enc_kv_noamp p : noamp (enc_kv p).
Proof.
  destruct p as [k v]. unfold enc_kv. apply noamp_app.
  - apply plain_noamp, quote_plain.
  - destruct (is_nil v); [reflexivity|].
    change ("="%byte :: quote v) with (["="%byte] ++ quote v).
    apply noamp_app; [reflexivity | apply plain_noamp, quote_plain].
Qed.

Lemma enc_kv_nil p : kv_ok p = true -> enc_kv p <> [].
Proof.
  destruct p as [k v]. unfold kv_ok, enc_kv. cbn [fst snd]. intros Hok E.
  apply app_eq_nil in E as [Ek Ev]. destruct (quote_nil_iff k) as [Hq _]. apply Hq in Ek. subst k.
  destruct v as [|b v]; cbn [is_nil andb negb] in *; discriminate.
Qed.

Lemma segments_encode l : args_ok l = true -> segments (args_encode l) [] = map enc_kv l.
Proof.
  induction l as [|p r IH]; intros Hok; [reflexivity|].
  cbn [args_ok forallb] in Hok. apply andb_true_iff in Hok as [Hp Hr].
  destruct r as [|q r].
  - cbn [args_encode map]. rewrite segments_last by apply enc_kv_noamp. cbn [rev app].
    destruct (enc_kv p) eqn:E; [exfalso; eapply enc_kv_nil; eauto | reflexivity].
  - change (args_encode (p :: q :: r)) with (enc_kv p ++ "&"%byte :: args_encode (q :: r)).
    rewrite segments_amp by apply enc_kv_noamp. cbn [rev app map].
    rewrite IH by exact Hr. reflexivity.
Qed.

Lemma dec_segs_encode l : args_ok l = true -> dec_segs (map enc_kv l) = Ok l.
Proof.
  induction l as [|p r IH]; intros Hok; [reflexivity|].
  cbn [args_ok forallb] in Hok. apply andb_true_iff in Hok as [Hp Hr].
  cbn [map dec_segs]. rewrite dec_seg_enc. cbn [rbind]. rewrite IH by exact Hr. cbn [rbind].
  unfold kv_ok in Hp. apply negb_true_iff in Hp. rewrite Hp. reflexivity.
Qed.

Theorem args_roundtrip l : args_ok l = true -> args_parse (args_encode l) = Ok l.
Proof.
  intros Hok. unfold args_parse. rewrite segments_encode by exact Hok.
  apply dec_segs_encode. exact Hok.
Qed.

(* without the guard the statement is false: the empty pair is dropped *)
Theorem args_roundtrip_unguarded_refuted :
  exists l, args_parse (args_encode l) <> Ok l.
Proof. exists [([], [])]. vm_compute. discriminate. Qed.

Lemma args_encode_noeq_free : True. Proof. exact I. Qed.
