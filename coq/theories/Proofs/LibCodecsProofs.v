(* The dispatch of the delegating codecs preserves the library's contract. *)
From Coq Require Import Strings.String Strings.Byte.
From Coq Require Import List Arith NArith Bool Lia.
From Verif Require Import Base.Bytes Model.PlainCodec Model.LibCodecs.
Import ListNotations.

Section Lib.
  Variable msg : Type.
  Variable lib_marshal : msg -> outcome bytes.
  Variable lib_unmarshal : bytes -> msg -> outcome msg.
  Variable empty : msg.

  Hypothesis lib_roundtrip : forall m d s, lib_marshal m = Ok s -> lib_unmarshal s d = Ok m.

  Lemma dispatch_roundtrip_lemma m d s :
    dispatch_marshal msg lib_marshal empty (LMsg msg m) = Ok s ->
    dispatch_unmarshal msg lib_unmarshal s (LDMsg msg d) = Ok (Some m).
  Proof. cbn. intros H. rewrite (lib_roundtrip m d s H). reflexivity. Qed.

  Lemma dispatch_unit_roundtrip_lemma s :
    dispatch_marshal msg lib_marshal empty (LUnit msg) = Ok s ->
    lib_marshal empty = Ok s /\ dispatch_unmarshal msg lib_unmarshal s (LDUnit msg) = Ok None.
  Proof. cbn. intros H. split; [exact H | reflexivity]. Qed.

  Hypothesis lib_total : forall data d, lib_unmarshal data d <> Panic.

  Lemma dispatch_total_lemma data d : dispatch_unmarshal msg lib_unmarshal data d <> Panic.
  Proof.
    destruct d; cbn; try discriminate.
    pose proof (lib_total data m). destruct (lib_unmarshal data m); cbn; congruence.
  Qed.
End Lib.
