(* C14: a result that owns its memory is race free whatever the user and the recycling reader do
   afterwards; a result that aliases recycled memory follows no discipline and races as soon as
   one user read and one recycling write both occur (in either order). *)
From Coq Require Import Strings.String Strings.Byte.
From Coq Require Import List Arith Bool Lia Relations.
From Verif Require Import Model.Lockset Model.Handed Proofs.LocksetProofs.
Import ListNotations.

(* ---- follows over concatenation, composition direction ---- *)
Lemma follows_app_intro D : forall a st s b,
  follows D st a = true -> exec st a = Some s -> follows D s b = true ->
  follows D st (a ++ b) = true.
Proof.
  induction a as [|e r IH]; intros st s b Fa E Fb; cbn [app exec follows] in *.
  - inversion E; subst. exact Fb.
  - destruct (step st e) as [s1|] eqn:Hs; [|discriminate].
    apply andb_true_iff in Fa. destruct Fa as [Fe Fr]. rewrite Fe. cbn [andb].
    eapply IH; eauto.
Qed.

Lemma follows_app_false D : forall a st s b,
  exec st a = Some s -> follows D s b = false -> follows D st (a ++ b) = false.
Proof.
  induction a as [|e r IH]; intros st s b E Fb; cbn [app exec follows] in *.
  - inversion E; subst. exact Fb.
  - destruct (step st e) as [s1|] eqn:Hs; [|discriminate].
    rewrite (IH _ _ _ E Fb). apply andb_false_r.
Qed.

(* ---- the copy ---- *)
Definition copy_inv (st : state) : Prop :=
  pub st pooled = Owned reader /\ pub st copyloc = Shared.

Lemma exec_fill_copy : exists st, exec init (fill SrcCopy) = Some st /\ copy_inv st.
Proof. eexists. split; [cbn; reflexivity|]. split; reflexivity. Qed.

Lemma step_later_copy st l : copy_inv st -> step st (later_event SrcCopy l) = Some st.
Proof.
  intros [Hp Hc]. destruct l as [u|]; cbn [later_event res_loc step].
  - rewrite Hc. reflexivity.
  - rewrite Hp. reflexivity.
Qed.

Lemma exec_later_copy st sched :
  copy_inv st -> exec st (map (later_event SrcCopy) sched) = Some st.
Proof.
  intros Hi. induction sched as [|l r IH]; cbn [map exec]; [reflexivity|].
  rewrite step_later_copy by exact Hi. exact IH.
Qed.

Lemma follows_later_copy st sched :
  copy_inv st -> follows (fun _ => DReadOnly) st (map (later_event SrcCopy) sched) = true.
Proof.
  intros Hi. induction sched as [|l r IH]; cbn [map follows]; [reflexivity|].
  rewrite step_later_copy by exact Hi. rewrite IH. rewrite andb_true_r.
  destruct Hi as [Hp Hc]. destruct l as [u|]; cbn [later_event res_loc event_ok].
  - rewrite Hc. reflexivity.
  - rewrite Hp. reflexivity.
Qed.

Lemma handover_copy_wf sched : wf init (handover SrcCopy sched).
Proof.
  destruct exec_fill_copy as (st & E & Hi).
  apply wf_exec. exists st. unfold handover. rewrite exec_app, E.
  apply exec_later_copy. exact Hi.
Qed.

Lemma handover_copy_follows sched :
  follows (fun _ => DReadOnly) init (handover SrcCopy sched) = true.
Proof.
  destruct exec_fill_copy as (st & E & Hi).
  unfold handover. eapply follows_app_intro; [reflexivity | exact E |].
  apply follows_later_copy. exact Hi.
Qed.

Theorem handover_copy_race_free sched :
  wf init (handover SrcCopy sched) /\ ~ race (handover SrcCopy sched).
Proof.
  split; [apply handover_copy_wf|].
  eapply lockset_race_free; [apply handover_copy_wf | apply handover_copy_follows].
Qed.

(* ---- the alias ---- *)
Definition alias_inv (st : state) : Prop := pub st pooled = Shared /\ holders st = [].

Lemma exec_fill_alias : exists st, exec init (fill SrcAlias) = Some st /\ alias_inv st.
Proof. eexists. split; [cbn; reflexivity|]. split; reflexivity. Qed.

Lemma step_later_alias st l : alias_inv st -> step st (later_event SrcAlias l) = Some st.
Proof.
  intros [Hp _]. destruct l as [u|]; cbn [later_event res_loc step]; rewrite Hp; reflexivity.
Qed.

Lemma exec_later_alias st sched :
  alias_inv st -> exec st (map (later_event SrcAlias) sched) = Some st.
Proof.
  intros Hi. induction sched as [|l r IH]; cbn [map exec]; [reflexivity|].
  rewrite step_later_alias by exact Hi. exact IH.
Qed.

Lemma handover_alias_wf sched : wf init (handover SrcAlias sched).
Proof.
  destruct exec_fill_alias as (st & E & Hi).
  apply wf_exec. exists st. unfold handover. rewrite exec_app, E.
  apply exec_later_alias. exact Hi.
Qed.

Lemma recycle_not_ok D st : alias_inv st -> event_ok D st (later_event SrcAlias Recycle) = false.
Proof.
  intros [Hp Hh]. cbn [later_event event_ok]. rewrite Hp, Hh.
  destruct (D pooled); reflexivity.
Qed.

Lemma follows_later_alias_false D st sched :
  alias_inv st -> existsb is_recycle sched = true ->
  follows D st (map (later_event SrcAlias) sched) = false.
Proof.
  intros Hi. induction sched as [|l r IH]; cbn [map follows existsb]; [discriminate|].
  intros Hex. rewrite step_later_alias by exact Hi.
  destruct l as [u|]; cbn [is_recycle orb] in Hex.
  - rewrite (IH Hex). apply andb_false_r.
  - rewrite recycle_not_ok by exact Hi. reflexivity.
Qed.

Theorem handover_alias_no_discipline D sched :
  existsb is_recycle sched = true -> follows D init (handover SrcAlias sched) = false.
Proof.
  intros Hex. destruct exec_fill_alias as (st & E & Hi).
  unfold handover. eapply follows_app_false; [exact E|].
  apply follows_later_alias_false; assumption.
Qed.

(* every event after the publication is a plain access: no edge leaves its thread *)
Lemma alias_later_form sched i e :
  2 <= i -> nth_error (handover SrcAlias sched) i = Some e -> exists l, e = later_event SrcAlias l.
Proof.
  intros Hi H. destruct i as [|[|n]]; try lia.
  unfold handover, fill in H. cbn [app nth_error] in H.
  apply nth_error_In in H. apply in_map_iff in H. destruct H as (l & <- & _). eauto.
Qed.

Definition same_thread (tr : list event) (i j : nat) : Prop :=
  i < j /\ exists e1 e2, nth_error tr i = Some e1 /\ nth_error tr j = Some e2 /\
                         thread_of e1 = thread_of e2.

Lemma alias_edge sched i j :
  2 <= i -> edge (handover SrcAlias sched) i j -> same_thread (handover SrcAlias sched) i j.
Proof.
  intros Hi He.
  inversion He as [e1 e2 Hlt H1 H2 Ht | t1 t2 l m1 m2 Hlt H1 H2 Hc | t1 t2 x k0 a Hlt H1 H2
                   | t1 t2 x Hlt H1 H2 Hb].
  - split; [exact Hlt|]. eauto.
  - destruct (alias_later_form _ _ _ Hi H1) as ([u|] & El); cbn in El; discriminate.
  - destruct (alias_later_form _ _ _ Hi H1) as ([u|] & El); cbn in El; discriminate.
  - destruct (alias_later_form _ _ _ Hi H1) as ([u|] & El); cbn in El; discriminate.
Qed.

Lemma alias_hb sched i j :
  hb (handover SrcAlias sched) i j -> 2 <= i -> same_thread (handover SrcAlias sched) i j.
Proof.
  unfold hb. induction 1 as [x y He | x y z _ IH1 _ IH2]; intros Hx.
  - apply alias_edge; assumption.
  - destruct (IH1 Hx) as (L1 & a1 & b1 & A1 & B1 & T1).
    destruct IH2 as (L2 & a2 & b2 & A2 & B2 & T2); [lia|].
    split; [lia|]. exists a1, b2. repeat split; try assumption.
    rewrite B1 in A2. inversion A2; subst. congruence.
Qed.

Definition ltid (l : later) : tid := match l with URead u => S u | Recycle => reader end.
Definition lkind (l : later) : akind := match l with URead _ => Rd | Recycle => Wr end.

Lemma later_event_alias l : later_event SrcAlias l = EAcc (ltid l) pooled (lkind l) false.
Proof. destruct l; reflexivity. Qed.

Lemma alias_pair_races s1 a s2 b s3 :
  ltid a <> ltid b -> is_recycle a || is_recycle b = true ->
  race (handover SrcAlias (s1 ++ a :: s2 ++ b :: s3)).
Proof.
  intros Ht Hw.
  set (f := later_event SrcAlias).
  set (tr := handover SrcAlias (s1 ++ a :: s2 ++ b :: s3)).
  assert (E1 : tr = (fill SrcAlias ++ map f s1) ++ f a :: (map f s2 ++ f b :: map f s3)).
  { unfold tr, handover. fold f. rewrite map_app. cbn [map]. rewrite map_app. cbn [map].
    rewrite app_assoc. reflexivity. }
  assert (E2 : tr = ((fill SrcAlias ++ map f s1) ++ f a :: map f s2) ++ f b :: map f s3).
  { rewrite E1. norm_app. reflexivity. }
  set (i := length (fill SrcAlias ++ map f s1)).
  set (j := length ((fill SrcAlias ++ map f s1) ++ f a :: map f s2)).
  assert (Hi : nth_error tr i = Some (f a)) by (rewrite E1; apply nth_mid; reflexivity).
  assert (Hj : nth_error tr j = Some (f b)) by (rewrite E2; apply nth_mid; reflexivity).
  assert (Hlt : i < j).
  { unfold i, j. rewrite (app_length (_ ++ _) (_ :: _)). cbn [length]. lia. }
  assert (H2 : 2 <= i).
  { unfold i. rewrite app_length. cbn [fill length]. lia. }
  exists i, j, (ltid a), (ltid b), pooled, (lkind a), false, (lkind b), false.
  split; [exact Hlt|].
  split; [rewrite Hi; unfold f; rewrite later_event_alias; reflexivity|].
  split; [rewrite Hj; unfold f; rewrite later_event_alias; reflexivity|].
  split.
  - split; [|reflexivity]. destruct a, b; cbn in Hw |- *; try discriminate; auto.
  - intros Hhb. apply alias_hb in Hhb; [|exact H2].
    destruct Hhb as (_ & e1 & e2 & A & B & T).
    fold tr in A, B. rewrite Hi in A. rewrite Hj in B. inversion A; inversion B; subst.
    unfold f in T. rewrite !later_event_alias in T. cbn [thread_of] in T. contradiction.
Qed.

Theorem handover_alias_races sched u :
  In (URead u) sched -> In Recycle sched -> race (handover SrcAlias sched).
Proof.
  intros Hu Hr.
  destruct (in_split _ _ Hu) as (s1 & s2 & E). subst sched.
  apply in_app_or in Hr. destruct Hr as [Hr | Hr].
  - destruct (in_split _ _ Hr) as (p & q & E). subst s1.
    rewrite <- app_assoc. rewrite <- app_comm_cons.
    apply alias_pair_races; [cbn; unfold reader; lia | reflexivity].
  - destruct Hr as [Hr | Hr]; [discriminate|].
    destruct (in_split _ _ Hr) as (p & q & E). subst s2.
    apply alias_pair_races; [cbn; unfold reader; lia | reflexivity].
Qed.

(* ---- table level ---- *)
Lemma handed_ok_row T r : handed_ok T = true -> In r T -> src_of_row r = SrcCopy.
Proof.
  unfold handed_ok. intros H Hin. rewrite forallb_forall in H. specialize (H r Hin).
  unfold src_of_row. destruct (handed_bad r); [discriminate | reflexivity].
Qed.

Theorem handed_rows_race_free T :
  handed_ok T = true ->
  forall r, In r T -> forall sched,
    wf init (handover (src_of_row r) sched) /\ ~ race (handover (src_of_row r) sched).
Proof.
  intros H r Hin sched. rewrite (handed_ok_row T r H Hin). apply handover_copy_race_free.
Qed.

Theorem handed_bad_row_races r :
  handed_bad r = true ->
  forall sched u, In (URead u) sched -> In Recycle sched -> race (handover (src_of_row r) sched).
Proof.
  intros H sched u Hu Hr. unfold src_of_row. rewrite H. eapply handover_alias_races; eauto.
Qed.
