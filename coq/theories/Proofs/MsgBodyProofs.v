(* Lemmas about message.MarshalBody / UnmarshalBody (Model/MsgBody.v). *)
From Coq Require Import Strings.String Strings.Byte.
From Coq Require Import List Arith NArith Bool Lia.
From Verif Require Import Base.Bytes Model.PlainCodec Model.MsgBody.
Import ListNotations.

Lemma store_exact s data : bs_vis (store s data) = data.
Proof. unfold store. destruct (Nat.ltb (bs_cap s) (length data)); reflexivity. Qed.

(* the store stays inside the backing array: when the payload fits the capacity the window
   keeps its length (nothing beyond cap is touched), otherwise a fresh array is used *)
Lemma store_window s data :
  length data <= bs_cap s -> length (bs_window (store s data)) = bs_cap s.
Proof.
  intros H. unfold store. replace (Nat.ltb (bs_cap s) (length data)) with false
    by (symmetry; apply Nat.ltb_ge; exact H).
  unfold bs_window at 1. cbn [bs_vis bs_spare]. rewrite app_length, skipn_length.
  unfold bs_cap in *. lia.
Qed.

Lemma store_spare_untouched s data :
  length data <= bs_cap s -> bs_spare (store s data) = skipn (length data) (bs_window s).
Proof.
  intros H. unfold store. replace (Nat.ltb (bs_cap s) (length data)) with false
    by (symmetry; apply Nat.ltb_ge; exact H). reflexivity.
Qed.

Lemma store_inside_capacity s data :
  length data <= bs_cap s ->
  length (bs_window (store s data)) = bs_cap s /\
  bs_spare (store s data) = skipn (length data) (bs_window s).
Proof. intros H. split; [exact (store_window s data H) | exact (store_spare_untouched s data H)]. Qed.

Section Body.
  Variable T : Type.
  Variable cm : byte -> option (T -> outcome bytes).
  Variable cu : byte -> option (bytes -> T -> outcome T).

  (* after UnmarshalBody into a *[]byte the body is the payload exactly, length included,
     whatever it held before, whatever its capacity, whatever the codec id *)
  Lemma unmarshal_bytes_exact id data s nb :
    data <> [] ->
    exists s', unmarshal_body T cu id data (DPtr T s) nb = Ok (DPtr T s') /\ bs_vis s' = data.
  Proof.
    intros H. destruct data as [|b r]; [congruence|].
    eexists. split; [reflexivity | apply store_exact].
  Qed.

  (* the same when the *[]byte comes from newBodyFunc *)
  Lemma unmarshal_bytes_exact_newbody id data s :
    data <> [] ->
    exists s', unmarshal_body T cu id data (DNone T) (Some (DPtr T s)) = Ok (DPtr T s') /\ bs_vis s' = data.
  Proof.
    intros H. destruct data as [|b r]; [congruence|].
    eexists. split; [reflexivity | apply store_exact].
  Qed.

  (* the documented exception: an empty payload returns before the switch and leaves the body
     as it is (so a reused *[]byte keeps its old bytes) *)
  Lemma unmarshal_empty_payload id (d : mdst T) : unmarshal_body T cu id [] d None = Ok d.
  Proof. destruct d; reflexivity. Qed.

  (* byte-stream bodies are handed through unchanged, whatever the codec id *)
  Lemma marshal_bytes_bypass id b (p : bool) :
    marshal_body T cm id (if p then SPtr T b else SVal T b) = Ok b.
  Proof. destruct p; reflexivity. Qed.

  Lemma body_bytes_roundtrip id id' b (p : bool) s nb :
    b <> [] ->
    exists enc s', marshal_body T cm id (if p then SPtr T b else SVal T b) = Ok enc /\
                   unmarshal_body T cu id' enc (DPtr T s) nb = Ok (DPtr T s') /\ bs_vis s' = b.
  Proof.
    intros H. exists b. destruct (unmarshal_bytes_exact id' b s nb H) as (s' & H1 & H2).
    exists s'. split; [apply marshal_bytes_bypass | split; assumption].
  Qed.

  (* UnmarshalBody never panics as long as the codecs do not *)
  Lemma unmarshal_body_total id data d nb :
    (forall u x t, cu id = Some u -> u x t <> Panic) ->
    unmarshal_body T cu id data d nb <> Panic.
  Proof.
    intros Hc. unfold unmarshal_body, unmarshal_body_gen.
    set (d' := match d, nb with DNone _, Some x => x | _, _ => d end). clearbody d'.
    destruct data as [|b r]; [discriminate|].
    destruct d'; try discriminate.
    destruct (cu id) as [u|] eqn:E; [|discriminate].
    pose proof (Hc u (b :: r) t eq_refl). destruct (u (b :: r) t); cbn; congruence.
  Qed.

  (* the typed path is the codec, nothing more *)
  Lemma unmarshal_typed_delegates id data t u :
    data <> [] -> cu id = Some u ->
    unmarshal_body T cu id data (DTyped T t) None = omap (DTyped T) (u data t).
  Proof. intros H E. destruct data; [congruence|]. cbn. rewrite E. reflexivity. Qed.

  (* ---- variants ---- *)
  Lemma unmarshal_notrunc_refuted :
    exists id data s, data <> [] /\
      forall s', unmarshal_body_notrunc T cu id data (DPtr T s) None = Ok (DPtr T s') -> bs_vis s' <> data.
  Proof.
    exists x00, (str "s"), (mkBS (str "longer") []). split; [discriminate|].
    intros s' H. vm_compute in H. inversion H; subst. vm_compute. discriminate.
  Qed.

  Lemma unmarshal_nil_ptr_refuted :
    exists id data, unmarshal_body_prefix T cu id data (DPtrNil T) None = Panic.
  Proof. exists x00, (str "x"). reflexivity. Qed.

  Lemma unmarshal_nil_ptr id data nb : unmarshal_body T cu id data (DPtrNil T) nb <> Panic.
  Proof. destruct data; cbn; discriminate. Qed.
End Body.
