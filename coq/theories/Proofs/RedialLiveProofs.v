(* Fixed-length runs from every reachable quiescent state: one later call with the server
   reachable brings the session back to Ok; with the server unreachable it fails with
   connection-closed after exactly one further round of 1+n attempts. *)
From Coq Require Import Strings.String Strings.Byte.
From Coq Require Import List Arith NArith ZArith Bool Lia.
From Verif Require Import Model.Redial Proofs.RedialProofs.
Import ListNotations.

Lemma nth_app_len {A} (l : list A) a : nth_error (l ++ [a]) (length l) = Some a.
Proof. induction l; cbn; auto. Qed.
Lemma upd_app_len {A} (l : list A) a b : upd (l ++ [a]) (length l) b = l ++ [b].
Proof. induction l; cbn; congruence. Qed.

Ltac flds := cbn [set_lock set_calls set_status set_id c_hold c_ready c_on c_pc r_owner r_old r_oid r_ipeq r_occ r_left r_att r_pc
                  budget status_ conn fresh sockclosed lost id index notified dischooks hooks okrounds rounds
                  readers calls lock plan pdef wedged].

Definition recover_events (k : nat) : list ev :=
  [EvCall false; EvCaller k false; EvAcquire (OwC k); EvRound; EvRound; EvRound; EvRound; EvCaller k false].

Lemma one_call_recovers_lemma n uid p d s :
  reachable n uid p d s -> quiescent s = true -> n <> 0%Z ->
  status_ s <> SOk -> plan s = [] -> pdef s = VA ->
  let k := length (calls s) in
  let s' := run s (recover_events k) in
  status_ s' = SOk /\ health s' = true /\ okrounds s' = S (okrounds s) /\
  conn s' = fresh s /\ lock s' = None /\
  nth_error (calls s') k = Some (mkCall false false None (CAtPrelock (conn s'))) /\
  readers s' = readers s ++ [(conn s', RReading)] /\
  rounds s' = rounds s ++ [(1, true)] /\ hooks s' = hooks s ++ [(true, VA)].
Proof.
  intros R Q Hn Hs Hp Hd.
  pose proof (budget_reachable _ _ _ _ _ R) as B.
  pose proof (status_phase_lemma _ _ _ _ _ R) as Ph.
  unfold quiescent in Q. apply andb_prop in Q. destruct Q as [_ Q].
  destruct (lock s) eqn:L; [discriminate|]. clear Q.
  assert (Hb : Z.eqb (budget s) 0 = false) by (apply Z.eqb_neq; congruence).
  destruct s as [bud stt cn fr sc lo i ix nt dh hk ok rd rdrs cls lk pl pd wd].
  cbn [budget status_ lock plan pdef calls fresh okrounds readers rounds hooks] in *. subst lk pl pd.
  assert (C : cas_redialing stt = true) by (destruct Ph as [|[|[|]]]; subst; try congruence; reflexivity).
  assert (E : status_eqb stt SOk = false) by (destruct stt; try reflexivity; congruence).
  unfold recover_events.
  assert (RC : forall x e l, run x (e :: l) = run (step x e) l) by reflexivity.
  (* 1: the call is tabled *)
  rewrite RC. cbn [step]. flds.
  (* 2: write() sees a non-Ok status *)
  rewrite RC. cbn [step]. unfold caller_step. flds. rewrite nth_app_len. flds. rewrite E.
  unfold conn_closed_path. flds. rewrite Hb.
  unfold set_cpc. flds. rewrite nth_app_len. flds. rewrite upd_app_len.
  (* 3: the lock is free *)
  rewrite RC. cbn [step]. unfold acquire. flds. rewrite nth_app_len. flds.
  unfold set_cpc. flds. rewrite nth_app_len. flds. rewrite upd_app_len.
  (* 4: same connection, CAS to redialing *)
  rewrite RC. cbn [step]. unfold round_step. flds. rewrite Nat.eqb_refl. cbn [negb]. rewrite C. flds.
  (* 5: dial succeeds, socket.Reset *)
  rewrite RC. cbn [step]. unfold round_step. flds. unfold next_verdict. flds.
  (* 6: id restore, Preparing, hook starts *)
  rewrite RC. cbn [step]. unfold round_step. flds.
  (* 7: hook accepts *)
  rewrite RC. cbn [step]. unfold round_step. flds. unfold finish_ok, round_return. flds.
  unfold set_cpc. flds. rewrite nth_app_len. flds. rewrite upd_app_len.
  (* 8: write() passes the status check *)
  rewrite RC. cbn [step]. unfold caller_step. flds. rewrite nth_app_len. flds. cbn [status_eqb].
  unfold set_cpc. flds. rewrite nth_app_len. flds. rewrite upd_app_len.
  unfold run. cbn [fold_left]. unfold health. flds.
  rewrite nth_app_len. repeat split; reflexivity.
Qed.

(* the retry loop when every dial attempt fails *)
Lemma fail_loop ow old oid ipeq occ s0 :
  plan s0 = [] -> pdef s0 = VU ->
  forall l att,
  run (set_lock s0 (Some (mkRound ow old RdDial oid ipeq occ (Z.of_nat l) att))) (repeat EvRound (S l)) =
  finish_fail (set_lock s0 (Some (mkRound ow old RdDial oid ipeq occ 0 (att + l))))
              (mkRound ow old RdDial oid ipeq occ 0 (S (att + l))).
Proof.
  intros Hp Hd. induction l as [|l IH]; intros att.
  - cbn [repeat run fold_left step]. unfold round_step. cbn [lock set_lock r_pc].
    unfold next_verdict. cbn [plan set_lock]. rewrite Hp. cbn [pdef set_lock fst snd]. rewrite Hd.
    unfold after_failed_attempt. cbn [r_left Z.of_nat Z.eqb]. rewrite Nat.add_0_r. reflexivity.
  - change (repeat EvRound (S (S l))) with (EvRound :: repeat EvRound (S l)).
    change (run ?x (EvRound :: ?r)) with (run (step x EvRound) r).
    cbn [step]. unfold round_step at 1. cbn [lock set_lock r_pc].
    unfold next_verdict. cbn [plan set_lock]. rewrite Hp. cbn [pdef set_lock fst snd]. rewrite Hd.
    unfold after_failed_attempt. cbn [r_left r_owner r_old r_oid r_ipeq r_occ r_att].
    replace (Z.eqb (Z.of_nat (S l)) 0) with false by (symmetry; apply Z.eqb_neq; lia).
    replace (Z.ltb 0 (Z.of_nat (S l))) with true by (symmetry; apply Z.ltb_lt; lia).
    replace (Z.of_nat (S l) - 1)%Z with (Z.of_nat l) by lia.
    change (set_lock (set_lock s0 ?x) ?y) with (set_lock s0 y).
    rewrite IH. replace (S att + l) with (att + S l) by lia. reflexivity.
Qed.

Definition fail_events (k b : nat) : list ev :=
  [EvCall false; EvCaller k false; EvAcquire (OwC k); EvRound] ++ repeat EvRound (S b).

Lemma later_call_fails_lemma n uid p d s b :
  reachable n uid p d s -> quiescent s = true -> n = Z.of_nat b -> b <> 0 ->
  status_ s <> SOk -> plan s = [] -> pdef s = VU ->
  let k := length (calls s) in
  let s' := run s (fail_events k b) in
  nth_error (calls s') k = Some (mkCall false false None (CDone RClosed)) /\
  rounds s' = rounds s ++ [(S b, false)] /\ status_ s' = SRedialFailed /\ health s' = false /\
  lock s' = None /\ notified s' = notified s /\ index s' = index s.
Proof.
  intros R Q Hn Hb0 Hs Hp Hd.
  pose proof (budget_reachable _ _ _ _ _ R) as B. subst n.
  pose proof (status_phase_lemma _ _ _ _ _ R) as Ph.
  unfold quiescent in Q. apply andb_prop in Q. destruct Q as [_ Q].
  destruct (lock s) eqn:L; [discriminate|]. clear Q.
  assert (Hb : Z.eqb (budget s) 0 = false) by (apply Z.eqb_neq; lia).
  destruct s as [bud stt cn fr sc lo i ix nt dh hk ok rd rdrs cls lk pl pd wd].
  cbn [budget status_ lock plan pdef calls fresh okrounds readers rounds hooks notified index] in *. subst lk pl pd bud.
  assert (C : cas_redialing stt = true) by (destruct Ph as [|[|[|]]]; subst; try congruence; reflexivity).
  assert (E : status_eqb stt SOk = false) by (destruct stt; try reflexivity; congruence).
  unfold fail_events.
  assert (RC : forall x e l, run x (e :: l) = run (step x e) l) by reflexivity.
  cbn [app].
  rewrite RC. cbn [step]. flds.
  rewrite RC. cbn [step]. unfold caller_step. flds. rewrite nth_app_len. flds. rewrite E.
  unfold conn_closed_path. flds. rewrite Hb.
  unfold set_cpc. flds. rewrite nth_app_len. flds. rewrite upd_app_len.
  rewrite RC. cbn [step]. unfold acquire. flds. rewrite nth_app_len. flds.
  unfold set_cpc. flds. rewrite nth_app_len. flds. rewrite upd_app_len.
  rewrite RC. cbn [step]. unfold round_step. flds. rewrite Nat.eqb_refl. cbn [negb]. rewrite C. flds.
  match goal with |- context [run ?x (repeat EvRound (S b))] =>
    change x with (set_lock x (Some (mkRound (OwC (length cls)) cn RdDial i (idv_eqb i (IdAddr cn)) cn (Z.of_nat b) 0)))
  end.
  rewrite fail_loop by reflexivity.
  unfold finish_fail. flds. unfold round_return. flds.
  unfold set_cpc. flds. rewrite nth_app_len. flds. rewrite upd_app_len.
  unfold health. flds. rewrite nth_app_len. cbn [Nat.add]. repeat split; reflexivity.
Qed.
