(* Lemmas about the net/url model: QueryUnescape inverts QueryEscape, ParseQuery inverts
   Values.Encode (as maps), and every list in a parsed map is non-empty. *)
From Coq Require Import Strings.String Strings.Byte.
From Coq Require Import List Arith NArith Bool Lia Permutation.
From Verif Require Import Base.Bytes Base.Val Model.UrlQuery.
Import ListNotations.

Lemma bytes_eqb_neq x y : bytes_eqb x y = false <-> x <> y.
Proof.
  split.
  - intros H E. apply bytes_eqb_eq in E. congruence.
  - intros H. destruct (bytes_eqb x y) eqn:E; [|reflexivity]. apply bytes_eqb_eq in E. contradiction.
Qed.

Lemma bytes_eqb_sym x y : bytes_eqb x y = bytes_eqb y x.
Proof.
  destruct (bytes_eqb x y) eqn:E.
  - apply bytes_eqb_eq in E. subst. symmetry. apply bytes_eqb_refl.
  - apply bytes_eqb_neq in E. symmetry. apply bytes_eqb_neq. congruence.
Qed.

(* ---- escaping ---- *)
Lemma unescape_escape_byte b rest :
  query_unescape (escape_byte b ++ rest) = option_map (cons b) (query_unescape rest).
Proof. destruct b; reflexivity. Qed.

Lemma unescape_escape_app s rest :
  query_unescape (query_escape s ++ rest) = option_map (app s) (query_unescape rest).
Proof.
  induction s as [|b s IH]; cbn [query_escape flat_map app].
  - destruct (query_unescape rest); reflexivity.
  - rewrite <- app_assoc, unescape_escape_byte. change (flat_map escape_byte s) with (query_escape s).
    rewrite IH. destruct (query_unescape rest); reflexivity.
Qed.

Lemma unescape_escape s : query_unescape (query_escape s) = Some s.
Proof.
  rewrite <- (app_nil_r (query_escape s)), unescape_escape_app. cbn. rewrite app_nil_r. reflexivity.
Qed.

(* the characters that structure a query never occur in an escaped string *)
Definition plain_char (c : byte) : bool :=
  negb (beqb "&"%byte c) && negb (beqb "="%byte c) && negb (beqb ";"%byte c).

Lemma escape_byte_plain b : forallb plain_char (escape_byte b) = true.
Proof. destruct b; reflexivity. Qed.

Lemma escape_plain s : forallb plain_char (query_escape s) = true.
Proof.
  induction s as [|b s IH]; cbn [query_escape flat_map]; [reflexivity|].
  rewrite forallb_app, escape_byte_plain. exact IH.
Qed.

Lemma plain_not_contains sep s :
  (forall c, plain_char c = true -> beqb sep c = false) ->
  forallb plain_char s = true -> contains sep s = false.
Proof.
  intros Hs. induction s as [|c s IH]; cbn [forallb contains existsb]; [reflexivity|].
  intros H. apply andb_true_iff in H as [Hc Hr]. rewrite (Hs c Hc). apply IH. exact Hr.
Qed.

Lemma plain_amp c : plain_char c = true -> beqb "&"%byte c = false.
Proof. unfold plain_char. destruct (beqb "&"%byte c); [discriminate|reflexivity]. Qed.
Lemma plain_eq c : plain_char c = true -> beqb "="%byte c = false.
Proof. unfold plain_char. destruct (beqb "="%byte c); [rewrite andb_false_r; discriminate|reflexivity]. Qed.
Lemma plain_semi c : plain_char c = true -> beqb ";"%byte c = false.
Proof. unfold plain_char. destruct (beqb ";"%byte c); [rewrite andb_false_r; discriminate|reflexivity]. Qed.

Lemma contains_app sep a b : contains sep (a ++ b) = contains sep a || contains sep b.
Proof. unfold contains. apply existsb_app. Qed.

(* ---- splitting ---- *)
Lemma beqb_sym a b : beqb a b = beqb b a.
Proof.
  destruct (beqb a b) eqn:E.
  - apply beqb_eq in E. subst. symmetry. apply beqb_refl.
  - apply beqb_neq in E. symmetry. apply beqb_neq. congruence.
Qed.

Lemma split_on_nonnil sep s : split_on sep s <> [].
Proof.
  induction s as [|b r IH]; cbn [split_on]; [discriminate|].
  destruct (beqb b sep); [discriminate|]. destruct (split_on sep r); discriminate.
Qed.

Lemma split_on_plain sep a : contains sep a = false -> split_on sep a = [a].
Proof.
  induction a as [|b r IH]; cbn [split_on contains existsb]; [reflexivity|].
  intros H. apply orb_false_iff in H as [Hb Hr]. rewrite beqb_sym, Hb.
  rewrite (IH Hr). reflexivity.
Qed.

Lemma split_on_app sep a r :
  contains sep a = false -> split_on sep (a ++ sep :: r) = a :: split_on sep r.
Proof.
  induction a as [|b a IH]; cbn [app split_on contains existsb].
  - intros _. rewrite beqb_refl. reflexivity.
  - intros H. apply orb_false_iff in H as [Hb Hr]. rewrite beqb_sym, Hb.
    rewrite (IH Hr). reflexivity.
Qed.

Lemma split_join segs :
  segs <> [] -> Forall (fun s => contains "&"%byte s = false) segs ->
  split_on "&"%byte (join_amp segs) = segs.
Proof.
  induction segs as [|s r IH]; intros Hne Hall; [congruence|].
  inversion Hall as [|? ? Hs Hr]; subst. destruct r as [|s' r'].
  - cbn [join_amp]. apply split_on_plain. exact Hs.
  - change (join_amp (s :: s' :: r')) with (s ++ "&"%byte :: join_amp (s' :: r')).
    rewrite split_on_app by exact Hs. rewrite IH; [reflexivity | discriminate | exact Hr].
Qed.

Lemma cut_app sep a r : contains sep a = false -> cut sep (a ++ sep :: r) = (a, r).
Proof.
  induction a as [|b a IH]; cbn [app cut contains existsb].
  - intros _. rewrite beqb_refl. reflexivity.
  - intros H. apply orb_false_iff in H as [Hb Hr]. rewrite beqb_sym, Hb, (IH Hr). reflexivity.
Qed.

(* ---- one segment ---- *)
Lemma segment_plain kv : contains "&"%byte (segment_of kv) = false.
Proof.
  unfold segment_of. rewrite contains_app.
  rewrite (plain_not_contains _ _ plain_amp (escape_plain _)).
  cbn [contains existsb orb]. change (existsb (beqb "&"%byte) ?x) with (contains "&"%byte x).
  rewrite (plain_not_contains _ _ plain_amp (escape_plain _)). reflexivity.
Qed.

Lemma parse_segment_of kv : parse_segment (segment_of kv) = SegKV (fst kv) (snd kv).
Proof.
  unfold parse_segment.
  assert (Hsemi : contains ";"%byte (segment_of kv) = false).
  { unfold segment_of. rewrite contains_app.
    rewrite (plain_not_contains _ _ plain_semi (escape_plain _)).
    cbn [contains existsb orb]. change (existsb (beqb ";"%byte) ?x) with (contains ";"%byte x).
    rewrite (plain_not_contains _ _ plain_semi (escape_plain _)). reflexivity. }
  rewrite Hsemi.
  assert (Hcut : cut "="%byte (segment_of kv) = (query_escape (fst kv), query_escape (snd kv))).
  { unfold segment_of. apply cut_app. apply (plain_not_contains _ _ plain_eq (escape_plain _)). }
  destruct (segment_of kv) as [|c t] eqn:E.
  - unfold segment_of in E. destruct (query_escape (fst kv)); discriminate.
  - rewrite Hcut, !unescape_escape. reflexivity.
Qed.

Definition app1 (q : values) (kv : bytes * bytes) : values := vappend_all q (fst kv) [snd kv].

Lemma parse_segments_of kvs : forall q err,
  parse_segments (map segment_of kvs) q err = (fold_left app1 kvs q, err).
Proof.
  induction kvs as [|kv r IH]; intros q err; cbn [map parse_segments fold_left]; [reflexivity|].
  rewrite parse_segment_of. apply IH.
Qed.

Lemma parse_query_encode q :
  parse_query (values_encode q) = Some (fold_left app1 (pairs_of (sort_values q)) []).
Proof.
  unfold parse_query, values_encode. destruct (pairs_of (sort_values q)) as [|kv r] eqn:E.
  - reflexivity.
  - rewrite split_join.
    + rewrite parse_segments_of. reflexivity.
    + discriminate.
    + apply Forall_forall. intros s Hs. apply in_map_iff in Hs as (x & <- & _). apply segment_plain.
Qed.

(* ---- maps ---- *)
Lemma vget_vset q k vs k' :
  vget (vset q k vs) k' = if bytes_eqb k k' then Some vs else vget q k'.
Proof.
  induction q as [|[k0 v0] r IH]; cbn [vset vget].
  - reflexivity.
  - destruct (bytes_eqb k0 k) eqn:E0; cbn [vget].
    + apply bytes_eqb_eq in E0. subst k0. destruct (bytes_eqb k k'); reflexivity.
    + rewrite IH. destruct (bytes_eqb k0 k') eqn:E1; [|reflexivity].
      apply bytes_eqb_eq in E1. subst k0. rewrite bytes_eqb_sym, E0. reflexivity.
Qed.

Lemma vget_vappend_all q k vs k' :
  vget (vappend_all q k vs) k' =
  if bytes_eqb k k' then Some (match vget q k with Some a => a ++ vs | None => vs end) else vget q k'.
Proof. unfold vappend_all. apply vget_vset. Qed.

Definition vals_for (k : bytes) (kvs : list (bytes * bytes)) : list bytes :=
  map snd (filter (fun kv => bytes_eqb (fst kv) k) kvs).

Lemma vals_for_app k a b : vals_for k (a ++ b) = vals_for k a ++ vals_for k b.
Proof. unfold vals_for. rewrite filter_app, map_app. reflexivity. Qed.

Lemma vget_fold kvs : forall q k,
  vget (fold_left app1 kvs q) k =
  match vget q k, vals_for k kvs with
  | None, [] => None
  | None, l => Some l
  | Some a, l => Some (a ++ l)
  end.
Proof.
  induction kvs as [|[k0 v0] r IH]; intros q k; cbn [fold_left].
  - cbn. destruct (vget q k); [rewrite app_nil_r|]; reflexivity.
  - rewrite IH. unfold app1. cbn [fst snd]. rewrite vget_vappend_all.
    unfold vals_for. cbn [filter fst]. destruct (bytes_eqb k0 k) eqn:E.
    + apply bytes_eqb_eq in E. subst k0. cbn [map snd].
      destruct (vget q k) as [a|]; [rewrite <- app_assoc|]; reflexivity.
    + reflexivity.
Qed.

Lemma vget_notin q k : ~ In k (map fst q) -> vget q k = None.
Proof.
  induction q as [|[k0 v0] r IH]; cbn [map fst vget In]; [reflexivity|].
  intros H. destruct (bytes_eqb k0 k) eqn:E.
  - apply bytes_eqb_eq in E. subst. exfalso. apply H. left. reflexivity.
  - apply IH. intros Hin. apply H. right. exact Hin.
Qed.

Lemma vals_for_pairs q k :
  NoDup (map fst q) ->
  vals_for k (pairs_of q) = match vget q k with Some vs => vs | None => [] end.
Proof.
  induction q as [|[k0 v0] r IH]; intros Hnd; [reflexivity|].
  cbn [map fst] in Hnd. inversion Hnd as [|? ? Hnotin Hnd']; subst.
  change (pairs_of ((k0, v0) :: r)) with (map (fun v => (k0, v)) v0 ++ pairs_of r).
  rewrite vals_for_app, (IH Hnd'). cbn [vget].
  assert (Hm : vals_for k (map (fun v => (k0, v)) v0) = if bytes_eqb k0 k then v0 else []).
  { unfold vals_for. induction v0 as [|v t IHt]; cbn [map filter fst].
    - destruct (bytes_eqb k0 k); reflexivity.
    - destruct (bytes_eqb k0 k); cbn [map snd]; [f_equal|]; exact IHt. }
  rewrite Hm. destruct (bytes_eqb k0 k) eqn:E.
  - apply bytes_eqb_eq in E. subst k0. rewrite (vget_notin _ _ Hnotin), app_nil_r. reflexivity.
  - reflexivity.
Qed.

Lemma vget_In q k vs : NoDup (map fst q) -> (vget q k = Some vs <-> In (k, vs) q).
Proof.
  induction q as [|[k0 v0] r IH]; intros Hnd; cbn [vget In].
  - split; [discriminate | contradiction].
  - cbn [map fst] in Hnd. inversion Hnd as [|? ? Hnotin Hnd']; subst.
    destruct (bytes_eqb k0 k) eqn:E.
    + apply bytes_eqb_eq in E. subst k0. split.
      * intros H. inversion H. left. reflexivity.
      * intros [H|H]; [inversion H; reflexivity|].
        exfalso. apply Hnotin. apply in_map_iff. exists (k, vs). split; [reflexivity | exact H].
    + apply bytes_eqb_neq in E. rewrite (IH Hnd'). split.
      * intros H. right. exact H.
      * intros [H|H]; [inversion H; congruence | exact H].
Qed.

Lemma vget_perm q q' k :
  Permutation q q' -> NoDup (map fst q) -> vget q k = vget q' k.
Proof.
  intros Hp Hnd.
  assert (Hnd' : NoDup (map fst q')).
  { eapply Permutation_NoDup; [apply Permutation_map; exact Hp | exact Hnd]. }
  destruct (vget q k) as [vs|] eqn:E.
  - apply (vget_In _ _ _ Hnd) in E. symmetry. apply (vget_In _ _ _ Hnd').
    eapply Permutation_in; eassumption.
  - destruct (vget q' k) as [vs'|] eqn:E'; [|reflexivity].
    apply (vget_In _ _ _ Hnd') in E'. apply Permutation_sym in Hp.
    pose proof (Permutation_in _ Hp E') as Hin. apply (vget_In _ _ _ Hnd) in Hin. congruence.
Qed.

Lemma insert_entry_perm e l : Permutation (insert_entry e l) (e :: l).
Proof.
  induction l as [|h t IH]; cbn [insert_entry]; [apply Permutation_refl|].
  destruct (bytes_leb (fst e) (fst h)); [apply Permutation_refl|].
  eapply Permutation_trans; [apply perm_skip; exact IH | apply perm_swap].
Qed.

Lemma sort_values_perm q : Permutation (sort_values q) q.
Proof.
  induction q as [|e r IH]; cbn [sort_values fold_right]; [apply Permutation_refl|].
  eapply Permutation_trans; [apply insert_entry_perm | apply perm_skip; exact IH].
Qed.

Definition nonempty_of (o : option (list bytes)) : option (list bytes) :=
  match o with Some (v :: vs) => Some (v :: vs) | _ => None end.

(* ParseQuery (Encode q) is q without the keys that have no value *)
Lemma values_roundtrip_lemma q :
  NoDup (map fst q) ->
  exists form, parse_query (values_encode q) = Some form /\
               forall k, vget form k = nonempty_of (vget q k).
Proof.
  intros Hnd. eexists. split; [apply parse_query_encode|]. intros k.
  rewrite vget_fold. cbn [vget].
  assert (Hnd' : NoDup (map fst (sort_values q))).
  { eapply Permutation_NoDup; [apply Permutation_map, Permutation_sym, sort_values_perm | exact Hnd]. }
  rewrite (vals_for_pairs _ _ Hnd').
  rewrite (vget_perm _ _ k (sort_values_perm q) Hnd').
  destruct (vget q k) as [[|v vs]|]; reflexivity.
Qed.

(* ---- every list in a parsed map is non-empty ---- *)
Definition lists_nonempty (q : values) : Prop := forall k vs, vget q k = Some vs -> vs <> [].

Lemma parse_segments_nonempty segs : forall q err q' err',
  lists_nonempty q -> parse_segments segs q err = (q', err') -> lists_nonempty q'.
Proof.
  induction segs as [|s r IH]; intros q err q' err' Hq Hp; cbn [parse_segments] in Hp.
  - inversion Hp; subst. exact Hq.
  - destruct (parse_segment s) as [| |k v]; try (eapply IH; eassumption).
    eapply IH; [|exact Hp]. intros k' vs. rewrite vget_vappend_all.
    destruct (bytes_eqb k k'); [|apply Hq].
    intros H. inversion H. destruct (vget q k) as [a|]; [|discriminate].
    intros Hnil. apply app_eq_nil in Hnil as [_ Hnil]. discriminate.
Qed.

Lemma parse_query_nonempty s form : parse_query s = Some form -> lists_nonempty form.
Proof.
  unfold parse_query. destruct (parse_segments (split_on "&"%byte s) [] false) as [q err] eqn:E.
  destruct err; [discriminate|]. intros H. inversion H; subst.
  eapply parse_segments_nonempty; [|exact E]. intros k vs Hk. discriminate.
Qed.

(* ---- Values.Encode does not depend on the order in which the map was filled ----
   (a Go map has no order; the model keeps insertion order; Encode sorts the keys) *)
From Coq Require Import Sorting.Sorted.

Local Open Scope N_scope.

Lemma bytes_leb_refl a : bytes_leb a a = true.
Proof.
  induction a as [|x a IH]; cbn [bytes_leb]; [reflexivity|]. rewrite N.ltb_irrefl. exact IH.
Qed.

Lemma bytes_leb_total a : forall b, bytes_leb a b = true \/ bytes_leb b a = true.
Proof.
  induction a as [|x a IH]; intros [|y b]; cbn [bytes_leb]; auto.
  destruct (b2n x <? b2n y) eqn:E1; [auto|]. destruct (b2n y <? b2n x) eqn:E2; [auto|]. apply IH.
Qed.

Lemma bytes_leb_antisym a : forall b, bytes_leb a b = true -> bytes_leb b a = true -> a = b.
Proof.
  induction a as [|x a IH]; intros [|y b]; cbn [bytes_leb]; intros H1 H2; try discriminate; [reflexivity|].
  destruct (b2n x <? b2n y) eqn:E1.
  - apply N.ltb_lt in E1. destruct (b2n y <? b2n x) eqn:E2; [apply N.ltb_lt in E2; lia | discriminate].
  - destruct (b2n y <? b2n x) eqn:E2; [discriminate|].
    apply N.ltb_ge in E1. apply N.ltb_ge in E2.
    assert (x = y) by (apply b2n_inj; lia). subst. f_equal. apply IH; assumption.
Qed.

Lemma bytes_leb_trans a : forall b c, bytes_leb a b = true -> bytes_leb b c = true -> bytes_leb a c = true.
Proof.
  induction a as [|x a IH]; intros [|y b] [|z c]; cbn [bytes_leb]; intros H1 H2; try discriminate; try reflexivity.
  destruct (b2n x <? b2n y) eqn:E1; destruct (b2n y <? b2n z) eqn:E2;
    destruct (b2n y <? b2n x) eqn:E3; destruct (b2n z <? b2n y) eqn:E4; try discriminate;
    repeat match goal with
           | H : (_ <? _) = true |- _ => apply N.ltb_lt in H
           | H : (_ <? _) = false |- _ => apply N.ltb_ge in H
           end; try lia.
  - replace (b2n x <? b2n z) with true by (symmetry; apply N.ltb_lt; lia). reflexivity.
  - replace (b2n x <? b2n z) with true by (symmetry; apply N.ltb_lt; lia). reflexivity.
  - replace (b2n x <? b2n z) with true by (symmetry; apply N.ltb_lt; lia). reflexivity.
  - replace (b2n x <? b2n z) with false by (symmetry; apply N.ltb_ge; lia).
    replace (b2n z <? b2n x) with false by (symmetry; apply N.ltb_ge; lia).
    eapply IH; eassumption.
Qed.

Definition key_le (e1 e2 : bytes * list bytes) : Prop := bytes_leb (fst e1) (fst e2) = true.

Lemma insert_entry_sorted e l : StronglySorted key_le l -> StronglySorted key_le (insert_entry e l).
Proof.
  induction l as [|h t IH]; intros Hs; cbn [insert_entry].
  - constructor; constructor.
  - inversion Hs as [|? ? Hst Hall]; subst. destruct (bytes_leb (fst e) (fst h)) eqn:E.
    + constructor; [exact Hs|]. constructor; [exact E|].
      eapply Forall_impl; [|exact Hall]. intros x Hx. unfold key_le in *. eapply bytes_leb_trans; eassumption.
    + constructor; [apply IH; exact Hst|].
      assert (Hhe : key_le h e).
      { unfold key_le. destruct (bytes_leb_total (fst e) (fst h)); congruence. }
      eapply Permutation_Forall; [apply Permutation_sym, insert_entry_perm|].
      constructor; assumption.
Qed.

Lemma sort_values_sorted q : StronglySorted key_le (sort_values q).
Proof.
  induction q as [|e r IH]; cbn [sort_values fold_right]; [constructor|].
  apply insert_entry_sorted. exact IH.
Qed.

Lemma sorted_perm_unique l : forall l',
  StronglySorted key_le l -> StronglySorted key_le l' -> Permutation l l' ->
  NoDup (map fst l) -> l = l'.
Proof.
  induction l as [|a t IH]; intros l' Hs Hs' Hp Hnd.
  - apply Permutation_nil in Hp. congruence.
  - destruct l' as [|a' t']; [apply Permutation_sym, Permutation_nil in Hp; discriminate|].
    inversion Hs as [|? ? Hst Hall]; subst. inversion Hs' as [|? ? Hst' Hall']; subst.
    assert (Ha : a = a').
    { assert (Hin' : In a' (a :: t)) by (eapply Permutation_in; [apply Permutation_sym; exact Hp | left; reflexivity]).
      assert (Hin : In a (a' :: t')) by (eapply Permutation_in; [exact Hp | left; reflexivity]).
      destruct Hin' as [E|Hin']; [exact E|]. destruct Hin as [E|Hin]; [congruence|].
      rewrite Forall_forall in Hall, Hall'.
      assert (Hk : fst a = fst a') by (apply bytes_leb_antisym; [apply Hall; exact Hin' | apply Hall'; exact Hin]).
      cbn [map] in Hnd. inversion Hnd as [|? ? Hnotin _]; subst. exfalso. apply Hnotin.
      rewrite Hk. apply in_map. exact Hin'. }
    subst a'. f_equal. apply IH; try assumption.
    + eapply Permutation_cons_inv. exact Hp.
    + cbn [map] in Hnd. inversion Hnd; assumption.
Qed.

Lemma values_encode_order_independent q q' :
  Permutation q q' -> NoDup (map fst q) -> values_encode q = values_encode q'.
Proof.
  intros Hp Hnd. unfold values_encode. f_equal. f_equal. f_equal.
  apply sorted_perm_unique; try apply sort_values_sorted.
  - eapply Permutation_trans; [apply sort_values_perm|].
    eapply Permutation_trans; [exact Hp | apply Permutation_sym, sort_values_perm].
  - eapply Permutation_NoDup; [apply Permutation_map, Permutation_sym, sort_values_perm | exact Hnd].
Qed.
