(* Lemmas about the forwarder as a client session that may redial (Model/Proxy.v, second
   part): a call issued once is forwarded at most once whatever the cut and the redial
   outcome, the caller's status is the transparent one or Bad Gateway, and the variant of
   session.Call that issues the call again after CodeConnClosed forwards twice. *)
From Coq Require Import Strings.String Strings.Byte.
From Coq Require Import List Arith NArith ZArith Bool Lia.
From Verif Require Import Base.Bytes Model.Proxy Proofs.ProxyProofs.
Import ListNotations.

(* ---------- the second hop in terms of [failure] ---------- *)
Lemma client_call_refines h cl ft be pa frq :
  client_call false h cl ft be pa frq = session_forwarder be pa (fault_failure cl ft) frq.
Proof.
  unfold client_call, attempt_call, fault_failure, session_forwarder.
  destruct (writable cl ft); cbn [negb]; [|reflexivity].
  destruct (ft_cut ft); try (destruct (serve_call be pa frq) as [rp seen]; reflexivity).
  destruct (link_at_write cl ft); [reflexivity|].
  destruct (serve_call be pa frq) as [rp seen]; reflexivity.
Qed.

Lemma proxied_call_client_refines v h px fw be caller pa cl ft rq :
  proxied_call_client v false h px fw be caller pa cl ft rq
  = proxied_call v h px fw be caller pa (fault_failure cl ft) rq.
Proof.
  unfold proxied_call_client, proxied_call, proxy_serve_call.
  destruct (p_call px (rq_method rq)); [reflexivity|].
  unfold proxy_unknown_call. rewrite client_call_refines. reflexivity.
Qed.

(* ---------- at most once ---------- *)
Lemma run_route_seen_le p remote rq r : length (snd (run_route p remote rq r)) <= 1.
Proof. unfold run_route. destruct (decode_arg r _ _); cbn; lia. Qed.

Lemma serve_call_seen_le p remote rq : length (snd (serve_call p remote rq)) <= 1.
Proof.
  unfold serve_call. destruct (p_call p (rq_method rq)); [apply run_route_seen_le | cbn; lia].
Qed.

Lemma serve_push_seen_le p remote rq : length (serve_push p remote rq) <= 1.
Proof.
  unfold serve_push. destruct (p_push p (rq_method rq)); [apply run_route_seen_le | cbn; lia].
Qed.

Lemma proxied_call_at_most_once v h px fw be caller pa fl rq :
  let p := proxied_call v h px fw be caller pa fl rq in
  px_arrived p <= 1 /\ length (px_seen p) <= 1 /\ length (px_forwards p) <= 1.
Proof.
  cbn zeta. unfold proxied_call, proxy_serve_call.
  destruct (p_call px (rq_method rq)); [cbn; lia|].
  unfold proxy_unknown_call, session_forwarder.
  set (frq := forward_request v fw caller rq).
  pose proof (serve_call_seen_le be pa frq) as Hs.
  destruct fl as [|r|r].
  - destruct (serve_call be pa frq) as [rp seen]. cbn [snd] in Hs.
    destruct (rp_stat rp); [destruct (bad_gateway _ _ _)|]; cbn; lia.
  - destruct (v_nil_guard v); [destruct (bad_gateway _ _ _)|]; cbn; lia.
  - destruct (serve_call be pa frq) as [rp seen]. cbn [snd] in Hs.
    destruct (v_nil_guard v); [destruct (bad_gateway _ _ _)|]; cbn; lia.
Qed.

Lemma redial_at_most_once_lemma v h px fw be caller pa cl ft rq :
  let p := proxied_call_client v false h px fw be caller pa cl ft rq in
  px_arrived p <= 1 /\ length (px_seen p) <= 1 /\ length (px_forwards p) <= 1.
Proof.
  cbn zeta. rewrite proxied_call_client_refines. apply proxied_call_at_most_once.
Qed.

Lemma redial_push_at_most_once_lemma v h px fw be caller pa cl ft rq :
  let p := proxied_push_client v h px fw be caller pa cl ft rq in
  px_arrived p <= 1 /\ length (px_seen p) <= 1 /\ length (px_forwards p) <= 1.
Proof.
  cbn zeta. unfold proxied_push_client, proxy_serve_push.
  destruct (p_push px (rq_method rq)); [cbn; lia|].
  unfold client_push.
  set (frq := forward_request v fw caller rq).
  pose proof (serve_push_seen_le be pa frq) as Hs.
  destruct (writable cl ft); cbn [negb]; [|cbn; lia].
  destruct (ft_cut ft); try (cbn; lia).
  destruct (link_at_write cl ft); cbn; lia.
Qed.

Lemma redial_at_most_once_both v h px fw be caller pa cl ft rq :
  (let p := proxied_call_client v false h px fw be caller pa cl ft rq in
   px_arrived p <= 1 /\ length (px_seen p) <= 1 /\ length (px_forwards p) <= 1) /\
  (let p := proxied_push_client v h px fw be caller pa cl ft rq in
   px_arrived p <= 1 /\ length (px_seen p) <= 1 /\ length (px_forwards p) <= 1).
Proof. split; [apply redial_at_most_once_lemma | apply redial_push_at_most_once_lemma]. Qed.

(* ---------- the status law ---------- *)
(* does the forwarded call come back with the backend's reply? *)
Definition delivered (cl : client) (ft : fault) : bool :=
  match fault_failure cl ft with FNone => true | _ => false end.

Lemma delivered_spec cl ft :
  delivered cl ft =
  writable cl ft &&
  match ft_cut ft with
  | CDuring => false
  | CAtWrite => negb (link_at_write cl ft)
  | _ => true
  end.
Proof.
  unfold delivered, fault_failure.
  destruct (writable cl ft); cbn [negb andb]; [|reflexivity].
  destruct (ft_cut ft); try reflexivity. destruct (link_at_write cl ft); reflexivity.
Qed.

Lemma redial_status_law_lemma h px fw be caller pa cl ft rq :
  p_call px (rq_method rq) = None -> conn_class (deref h (ft_stat ft)) = true ->
  let p := proxied_call_client fixed false h px fw be caller pa cl ft rq in
  if delivered cl ft
  then p = proxied_call fixed h px fw be caller pa FNone rq
  else px_reply p = mkReply (Some (mkStatus 502 text_bad_gateway (st_cause (deref h (ft_stat ft))))) [] 0 [] /\
       px_heap p = h /\ length (px_forwards p) = 1 /\
       px_arrived p = (if writable cl ft then match ft_cut ft with CDuring => 1 | _ => 0 end else 0).
Proof.
  intros Hpx Hcc. cbn zeta. rewrite proxied_call_client_refines.
  unfold delivered. destruct (fault_failure cl ft) as [|r|r] eqn:Ef; [reflexivity| |].
  - assert (r = ft_stat ft /\ (if writable cl ft then match ft_cut ft with CDuring => 1 | _ => 0 end else 0) = 0) as [-> Hn].
    { revert Ef. unfold fault_failure. destruct (writable cl ft); cbn [negb].
      - destruct (ft_cut ft); try discriminate.
        destruct (link_at_write cl ft); [|discriminate]. intros E; inversion E; auto.
      - intros E; inversion E; auto. }
    rewrite Hn.
    exact (backend_failure_lemma h px fw be caller pa (FBefore (ft_stat ft)) (ft_stat ft) rq Hpx eq_refl Hcc).
  - assert (r = ft_stat ft /\ (if writable cl ft then match ft_cut ft with CDuring => 1 | _ => 0 end else 0) = 1) as [-> Hn].
    { revert Ef. unfold fault_failure. destruct (writable cl ft); cbn [negb]; [|discriminate].
      destruct (ft_cut ft); try discriminate.
      - destruct (link_at_write cl ft); discriminate.
      - intros E; inversion E; auto. }
    rewrite Hn.
    exact (backend_failure_lemma h px fw be caller pa (FDuring (ft_stat ft)) (ft_stat ft) rq Hpx eq_refl Hcc).
Qed.

(* ---------- that call only: after a cut with the backend reachable the session is usable ---------- *)
Lemma link_after_reachable cl ft :
  cl_redial cl = true -> ft_reach ft = true -> link_after cl ft = true.
Proof.
  intros Hr Hd. unfold link_after, writable, can_redial. rewrite Hr, Hd.
  destruct (ft_cut ft); cbn; rewrite ?orb_true_r; reflexivity.
Qed.

Lemma next_call_is_plain_lemma h px fw be caller pa cl ft ft2 rq :
  cl_redial cl = true -> ft_reach ft = true -> ft_cut ft2 = CNone ->
  proxied_call_client fixed false h px fw be caller pa (mkClient (cl_redial cl) (link_after cl ft)) ft2 rq
  = proxied_call fixed h px fw be caller pa FNone rq.
Proof.
  intros Hr Hd Hc. rewrite proxied_call_client_refines.
  rewrite (link_after_reachable cl ft Hr Hd).
  unfold fault_failure, writable, link_at_write. rewrite Hc. cbn. reflexivity.
Qed.

(* a lost connection without a redial stays lost: the later calls are Bad Gateway, none is forwarded *)
Lemma link_lost_stays_lost cl ft :
  can_redial cl ft = false -> ft_cut ft <> CNone -> link_after cl ft = false.
Proof. intros Hc Hn. unfold link_after. rewrite Hc. destruct (ft_cut ft); congruence. Qed.

(* ---------- histories over one forwarder session ---------- *)
Lemma cstep_fixed h cl o :
  let '((h', _), p) := cstep fixed false (h, cl) o in
  h' = h /\ px_arrived p <= 1 /\ length (px_seen p) <= 1 /\ length (px_forwards p) <= 1.
Proof.
  destruct o as [px fw be c pa ft rq | px fw be c pa ft rq]; cbn [cstep].
  - split; [|apply redial_at_most_once_lemma].
    rewrite proxied_call_client_refines.
    exact (step_fixed_heap h (OpProxiedCall px fw be c pa (fault_failure cl ft) rq)).
  - split; [|apply redial_push_at_most_once_lemma].
    unfold proxied_push_client, proxy_serve_push. destruct (p_push px (rq_method rq)); [reflexivity|].
    destruct (client_push cl ft be pa _) as [[res seen] arrived].
    destruct res; [reflexivity|]. cbn [px_heap]. rewrite bad_gateway_fixed. reflexivity.
Qed.

Lemma run_cops_at_most_once ops : forall h cl,
  fst (fst (run_cops fixed false (h, cl) ops)) = h /\
  Forall (fun p => px_arrived p <= 1 /\ length (px_seen p) <= 1 /\ length (px_forwards p) <= 1)
         (snd (run_cops fixed false (h, cl) ops)).
Proof.
  induction ops as [|o r IH]; intros h cl; cbn [run_cops]; [split; [reflexivity|constructor]|].
  pose proof (cstep_fixed h cl o) as Hs.
  destruct (cstep fixed false (h, cl) o) as [[h1 cl1] p]. destruct Hs as [-> Hp].
  specialize (IH h cl1). destruct (run_cops fixed false (h, cl1) r) as [hc2 ps].
  cbn [fst snd] in *. destruct IH as [IH1 IH2]. split; [exact IH1 | constructor; assumption].
Qed.

(* ---------- the variant that issues the call again ---------- *)
Definition w_client : client := mkClient true true.
Definition w_fault : fault := mkFault CDuring true (SShared idx_conn_closed).

Lemma reissuing_call_refuted_lemma :
  exists px fw be caller pa cl ft rq,
    p_call px (rq_method rq) = None /\ conn_class (deref initial_heap (ft_stat ft)) = true /\
    delivered cl ft = false /\
    (let p := proxied_call_client fixed false initial_heap px fw be caller pa cl ft rq in
     px_arrived p = 1 /\ length (px_seen p) = 1 /\
     rp_stat (px_reply p) = Some (mkStatus 502 text_bad_gateway (Some []))) /\
    (let p := proxied_call_client fixed true initial_heap px fw be caller pa cl ft rq in
     px_arrived p = 2 /\ length (px_seen p) = 2 /\
     px_reply p = mkReply None (str "hi") 115 []).
Proof.
  exists w_px, w_px, w_be, w_caller, w_proxy, w_client, w_fault, w_rq.
  repeat split; vm_compute; reflexivity.
Qed.

(* with the backend not reachable the re-issued call is refused too: the same requests reach
   the backend with and without the second issue; the difference shows when the redial succeeds *)
Lemma reissue_unreachable_same h cl ft be pa frq :
  ft_reach ft = false ->
  snd (client_call true h cl ft be pa frq) = snd (client_call false h cl ft be pa frq) /\
  snd (fst (client_call true h cl ft be pa frq)) = snd (fst (client_call false h cl ft be pa frq)).
Proof.
  intros Hd. unfold client_call.
  destruct (attempt_call cl ft be pa frq) as [[res seen] n] eqn:Ea.
  destruct res as [rp|r1]; [split; reflexivity|].
  destruct (true && cl_redial cl && (st_code (deref h r1) =? 102)%Z); [|split; reflexivity].
  assert (link_after cl ft = false) as Hl.
  { revert Ea. unfold attempt_call, link_after, writable, can_redial, link_at_write. rewrite Hd, andb_false_r.
    destruct (ft_cut ft); try reflexivity. rewrite orb_false_r.
    destruct (cl_link cl); [|reflexivity]. cbn [negb]. destruct (serve_call be pa frq); discriminate. }
  rewrite Hl, Hd.
  assert (attempt_call (mkClient (cl_redial cl) false) (mkFault CNone false (SShared idx_conn_closed)) be pa frq
          = (FwdFail (SShared idx_conn_closed), [], 0)) as ->.
  { unfold attempt_call, writable, link_at_write, can_redial. cbn. rewrite andb_false_r. reflexivity. }
  cbn [fst snd]. rewrite app_nil_r, Nat.add_0_r. split; reflexivity.
Qed.
