(* Proofs about Model/Lockset.v: the lockset discipline implies race freedom, for every
   well-formed trace (any number of threads, any interleaving). *)
From Coq Require Import Strings.String Strings.Byte.
From Coq Require Import List Arith NArith Bool Lia Relations.
From Verif Require Import Model.Lockset.
Import ListNotations.

(* ---- small reflections ---- *)
Lemma mode_eqb_eq a b : mode_eqb a b = true <-> a = b.
Proof. destruct a, b; cbn; split; congruence. Qed.

Lemma akind_eqb_eq a b : akind_eqb a b = true <-> a = b.
Proof. destruct a, b; cbn; split; congruence. Qed.

Lemma hold_eqb_eq a b : hold_eqb a b = true <-> a = b.
Proof.
  destruct a as [[t1 l1] m1], b as [[t2 l2] m2]; cbn [hold_eqb].
  rewrite !andb_true_iff, !Nat.eqb_eq, mode_eqb_eq. split.
  - intros [[-> ->] ->]. reflexivity.
  - intros E; inversion E; auto.
Qed.

Lemma holdsb_In hs t l m : holdsb hs t l m = true <-> In (t, l, m) hs.
Proof.
  unfold holdsb. rewrite existsb_exists. split.
  - intros (h & Hin & E). apply hold_eqb_eq in E. subst h. exact Hin.
  - intros Hin. exists (t, l, m). split; [exact Hin | apply hold_eqb_eq; reflexivity].
Qed.

Lemma drop_hold_In hs h h' : In h' (drop_hold hs h) <-> In h' hs /\ h <> h'.
Proof.
  unfold drop_hold. rewrite filter_In. split; intros [H1 H2]; split; auto.
  - intros ->. rewrite (proj2 (hold_eqb_eq h' h') eq_refl) in H2. discriminate.
  - destruct (hold_eqb h h') eqn:E; [apply hold_eqb_eq in E; contradiction | reflexivity].
Qed.

(* ---- mutual-exclusion invariant ---- *)
Definition inv (hs : list hold) : Prop :=
  forall t1 t2 l m1 m2, In (t1, l, m1) hs -> In (t2, l, m2) hs -> t1 <> t2 -> compat m1 m2 = true.

Lemma compat_sym a b : compat a b = compat b a.
Proof. destruct a, b; reflexivity. Qed.

Lemma can_acquire_spec hs t l m :
  can_acquire hs t l m = true ->
  forall u m', In (u, l, m') hs -> u <> t /\ compat m m' = true.
Proof.
  unfold can_acquire. rewrite forallb_forall. intros H u m' Hin.
  specialize (H _ Hin). cbn in H. rewrite Nat.eqb_refl in H. cbn in H.
  apply andb_true_iff in H. destruct H as [H1 H2]. split; [|exact H2].
  intros ->. rewrite Nat.eqb_refl in H1. discriminate.
Qed.

Lemma step_holders_acc st t x k a st' :
  step st (EAcc t x k a) = Some st' -> holders st' = holders st.
Proof.
  cbn. destruct (pub st x) as [|u|]; [| destruct (Nat.eqb u t) |]; intros E; inversion E; reflexivity.
Qed.

Lemma step_holders_pub st t x st' :
  step st (EPub t x) = Some st' -> holders st' = holders st.
Proof.
  cbn. destruct (pub st x) as [|u|]; [| destruct (Nat.eqb u t) |]; intros E; inversion E; reflexivity.
Qed.

Lemma step_inv st e st' : step st e = Some st' -> inv (holders st) -> inv (holders st').
Proof.
  intros Hs Hi. destruct e as [t l m | t l m | t x k a | t x].
  - cbn in Hs. destruct (can_acquire (holders st) t l m) eqn:C; [|discriminate].
    inversion Hs; subst st'; cbn [holders]. clear Hs.
    intros t1 t2 l0 m1 m2 [E1|H1] [E2|H2] Hne.
    + inversion E1; inversion E2; subst. contradiction.
    + inversion E1; subst. destruct (can_acquire_spec _ _ _ _ C _ _ H2) as [_ Hc]. exact Hc.
    + inversion E2; subst. destruct (can_acquire_spec _ _ _ _ C _ _ H1) as [_ Hc].
      rewrite compat_sym. exact Hc.
    + eapply Hi; eauto.
  - cbn in Hs. destruct (holdsb (holders st) t l m); [|discriminate].
    inversion Hs; subst st'; cbn [holders]. clear Hs.
    intros t1 t2 l0 m1 m2 H1 H2 Hne.
    apply drop_hold_In in H1. apply drop_hold_In in H2. destruct H1, H2. eapply Hi; eauto.
  - rewrite (step_holders_acc _ _ _ _ _ _ Hs). exact Hi.
  - rewrite (step_holders_pub _ _ _ _ Hs). exact Hi.
Qed.

Lemma hold_lost st e st' h :
  step st e = Some st' -> In h (holders st) -> ~ In h (holders st') ->
  e = ERel (fst (fst h)) (snd (fst h)) (snd h).
Proof.
  intros Hs Hin Hnot. destruct e as [t l m | t l m | t x k a | t x].
  - cbn in Hs. destruct (can_acquire (holders st) t l m); [|discriminate].
    inversion Hs; subst st'. exfalso. apply Hnot. right. exact Hin.
  - cbn in Hs. destruct (holdsb (holders st) t l m); [|discriminate].
    inversion Hs; subst st'. cbn [holders] in Hnot.
    destruct h as [[t0 l0] m0]. cbn [fst snd].
    destruct (hold_eqb (t, l, m) (t0, l0, m0)) eqn:E.
    + apply hold_eqb_eq in E. inversion E. reflexivity.
    + exfalso. apply Hnot. apply drop_hold_In. split; [exact Hin|].
      intros E'. rewrite (proj2 (hold_eqb_eq _ _) E') in E. discriminate.
  - rewrite (step_holders_acc _ _ _ _ _ _ Hs) in Hnot. contradiction.
  - rewrite (step_holders_pub _ _ _ _ Hs) in Hnot. contradiction.
Qed.

Lemma hold_gained st e st' h :
  step st e = Some st' -> ~ In h (holders st) -> In h (holders st') ->
  e = EAcq (fst (fst h)) (snd (fst h)) (snd h).
Proof.
  intros Hs Hnot Hin. destruct e as [t l m | t l m | t x k a | t x].
  - cbn in Hs. destruct (can_acquire (holders st) t l m); [|discriminate].
    inversion Hs; subst st'. cbn [holders] in Hin. destruct Hin as [E|Hin]; [|contradiction].
    subst h. reflexivity.
  - cbn in Hs. destruct (holdsb (holders st) t l m); [|discriminate].
    inversion Hs; subst st'. cbn [holders] in Hin. apply drop_hold_In in Hin.
    destruct Hin; contradiction.
  - rewrite (step_holders_acc _ _ _ _ _ _ Hs) in Hin. contradiction.
  - rewrite (step_holders_pub _ _ _ _ Hs) in Hin. contradiction.
Qed.

Lemma In_hold_dec (h : hold) hs : In h hs \/ ~ In h hs.
Proof.
  destruct h as [[t l] m]. destruct (holdsb hs t l m) eqn:E.
  - left. apply holdsb_In. exact E.
  - right. intros H. apply holdsb_In in H. congruence.
Qed.

(* ---- exec / wf / follows over concatenation ---- *)
Lemma wf_exec st tr : wf st tr <-> exists st', exec st tr = Some st'.
Proof.
  split.
  - induction 1 as [st | st e st' r Hs _ IH]; cbn [exec]; [eauto|]. rewrite Hs. exact IH.
  - revert st. induction tr as [|e r IH]; intros st [st' E]; [constructor|].
    cbn [exec] in E. destruct (step st e) as [s1|] eqn:Hs; [|discriminate].
    econstructor; [exact Hs | apply IH; eauto].
Qed.

Lemma exec_app st a b :
  exec st (a ++ b) = match exec st a with Some s => exec s b | None => None end.
Proof.
  revert st. induction a as [|e r IH]; intros st; cbn [app exec]; [reflexivity|].
  destruct (step st e); [apply IH | reflexivity].
Qed.

Lemma exec_inv st tr st' : exec st tr = Some st' -> inv (holders st) -> inv (holders st').
Proof.
  revert st. induction tr as [|e r IH]; intros st E Hi; cbn [exec] in E.
  - inversion E; subst; exact Hi.
  - destruct (step st e) as [s1|] eqn:Hs; [|discriminate].
    eapply IH; [exact E | eapply step_inv; eauto].
Qed.

Lemma follows_app D st a b s :
  follows D st (a ++ b) = true -> exec st a = Some s -> follows D s b = true.
Proof.
  revert st. induction a as [|e r IH]; intros st F E; cbn [app exec follows] in *.
  - inversion E; subst; exact F.
  - destruct (step st e) as [s1|] eqn:Hs; [|discriminate].
    apply andb_true_iff in F. destruct F as [_ F]. eapply IH; eauto.
Qed.

Lemma follows_head D st e r : follows D st (e :: r) = true -> event_ok D st e = true.
Proof. cbn [follows]. intros F. apply andb_true_iff in F. tauto. Qed.

(* ---- lock hand-off ---- *)
Lemma acquire_needed h : forall q s s',
  ~ In h (holders s) -> exec s q = Some s' -> In h (holders s') ->
  exists q2 q3, q = q2 ++ EAcq (fst (fst h)) (snd (fst h)) (snd h) :: q3.
Proof.
  induction q as [|e q IH]; intros s s' Hnot E Hin; cbn [exec] in E.
  - inversion E; subst; contradiction.
  - destruct (step s e) as [sa|] eqn:Hs; [|discriminate].
    destruct (In_hold_dec h (holders sa)) as [Hy|Hn].
    + rewrite (hold_gained _ _ _ _ Hs Hnot Hy). exists [], q. reflexivity.
    + destruct (IH _ _ Hn E Hin) as (q2 & q3 & ->). exists (e :: q2), q3. reflexivity.
Qed.

Lemma handoff t1 t2 l m1 m2 : forall q s s',
  inv (holders s) -> In (t1, l, m1) (holders s) -> exec s q = Some s' ->
  In (t2, l, m2) (holders s') -> t1 <> t2 -> compat m1 m2 = false ->
  exists q1 q2 q3, q = q1 ++ ERel t1 l m1 :: q2 ++ EAcq t2 l m2 :: q3.
Proof.
  induction q as [|e q IH]; intros s s' Hi H1 E H2 Hne Hc; cbn [exec] in E.
  - inversion E; subst. rewrite (Hi _ _ _ _ _ H1 H2 Hne) in Hc. discriminate.
  - destruct (step s e) as [sa|] eqn:Hs; [|discriminate].
    destruct (In_hold_dec (t1, l, m1) (holders sa)) as [Hy|Hn].
    + destruct (IH _ _ (step_inv _ _ _ Hs Hi) Hy E H2 Hne Hc) as (q1 & q2 & q3 & ->).
      exists (e :: q1), q2, q3. reflexivity.
    + pose proof (hold_lost _ _ _ _ Hs H1 Hn) as He. cbn [fst snd] in He. subst e.
      assert (Hn2 : ~ In (t2, l, m2) (holders sa)).
      { intros H. cbn in Hs. destruct (holdsb (holders s) t1 l m1); [|discriminate].
        inversion Hs; subst sa. cbn [holders] in H. apply drop_hold_In in H. destruct H as [H _].
        rewrite (Hi _ _ _ _ _ H1 H Hne) in Hc. discriminate. }
      destruct (acquire_needed _ _ _ _ Hn2 E H2) as (q2 & q3 & ->). cbn [fst snd].
      exists [], q2, q3. reflexivity.
Qed.

(* ---- publication phase ---- *)
Lemma step_pub_shared st e st' x : step st e = Some st' -> pub st x = Shared -> pub st' x = Shared.
Proof.
  intros Hs Hp. destruct e as [t l m | t l m | t y k a | t y]; cbn in Hs.
  - destruct (can_acquire _ _ _ _); inversion Hs; subst; exact Hp.
  - destruct (holdsb _ _ _ _); inversion Hs; subst; exact Hp.
  - destruct (pub st y) as [|u|] eqn:Py; [| destruct (Nat.eqb u t) |]; inversion Hs; subst; auto.
    cbn [pub]. unfold set_pub. destruct (Nat.eqb x y) eqn:Exy; [|exact Hp].
    apply Nat.eqb_eq in Exy. subst. congruence.
  - destruct (pub st y) as [|u|] eqn:Py; [| destruct (Nat.eqb u t) |]; inversion Hs; subst; auto;
    cbn [pub]; unfold set_pub; destruct (Nat.eqb x y); auto.
Qed.

Lemma exec_pub_shared x : forall q s s', exec s q = Some s' -> pub s x = Shared -> pub s' x = Shared.
Proof.
  induction q as [|e q IH]; intros s s' E Hp; cbn [exec] in E.
  - inversion E; subst; exact Hp.
  - destruct (step s e) as [sa|] eqn:Hs; [|discriminate].
    eapply IH; [exact E | eapply step_pub_shared; eauto].
Qed.

(* an owned location stays owned by the same thread until that thread publishes it *)
Lemma step_pub_owned st e st' x t :
  step st e = Some st' -> pub st x = Owned t ->
  pub st' x = Owned t \/ (pub st' x = Shared /\ e = EPub t x).
Proof.
  intros Hs Hp. destruct e as [u l m | u l m | u y k a | u y]; cbn in Hs.
  - destruct (can_acquire _ _ _ _); inversion Hs; subst; auto.
  - destruct (holdsb _ _ _ _); inversion Hs; subst; auto.
  - destruct (pub st y) as [|v|] eqn:Py; [| destruct (Nat.eqb v u) |]; inversion Hs; subst; auto.
    cbn [pub]. unfold set_pub. destruct (Nat.eqb x y) eqn:Exy; auto.
    apply Nat.eqb_eq in Exy. subst. congruence.
  - destruct (pub st y) as [|v|] eqn:Py.
    + inversion Hs; subst. cbn [pub]. unfold set_pub. destruct (Nat.eqb x y) eqn:Exy; auto.
      apply Nat.eqb_eq in Exy. subst. congruence.
    + destruct (Nat.eqb v u) eqn:Evu; [|discriminate]. inversion Hs; subst. cbn [pub].
      unfold set_pub. destruct (Nat.eqb x y) eqn:Exy; auto.
      apply Nat.eqb_eq in Exy. apply Nat.eqb_eq in Evu. subst.
      rewrite Hp in Py. inversion Py; subst. right. auto.
    + discriminate.
Qed.

Lemma exec_pub_owned x t : forall q s s',
  exec s q = Some s' -> pub s x = Owned t ->
  pub s' x = Owned t \/ (pub s' x = Shared /\ exists q1 q2, q = q1 ++ EPub t x :: q2).
Proof.
  induction q as [|e q IH]; intros s s' E Hp; cbn [exec] in E.
  - inversion E; subst; auto.
  - destruct (step s e) as [sa|] eqn:Hs; [|discriminate].
    destruct (step_pub_owned _ _ _ _ _ Hs Hp) as [Ho | [Hsh ->]].
    + destruct (IH _ _ E Ho) as [H | [H (q1 & q2 & ->)]]; auto.
      right. split; [exact H|]. exists (e :: q1), q2. reflexivity.
    + right. split; [eapply exec_pub_shared; eauto|]. exists [], q. reflexivity.
Qed.

Lemma step_acc_pub st t x k a st' :
  step st (EAcc t x k a) = Some st' ->
  (pub st x = Shared /\ pub st' x = Shared) \/ (pub st x <> Shared /\ pub st' x = Owned t).
Proof.
  cbn. destruct (pub st x) as [|u|] eqn:Px.
  - intros E; inversion E; subst. right. split; [discriminate|]. cbn. unfold set_pub.
    rewrite Nat.eqb_refl. reflexivity.
  - destruct (Nat.eqb u t) eqn:Eu; [|discriminate]. apply Nat.eqb_eq in Eu. subst.
    intros E; inversion E; subst. right. split; [discriminate | exact Px].
  - intros E; inversion E; subst. left. auto.
Qed.

(* ---- positions in concatenations ---- *)
Lemma nth_mid {A} (a : list A) e b n : n = length a -> nth_error (a ++ e :: b) n = Some e.
Proof. intros ->. rewrite nth_error_app2 by lia. rewrite Nat.sub_diag. reflexivity. Qed.

Lemma hb_step tr i j : edge tr i j -> hb tr i j.
Proof. apply t_step. Qed.

Lemma hb_trans tr i j k : hb tr i j -> hb tr j k -> hb tr i k.
Proof. apply t_trans. Qed.

Ltac norm_app := repeat (first [rewrite <- app_assoc | rewrite <- app_comm_cons]).

(* ---- the theorem ---- *)
Lemma discipline_orders D p t1 x k1 a1 q t2 k2 a2 s :
  wf init (p ++ EAcc t1 x k1 a1 :: q ++ EAcc t2 x k2 a2 :: s) ->
  follows D init (p ++ EAcc t1 x k1 a1 :: q ++ EAcc t2 x k2 a2 :: s) = true ->
  conflicting k1 a1 k2 a2 ->
  hb (p ++ EAcc t1 x k1 a1 :: q ++ EAcc t2 x k2 a2 :: s) (length p) (length p + S (length q)).
Proof.
  set (tr := p ++ EAcc t1 x k1 a1 :: q ++ EAcc t2 x k2 a2 :: s).
  intros Hwf Hf [Hw Hna].
  apply wf_exec in Hwf. destruct Hwf as [sf Hex].
  unfold tr in Hex. rewrite exec_app in Hex.
  destruct (exec init p) as [s1|] eqn:E1; [|discriminate].
  cbn [exec] in Hex. destruct (step s1 (EAcc t1 x k1 a1)) as [s1'|] eqn:S1; [|discriminate].
  rewrite exec_app in Hex.
  destruct (exec s1' q) as [s2|] eqn:E2; [|discriminate].
  cbn [exec] in Hex. destruct (step s2 (EAcc t2 x k2 a2)) as [s2'|] eqn:S2; [|discriminate].
  (* discipline facts at both accesses *)
  pose proof (follows_app _ _ _ _ _ Hf E1) as F1.
  pose proof (follows_head _ _ _ _ F1) as Ok1.
  assert (F2 : follows D s2 (EAcc t2 x k2 a2 :: s) = true).
  { cbn [follows] in F1. rewrite S1 in F1. apply andb_true_iff in F1. destruct F1 as [_ F1].
    eapply follows_app; eauto. }
  pose proof (follows_head _ _ _ _ F2) as Ok2.
  assert (Hi : nth_error tr (length p) = Some (EAcc t1 x k1 a1)) by (apply nth_mid; reflexivity).
  assert (Hj : nth_error tr (length p + S (length q)) = Some (EAcc t2 x k2 a2)).
  { unfold tr. change (p ++ EAcc t1 x k1 a1 :: q ++ EAcc t2 x k2 a2 :: s)
      with (p ++ (EAcc t1 x k1 a1 :: q) ++ EAcc t2 x k2 a2 :: s).
    rewrite app_assoc. apply nth_mid. rewrite app_length. cbn [length]. reflexivity. }
  assert (Hpo : t1 = t2 -> hb tr (length p) (length p + S (length q))).
  { intros ->. apply hb_step. eapply edge_po; eauto. lia. }
  destruct (step_acc_pub _ _ _ _ _ _ S1) as [[P1 P1'] | [P1 P1']].
  - (* first access already shared: so is the second; use the discipline *)
    pose proof (exec_pub_shared x _ _ _ E2 P1') as P2.
    cbn [event_ok] in Ok1, Ok2. rewrite P1 in Ok1. rewrite P2 in Ok2.
    destruct (D x) as [| | l] eqn:Dx; cbn [access_ok] in Ok1, Ok2.
    + subst a1 a2. discriminate.
    + apply akind_eqb_eq in Ok1. apply akind_eqb_eq in Ok2. subst. destruct Hw; discriminate.
    + destruct (Nat.eq_dec t1 t2) as [Et|Hne]; [auto|].
      assert (exists m1 m2, In (t1, l, m1) (holders s1') /\ In (t2, l, m2) (holders s2) /\
                            compat m1 m2 = false) as (m1 & m2 & H1 & H2 & Hc).
      { rewrite (step_holders_acc _ _ _ _ _ _ S1).
        apply orb_true_iff in Ok1. apply orb_true_iff in Ok2.
        destruct Ok1 as [O1|O1]; destruct Ok2 as [O2|O2].
        - exists MW, MW. rewrite <- !holdsb_In. auto.
        - apply andb_true_iff in O2. destruct O2 as [_ O2]. exists MW, MR. rewrite <- !holdsb_In. auto.
        - apply andb_true_iff in O1. destruct O1 as [_ O1]. exists MR, MW. rewrite <- !holdsb_In. auto.
        - apply andb_true_iff in O1. apply andb_true_iff in O2.
          destruct O1 as [K1 _], O2 as [K2 _]. apply akind_eqb_eq in K1. apply akind_eqb_eq in K2.
          subst. destruct Hw; discriminate. }
      assert (Hinv : inv (holders s1')).
      { eapply step_inv; [exact S1|]. eapply exec_inv; [exact E1|]. intros ? ? ? ? ? []. }
      destruct (handoff _ _ _ _ _ _ _ _ Hinv H1 E2 H2 Hne Hc) as (q1 & q2 & q3 & Eq).
      set (r := length p + S (length q1)).
      set (c := length p + S (length q1) + S (length q2)).
      assert (Hr : nth_error tr r = Some (ERel t1 l m1)).
      { assert (Etr : tr = (p ++ EAcc t1 x k1 a1 :: q1) ++ ERel t1 l m1 ::
                           (q2 ++ EAcq t2 l m2 :: q3 ++ EAcc t2 x k2 a2 :: s)).
        { unfold tr. rewrite Eq. norm_app. reflexivity. }
        rewrite Etr. apply nth_mid. rewrite app_length. cbn [length]. reflexivity. }
      assert (Hc' : nth_error tr c = Some (EAcq t2 l m2)).
      { assert (Etr : tr = (p ++ EAcc t1 x k1 a1 :: q1 ++ ERel t1 l m1 :: q2) ++ EAcq t2 l m2 ::
                           (q3 ++ EAcc t2 x k2 a2 :: s)).
        { unfold tr. rewrite Eq. norm_app. reflexivity. }
        rewrite Etr. apply nth_mid. rewrite app_length. cbn [length]. rewrite app_length. cbn [length].
        unfold c. lia. }
      assert (Hlen : length q = length q1 + S (length q2 + S (length q3))).
      { rewrite Eq. rewrite !app_length. cbn [length]. rewrite !app_length. cbn [length]. reflexivity. }
      eapply hb_trans; [apply hb_step; eapply edge_po with (j := r); eauto; unfold r; lia|].
      eapply hb_trans; [apply hb_step; eapply edge_sync with (j := c); eauto; unfold r, c; lia|].
      apply hb_step. eapply edge_po; eauto. unfold c. lia.
  - (* first access in the ownership phase *)
    destruct (exec_pub_owned x t1 _ _ _ E2 P1') as [P2 | [P2 (q1 & q2 & Eq)]].
    + (* still owned at the second access: same thread *)
      apply Hpo. cbn in S2. rewrite P2 in S2. destruct (Nat.eqb t1 t2) eqn:Et; [|discriminate].
      apply Nat.eqb_eq in Et. exact Et.
    + (* published in between by the owner *)
      set (r := length p + S (length q1)).
      assert (Hr : nth_error tr r = Some (EPub t1 x)).
      { assert (Etr : tr = (p ++ EAcc t1 x k1 a1 :: q1) ++ EPub t1 x :: (q2 ++ EAcc t2 x k2 a2 :: s)).
        { unfold tr. rewrite Eq. norm_app. reflexivity. }
        rewrite Etr. apply nth_mid. rewrite app_length. cbn [length]. reflexivity. }
      assert (Hlen : length q = length q1 + S (length q2)).
      { rewrite Eq. rewrite !app_length. cbn [length]. reflexivity. }
      eapply hb_trans; [apply hb_step; eapply edge_po with (j := r); eauto; unfold r; lia|].
      apply hb_step. eapply edge_pub; eauto. unfold r. lia.
Qed.

Theorem lockset_race_free D tr :
  wf init tr -> follows D init tr = true -> ~ race tr.
Proof.
  intros Hwf Hf (i & j & t1 & t2 & x & k1 & a1 & k2 & a2 & Hlt & Hi & Hj & Hc & Hn).
  apply Hn.
  destruct (nth_error_split _ _ Hi) as (p & rest & Etr & Lp).
  assert (Hj' : nth_error rest (j - S i) = Some (EAcc t2 x k2 a2)).
  { rewrite Etr in Hj. rewrite nth_error_app2 in Hj by lia. rewrite Lp in Hj.
    replace (j - i) with (S (j - S i)) in Hj by lia. exact Hj. }
  destruct (nth_error_split _ _ Hj') as (q & s & Erest & Lq).
  subst rest. subst tr.
  replace i with (length p) by exact Lp.
  replace j with (length p + S (length q)) by lia.
  eapply discipline_orders; eauto.
Qed.

(* ---- a witness that the discipline matters: two unordered plain writes ---- *)
Lemma no_out_edge tr i : (forall k, ~ edge tr i k) -> forall j, ~ hb tr i j.
Proof.
  intros H j Hhb. apply clos_trans_t1n in Hhb. inversion Hhb; subst; eapply H; eauto.
Qed.

Definition racy_trace : list event :=
  [EPub 0 0; EAcc 0 0 Wr false; EAcc 1 0 Wr false].

Lemma racy_trace_wf : wf init racy_trace.
Proof. apply wf_exec. eexists. vm_compute. reflexivity. Qed.

Lemma racy_trace_races : race racy_trace.
Proof.
  exists 1, 2, 0, 1, 0, Wr, false, Wr, false.
  split; [lia|]. split; [reflexivity|]. split; [reflexivity|].
  split; [split; [left; reflexivity | reflexivity]|].
  apply no_out_edge. intros k He.
  inversion He as [e1 e2 Hlt H1 H2 Ht | t1 t2 l m1 m2 Hlt H1 H2 Hc | t1 t2 x k0 a Hlt H1 H2
                   | t1 t2 x Hlt H1 H2 Hb];
    cbn in H1; inversion H1; subst.
  destruct k as [|[|[|k]]]; cbn in H2; try lia; try discriminate.
  - inversion H2; subst. cbn in Ht. discriminate.
  - destruct k; discriminate.
Qed.

Lemma broken_discipline_races : exists tr, wf init tr /\ race tr.
Proof. exists racy_trace. split; [apply racy_trace_wf | apply racy_trace_races]. Qed.

(* no discipline is followed by the racy trace (consequence of the theorem) *)
Lemma racy_trace_follows_nothing D : follows D init racy_trace = false.
Proof.
  destruct (follows D init racy_trace) eqn:F; [|reflexivity].
  exfalso. eapply lockset_race_free; [apply racy_trace_wf | exact F | apply racy_trace_races].
Qed.

(* the same accesses under a common lock are disciplined and well formed *)
Definition locked_trace : list event :=
  [EPub 0 0; EAcq 0 7 MW; EAcc 0 0 Wr false; ERel 0 7 MW; EAcq 1 7 MR; EAcc 1 0 Rd false; ERel 1 7 MR].

Lemma locked_trace_ok : wf init locked_trace /\ follows (fun _ => DLock 7) init locked_trace = true.
Proof. split; [apply wf_exec; eexists; vm_compute; reflexivity | vm_compute; reflexivity]. Qed.
