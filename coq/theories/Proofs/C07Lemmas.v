(* Lemmas in the exact shape of the C07 theorems. *)
From Coq Require Import Strings.String Strings.Byte.
From Coq Require Import List Arith NArith Bool Lia.
From Verif Require Import Model.Lifecycle Model.CallLife Model.Graceful Proofs.LifecycleProofs Proofs.PeerProofs.
Import ListNotations.

(* a session state of some peer history *)
Definition reach_sess (s : sess) : Prop :=
  exists es p n, prun peer0 es = Some p /\ nth_error (sessions p) n = Some s.

Lemma reach_sinv s : reach_sess s -> sinv s.
Proof.
  intros (es & p & n & Hr & Hn). destruct (prun_pinv es _ _ pinv0 Hr) as [Hs _ _].
  eapply Forall_nth; eauto.
Qed.

Lemma healthy_only_after_hooks_lemma s :
  reach_sess s -> (st s = Ok -> estab s = true) /\ (rd s <> RNone -> estab s = true).
Proof. intros H. destruct (reach_sinv s H) as ((_ & _ & _ & _ & (A & B & _)) & _). auto. Qed.

Lemma closed_absorbing_lemma es p e p' n s :
  prun peer0 es = Some p -> pstep p e = Some p' -> nth_error (sessions p) n = Some s ->
  closed (st s) = true -> exists s', nth_error (sessions p') n = Some s' /\ st s' = st s.
Proof.
  intros Hr Hs Hn Hc. destruct (pstep_status p e p' n s (prun_pinv es _ _ pinv0 Hr) Hs Hn) as (s' & A & B & _).
  exists s'. auto.
Qed.

Lemma healthy_not_reentered_lemma es p e p' n s s' :
  prun peer0 es = Some p -> pstep p e = Some p' -> nth_error (sessions p) n = Some s ->
  nth_error (sessions p') n = Some s' -> st s' = Ok -> st s = Ok.
Proof.
  intros Hr Hs Hn Hn' Hok. destruct (pstep_status p e p' n s (prun_pinv es _ _ pinv0 Hr) Hs Hn) as (t & A & _ & C).
  assert (t = s') by congruence. subst. auto.
Qed.

Lemma notify_once_lemma s : reach_sess s -> notified s <= 1 /\ (closed (st s) = true -> notified s = 1).
Proof.
  intros H. destruct (reach_sinv s H) as (Hi & _). split; [apply stat_inv_notified|apply closed_notified]; auto.
Qed.

Lemma hook_once_lemma s :
  reach_sess s ->
  hooks s <= 1 /\ (closed (st s) = false -> hooks s = 0) /\
  (closed (st s) = true -> terminal s = true -> hooks s = 1).
Proof.
  intros H. destruct (reach_sinv s H) as (Hi & _). repeat split.
  - apply stat_inv_hooks; auto.
  - apply not_closed_hooks; auto.
  - intros. apply terminal_closed_hooks; auto.
Qed.

(* calls *)
Lemma issue_marks s : exists c, nth_error (calls (issue s)) (length (calls s)) = Some c /\ c_ic c = closed (st s).
Proof. eexists. unfold issue; cbn. rewrite nth_error_app2, Nat.sub_diag; [|lia]. cbn. split; reflexivity. Qed.

Lemma push_marks s : exists h, nth_error (hctxs (push_call s)) (length (hctxs s)) = Some h /\ k_ic h = closed (st s) /\ k_kind h = KPushOut.
Proof. eexists. unfold push_call; cbn. rewrite nth_error_app2, Nat.sub_diag; [|lia]. cbn. repeat split; reflexivity. Qed.

Lemma call_fails_fast_lemma s i c :
  reach_sess s -> nth_error (calls s) i = Some c -> c_ic c = true ->
  match c_a c with
  | ADone => c_dones c = 1 /\ c_wrote c = false /\ (c_stat c = StConnClosed \/ c_stat c = StVeto)
  | _ => c_wrote c = false /\ exists s', caller_step s i false (wr_choice s) = Some s'
  end.
Proof.
  intros H Hn Hic. destruct (reach_sinv s H) as (_ & (Hc & _ & _)).
  pose proof (Forall_nth _ _ _ _ Hc Hn) as Hok. destruct (Hok Hic) as (Hcl & Hh & Hw & Hpc).
  unfold caller_step. rewrite Hn.
  destruct (c_a c); try tauto.
  - split; auto. eexists; reflexivity.
  - split; auto. destruct (admits (st s) false); eexists; reflexivity.
  - split; auto. eexists; reflexivity.
Qed.

Lemma push_fails_fast_lemma s j h :
  reach_sess s -> nth_error (hctxs s) j = Some h -> k_ic h = true ->
  match k_pc h with
  | KDone => k_res h = WrRefused \/ k_res h = WrVeto
  | _ => k_pc h <> K2w /\ exists s', handler_step s j false (wr_choice s) = Some s'
  end.
Proof.
  intros H Hn Hic. destruct (reach_sinv s H) as (_ & (_ & Hp & _)).
  pose proof (Forall_nth _ _ _ _ Hp Hn) as Hok. destruct (Hok Hic) as (Hcl & Hk & Hpc).
  unfold handler_step. rewrite Hn, Hk. cbv zeta.
  destruct (k_pc h); try tauto; (split; [discriminate|]).
  - eexists; reflexivity.
  - destruct (admits (st s) false); eexists; reflexivity.
  - eexists; reflexivity.
Qed.

Lemma no_handler_after_close_lemma s es s' :
  reach_sess s -> terminal s = true -> closed (st s) = true -> srun s es = Some s' ->
  starts s' = starts s.
Proof.
  intros H T Hc Hr. pose proof (reach_sinv s H) as Hi.
  apply (quiet_closed_run es s s' Hi); auto. apply terminal_quiet_closed; auto. apply Hi.
Qed.

(* handlers are only ever spawned by a reader that passed goonRead: never for a session
   whose hooks have not succeeded *)
Lemma index_exact_reach es p :
  prun peer0 es = Some p -> pquiescent p ->
  forall id n, idx_get (pindex p) id = Some n <->
               exists s, nth_error (sessions p) n = Some s /\ sid s = id /\ st s = Ok.
Proof. apply index_exact_lemma. Qed.

(* ---- the pinned behaviours, replayed on the model with one repair switched off ---- *)
Definition cfg_nodel : cfg := mkCfg false true true true true true.
Definition cfg_nocas : cfg := mkCfg true false true true true true.

Definition takeover_history : list pevent :=
  [PAccept 1000 true; PSess 0 (EReader true); PSess 0 (EReader true);
   PAccept 1001 true; PSess 1 (EReader true); PSess 1 (EReader true);
   PSetID 0 7; PSetID 1 7]
  ++ repeat (PSess 0 ECloser) 8
  ++ [PSess 0 (EFrame FrErr); PSess 0 (EReader true); PSess 0 (EReader true); PSess 0 (EReader true)].

Lemma index_exact_prefix_refuted_lemma :
  exists p, prun_cfg cfg_nodel peer0 takeover_history = Some p /\
            forallb (terminal_cfg cfg_nodel) (sessions p) = true /\
            exists s, nth_error (sessions p) 1 = Some s /\ st s = Ok /\ idx_get (pindex p) (sid s) = None.
Proof. eexists. split; [vm_compute; reflexivity|]. split; [vm_compute; reflexivity|]. eexists. vm_compute. auto. Qed.

Lemma takeover_fixed :
  exists p, prun peer0 takeover_history = Some p /\ idx_get (pindex p) 7%N = Some 1 /\ length (pindex p) = 1.
Proof. eexists. split; [vm_compute; reflexivity|]. vm_compute. auto. Qed.

Definition live_session : sess := mkSess Ok true true 0 0 0 0 [] [] R2 CIdle 0%N true 0.

Definition close_race_history : list sevent :=
  [EConnLost; EFrame FrErr; EReader true; EReader true;   (* readDisconnected read status ok *)
   EClose; ECloser;                                        (* Close: CAS ok -> active-closing *)
   EReader true]                                           (* plain store of passive-closing *)
  ++ repeat (EReader true) 7 ++ repeat ECloser 7.

Lemma hook_once_prefix_refuted_lemma :
  exists s, srun_cfg cfg_nocas live_session close_race_history = Some s /\ hooks s = 2 /\ terminal_cfg cfg_nocas s = true.
Proof. eexists. split; [vm_compute; reflexivity|]. vm_compute. auto. Qed.

Lemma close_race_fixed :
  exists s, srun live_session (firstn 7 close_race_history ++ repeat (EReader true) 7 ++ repeat ECloser 7) = Some s
            /\ hooks s = 1 /\ notified s = 1 /\ st s = ActiveClosed /\ terminal s = true.
Proof. eexists. split; [vm_compute; reflexivity|]. vm_compute. auto. Qed.

(* ---- accept order "index insert first, status ok when the accepting goroutine carries on"
        (serveListener before 6514bc6; the seeded change C07-r2m2 in ServeConn) ---- *)
Definition cfg_noacc : cfg := mkCfg true true true true false true.

(* O serves a handler; A is accepted under O's id (its goroutine parks in O's Close, which waits
   for the handler); B is accepted under the same id and closes A; then A's goroutine carries on *)
Definition resurrect_history : list pevent :=
  [PAccept 7 true; PSess 0 (EReader true); PSess 0 (EReader true);
   PSess 0 (EFrame FrCall); PSess 0 (EReader true); PSess 0 (EReader true); PSess 0 (EReader true);
   PSess 0 (EHandler 0 false WOk);
   PAccept 7 true] ++ repeat (PSess 0 ECloser) 3 ++
  [PAccept 7 true] ++ repeat (PSess 1 ECloser) 8 ++
  [PSess 1 (EReader true)].

Lemma closed_absorbing_prefix_refuted_lemma :
  (exists p s, prun_cfg cfg_noacc peer0 (firstn 21 resurrect_history) = Some p /\
               nth_error (sessions p) 1 = Some s /\ st s = ActiveClosed /\ notified s = 1 /\ hooks s = 1) /\
  (exists p s, prun_cfg cfg_noacc peer0 resurrect_history = Some p /\
               nth_error (sessions p) 1 = Some s /\ st s = Ok /\ notified s = 1) /\
  (exists p s, prun_cfg cfg_noacc peer0
                 (resurrect_history ++ [PSess 1 (EReader true); PSess 1 (EFrame FrErr)] ++ repeat (PSess 1 (EReader true)) 10) = Some p /\
               nth_error (sessions p) 1 = Some s /\ st s = PassiveClosed /\ hooks s = 2).
Proof.
  split; [|split]; eexists; eexists; (split; [vm_compute; reflexivity|]); vm_compute; auto.
Qed.

Lemma resurrect_fixed :
  exists p s, prun peer0 (resurrect_history ++ [PSess 1 (EReader true)] ++ repeat (PSess 1 (EReader true)) 2) = Some p /\
              nth_error (sessions p) 1 = Some s /\ st s = ActiveClosed /\ hooks s = 1 /\ rd s = RDone.
Proof. eexists; eexists. split; [vm_compute; reflexivity|]. vm_compute. auto. Qed.
