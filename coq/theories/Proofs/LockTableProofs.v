(* Lifting: a consistent access table is a premise of the race-freedom theorem.
   Every execution whose shared accesses are instances of table rows (same location class,
   kind, atomicity, and holding at least the locks the row lists, on the instance that
   protects the accessed object) follows a discipline, hence has no race. *)
From Coq Require Import Strings.String Strings.Byte.
From Coq Require Import List Arith NArith Bool Lia.
From Verif Require Import Model.Lockset Model.LockTable Proofs.LocksetProofs.
Import ListNotations.

Lemma key_eqb_refl k : key_eqb k k = true.
Proof. unfold key_eqb. rewrite !String.eqb_refl. reflexivity. Qed.

Lemma key_eqb_eq a b : key_eqb a b = true <-> a = b.
Proof.
  destruct a, b. unfold key_eqb. cbn [fst snd]. rewrite andb_true_iff, !String.eqb_eq.
  split; [intros [-> ->]; reflexivity | intros E; inversion E; auto].
Qed.

Lemma in_rows_of r T : In r T -> In r (rows_of (key_of r) T).
Proof. intros H. unfold rows_of. apply filter_In. split; [exact H | apply key_eqb_refl]. Qed.

Lemma verdict_atomic rows : verdict_of rows = VAtomic -> forall r, In r rows -> a_atomic r = true.
Proof.
  unfold verdict_of. destruct (forallb a_atomic rows) eqn:E.
  - intros _ r Hr. rewrite forallb_forall in E. auto.
  - destruct (forallb (fun r => negb (a_write r)) rows); [discriminate|].
    destruct rows as [|r0 ?]; [discriminate|]. destruct (find _ _); discriminate.
Qed.

Lemma verdict_readonly rows : verdict_of rows = VReadOnly -> forall r, In r rows -> a_write r = false.
Proof.
  unfold verdict_of. destruct (forallb a_atomic rows); [discriminate|].
  destruct (forallb (fun r => negb (a_write r)) rows) eqn:E.
  - intros _ r Hr. rewrite forallb_forall in E. specialize (E _ Hr). destruct (a_write r); [discriminate|reflexivity].
  - destruct rows as [|r0 ?]; [cbn in E; discriminate|]. destruct (find _ _); discriminate.
Qed.

Lemma verdict_lock rows L : verdict_of rows = VLock L -> forall r, In r rows -> row_holds r L = true.
Proof.
  unfold verdict_of. destruct (forallb a_atomic rows); [discriminate|].
  destruct (forallb (fun r => negb (a_write r)) rows); [discriminate|].
  destruct rows as [|r0 rs]; [discriminate|].
  destruct (find _ _) as [L'|] eqn:F; [|discriminate].
  intros E; inversion E; subst L'. apply find_some in F. destruct F as [_ F].
  rewrite forallb_forall in F. exact F.
Qed.

Section Lift.
  Variable T : list acc.                      (* effective rows *)
  Variable cls : loc -> key.                  (* (struct, field) of a location *)
  Variable lk : loc -> string -> lock.        (* the instance of a lock class guarding x's object *)

  Definition mode_of (w : bool) : mode := if w then MW else MR.

  Definition row_matches (st : state) (t : tid) (x : loc) (k : akind) (a : bool) (r : acc) : Prop :=
    key_of r = cls x /\ a_write r = akind_eqb k Wr /\ a_atomic r = a /\
    forall L w, In (L, w) (a_locks r) -> In (t, lk x L, mode_of w) (holders st).

  Definition event_conforms (st : state) (e : event) : Prop :=
    match e with
    | EAcc t x k a => pub st x = Shared -> exists r, In r T /\ row_matches st t x k a r
    | _ => True
    end.

  Fixpoint conforms (st : state) (tr : list event) : Prop :=
    match tr with
    | [] => True
    | e :: r => event_conforms st e /\
                match step st e with Some st' => conforms st' r | None => True end
    end.

  Definition disc_of (x : loc) : discipline :=
    match verdict_of (rows_of (cls x) T) with
    | VAtomic => DAtomic
    | VReadOnly => DReadOnly
    | VLock L => DLock (lk x L)
    | VBad => DAtomic
    end.

  Hypothesis Hcons : all_consistent T = true.

  Lemma conforms_event_ok st e : event_conforms st e -> event_ok disc_of st e = true.
  Proof.
    destruct e as [t l m | t l m | t x k a | t x]; cbn [event_conforms event_ok]; auto.
    intros H. destruct (pub st x) eqn:P; auto.
    destruct (H eq_refl) as (r & Hin & Hk & Hw & Ha & Hl).
    unfold all_consistent in Hcons. rewrite forallb_forall in Hcons. specialize (Hcons _ Hin).
    pose proof (in_rows_of _ _ Hin) as Hrow. rewrite Hk in Hrow, Hcons.
    unfold disc_of. destruct (verdict_of (rows_of (cls x) T)) as [| | L |] eqn:V; cbn [access_ok].
    - rewrite <- Ha. eapply verdict_atomic; eauto.
    - pose proof (verdict_readonly _ V _ Hrow) as W. rewrite Hw in W. destruct k; [reflexivity | discriminate].
    - pose proof (verdict_lock _ _ V _ Hrow) as Hh. unfold row_holds in Hh.
      apply existsb_exists in Hh. destruct Hh as ([L' w] & HinL & Hc). cbn [fst snd] in Hc.
      apply andb_true_iff in Hc. destruct Hc as [EL Hm]. apply String.eqb_eq in EL. subst L'.
      specialize (Hl _ _ HinL). destruct w; cbn [mode_of] in Hl.
      + apply orb_true_iff. left. apply holdsb_In. exact Hl.
      + cbn in Hm. rewrite Hw in Hm. destruct k; [|discriminate].
        apply orb_true_iff. right. cbn. apply holdsb_In. exact Hl.
    - discriminate.
  Qed.

  Lemma conforms_follows : forall tr st, conforms st tr -> follows disc_of st tr = true.
  Proof.
    induction tr as [|e r IH]; intros st H; cbn [follows conforms] in *; [reflexivity|].
    destruct H as [He Hr]. rewrite (conforms_event_ok _ _ He). cbn.
    destruct (step st e); [apply IH; exact Hr | reflexivity].
  Qed.

  Theorem table_race_free_lemma tr : wf init tr -> conforms init tr -> ~ race tr.
  Proof.
    intros Hwf Hc. eapply lockset_race_free; [exact Hwf | apply conforms_follows; exact Hc].
  Qed.
End Lift.
