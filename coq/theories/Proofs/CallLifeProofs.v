(* Per-call invariants of the session machine (C02). *)
From Coq Require Import Strings.String Strings.Byte.
From Coq Require Import List Arith NArith Bool Lia.
From Verif Require Import Model.Lifecycle Model.CallLife Model.Graceful Proofs.LifecycleProofs Proofs.PeerProofs Proofs.C07Lemmas.
Import ListNotations.

Definition call_ok (c : call) : Prop :=
  c_sends c = c_dones c /\ c_dones c <= 1 /\
  (c_tab c = true <-> c_dones c = 0) /\
  match c_h c with
  | HBound _ | H0 _ | H1 => c_dones c = 0 /\ c_rep c = true /\ c_a c = ADone
  | HNone => True
  | HLeak => False
  end /\
  match c_a c with A1 | A2 | A2w => c_dones c = 0 | _ => True end /\
  (c_dones c = 1 -> c_stat c = StOk -> c_rep c = true) /\
  (c_vis c = true -> c_tab c = false) /\
  (c_rep c = true -> c_h c = HNone -> c_dones c = 1) /\
  (cstat_ok (c_stat c) = false -> c_h c = HNone -> c_dones c = 1).

Definition calls_ok (s : sess) : Prop := Forall call_ok (calls s).

Ltac cok := unfold call_ok in *; cbn in *; intuition (try congruence; try lia; try discriminate).

Lemma call_ok_new b : call_ok (mkCall A1 HNone true false StOk 0 0 false false b).
Proof. cok. Qed.

(* completing a call that is not yet complete, with an error status or with a bound reply *)
Lemma call_ok_done c c' :
  call_ok c -> c_dones c = 0 ->
  c' = call_done c -> c_h c = HNone -> (c_a c = A4 \/ c_a c = ADone) ->
  (c_stat c = StOk -> c_rep c = true) -> call_ok c'.
Proof. intros H H0 -> Hh Ha Hs. unfold call_ok in *; cbn. rewrite Hh in *. rewrite H0 in *.
  destruct Ha as [Ha|Ha]; rewrite Ha in *; intuition (try congruence; try lia; try discriminate).
Qed.

Lemma caller_step_calls_ok s i v w s' : calls_ok s -> caller_step s i v w = Some s' -> calls_ok s'.
Proof.
  unfold calls_ok. intros Hc H. unfold caller_step in H.
  destruct (nth_error (calls s) i) as [c|] eqn:En; [|discriminate].
  pose proof (Forall_nth _ _ _ _ Hc En) as Hci.
  destruct (c_a c) eqn:Ea; try discriminate.
  - destruct v; inversion H; subst; cbn; apply Forall_upd; auto;
      unfold call_ok in *; cbn; rewrite Ea in *; destruct (c_h c);
      intuition (try congruence; try lia; try discriminate).
  - destruct (admits (st s) false); inversion H; subst; cbn; apply Forall_upd; auto;
      unfold call_ok in *; cbn; rewrite Ea in *; destruct (c_h c);
      intuition (try congruence; try lia; try discriminate).
  - destruct (wr_ok s w); [|discriminate].
    destruct w; inversion H; subst; cbn; apply Forall_upd; auto;
      unfold call_ok in *; cbn; rewrite Ea in *; destruct (c_h c);
      intuition (try congruence; try lia; try discriminate).
  - inversion H; subst; cbn; apply Forall_upd; auto;
      unfold call_ok in *; cbn; rewrite Ea in *; destruct (c_h c);
      intuition (try congruence; try lia; try discriminate).
Qed.

Lemma reply_step_calls_ok s i s' : calls_ok s -> reply_step s i = Some s' -> calls_ok s'.
Proof.
  unfold calls_ok. intros Hc H. unfold reply_step in H.
  destruct (nth_error (calls s) i) as [c|] eqn:En; [|discriminate].
  pose proof (Forall_nth _ _ _ _ Hc En) as Hci.
  destruct (c_h c) eqn:Eh; try discriminate;
    (assert (Ea : c_a c = ADone) by (unfold call_ok in Hci; rewrite Eh in Hci; intuition));
    inversion H; subst; cbn; apply Forall_upd; auto.
  - unfold call_ok in *; cbn. rewrite Eh, Ea in *. unfold reply_stat.
    destruct (cstat_ok (c_stat c)) eqn:Es; cbn; intuition (try congruence; try lia; try discriminate).
  - unfold call_ok in *; cbn. rewrite Eh, Ea in *.
    intuition (try congruence; try lia; try discriminate).
Qed.

Lemma visit_step_calls_ok s i s' : calls_ok s -> visit_step s i = Some s' -> calls_ok s'.
Proof.
  unfold calls_ok. intros Hc H. unfold visit_step in H. destruct (rd_cancel (rd s)) eqn:Erc; [|discriminate]. unfold visit_body in H.
  destruct (nth_error (calls s) i) as [c|] eqn:En; [|discriminate].
  pose proof (Forall_nth _ _ _ _ Hc En) as Hci.
  destruct (c_tab c) eqn:Et; [|discriminate]. cbn in H.
  destruct (negb (c_vis c)); [|discriminate]. cbn in H.
  destruct (mu_free c) eqn:Em; [|discriminate].
  unfold mu_free in Em. destruct (c_a c) eqn:Ea; try discriminate. destruct (c_h c) eqn:Eh; try discriminate.
  assert (Hd : c_dones c = 0) by (unfold call_ok in Hci; intuition).
  destruct (negb (c_rep c) && cstat_ok (c_stat c)) eqn:Ec; inversion H; subst; cbn; apply Forall_upd; auto.
  - unfold call_ok in *; cbn. rewrite Eh, Ea, Hd in *. intuition (try congruence; try lia; try discriminate).
  - exfalso. unfold call_ok in Hci. rewrite Eh, Ea in Hci.
    destruct (c_rep c) eqn:Er; cbn in Ec.
    + intuition lia.
    + destruct (cstat_ok (c_stat c)) eqn:Es; [discriminate|]. intuition lia.
Qed.

Lemma reader_step_calls_ok s b s' fx :
  calls_ok s -> bound_ok s -> reader_step fixed s b = Some (s', fx) -> calls_ok s'.
Proof.
  unfold calls_ok. intros Hc Hb H. unfold reader_step in H.
  destruct (rd s) eqn:Erd; try discriminate.
  - destruct (estab s); [|discriminate]. cbn [fix_acc fixed] in H. inversion H; subst; auto.
  - destruct (goon (st s)); inversion H; subst; auto.
  - destruct (nth_error (calls s) i) as [c|]; [destruct (c_tab c)|]; inversion H; subst; auto.
  - destruct (nth_error (calls s) i) as [c|] eqn:En; [|discriminate].
    pose proof (Forall_nth _ _ _ _ Hc En) as Hci.
    destruct (mu_free c) eqn:Em; [|discriminate].
    unfold mu_free in Em. destruct (c_a c) eqn:Ea; try discriminate. destruct (c_h c) eqn:Eh; try discriminate.
    cbn [fix_dup fixed andb] in H.
    destruct (c_dones c =? 0) eqn:Ed; cbn [negb] in H; [|inversion H; subst; auto].
    apply Nat.eqb_eq in Ed.
    destruct d; cbn [fix_abort fixed] in H; inversion H; subst; cbn; apply Forall_upd; auto;
      unfold call_ok in *; cbn; rewrite ?Eh, ?Ea, ?Ed in *;
      try destruct (cstat_ok (c_stat c)) eqn:Es; cbn;
      intuition (try congruence; try lia; try discriminate).
    all: rewrite Ea; exact I.
  - destruct (early s x).
    + destruct x; try (inversion H; subst; auto; fail).
      destruct (nth_error (calls s) i) as [c|] eqn:En; [|discriminate].
      pose proof (Forall_nth _ _ _ _ Hc En) as Hci.
      unfold bound_ok in Hb. rewrite Erd in Hb. destruct Hb as (c0 & Hc0 & Hh0).
      assert (c0 = c) by congruence. subst c0.
      cbn [fix_abort fixed] in H. inversion H; subst; cbn; apply Forall_upd; auto.
      unfold call_ok in *; cbn. rewrite Hh0 in *.
      destruct (cstat_ok (c_stat c)) eqn:Es; cbn;
        destruct d; intuition (try congruence; try lia; try discriminate).
      all: match goal with Hx : c_a ?c = ADone |- _ => rewrite Hx; exact I end.
    + inversion H; subst; auto.
  - destruct x; try discriminate.
    + destruct b; [|destruct k]; inversion H; subst; auto.
    + destruct (nth_error (calls s) i) as [c|] eqn:En; [|discriminate].
      pose proof (Forall_nth _ _ _ _ Hc En) as Hci.
      unfold bound_ok in Hb. rewrite Erd in Hb. destruct Hb as (c0 & Hc0 & Hh0).
      assert (c0 = c) by congruence. subst c0.
      destruct b; cbn [fix_abort fixed] in H; inversion H; subst; cbn; apply Forall_upd; auto;
        unfold call_ok in *; cbn; rewrite Hh0 in *; unfold reply_stat;
        try destruct (cstat_ok (c_stat c)) eqn:Es; cbn;
        intuition (try congruence; try lia; try discriminate).
      all: match goal with Hx : c_a ?c = ADone |- _ => rewrite Hx; exact I end.
  - inversion H; subst; auto.
  - destruct seen; cbn [fix_cas fixed] in H; try destruct (status_eqb (st s) _); inversion H; subst; auto.
  - inversion H; subst; auto.
  - destruct (ctxWG s); inversion H; subst; auto.
  - destruct (all_visited (calls s)); inversion H; subst; auto.
  - destruct seen; inversion H; subst; auto.
  - inversion H; subst; auto.
  - inversion H; subst; unfold notify; cbn. destruct (notified s); auto.
  - destruct (all_visited (calls s)); inversion H; subst; auto.
Qed.

Lemma calls_ok_step s e s' fx : calls_ok s -> bound_ok s -> sstep s e = Some (s', fx) -> calls_ok s'.
Proof.
  intros Hc Hb H. unfold sstep, sstep_cfg in H. destruct e.
  - destruct (conn s); inversion H; subst; auto.
  - unfold noeff, frame_step in H. destruct (rd s); try discriminate. destruct f; inversion H; subst; auto.
  - unfold noeff, close_call in H. destruct (cl s); try discriminate. inversion H; subst; auto.
  - inversion H; subst. unfold calls_ok, issue; cbn. apply Forall_snoc; auto. apply call_ok_new.
  - inversion H; subst; auto.
  - unfold closer_step, notify in H. destruct (cl s); try discriminate;
      try destruct (ctxWG s); try destruct (callWG s); try destruct (notified s);
      try (inversion H; subst; unfold calls_ok in *; cbn; auto; fail).
    all: destruct (st s); inversion H; subst; unfold calls_ok in *; cbn; auto.
  - eapply reader_step_calls_ok; eauto.
  - unfold noeff in H. destruct (visit_step s i) eqn:E; inversion H; subst. eapply visit_step_calls_ok; eauto.
  - unfold noeff in H. destruct (caller_step s i veto wr) eqn:E; inversion H; subst. eapply caller_step_calls_ok; eauto.
  - unfold noeff in H. destruct (reply_step s i) eqn:E; inversion H; subst. eapply reply_step_calls_ok; eauto.
  - unfold noeff in H. destruct (handler_step s j veto wr) eqn:E; inversion H; subst.
    unfold handler_step in E. destruct (nth_error (hctxs s) j) as [h|]; [|discriminate].
    unfold calls_ok in *. cbv zeta in E.
    destruct (k_pc h); try discriminate;
      repeat match type of E with
             | context [match ?x with _ => _ end] => destruct x; try discriminate E
             | context [if ?x then _ else _] => destruct x; try discriminate E
             end; inversion E; subst; auto.
  - unfold noeff in H. destruct (hwait_step s j i) eqn:E; inversion H; subst.
    unfold hwait_step in E. destruct (nth_error (hctxs s) j) as [h|]; [|discriminate].
    unfold calls_ok in *. cbv zeta in E.
    destruct (k_pc h); try discriminate;
      repeat match type of E with
             | context [match ?x with _ => _ end] => destruct x; try discriminate E
             | context [if ?x then _ else _] => destruct x; try discriminate E
             end; inversion E; subst; auto.
Qed.



(* ---- lifting a session invariant to every session of every peer history ---- *)
Section Lift.
  Variable I : sess -> Prop.
  Hypothesis I_ok : forall id, I (mkSess Ok true true 0 0 0 0 [] [] RNone CIdle id true 0).
  Hypothesis I_rej : forall id, I (set_cl (new_sess id) C0).
  Hypothesis I_dialrej : forall id, I (set_sock (new_sess id) false).
  Hypothesis I_sid : forall s id, I s -> I (set_sid s id).
  Hypothesis I_close : forall s, I s -> cl s = CIdle -> I (set_cl s C0).
  Hypothesis I_step : forall s e s' fx, sinv s -> I s -> sstep s e = Some (s', fx) -> I s'.

  Lemma I_sc_rel t0 t : sc_rel t0 t -> I t0 -> I t.
  Proof. intros [->|(H & ->)] Hi; auto. Qed.

  Lemma I_ss_rel a b : ss_rel a b -> Forall I a -> Forall I b.
  Proof.
    intros H. induction H; intros Hf; inversion Hf; subst; constructor; auto.
    eapply I_sc_rel; eauto.
  Qed.

  Lemma lift_step p e p' : pinv p -> Forall I (sessions p) -> pstep p e = Some p' -> Forall I (sessions p').
  Proof.
    intros Hp Hf H. unfold pstep, pstep_cfg in H. destruct e.
    - destruct ok; inversion H; subst.
      + eapply I_ss_rel; [apply hub_set_rel|]. apply Forall_snoc; [auto|apply I_ok].
      + cbn. apply Forall_snoc; [auto|apply I_rej].
    - destruct ok; inversion H; subst.
      + eapply I_ss_rel; [apply hub_set_rel|]. apply Forall_snoc; [auto|apply I_ok].
      + cbn. apply Forall_snoc; [auto|apply I_dialrej].
    - destruct (nth_error (sessions p) n) as [s|] eqn:En; [|discriminate].
      destruct (N.eqb (sid s) id); [inversion H; subst; auto|].
      assert (Hu : Forall I (upd (sessions p) n (set_sid s id))).
      { apply Forall_upd; auto. apply I_sid. eapply Forall_nth; eauto. }
      cbn [fix_del fixed] in H.
      destruct (idx_get (pindex p) (sid s)) as [m|]; [destruct (Nat.eqb m n)|]; inversion H; subst; cbn; auto.
      eapply I_ss_rel; [apply hub_set_rel|auto].
    - inversion H; subst; cbn. eapply I_ss_rel; [apply fold_start_close_rel|auto].
    - destruct (nth_error (sessions p) n) as [s|] eqn:En; [|discriminate].
      fold sstep in H. destruct (sstep s e) as [[s1 fx]|] eqn:Es; [|discriminate].
      assert (sessions p' = upd (sessions p) n s1) by (destruct fx; inversion H; reflexivity).
      rewrite H0. apply Forall_upd; auto.
      apply (I_step s e s1 fx); auto.
      + destruct Hp as [Hs _ _]. exact (Forall_nth _ _ _ _ Hs En).
      + exact (Forall_nth _ _ _ _ Hf En).
  Qed.

  Lemma lift_run es : forall p p', pinv p -> Forall I (sessions p) -> prun p es = Some p' -> Forall I (sessions p').
  Proof.
    induction es as [|e r IH]; intros p p' Hp Hf H; cbn in H.
    - inversion H; subst; auto.
    - unfold prun in H; cbn in H. fold pstep in H. destruct (pstep p e) as [p1|] eqn:E; [|discriminate].
      eapply IH; [eapply pinv_step; eauto|eapply lift_step; eauto|exact H].
  Qed.

  Lemma lift_reach s : reach_sess s -> I s.
  Proof.
    intros (es & p & n & Hr & Hn).
    eapply Forall_nth; [|exact Hn]. eapply lift_run; [apply pinv0| |exact Hr]. constructor.
  Qed.
End Lift.

Lemma reach_calls_ok s : reach_sess s -> calls_ok s.
Proof.
  apply lift_reach; unfold calls_ok; cbn; auto; try constructor.
  intros s0 e s' fx Hi Hc H. eapply calls_ok_step; eauto. apply Hi.
Qed.

(* C02 complete_at_most_once / completion_carries_reply_or_error *)
Lemma complete_at_most_once_lemma s i c :
  reach_sess s -> nth_error (calls s) i = Some c -> c_dones c <= 1 /\ c_sends c = c_dones c.
Proof.
  intros H Hn. pose proof (Forall_nth _ _ _ _ (reach_calls_ok s H) Hn) as Hc.
  unfold call_ok in Hc. intuition.
Qed.

Lemma completion_carries_lemma s i c :
  reach_sess s -> nth_error (calls s) i = Some c -> c_dones c = 1 ->
  c_tab c = false /\ (c_stat c = StOk -> c_rep c = true).
Proof.
  intros H Hn Hd. pose proof (Forall_nth _ _ _ _ (reach_calls_ok s H) Hn) as Hc.
  unfold call_ok in Hc. split; [|intuition].
  destruct (c_tab c) eqn:Et; auto. exfalso. destruct Hc as (_ & _ & (Ht & _) & _). specialize (Ht eq_refl). lia.
Qed.



Definition st_rank (x : status) : nat :=
  match x with ActiveClosed | PassiveClosed => 0 | ActiveClosing | PassiveClosing => 1 | _ => 2 end.
Definition cl_rank (c : cpc) : nat :=
  match c with CIdle => 0 | C7 => 1 | C6 => 2 | C5 => 3 | C4 => 4 | C3 => 5 | C2 => 6 | C1 => 7 | C0 => 8 end.
Definition rd_rank (cur : status) (r : rpc) : nat :=
  match r with
  | RDone => 0 | RNone => 14 | D8 => 1 | D6 => 2 | D5 _ => 3 | D4 _ => 4 | D3 _ => 5 | DC _ => 6 | D2 _ => 7
  | D1 seen =>
      match seen with
      | ActiveClosing | ActiveClosed | PassiveClosing | PassiveClosed => 8
      | _ => if status_eqb cur seen then 8 else 10
      end
  | D0 => 9
  | R3 XErr0 => 11 | R2 => 12 | R0 => 13 | R4 _ => 14 | R3 _ => 15 | RLock _ _ => 16 | RLook _ _ => 17
  end.
Definition a_rank (a : apc) : nat := match a with A1 => 4 | A2 => 3 | A2w => 2 | A4 => 1 | ADone => 0 end.
Definition h_rank (h : hpc) : nat := match h with HBound _ => 3 | H0 _ => 2 | H1 => 1 | _ => 0 end.
Definition c_rank (c : call) : nat := a_rank (c_a c) + h_rank (c_h c) + (if c_vis c then 0 else 1).
Definition k_rank (h : hctx) : nat :=
  match k_pc h with K0 => 6 | K1w _ => 5 | K1 => 4 | K2 => 3 | K2w => 2 | K4 => 1 | KDone => 0 end.

Fixpoint sumf {A} (f : A -> nat) (l : list A) : nat :=
  match l with [] => 0 | x :: r => f x + sumf f r end.

Definition mu (s : sess) : nat :=
  20 * st_rank (st s) + 8 * rd_rank (st s) (rd s) + cl_rank (cl s)
  + sumf c_rank (calls s) + sumf k_rank (hctxs s).

Lemma sumf_upd {A} (f : A -> nat) l i x y :
  nth_error l i = Some x -> sumf f (upd l i y) + f x = sumf f l + f y.
Proof.
  revert i; induction l as [|a l IH]; intros [|i] H; cbn in *; try discriminate.
  - inversion H; subst. lia.
  - specialize (IH i H). lia.
Qed.

Lemma sumf_snoc {A} (f : A -> nat) l x : sumf f (l ++ [x]) = sumf f l + f x.
Proof. induction l; cbn; lia. Qed.

Lemma rd_rank_bound a b r : rd_rank b r <= rd_rank a r + 2.
Proof. destruct r; cbn; try lia. destruct seen; try lia; destruct (status_eqb a _), (status_eqb b _); lia. Qed.

Lemma rd_rank_same_unless_d1 a b r : (forall x, r <> D1 x) -> rd_rank b r = rd_rank a r.
Proof. destruct r; cbn; auto. intros H. exfalso. eapply H; eauto. Qed.

Ltac mu_tac := unfold mu, c_rank, k_rank; cbn; lia.

Lemma caller_step_mu s i v w s' : caller_step s i v w = Some s' -> mu s' < mu s.
Proof.
  unfold caller_step. destruct (nth_error (calls s) i) as [c|] eqn:En; [|discriminate].
  destruct (c_a c) eqn:Ea; try discriminate.
  - destruct v; intros H; inversion H; subst;
      unfold mu, fail_call, done_call; cbn;
      match goal with |- context [sumf c_rank (upd _ _ ?y)] => pose proof (sumf_upd c_rank _ _ _ y En) as X end;
      unfold c_rank in *; cbn in *; rewrite Ea in X; cbn in X; lia.
  - destruct (admits (st s) false); intros H; inversion H; subst;
      unfold mu, fail_call, done_call; cbn;
      match goal with |- context [sumf c_rank (upd _ _ ?y)] => pose proof (sumf_upd c_rank _ _ _ y En) as X end;
      unfold c_rank in *; cbn in *; rewrite Ea in X; cbn in X; lia.
  - destruct (wr_ok s w); [|discriminate].
    destruct w; intros H; inversion H; subst;
      unfold mu, fail_call, done_call; cbn;
      match goal with |- context [sumf c_rank (upd _ _ ?y)] => pose proof (sumf_upd c_rank _ _ _ y En) as X end;
      unfold c_rank in *; cbn in *; rewrite Ea in X; cbn in X; lia.
  - intros H; inversion H; subst;
      unfold mu; cbn;
      match goal with |- context [sumf c_rank (upd _ _ ?y)] => pose proof (sumf_upd c_rank _ _ _ y En) as X end;
      unfold c_rank in *; cbn in *; rewrite Ea in X; cbn in X; lia.
Qed.

Lemma reply_step_mu s i s' : reply_step s i = Some s' -> mu s' < mu s.
Proof.
  unfold reply_step. destruct (nth_error (calls s) i) as [c|] eqn:En; [|discriminate].
  destruct (c_h c) eqn:Eh; try discriminate; intros H; inversion H; subst;
    unfold mu, done_call; cbn;
    match goal with |- context [sumf c_rank (upd _ _ ?y)] => pose proof (sumf_upd c_rank _ _ _ y En) as X end;
    unfold c_rank in *; cbn in *; rewrite Eh in X; cbn in X; lia.
Qed.

Lemma visit_step_mu s i s' : visit_step s i = Some s' -> mu s' < mu s.
Proof.
  unfold visit_step. destruct (rd_cancel (rd s)) eqn:Erc; [|discriminate]. unfold visit_body.
  destruct (nth_error (calls s) i) as [c|] eqn:En; [|discriminate].
  destruct (c_tab c); [|discriminate]. cbn.
  destruct (c_vis c) eqn:Ev; [discriminate|]. cbn.
  destruct (mu_free c); [|discriminate].
  destruct (negb (c_rep c) && cstat_ok (c_stat c)); intros H; inversion H; subst;
    unfold mu, fail_call, done_call; cbn;
    match goal with |- context [sumf c_rank (upd _ _ ?y)] => pose proof (sumf_upd c_rank _ _ _ y En) as X end;
    unfold c_rank in *; cbn in *; rewrite Ev in X; cbn in X; lia.
Qed.

Lemma handler_step_mu s j v w s' : handler_step s j v w = Some s' -> mu s' < mu s.
Proof.
  unfold handler_step. destruct (nth_error (hctxs s) j) as [h|] eqn:En; [|discriminate]. cbv zeta.
  destruct (k_pc h) eqn:Ep; try discriminate;
    repeat match goal with
           | |- context [match ?x with _ => _ end] => destruct x; try discriminate
           | |- context [if ?x then _ else _] => destruct x; try discriminate
           end;
    intros H; inversion H; subst; unfold mu, put_ctx; cbn;
    match goal with |- context [sumf k_rank (upd _ _ ?y)] => pose proof (sumf_upd k_rank _ _ _ y En) as X end;
    unfold k_rank in *; cbn in *; rewrite Ep in X; cbn in X; lia.
Qed.

Lemma rd_rank_closed a b r : st_rank a = 0 -> st_rank b = 0 -> rd_rank a r = rd_rank b r.
Proof.
  intros Ha Hb. destruct r; cbn; auto. destruct seen; auto; destruct a; cbn in Ha; try discriminate;
    destruct b; cbn in Hb; try discriminate; reflexivity.
Qed.

(* a status change never increases the weighted status + reader rank *)
Lemma st_move a b r : st_rank b < st_rank a \/ (st_rank a = 0 /\ st_rank b = 0) ->
  20 * st_rank b + 8 * rd_rank b r <= 20 * st_rank a + 8 * rd_rank a r.
Proof.
  intros [H|(Ha & Hb)].
  - pose proof (rd_rank_bound a b r). lia.
  - rewrite (rd_rank_closed a b r Ha Hb). lia.
Qed.

Lemma closer_step_mu s s' fx : closer_step s = Some (s', fx) -> mu s' < mu s.
Proof.
  unfold closer_step, notify. destruct (cl s) eqn:Ecl; try discriminate.
  - destruct (st s) eqn:Est; intros H; inversion H; subst; unfold mu; cbn [st rd cl calls hctxs set_cl set_st];
      rewrite ?Ecl, ?Est; try (cbn [cl_rank]; lia).
    + pose proof (st_move Preparing ActiveClosing (rd s)) as B. cbn [st_rank cl_rank] in *. lia.
    + pose proof (st_move Ok ActiveClosing (rd s)) as B. cbn [st_rank cl_rank] in *. lia.
  - intros H; inversion H; subst; unfold mu; cbn [st rd cl calls hctxs set_cl]; rewrite Ecl; cbn [cl_rank]; lia.
  - destruct (notified s); intros H; inversion H; subst; unfold mu; cbn [st rd cl calls hctxs set_cl set_notified]; rewrite Ecl; cbn [cl_rank]; lia.
  - destruct (ctxWG s); intros H; inversion H; subst; unfold mu; cbn [st rd cl calls hctxs set_cl]; rewrite Ecl; cbn [cl_rank]; lia.
  - destruct (callWG s); intros H; inversion H; subst; unfold mu; cbn [st rd cl calls hctxs set_cl]; rewrite Ecl; cbn [cl_rank]; lia.
  - intros H; inversion H; subst; unfold mu; cbn [st rd cl calls hctxs set_cl set_st]; rewrite Ecl.
    assert (B : 20 * st_rank ActiveClosed + 8 * rd_rank ActiveClosed (rd s) <= 20 * st_rank (st s) + 8 * rd_rank (st s) (rd s)).
    { apply st_move. destruct (st s); cbn; lia. }
    cbn [cl_rank]. lia.
  - intros H; inversion H; subst; unfold mu; cbn [st rd cl calls hctxs set_cl set_sock]; rewrite Ecl; cbn [cl_rank]; lia.
  - intros H; inversion H; subst; unfold mu; cbn [st rd cl calls hctxs set_cl set_hooks]; rewrite Ecl; cbn [cl_rank]; lia.
Qed.

Lemma status_eqb_refl x : status_eqb x x = true.
Proof. destruct x; reflexivity. Qed.

Lemma d1_rank_fresh x : rd_rank x (D1 x) = 8.
Proof. cbn. rewrite status_eqb_refl. destruct x; reflexivity. Qed.

Ltac call_upd En :=
  match goal with |- context [sumf c_rank (upd _ _ ?y)] => pose proof (sumf_upd c_rank _ _ _ y En) end.

Lemma reader_step_mu s b s' fx : reader_step fixed s b = Some (s', fx) -> mu s' < mu s.
Proof.
  unfold reader_step. destruct (rd s) eqn:Erd; try discriminate.
  - destruct (estab s); [|discriminate]. cbn [fix_acc fixed]. intros H; inversion H; subst; unfold mu; cbn; rewrite Erd; cbn; lia.
  - destruct (goon (st s)); intros H; inversion H; subst; unfold mu; cbn; rewrite Erd; cbn; lia.
  - destruct (nth_error (calls s) i) as [c|]; [destruct (c_tab c)|]; intros H; inversion H; subst;
      unfold mu; cbn; rewrite Erd; cbn; lia.
  - destruct (nth_error (calls s) i) as [c|] eqn:En; [|discriminate].
    destruct (mu_free c) eqn:Em; [|discriminate].
    unfold mu_free in Em. destruct (c_a c) eqn:Ea; try discriminate. destruct (c_h c) eqn:Eh; try discriminate.
    destruct (fix_dup fixed && negb (c_dones c =? 0)).
    + intros H; inversion H; subst; unfold mu; cbn; rewrite Erd; cbn; lia.
    + destruct d; cbn [fix_abort fixed]; intros H; inversion H; subst;
        unfold mu, abort_call, done_call; cbn; rewrite Erd; cbn; call_upd En;
        pose proof (f_equal a_rank Ea) as Ea'; pose proof (f_equal h_rank Eh) as Eh'; cbn in Ea', Eh';
        unfold c_rank in *; cbn in *;
        try destruct (cstat_ok (c_stat c)); cbn in *; lia.
  - destruct x.
    + cbn. intros H; inversion H; subst; unfold mu; cbn; rewrite Erd; cbn; lia.
    + destruct (early s (XMsg k)); intros H; inversion H; subst; unfold mu; cbn; rewrite Erd; cbn; lia.
    + destruct (early s (XBound i d)).
      * destruct (nth_error (calls s) i) as [c|] eqn:En; [|discriminate].
        cbn [fix_abort fixed]. intros H; inversion H; subst.
        unfold mu, abort_call, done_call; cbn; rewrite Erd; cbn; call_upd En;
          unfold c_rank in *; cbn in *; destruct (cstat_ok (c_stat c)); cbn in *; lia.
      * intros H; inversion H; subst; unfold mu; cbn; rewrite Erd; cbn; lia.
  - destruct x; try discriminate.
    + destruct b; [|destruct k]; intros H; inversion H; subst; unfold mu; cbn; rewrite Erd; cbn;
        rewrite ?sumf_snoc; unfold k_rank; cbn; lia.
    + destruct (nth_error (calls s) i) as [c|] eqn:En; [|discriminate].
      destruct b; cbn [fix_abort fixed]; intros H; inversion H; subst;
        unfold mu, done_call; cbn; rewrite Erd; cbn; call_upd En;
        unfold c_rank in *; cbn in *; destruct (c_h c); cbn in *; lia.
  - intros H; inversion H; subst; unfold mu. cbn [st rd cl calls hctxs set_rd]. rewrite Erd, d1_rank_fresh. cbn. lia.
  - destruct seen; cbn [fix_cas fixed];
      try (intros H; inversion H; subst; unfold mu; cbn; rewrite Erd; cbn; lia).
    all: destruct (status_eqb (st s) _) eqn:Eq; intros H; inversion H; subst; unfold mu; cbn; rewrite Erd; cbn; rewrite Eq; cbn;
      try lia.
    all: apply status_eqb_eq in Eq; rewrite Eq; cbn; lia.
  - intros H; inversion H; subst; unfold mu; cbn; rewrite Erd; cbn; lia.
  - destruct (ctxWG s); intros H; inversion H; subst; unfold mu; cbn; rewrite Erd; cbn; lia.
  - destruct (all_visited (calls s)); intros H; inversion H; subst; unfold mu; cbn; rewrite Erd; cbn; lia.
  - destruct seen; intros H; inversion H; subst; unfold mu; cbn; rewrite Erd; cbn; lia.
  - intros H; inversion H; subst; unfold mu; cbn; rewrite Erd; cbn; lia.
  - intros H; inversion H; subst; unfold mu, notify; cbn. destruct (notified s); cbn; rewrite Erd; cbn; lia.
  - destruct (all_visited (calls s)); intros H; inversion H; subst; unfold mu; cbn; rewrite Erd; cbn; lia.
Qed.

(* internal_steps_terminate: every internal step strictly decreases [mu] *)
Lemma internal_step_mu s e s' fx : internal s e = true -> sstep s e = Some (s', fx) -> mu s' < mu s.
Proof.
  intros Hi H. unfold sstep, sstep_cfg in H. destruct e; try discriminate Hi.
  - destruct f; try discriminate Hi. unfold noeff, frame_step in H.
    destruct (rd s) eqn:Erd; try discriminate. inversion H; subst. unfold mu; cbn. rewrite Erd. cbn. lia.
  - eapply closer_step_mu; eauto.
  - eapply reader_step_mu; eauto.
  - unfold noeff in H. destruct (visit_step s i) eqn:E; inversion H; subst. eapply visit_step_mu; eauto.
  - unfold noeff in H. destruct (caller_step s i veto wr) eqn:E; inversion H; subst. eapply caller_step_mu; eauto.
  - unfold noeff in H. destruct (reply_step s i) eqn:E; inversion H; subst. eapply reply_step_mu; eauto.
  - unfold noeff in H. destruct (handler_step s j veto wr) eqn:E; inversion H; subst. eapply handler_step_mu; eauto.
Qed.

(* hence every run of internal steps from s has at most mu s steps *)
Fixpoint all_internal (s : sess) (es : list sevent) : Prop :=
  match es with
  | [] => True
  | e :: r => internal s e = true /\ match sstep s e with Some (s', _) => all_internal s' r | None => True end
  end.

Lemma internal_run_bounded es : forall s s', all_internal s es -> srun s es = Some s' -> length es + mu s' <= mu s.
Proof.
  induction es as [|e r IH]; intros s s' Ha H.
  - inversion H; subst. cbn [length]. lia.
  - unfold srun in H; cbn in H. fold sstep in H. cbn in Ha. destruct Ha as (Hi & Ha).
    destruct (sstep s e) as [[s1 fx]|] eqn:E; [|discriminate].
    pose proof (internal_step_mu _ _ _ _ Hi E). specialize (IH s1 s' Ha H). cbn [length]. lia.
Qed.
Definition cfg_noabort : cfg := mkCfg true true false true true true.
Definition cfg_nodup : cfg := mkCfg true true true false true true.

Definition issue_and_write : list sevent := EIssue :: repeat (ECaller 0 false WOk) 4.

(* reply with body codec 0 that does not decode, then the connection is lost *)
Definition hang_history : list sevent :=
  issue_and_write ++ [EFrame (FrReply 0 FErr0); EReader true; EReader true; EReader true;
                      EConnLost; EReader true; EReader true; EReader true].

Lemma no_orphan_prefix_refuted_lemma :
  exists s c, srun_cfg cfg_noabort live_session hang_history = Some s /\
              terminal_cfg cfg_noabort s = true /\ conn s = false /\
              nth_error (calls s) 0 = Some c /\ c_dones c = 0 /\ c_tab c = true.
Proof. eexists; eexists. split; [vm_compute; reflexivity|]. vm_compute. auto. Qed.

Lemma hang_fixed :
  exists s c, srun live_session (issue_and_write ++ [EFrame (FrReply 0 FErr0); EReader true; EReader true; EReader true;
                      EConnLost] ++ repeat (EReader true) 9) = Some s /\
              terminal s = true /\ nth_error (calls s) 0 = Some c /\ c_dones c = 1 /\ c_stat c = StBadMsg /\ rd s = RDone.
Proof. eexists; eexists. split; [vm_compute; reflexivity|]. vm_compute. auto. Qed.

(* a duplicate reply arrives while the first reply's handler is before done() *)
Definition dup_history : list sevent :=
  issue_and_write ++
  [EFrame (FrReply 0 FOk); EReader true; EReader true; EReader true; EReader true; EReader true;
   EReply 0;                                   (* first handler at gate reply.predone *)
   EFrame (FrReply 0 FOk); EReader true;       (* duplicate: table lookup succeeds, Lock blocks *)
   EReply 0;                                   (* first handler: done, unlock *)
   EReader true; EReader true; EReader true;   (* duplicate binds the completed call *)
   EReply 0; EReply 0].

Lemma at_most_once_prefix_refuted_lemma :
  exists s c, srun_cfg cfg_nodup live_session dup_history = Some s /\
              nth_error (calls s) 0 = Some c /\ c_dones c = 2 /\ c_sends c = 2.
Proof. eexists; eexists. split; [vm_compute; reflexivity|]. vm_compute. auto. Qed.

Lemma dup_fixed :
  exists s c, srun live_session (firstn 16 dup_history) = Some s /\
              nth_error (calls s) 0 = Some c /\ c_dones c = 1 /\ c_sends c = 1 /\ rd s = R3 (XMsg KUnbound).
Proof. eexists; eexists. split; [vm_compute; reflexivity|]. vm_compute. auto. Qed.
