From Coq Require Import Strings.String Strings.Byte.
From Coq Require Import List Arith NArith Bool Lia.
From Verif Require Import Base.Bytes Model.EncBuffer.
Import ListNotations.

Lemma later_fresh_prefix encs : forall h, exists t, later marshal_fresh encs h = h ++ t.
Proof.
  induction encs as [|e r IH]; intros h.
  - exists []. rewrite app_nil_r. reflexivity.
  - change (later marshal_fresh (e :: r) h) with (later marshal_fresh r (h ++ [e])).
    destruct (IH (h ++ [e])) as [t Ht]. rewrite Ht.
    exists ([e] ++ t). rewrite app_assoc. reflexivity.
Qed.

(* with a buffer per call the result is a value: whatever is encoded afterwards, reading it
   gives the encoding *)
Lemma fresh_result_is_a_value enc h encs :
  let (h1, r) := marshal_fresh enc h in read (later marshal_fresh encs h1) r = enc.
Proof.
  cbn [marshal_fresh]. destruct (later_fresh_prefix encs (h ++ [enc])) as [t Ht]. rewrite Ht.
  unfold read. cbn [r_buf r_len]. rewrite <- app_assoc, app_nth2 by lia.
  rewrite Nat.sub_diag. cbn [app nth]. apply firstn_all.
Qed.

(* with a pooled buffer it is not: the next encode rewrites the storage *)
Lemma pooled_result_overwritten :
  exists enc e2 h, let (h1, r) := marshal_pooled enc h in read (later marshal_pooled [e2] h1) r <> enc.
Proof. exists (str "v1"), (str "v2"), []. vm_compute. discriminate. Qed.
