From Coq Require Import Strings.String Strings.Byte.
From Coq Require Import List Arith NArith ZArith Bool Lia.
From Verif Require Import Model.Threads.
Import ListNotations.
Local Open Scope Z_scope.

Section TableLemmas.
  Variable A : Type.
  Variable d : A.

  Lemma getn_nil i : getn d i [] = d.
  Proof. unfold getn. destruct i; reflexivity. Qed.

  Lemma getn_upd_same i v : forall l, getn d i (upd d i v l) = v.
  Proof.
    induction i as [|j IH]; intros [|x r]; cbn; try reflexivity; apply IH.
  Qed.

  Lemma getn_upd_other i j v : i <> j -> forall l, getn d j (upd d i v l) = getn d j l.
  Proof.
    revert j. induction i as [|i IH]; intros [|j] Hne [|x r]; cbn; try reflexivity; try congruence.
    - destruct j; reflexivity.
    - unfold getn in IH. rewrite (IH j) by congruence. destruct j; reflexivity.
    - apply (IH j). congruence.
  Qed.

  Lemma sumz_upd (f : A -> Z) : f d = 0 -> forall i v l,
    sumz f (upd d i v l) = sumz f l - f (getn d i l) + f v.
  Proof.
    intros Hd. unfold getn. induction i as [|i IH]; intros v [|x r]; simpl.
    - rewrite Hd. lia.
    - lia.
    - rewrite IH. simpl. destruct i; simpl; rewrite ?Hd; lia.
    - rewrite IH. lia.
  Qed.

  Lemma sumz_nonneg (f : A -> Z) : (forall x, 0 <= f x) -> forall l, 0 <= sumz f l.
  Proof. intros H l. induction l as [|x r IH]; cbn; [lia|]. specialize (H x). lia. Qed.

  Lemma sumz_le (f g : A -> Z) : (forall x, f x <= g x) -> forall l, sumz f l <= sumz g l.
  Proof. intros H l. induction l as [|x r IH]; cbn; [lia|]. specialize (H x). lia. Qed.

  Lemma sumz_plus (f g : A -> Z) l : sumz (fun x => f x + g x) l = sumz f l + sumz g l.
  Proof. induction l as [|x r IH]; cbn; lia. Qed.

  Lemma sumz_ext (f g : A -> Z) : (forall x, f x = g x) -> forall l, sumz f l = sumz g l.
  Proof. intros H l. induction l as [|x r IH]; cbn; [reflexivity|]. rewrite H, IH. reflexivity. Qed.

  Lemma Forall_getn (P : A -> Prop) : P d -> forall l, Forall P l -> forall i, P (getn d i l).
  Proof.
    intros Hd l Hl. induction Hl as [|x r Hx Hr IH]; intros i.
    - rewrite getn_nil. exact Hd.
    - destruct i; cbn; [exact Hx | apply IH].
  Qed.

  Lemma Forall_upd (P : A -> Prop) : P d -> forall i v l, P v -> Forall P l -> Forall P (upd d i v l).
  Proof.
    intros Hd. induction i as [|i IH]; intros v l Hv Hl.
    - destruct l; cbn; [repeat constructor; exact Hv|]. inversion Hl; subst. constructor; assumption.
    - destruct l as [|x r]; cbn.
      + constructor; [exact Hd | apply IH; [exact Hv | constructor]].
      + inversion Hl; subst. constructor; [assumption | apply IH; assumption].
  Qed.

  (* a measure that is 0 or 1 on every thread bounds the measure at one thread *)
  Lemma sumz_ge_at (f : A -> Z) : (forall x, 0 <= f x) -> forall i l, f (getn d i l) <= sumz f l \/ f (getn d i l) = f d.
  Proof.
    intros H. induction i as [|i IH]; intros [|x r]; cbn.
    - right. reflexivity.
    - left. pose proof (sumz_nonneg f H r). lia.
    - right. reflexivity.
    - destruct (IH r) as [Hle|He]; [left | right; exact He].
      unfold getn in Hle. specialize (H x). lia.
  Qed.
End TableLemmas.

Lemma sumz_ext_Forall {A : Type} (f g : A -> Z) (l : list A) :
  Forall (fun x => f x = g x) l -> sumz f l = sumz g l.
Proof. induction 1 as [|x r Hx Hr IH]; cbn; [reflexivity | rewrite Hx, IH; reflexivity]. Qed.
