(* Lemmas for C20 over Model/Pools.v: the hidden parts of pooled objects (stale slice
   tails, retained buffers, spare capacity, the growth policy) never reach an observation. *)
From Coq Require Import Strings.String Strings.Byte.
From Coq Require Import List Arith NArith ZArith Bool Lia.
From Verif Require Import Base.Bytes Base.Val Model.Pools.
Import ListNotations.

(* ---------------------------------------------------------------- generic list facts *)
Lemma upd_last_app {A} (f : A -> A) l x : upd_last f (l ++ [x]) = l ++ [f x].
Proof.
  induction l as [|a l IH]; [reflexivity|].
  destruct l as [|b l]; [reflexivity|].
  change (upd_last f ((a :: b :: l) ++ [x])) with (a :: upd_last f ((b :: l) ++ [x])).
  rewrite IH. reflexivity.
Qed.

Lemma last_opt_app {A} (l : list A) x : last_opt (l ++ [x]) = Some x.
Proof. unfold last_opt. rewrite rev_app_distr. reflexivity. Qed.

Lemma gs_drop_last_vis {A} (s : gs A) l x : vis s = l ++ [x] -> vis (gs_drop_last s) = l.
Proof.
  intros H. unfold gs_drop_last. rewrite H, rev_app_distr. cbn. apply rev_involutive.
Qed.

Lemma map_app1 {A B} (f : A -> B) l x : map f (l ++ [x]) = map f l ++ [f x].
Proof. rewrite map_app. reflexivity. Qed.

Lemma app_inj_tail_len {A} (a b : list A) x y : a ++ [x] = b ++ [y] -> a = b /\ x = y.
Proof. apply app_inj_tail. Qed.

(* three-valued outcomes agree up to a relation on values *)
Definition rrel {A} (R : A -> A -> Prop) (x y : res A) : Prop :=
  match x, y with
  | Ok a, Ok b => R a b
  | Err, Err => True
  | Panic, Panic => True
  | _, _ => False
  end.

(* simulation of single steps lifts to call sequences of any length *)
Lemma run_sim {S O} (R : S -> S -> Prop) (step1 step2 : S -> O -> res (S * list val)) :
  (forall s1 s2 o, R s1 s2 ->
     rrel (fun x y => R (fst x) (fst y) /\ snd x = snd y) (step1 s1 o) (step2 s2 o)) ->
  forall ops s1 s2, R s1 s2 ->
     rrel (fun x y => R (fst x) (fst y) /\ snd x = snd y) (run step1 s1 ops) (run step2 s2 ops).
Proof.
  intros Hstep. induction ops as [|o r IH]; intros s1 s2 HR; cbn [run].
  - cbn. auto.
  - specialize (Hstep s1 s2 o HR).
    destruct (step1 s1 o) as [[a1 o1]| |], (step2 s2 o) as [[a2 o2]| |]; cbn in Hstep; try contradiction; cbn; auto.
    destruct Hstep as [Ha Ho]. cbn [fst snd] in *. subst o2.
    specialize (IH a1 a2 Ha).
    destruct (run step1 a1 r) as [[b1 p1]| |], (run step2 a2 r) as [[b2 p2]| |]; cbn in IH; try contradiction; cbn; auto.
    destruct IH as [Hb Hp]. cbn [fst snd] in *. subst p2. auto.
Qed.

Section Proofs.
Variable grow : nat -> nat -> nat -> nat.
Variable grow' : nat -> nat -> nat -> nat.   (* a second, unrelated growth policy *)

(* ------------------------------------------------------------------ slices *)
Lemma gs_append_vis {A} g site (s : gs A) x : vis (gs_append g site s x) = vis s ++ x.
Proof.
  unfold gs_append. destruct (Nat.leb _ _); [reflexivity|]. destruct (Nat.leb _ _); reflexivity.
Qed.

Lemma set_buf_vis g site b x : vis (set_buf g site b x) = x.
Proof. unfold set_buf. rewrite gs_append_vis. reflexivity. Qed.

Lemma gs_reslice_len {A} (z : A) n s : n <= gs_cap s -> length (vis (gs_reslice z n s)) = n.
Proof.
  intros H. unfold gs_reslice. destruct (Nat.leb n _) eqn:E; cbn [vis].
  - apply Nat.leb_le in E. rewrite firstn_length. lia.
  - apply Nat.leb_gt in E. rewrite app_length, repeat_length. lia.
Qed.

Lemma alloc_arg_vis g (h : gs akv) : exists kv, vis (alloc_arg g h) = vis h ++ [kv].
Proof.
  unfold alloc_arg. destruct (Nat.ltb _ _) eqn:E.
  - apply Nat.ltb_lt in E. unfold gs_reslice, gs_len, gs_cap in *.
    destruct (Nat.leb _ _) eqn:F; cbn [vis].
    + apply Nat.leb_le in F. rewrite app_length in F.
      destruct (hid h) as [|x t] eqn:Hh; [cbn in F; lia|].
      exists x. rewrite firstn_app, firstn_all2 by lia.
      replace (S (length (vis h)) - length (vis h)) with 1 by lia. reflexivity.
    + apply Nat.leb_gt in F. rewrite app_length in F.
      assert (Hn : length (hid h) = 0) by lia.
      destruct (hid h); [|discriminate]. rewrite app_nil_r.
      exists kv_zero.
      replace (S (length (vis h)) - length (vis h)) with 1 by lia. reflexivity.
  - exists kv_zero. apply gs_append_vis.
Qed.

(* ------------------------------------------------------------------ Args *)
Definition labs (l : list akv) : list kvp := map abs_kv l.

Lemma labs_cons_inv a l1 b l2 : labs (a :: l1) = labs (b :: l2) -> abs_kv a = abs_kv b /\ labs l1 = labs l2.
Proof.
  unfold labs; cbn [map]; intros H.
  split; [exact (f_equal (hd (abs_kv a)) H) | exact (f_equal (@tl _) H)].
Qed.

Lemma append_arg_abs g h k v : labs (vis (append_arg g h k v)) = labs (vis h) ++ [(k, v)].
Proof.
  unfold append_arg. destruct (alloc_arg_vis g h) as [kv E]. cbn [with_vis vis].
  rewrite E, upd_last_app. unfold labs. rewrite map_app1. f_equal.
  unfold abs_kv. cbn. rewrite !set_buf_vis. reflexivity.
Qed.

Lemma key_is_abs k a b : abs_kv a = abs_kv b -> key_is k a = key_is k b.
Proof. unfold key_is, abs_kv. intros H. inversion H. reflexivity. Qed.

Definition orel {A} (R : A -> A -> Prop) (x y : option A) : Prop :=
  match x, y with Some a, Some b => R a b | None, None => True | _, _ => False end.

Lemma set_first_sim g g' l1 : forall l2 k v, labs l1 = labs l2 ->
  orel (fun a b => labs a = labs b) (set_first g l1 k v) (set_first g' l2 k v).
Proof.
  induction l1 as [|a l1 IH]; intros [|b l2] k v H; try discriminate; [exact I|].
  apply labs_cons_inv in H as [Hab Hl]. cbn [set_first].
  rewrite (key_is_abs k a b Hab). destruct (key_is k b).
  - cbn. unfold abs_kv at 1 3. cbn. rewrite !set_buf_vis.
    unfold abs_kv in Hab. inversion Hab. fold (labs l1). fold (labs l2). rewrite Hl.
    congruence.
  - specialize (IH l2 k v Hl). destruct (set_first g l1 k v), (set_first g' l2 k v); cbn in *; try contradiction; [|exact I].
    fold (labs l) (labs l0). congruence.
Qed.

Lemma set_arg_sim g g' h1 h2 k v : labs (vis h1) = labs (vis h2) ->
  labs (vis (set_arg g h1 k v)) = labs (vis (set_arg g' h2 k v)).
Proof.
  intros H. unfold set_arg. pose proof (set_first_sim g g' (vis h1) (vis h2) k v H) as S.
  destruct (set_first g (vis h1) k v), (set_first g' (vis h2) k v); cbn in S; try contradiction.
  - exact S.
  - rewrite !append_arg_abs. congruence.
Qed.

Lemma del_loop_sim key n : forall rest1 rest2 pre1 pre2 p1 p2,
  length rest1 <= n -> labs pre1 = labs pre2 -> labs rest1 = labs rest2 ->
  labs (fst (del_loop pre1 rest1 p1 key)) = labs (fst (del_loop pre2 rest2 p2 key)).
Proof.
  induction n as [|n IH]; intros rest1 rest2 pre1 pre2 p1 p2 Hn Hp Hr.
  - destruct rest1; [|cbn in Hn; lia]. destruct rest2; [|discriminate]. exact Hp.
  - destruct rest1 as [|x r1], rest2 as [|y r2]; try discriminate; [exact Hp|].
    apply labs_cons_inv in Hr as [Hxy Hr']. cbn [del_loop].
    rewrite (key_is_abs key x y Hxy). destruct (key_is key y).
    + destruct r1 as [|x' r1'], r2 as [|y' r2']; try discriminate; [exact Hp|].
      apply labs_cons_inv in Hr' as [Hx' Hr'']. apply IH.
      * cbn in Hn. lia.
      * unfold labs. rewrite !map_app1. fold (labs pre1) (labs pre2). congruence.
      * exact Hr''.
    + apply IH.
      * cbn in Hn. lia.
      * unfold labs. rewrite !map_app1. fold (labs pre1) (labs pre2). congruence.
      * exact Hr'.
Qed.

Lemma del_all_sim h1 h2 k : labs (vis h1) = labs (vis h2) ->
  labs (vis (del_all h1 k)) = labs (vis (del_all h2 k)).
Proof.
  intros H. unfold del_all.
  pose proof (del_loop_sim k (length (vis h1)) (vis h1) (vis h2) [] [] (hid h1) (hid h2) (le_n _) eq_refl H) as S.
  destruct (del_loop [] (vis h1) (hid h1) k), (del_loop [] (vis h2) (hid h2) k). exact S.
Qed.

(* what one scanner step makes of a segment, independent of the slot it writes into *)
Definition dec_seg (seg : bytes) : res kvp :=
  let '(k, ov) := split_eq seg [] in
  k' <- unquote k ;;
  match ov with
  | None => Ok (k', [])
  | Some v => v' <- unquote v ;; Ok (k', v')
  end.

Lemma fill_kv_abs g kv seg : rmap abs_kv (fill_kv g kv seg) = dec_seg seg.
Proof.
  unfold fill_kv, dec_seg. destruct (split_eq seg []) as [k ov].
  destruct (unquote k) as [k'| |]; cbn; try reflexivity.
  destruct ov as [v|]; cbn.
  - destruct (unquote v) as [v'| |]; cbn; try reflexivity.
    unfold abs_kv. cbn. rewrite !set_buf_vis. reflexivity.
  - unfold abs_kv. cbn. rewrite set_buf_vis. reflexivity.
Qed.

Definition kvp_nonempty (p : kvp) : bool := negb (is_nil (fst p)) || negb (is_nil (snd p)).

Fixpoint sp_dec (ss : list bytes) : res (list kvp) :=
  match ss with
  | [] => Ok []
  | s :: r => p <- dec_seg s ;; t <- sp_dec r ;; Ok (if kvp_nonempty p then p :: t else t)
  end.

Lemma parse_loop_abs g ss : forall h l j, vis h = l ++ [j] ->
  match parse_loop g h ss with
  | Ok h' => exists l' L J, sp_dec ss = Ok l' /\ vis h' = L ++ [J] /\ labs L = labs l ++ l'
  | Panic => sp_dec ss = Panic
  | Err => sp_dec ss = Err
  end.
Proof.
  induction ss as [|s r IH]; intros h l j Hv.
  - cbn. exists [], l, j. rewrite app_nil_r. auto.
  - cbn [parse_loop sp_dec]. rewrite Hv, last_opt_app.
    pose proof (fill_kv_abs g j s) as F.
    destruct (fill_kv g j s) as [kv'| |]; cbn in F; rewrite <- F; cbn; try reflexivity.
    rewrite upd_last_app.
    assert (Hne : kv_nonempty kv' = kvp_nonempty (abs_kv kv')) by reflexivity.
    rewrite <- Hne. destruct (kv_nonempty kv').
    + destruct (alloc_arg_vis g (with_vis h (l ++ [kv']))) as [kv2 E].
      cbn [with_vis vis] in E.
      specialize (IH (alloc_arg g (with_vis h (l ++ [kv']))) (l ++ [kv']) kv2 E).
      destruct (parse_loop g _ r) as [h'| |].
      * destruct IH as (l' & L & J & E1 & E2 & E3). rewrite E1. cbn.
        exists (abs_kv kv' :: l'), L, J. repeat split; auto.
        rewrite E3. unfold labs. rewrite map_app1, <- app_assoc. reflexivity.
      * rewrite IH. reflexivity.
      * rewrite IH. reflexivity.
    + specialize (IH (with_vis h (l ++ [kv'])) l kv' eq_refl).
      destruct (parse_loop g _ r) as [h'| |].
      * destruct IH as (l' & L & J & E1 & E2 & E3). rewrite E1. cbn.
        exists l', L, J. auto.
      * rewrite IH. reflexivity.
      * rewrite IH. reflexivity.
Qed.

Lemma parse_bytes_abs g a b : rmap abs_args (args_parse_bytes g a b) = sp_dec (segs b []).
Proof.
  unfold args_parse_bytes.
  destruct (alloc_arg_vis g (gs_trunc0 (a_args a))) as [kv E]. cbn [gs_trunc0 vis] in E.
  pose proof (parse_loop_abs g (segs b []) _ [] kv E) as P.
  destruct (parse_loop g _ (segs b [])) as [h'| |]; cbn.
  - destruct P as (l' & L & J & E1 & E2 & E3). rewrite E1. f_equal.
    unfold abs_args, release_arg. cbn [a_args]. rewrite (gs_drop_last_vis _ _ _ E2). exact E3.
  - auto.
  - auto.
Qed.

Lemma parse_abs g a s : rmap abs_args (args_parse g a s) = sp_dec (segs s []).
Proof. unfold args_parse. apply parse_bytes_abs. Qed.

Lemma copy_into_abs g : forall dst src, length dst = length src -> labs (copy_into g dst src) = src.
Proof.
  induction dst as [|d dr IH]; intros [|[k v] sr] H; try discriminate; [reflexivity|].
  cbn. unfold abs_kv at 1. cbn. rewrite !set_buf_vis. f_equal. apply IH. cbn in H. lia.
Qed.

Lemma copy_from_abs g a src : abs_args (args_copy_from g a src) = src.
Proof.
  unfold args_copy_from, abs_args. cbn [a_args with_vis vis].
  apply copy_into_abs. destruct (Nat.ltb _ _) eqn:E; cbn [vis].
  - apply repeat_length.
  - apply Nat.ltb_ge in E. apply gs_reslice_len. exact E.
Qed.

Lemma peek_sim k : forall l1 l2, labs l1 = labs l2 -> peek l1 k = peek l2 k.
Proof.
  induction l1 as [|a l1 IH]; intros [|b l2] H; try discriminate; [reflexivity|].
  apply labs_cons_inv in H as [Hab Hl]. cbn. rewrite (key_is_abs k a b Hab).
  unfold abs_kv in Hab. inversion Hab. destruct (key_is k b); [congruence|]. apply IH. exact Hl.
Qed.

Lemma has_sim k : forall l1 l2, labs l1 = labs l2 -> existsb (key_is k) l1 = existsb (key_is k) l2.
Proof.
  induction l1 as [|a l1 IH]; intros [|b l2] H; try discriminate; [reflexivity|].
  apply labs_cons_inv in H as [Hab Hl]. cbn. rewrite (key_is_abs k a b Hab). f_equal. apply IH. exact Hl.
Qed.

Lemma multi_sim k : forall l1 l2, labs l1 = labs l2 ->
  map (fun kv => VB (vis (k_val kv))) (filter (key_is k) l1)
  = map (fun kv => VB (vis (k_val kv))) (filter (key_is k) l2).
Proof.
  induction l1 as [|a l1 IH]; intros [|b l2] H; try discriminate; [reflexivity|].
  apply labs_cons_inv in H as [Hab Hl]. cbn. rewrite (key_is_abs k a b Hab).
  unfold abs_kv in Hab. inversion Hab. destruct (key_is k b); cbn; [f_equal; [congruence|]|]; apply IH; exact Hl.
Qed.

Definition args_rel (x y : args * list val) : Prop :=
  abs_args (fst x) = abs_args (fst y) /\ snd x = snd y.

(* Two Args with the same visible pairs - whatever their stale slots, stale key/value
   buffers, buf, spare capacity and growth policy - answer every call alike and stay alike. *)
Lemma args_step_sim a1 a2 o : abs_args a1 = abs_args a2 ->
  rrel args_rel (args_step grow a1 o) (args_step grow' a2 o).
Proof.
  intros H. unfold abs_args in H. fold (labs (vis (a_args a1))) (labs (vis (a_args a2))) in H.
  destruct o; cbn [args_step].
  - split; [|reflexivity]. unfold abs_args. cbn [fst a_args].
    fold (labs (vis (append_arg grow (a_args a1) k v))). rewrite append_arg_abs.
    fold (labs (vis (append_arg grow' (a_args a2) k v))). rewrite append_arg_abs. congruence.
  - split; [|reflexivity]. apply set_arg_sim. exact H.
  - split; [|reflexivity]. apply del_all_sim. exact H.
  - pose proof (parse_abs grow a1 s) as P1. pose proof (parse_abs grow' a2 s) as P2.
    destruct (args_parse grow a1 s), (args_parse grow' a2 s); cbn in *; try congruence; try exact I.
    rewrite <- P2 in P1. injection P1 as P1. split; [exact P1|reflexivity].
  - pose proof (parse_bytes_abs grow a1 b) as P1. pose proof (parse_bytes_abs grow' a2 b) as P2.
    destruct (args_parse_bytes grow a1 b), (args_parse_bytes grow' a2 b); cbn in *; try congruence; try exact I.
    rewrite <- P2 in P1. injection P1 as P1. split; [exact P1|reflexivity].
  - split; reflexivity.
  - split; [|reflexivity]. cbn [fst]. rewrite !copy_from_abs. reflexivity.
  - split; [|reflexivity]. apply set_arg_sim. exact H.
  - unfold args_query. cbn. split; cbn.
    + exact H.
    + unfold abs_args. fold (labs (vis (a_args a1))) (labs (vis (a_args a2))). rewrite H. reflexivity.
  - split; [exact H|]. cbn. rewrite (peek_sim k _ _ H). reflexivity.
  - split; [exact H|]. cbn. rewrite (has_sim k _ _ H). reflexivity.
  - split; [exact H|]. cbn. rewrite (multi_sim k _ _ H). reflexivity.
  - split; [exact H|]. cbn. unfold gs_len.
    assert (L : length (labs (vis (a_args a1))) = length (labs (vis (a_args a2)))) by congruence.
    unfold labs in L. rewrite !map_length in L. rewrite L. reflexivity.
  - split; [exact H|]. cbn. unfold abs_args. fold (labs (vis (a_args a1))) (labs (vis (a_args a2))).
    rewrite H. reflexivity.
Qed.

Lemma args_reset_abs a : abs_args (args_reset a) = abs_args args_fresh.
Proof. reflexivity. Qed.

(* ------------------------------------------------------------------ XferPipe *)
Section Reg.
Variable registered : byte -> bool.

Lemma xp_append_loop_sim ids : forall x1 x2 : xpipe, vis x1 = vis x2 ->
  vis (fst (xp_append_loop grow registered x1 ids)) = vis (fst (xp_append_loop grow' registered x2 ids))
  /\ snd (xp_append_loop grow registered x1 ids) = snd (xp_append_loop grow' registered x2 ids).
Proof.
  induction ids as [|id r IH]; intros x1 x2 H; cbn; [auto|].
  destruct (registered id); [|auto]. apply IH. rewrite !gs_append_vis. congruence.
Qed.

Lemma xp_append_sim (x1 x2 : xpipe) ids : vis x1 = vis x2 ->
  vis (fst (xp_append grow registered x1 ids)) = vis (fst (xp_append grow' registered x2 ids))
  /\ snd (xp_append grow registered x1 ids) = snd (xp_append grow' registered x2 ids).
Proof.
  intros H. unfold xp_append. destruct (xp_append_loop_sim ids x1 x2 H) as [A B].
  destruct (xp_append_loop grow registered x1 ids) as [y1 ok1], (xp_append_loop grow' registered x2 ids) as [y2 ok2].
  cbn [fst snd] in A, B. subst ok2. destruct ok1; cbn [negb].
  - unfold gs_len. rewrite A. destruct (Nat.ltb 255 (length (vis y2))); cbn [fst snd]; auto.
  - cbn [fst snd]; auto.
Qed.

Lemma xp_append_from_sim ids : forall x1 x2 : xpipe, vis x1 = vis x2 ->
  vis (xp_append_from grow x1 ids) = vis (xp_append_from grow' x2 ids).
Proof.
  unfold xp_append_from. induction ids as [|id r IH]; intros x1 x2 H; cbn; [exact H|].
  apply IH. rewrite !gs_append_vis. congruence.
Qed.

(* ------------------------------------------------------------------ message *)
Variable size_limit : N.
Variable filter_pack : byte -> bytes -> option bytes.

Definition msg_rel (x y : message * list val) : Prop :=
  abs_msg (fst x) = abs_msg (fst y) /\ snd x = snd y.

Lemma abs_msg_inv m1 m2 : abs_msg m1 = abs_msg m2 ->
  m_service_method m1 = m_service_method m2 /\ m_status m1 = m_status m2 /\
  abs_args (m_meta m1) = abs_args (m_meta m2) /\ m_body m1 = m_body m2 /\
  m_new_body_func m1 = m_new_body_func m2 /\ vis (m_xfer_pipe m1) = vis (m_xfer_pipe m2) /\
  m_ctx m1 = m_ctx m2 /\ m_size m1 = m_size m2 /\ m_seq m1 = m_seq m2 /\
  m_mtype m1 = m_mtype m2 /\ m_body_codec m1 = m_body_codec m2.
Proof. unfold abs_msg. intros H. inversion H. repeat split; assumption. Qed.

Lemma pack_raw_sim m1 m2 : abs_msg m1 = abs_msg m2 ->
  abs_msg (fst (pack_raw grow size_limit filter_pack m1)) = abs_msg (fst (pack_raw grow' size_limit filter_pack m2))
  /\ snd (pack_raw grow size_limit filter_pack m1) = snd (pack_raw grow' size_limit filter_pack m2).
Proof.
  intros H. pose proof H as H0.
  apply abs_msg_inv in H as (H1 & H2 & H3 & H4 & H5 & H6 & H7 & H8 & H9 & H10 & H11).
  unfold pack_raw, args_query. cbv zeta. rewrite H1, H2, H3, H4, H6, H9, H10, H11.
  destruct (Nat.ltb 255 _); [split; [exact H0|reflexivity]|].
  destruct (marshal_body (m_body m2)); [|split; [|reflexivity]; unfold abs_msg, abs_args; cbn; unfold abs_args in H3; congruence].
  destruct (pipe_on_pack filter_pack (vis (m_xfer_pipe m2)) _); [|split; [|reflexivity]; unfold abs_msg, abs_args; cbn; unfold abs_args in H3; congruence].
  destruct (N.ltb size_limit _); (split; [|reflexivity]); unfold abs_msg, abs_args; cbn; unfold abs_args in H3; congruence.
Qed.

Lemma msg_step_sim m1 m2 o : abs_msg m1 = abs_msg m2 ->
  rrel msg_rel (msg_step grow registered size_limit filter_pack m1 o) (msg_step grow' registered size_limit filter_pack m2 o).
Proof.
  intros H. pose proof H as H0.
  apply abs_msg_inv in H as (H1 & H2 & H3 & H4 & H5 & H6 & H7 & H8 & H9 & H10 & H11).
  destruct o; cbn [msg_step].
  1-4, 7-9, 13: (split; [|reflexivity]); unfold abs_msg; cbn; congruence.
  - (* StatusInit *) rewrite H2. split; [|reflexivity]. unfold abs_msg; cbn; congruence.
  - (* Meta *) pose proof (args_step_sim (m_meta m1) (m_meta m2) o H3) as S.
    destruct (args_step grow (m_meta m1) o) as [[a1 o1]| |], (args_step grow' (m_meta m2) o) as [[a2 o2]| |];
      cbn in *; try contradiction; try exact I.
    destruct S as [Sa So]. cbn in Sa, So. split; [|exact So]. unfold abs_msg; cbn; congruence.
  - (* XferAppend *) destruct (xp_append_sim (m_xfer_pipe m1) (m_xfer_pipe m2) ids H6) as [A B].
    destruct (xp_append grow registered (m_xfer_pipe m1) ids) as [y1 c1],
             (xp_append grow' registered (m_xfer_pipe m2) ids) as [y2 c2]. cbn in A, B. subst c2.
    split; [|reflexivity]. unfold abs_msg; cbn; congruence.
  - (* XferAppendFrom *) pose proof (xp_append_from_sim ids _ _ H6) as A.
    split; [|reflexivity]. unfold abs_msg; cbn; congruence.
  - (* SetSize *) destruct (N.ltb size_limit n).
    + split; [exact H0|reflexivity].
    + split; [|reflexivity]. unfold abs_msg; cbn; congruence.
  - (* Reset *) split; reflexivity.
  - (* Pack *) destruct (pack_raw_sim m1 m2 H0) as [A B].
    destruct (pack_raw grow size_limit filter_pack m1) as [y1 f1], (pack_raw grow' size_limit filter_pack m2) as [y2 f2].
    cbn [fst snd] in A, B. subst f2. split; [exact A|reflexivity].
  - (* Getters *) split; [exact H0|]. cbn. rewrite H0. reflexivity.
Qed.

Lemma msg_reset_abs m : abs_msg (msg_reset m) = abs_msg msg_fresh.
Proof. reflexivity. Qed.

(* ------------------------------------------------------------------ handlerCtx *)
Definition ctx_rel (x y : hctx * list val) : Prop :=
  abs_ctx (fst x) = abs_ctx (fst y) /\ snd x = snd y.

(* the one retained field: two contexts are alike when they agree on everything a handler
   can read AND on start - or, without the latter, as long as no cost is computed *)
Definition uses_start (o : cop) : bool := match o with CRecordCost _ => true | _ => false end.

Lemma abs_ctx_inv c1 c2 : abs_ctx c1 = abs_ctx c2 ->
  c_sess c1 = c_sess c2 /\ abs_msg (c_input c1) = abs_msg (c_input c2) /\
  abs_msg (c_output c1) = abs_msg (c_output c2) /\ c_handler c1 = c_handler c2 /\
  c_arg c1 = c_arg c2 /\ c_call_cmd c1 = c_call_cmd c2 /\ c_swap c1 = c_swap c2 /\
  c_cost c1 = c_cost c2 /\ c_plugin_container c1 = c_plugin_container c2 /\
  c_stat c1 = c_stat c2 /\ c_context c1 = c_context c2.
Proof.
  intros H. repeat split;
  [ exact (f_equal ac_sess H) | exact (f_equal ac_input H) | exact (f_equal ac_output H)
  | exact (f_equal ac_handler H) | exact (f_equal ac_arg H) | exact (f_equal ac_call_cmd H)
  | exact (f_equal ac_swap H) | exact (f_equal ac_cost H) | exact (f_equal ac_plugin_container H)
  | exact (f_equal ac_stat H) | exact (f_equal ac_context H) ].
Qed.

Lemma ctx_step_sim c1 c2 o : abs_ctx c1 = abs_ctx c2 ->
  (uses_start o = true -> c_start c1 = c_start c2) ->
  rrel ctx_rel (ctx_step grow registered size_limit filter_pack c1 o) (ctx_step grow' registered size_limit filter_pack c2 o).
Proof.
  intros H Hs. pose proof H as H0.
  apply abs_ctx_inv in H as (H1 & H2 & H3 & H4 & H5 & H6 & H7 & H8 & H9 & H10 & H11).
  destruct o; cbn [ctx_step].
  - pose proof (msg_step_sim (c_input c1) (c_input c2) o H2) as S.
    destruct (msg_step grow registered size_limit filter_pack (c_input c1) o) as [[a1 o1]| |],
             (msg_step grow' registered size_limit filter_pack (c_input c2) o) as [[a2 o2]| |];
      cbn in *; try contradiction; try exact I.
    destruct S as [Sa So]. cbn in Sa, So. split; [|exact So]. unfold abs_ctx; cbn; congruence.
  - pose proof (msg_step_sim (c_output c1) (c_output c2) o H3) as S.
    destruct (msg_step grow registered size_limit filter_pack (c_output c1) o) as [[a1 o1]| |],
             (msg_step grow' registered size_limit filter_pack (c_output c2) o) as [[a2 o2]| |];
      cbn in *; try contradiction; try exact I.
    destruct S as [Sa So]. cbn in Sa, So. split; [|exact So]. unfold abs_ctx; cbn; congruence.
  - rewrite H7. destruct (c_swap c2); cbn; [|exact I].
    split; [|reflexivity]. unfold abs_ctx; cbn; congruence.
  - split; [|reflexivity]. unfold abs_ctx; cbn; congruence.
  - split; [|reflexivity]. unfold abs_ctx; cbn; congruence.
  - split; [|reflexivity]. unfold abs_ctx; cbn; congruence.
  - split; [|reflexivity]. unfold abs_ctx; cbn; congruence.
  - split; [|reflexivity]. unfold abs_ctx; cbn; congruence.
  - split; [|reflexivity]. unfold abs_ctx; cbn; congruence.
  - split; [|reflexivity]. unfold abs_ctx; cbn; congruence.
  - split; [|reflexivity]. unfold abs_ctx; cbn; congruence.
  - specialize (Hs eq_refl). split; [|reflexivity]. unfold abs_ctx; cbn; congruence.
  - split; [exact H0|]. cbn. rewrite H0. reflexivity.
  - split; [exact H0|]. cbn. rewrite H0. reflexivity.
Qed.

(* ------------------------------------------------------------------ call sequences *)
Lemma args_run_sim ops a1 a2 : abs_args a1 = abs_args a2 ->
  rrel args_rel (run (args_step grow) a1 ops) (run (args_step grow') a2 ops).
Proof.
  apply (run_sim (fun a b => abs_args a = abs_args b)). intros s1 s2 o H. apply args_step_sim. exact H.
Qed.

Lemma msg_run_sim ops m1 m2 : abs_msg m1 = abs_msg m2 ->
  rrel msg_rel (run (msg_step grow registered size_limit filter_pack) m1 ops)
               (run (msg_step grow' registered size_limit filter_pack) m2 ops).
Proof.
  apply (run_sim (fun a b => abs_msg a = abs_msg b)). intros s1 s2 o H. apply msg_step_sim. exact H.
Qed.

(* the cost computation reads c.start: only sequences that assign start first are covered *)
Fixpoint start_ok (set : bool) (ops : list cop) : bool :=
  match ops with
  | [] => true
  | CSetStart _ :: r => start_ok true r
  | CRecordCost _ :: r => set && start_ok set r
  | _ :: r => start_ok set r
  end.

Lemma ctx_run_sim ops : forall set c1 c2, abs_ctx c1 = abs_ctx c2 ->
  (set = true -> c_start c1 = c_start c2) -> start_ok set ops = true ->
  rrel ctx_rel (run (ctx_step grow registered size_limit filter_pack) c1 ops)
               (run (ctx_step grow' registered size_limit filter_pack) c2 ops).
Proof.
  induction ops as [|o r IH]; intros set c1 c2 H Hs Hok; cbn [run].
  - cbn. split; auto.
  - assert (Hu : uses_start o = true -> c_start c1 = c_start c2).
    { intros U. destruct o; try discriminate. cbn in Hok. apply andb_true_iff in Hok as [Hset _]. auto. }
    pose proof (ctx_step_sim c1 c2 o H Hu) as S.
    assert (Hnext : exists set', start_ok set' r = true /\
              forall a1 o1 a2 o2, ctx_step grow registered size_limit filter_pack c1 o = Ok (a1, o1) ->
                ctx_step grow' registered size_limit filter_pack c2 o = Ok (a2, o2) ->
                set' = true -> c_start a1 = c_start a2).
    { destruct o; cbn in Hok;
        try (exists set; split; [exact Hok|]; intros a1 o1 a2 o2 E1 E2 Hset; cbn in E1, E2;
             repeat match goal with
                    | H : context [msg_step ?g ?r ?l ?m ?o] |- _ => destruct (msg_step g r l m o) as [[? ?]| |]; cbn in H
                    | H : context [c_swap ?c] |- _ => destruct (c_swap c); cbn in H
                    end; try discriminate;
             inversion E1; inversion E2; subst; cbn; auto; fail).
      - exists true. split; [exact Hok|]. intros a1 o1 a2 o2 E1 E2 _. cbn in E1, E2.
        inversion E1; inversion E2; subst; reflexivity.
      - apply andb_true_iff in Hok as [Hset Hok]. exists set. split; [exact Hok|].
        intros a1 o1 a2 o2 E1 E2 _. cbn in E1, E2. inversion E1; inversion E2; subst; cbn; auto. }
    destruct Hnext as (set' & Hok' & Hst).
    destruct (ctx_step grow registered size_limit filter_pack c1 o) as [[a1 o1]| |],
             (ctx_step grow' registered size_limit filter_pack c2 o) as [[a2 o2]| |]; cbn in S; try contradiction; cbn; auto.
    destruct S as [Ha Ho]. cbn [fst snd] in *. subst o2.
    specialize (IH set' a1 a2 Ha (Hst a1 o1 a2 o1 eq_refl eq_refl) Hok').
    destruct (run _ a1 r) as [[b1 p1]| |], (run _ a2 r) as [[b2 p2]| |]; cbn in IH; try contradiction; cbn; auto.
    destruct IH as [Hb Hp]. cbn [fst snd] in *. subst p2. split; auto.
Qed.

Lemma ctx_get_abs c sess sw : abs_ctx (ctx_get c sess sw) = abs_ctx (ctx_get ctx_new sess sw).
Proof. reflexivity. Qed.

End Reg.

(* ------------------------------------------------------------------ ByteBuffer *)
Definition bop_safe (o : bop) : bool := match o with BChangeLen _ => false | _ => true end.

Definition bb_res (b : bbuf) (o : bop) := Ok (A := bbuf * list val) (bb_step grow b o).
Definition bb_res' (b : bbuf) (o : bop) := Ok (A := bbuf * list val) (bb_step grow' b o).

Definition bb_rel (x y : bbuf * list val) : Prop := vis (fst x) = vis (fst y) /\ snd x = snd y.

Lemma bb_step_sim (b1 b2 : bbuf) o : bop_safe o = true -> vis b1 = vis b2 ->
  bb_rel (bb_step grow b1 o) (bb_step grow' b2 o).
Proof.
  intros Hs H. destruct o; try discriminate; cbn; unfold bb_rel; cbn;
    rewrite ?gs_append_vis, ?set_buf_vis, ?H; unfold gs_len; rewrite ?H; auto.
Qed.

Lemma bb_run_sim ops : forall b1 b2 : bbuf, forallb bop_safe ops = true -> vis b1 = vis b2 ->
  rrel bb_rel (run bb_res b1 ops) (run bb_res' b2 ops).
Proof.
  induction ops as [|o r IH]; intros b1 b2 Hs H; cbn [run].
  - cbn. split; auto.
  - cbn in Hs. apply andb_true_iff in Hs as [Ho Hr].
    pose proof (bb_step_sim b1 b2 o Ho H) as S. unfold bb_res at 1, bb_res' at 1. cbn [rbind].
    destruct (bb_step grow b1 o) as [y1 q1], (bb_step grow' b2 o) as [y2 q2].
    destruct S as [Sa So]. cbn [fst snd] in *. subst q2. specialize (IH _ _ Hr Sa).
    destruct (run bb_res y1 r) as [[x1 p1]| |], (run bb_res' y2 r) as [[x2 p2]| |]; cbn in IH; try contradiction; cbn; auto.
    destruct IH as [Hb Hp]. cbn [fst snd] in *. subst p2. split; auto.
Qed.

(* ------------------------------------------------------------------ socket *)
Lemma sock_get_eq s c d pf : s_from_pool s = true -> sock_get s c d pf = sock_get sock_pool_new c d pf.
Proof. intros H. unfold sock_get, sock_reset. rewrite H. reflexivity. Qed.

End Proofs.

(* ------------------------------------------------------------------ recycled = fresh *)
Section Recycled.
Variable g g' : nat -> nat -> nat -> nat.
Variable registered : byte -> bool.
Variable size_limit : N.
Variable filter_pack : byte -> bytes -> option bytes.

Lemma args_recycled dirty ops :
  rrel args_rel (run (args_step g) (args_reset dirty) ops) (run (args_step g') args_fresh ops).
Proof. apply args_run_sim. apply args_reset_abs. Qed.

Lemma msg_recycled dirty ops :
  rrel msg_rel (run (msg_step g registered size_limit filter_pack) (msg_reset dirty) ops)
               (run (msg_step g' registered size_limit filter_pack) msg_fresh ops).
Proof. apply msg_run_sim. apply msg_reset_abs. Qed.

Lemma ctx_recycled dirty sess sw ops : start_ok false ops = true ->
  rrel ctx_rel (run (ctx_step g registered size_limit filter_pack) (ctx_get dirty sess sw) ops)
               (run (ctx_step g' registered size_limit filter_pack) (ctx_get ctx_new sess sw) ops).
Proof.
  intros H. apply (ctx_run_sim g g' registered size_limit filter_pack ops false); [apply ctx_get_abs|discriminate|exact H].
Qed.

Lemma bb_recycled (dirty : bbuf) n ops : forallb bop_safe ops = true ->
  rrel bb_rel (run (bb_res g) (bb_put dirty) ops) (run (bb_res' g') (bb_fresh n) ops).
Proof. intros H. apply bb_run_sim; [exact H|reflexivity]. Qed.

Definition sock_res (s : sock) (o : sop) := Ok (A := sock * list val) (sock_step s o).

Lemma sock_recycled dirty c d pf ops : s_from_pool dirty = true ->
  run sock_res (sock_get dirty c d pf) ops = run sock_res (sock_get sock_pool_new c d pf) ops.
Proof. intros H. rewrite (sock_get_eq dirty c d pf H). reflexivity. Qed.

Lemma xp_recycled (dirty : xpipe) ids :
  vis (fst (xp_append g registered (xp_reset dirty) ids)) = vis (fst (xp_append g' registered xp_fresh ids))
  /\ snd (xp_append g registered (xp_reset dirty) ids) = snd (xp_append g' registered xp_fresh ids).
Proof. apply xp_append_sim. reflexivity. Qed.

End Recycled.

(* ------------------------------------------------------------------ boundaries (witnesses) *)
Definition g0 : nat -> nat -> nat -> nat := fun _ _ _ => 0.

(* raw ChangeLen re-exposes the previous contents of a pooled buffer *)
Lemma bb_changelen_witness :
  exists dirty n,
    rmap snd (run (bb_res g0) (bb_put dirty) [BChangeLen 2; BBytes])
    <> rmap snd (run (bb_res g0) (bb_fresh n) [BChangeLen 2; BBytes]).
Proof.
  exists (mkGs [x41; x42] [] 0), 64. vm_compute. intros H. discriminate H.
Qed.

(* computing the cost before start is assigned reads the previous user's start *)
Lemma ctx_cost_witness :
  exists dirty sess sw,
    rmap snd (run (ctx_step g0 (fun _ => true) 1000%N (fun _ d => Some d)) (ctx_get dirty sess sw) [CRecordCost 10%Z; CObserve])
    <> rmap snd (run (ctx_step g0 (fun _ => true) 1000%N (fun _ d => Some d)) (ctx_get ctx_new sess sw) [CRecordCost 10%Z; CObserve]).
Proof.
  exists (mkCtx None msg_fresh msg_fresh None None None None 7%Z 0%Z None None None), 1%N, [].
  vm_compute. intros H. discriminate H.
Qed.
