From Coq Require Import Strings.String Strings.Byte.
From Coq Require Import List Arith NArith ZArith Bool Lia.
From Verif Require Import Base.Bytes Base.Outcome Model.Quote Model.Args Model.Numfmt
  Model.StatusQuery Model.Xfer Model.RawProto Model.ReadLoop Proofs.RawProofs.
Import ListNotations.
Local Open Scope N_scope.

Lemma ltake_length n s x r : ltake n s = Some (x, r) ->
  (length s = N.to_nat n + length r)%nat /\ blen x = n.
Proof.
  unfold ltake. destruct (blen s <? n) eqn:E; [discriminate|].
  apply N.ltb_ge in E. intros H; inversion H; subst. unfold blen in *.
  rewrite skipn_length, firstn_length. split; lia.
Qed.

Lemma ltake_take n s : take n s = match ltake n s with Some p => Ok p | None => Err end.
Proof. unfold take, ltake. destruct (blen s <? n); reflexivity. Qed.

(* a successfully read frame consumes at least its 5 fixed bytes *)
Lemma live_ok_consumes reg lim s m ids size rest :
  raw_unpack_live reg lim s = LOk (m, ids, size, rest) -> (length rest + 5 <= length s)%nat.
Proof.
  unfold raw_unpack_live.
  destruct (ltake 4 s) as [[b4 s1]|] eqn:E1; [|discriminate].
  destruct (lim <? N_of_be b4); [discriminate|]. destruct (N_of_be b4 <? 4); [discriminate|].
  destruct (ltake 1 s1) as [[xb s2]|] eqn:E2; [|discriminate].
  set (xl := match xb with [x] => b2n x | _ => 0 end).
  destruct (N_of_be b4 - 4 <? 1 + xl); [destruct (blen s2 <? xl); discriminate|].
  destruct (ltake xl s2) as [[ids' s3]|] eqn:E3; [|discriminate].
  destruct (pipe_append reg [] ids') as [p [e|]]; [discriminate|].
  destruct (ltake (N_of_be b4 - 4 - 1 - xl) s3) as [[payload s4]|] eqn:E4; [|discriminate].
  destruct (pipe_unpack p payload) as [data|]; [|discriminate].
  destruct (raw_parse data) as [m'| |]; try discriminate.
  intros H; inversion H; subst.
  apply ltake_length in E1 as [L1 _]. apply ltake_length in E2 as [L2 _].
  apply ltake_length in E3 as [L3 _]. apply ltake_length in E4 as [L4 _].
  change (N.to_nat 4) with 4%nat in L1. change (N.to_nat 1) with 1%nat in L2. lia.
Qed.

Theorem reader_never_out_of_fuel reg lim : forall fuel s pre,
  (length s < fuel)%nat -> snd (reader fuel reg lim s pre) <> OutOfFuel.
Proof.
  induction fuel as [|f IH]; intros s pre Hf; [lia|].
  cbn [reader]. destruct (raw_unpack_live reg lim s) as [[[[m ids] size] rest]| | | |] eqn:E;
    cbn [snd]; try discriminate.
  destruct (supported (m_mtype m)); [|cbn [snd]; discriminate].
  apply IH. apply live_ok_consumes in E. lia.
Qed.

(* the live reader and the stream decoder agree on complete frames *)
Theorem live_ok_iff reg lim s x :
  raw_unpack_live reg lim s = LOk x <-> raw_unpack reg lim s = Ok x.
Proof.
  unfold raw_unpack_live, raw_unpack. rewrite !ltake_take.
  destruct (ltake 4 s) as [[b4 s1]|]; cbn [rbind]; [|split; discriminate].
  destruct (lim <? N_of_be b4); [split; discriminate|].
  destruct (N_of_be b4 <? 4); [split; discriminate|].
  rewrite ltake_take. destruct (ltake 1 s1) as [[xb s2]|]; cbn [rbind]; [|split; discriminate].
  set (xl := match xb with [x0] => b2n x0 | _ => 0 end).
  destruct (N_of_be b4 - 4 <? 1 + xl); [destruct (blen s2 <? xl); split; discriminate|].
  rewrite ltake_take. destruct (ltake xl s2) as [[ids s3]|]; cbn [rbind]; [|split; discriminate].
  destruct (pipe_append reg [] ids) as [p [e|]]; [split; discriminate|].
  rewrite ltake_take.
  destruct (ltake (N_of_be b4 - 4 - 1 - xl) s3) as [[payload s4]|]; cbn [rbind]; [|split; discriminate].
  destruct (pipe_unpack p payload) as [data|]; cbn [of_option rbind]; [|split; discriminate].
  destruct (raw_parse data) as [m| |]; cbn [rbind]; split; intros H; inversion H; reflexivity.
Qed.

(* a frame announcing more than the limit disconnects the session as soon as its 4-byte size
   field has arrived, whether or not any payload follows *)
Theorem live_oversize_disconnects reg lim s b4 rest :
  ltake 4 s = Some (b4, rest) -> lim < N_of_be b4 ->
  forall fuel pre, reader (S fuel) reg lim s pre = (pre + 1, Disconnected).
Proof.
  intros Ht Hl fuel pre. cbn [reader]. unfold raw_unpack_live. rewrite Ht.
  apply N.ltb_lt in Hl. rewrite Hl. reflexivity.
Qed.

(* every panic of the decoder ends in the reader's recover path, i.e. in Disconnected;
   the loop's only other endings are Blocked / Unsupported / Ambiguous *)
Theorem reader_endings reg lim fuel s pre :
  (length s < fuel)%nat ->
  let e := snd (reader fuel reg lim s pre) in
  e = Blocked \/ e = Disconnected \/ e = Unsupported \/ e = Ambiguous.
Proof.
  intros Hf e. pose proof (reader_never_out_of_fuel reg lim fuel s pre Hf) as H.
  subst e. destruct (snd (reader fuel reg lim s pre)); auto. congruence.
Qed.

(* ---- httproto after the repair ---- *)
Theorem http_allocs_bounded lim : forall steps size body,
  (body <= Z.of_N lim)%Z -> Forall (fun a => a <= lim) (fst (http_allocs lim steps size body)).
Proof.
  induction steps as [|st r IH]; intros size body Hb; cbn [http_allocs fst]; [constructor|].
  destruct st as [len | len v].
  - destruct (lim <? len) eqn:E1; cbn [fst]; [repeat constructor; lia|].
    apply N.ltb_ge in E1.
    destruct (lim <? size + len); cbn [fst]; [repeat constructor; lia|].
    destruct (len =? 0).
    + destruct (0 <? body)%Z eqn:Eb; cbn [fst]; repeat constructor; try lia.
    + specialize (IH (size + len) body Hb). destruct (http_allocs lim r (size + len) body).
      cbn [fst] in *. constructor; [lia | exact IH].
  - destruct (lim <? len) eqn:E1; cbn [fst]; [repeat constructor; lia|].
    apply N.ltb_ge in E1.
    destruct (lim <? size + len); cbn [fst]; [repeat constructor; lia|].
    destruct (0 <? v)%Z eqn:Ev.
    + destruct (Z.of_N lim <? v)%Z eqn:E2; cbn [fst]; [repeat constructor; lia|].
      apply Z.ltb_ge in E2.
      destruct (lim <? size + len + Z.to_N v); cbn [fst]; [repeat constructor; lia|].
      specialize (IH (size + len + Z.to_N v) v E2).
      destruct (http_allocs lim r (size + len + Z.to_N v) v). cbn [fst] in *.
      constructor; [lia | exact IH].
    + apply Z.ltb_ge in Ev.
      assert (Hv : (v <= Z.of_N lim)%Z) by lia.
      specialize (IH (size + len) v Hv).
      destruct (http_allocs lim r (size + len) v). cbn [fst] in *.
      constructor; [lia | exact IH].
Qed.

Theorem gunzip_limited_bounded lim x y : gunzip_limited lim x = Some y -> blen y <= lim.
Proof.
  unfold gunzip_limited. destruct (lim <? blen x) eqn:E; [discriminate|].
  apply N.ltb_ge in E. intros H; inversion H; subst. exact E.
Qed.
