(* Wait-group counters equal the number of live contexts / open calls (C02, C08). *)
From Coq Require Import Strings.String Strings.Byte.
From Coq Require Import List Arith NArith Bool Lia.
From Verif Require Import Model.Lifecycle Model.CallLife Model.Graceful Proofs.LifecycleProofs Proofs.PeerProofs Proofs.C07Lemmas Proofs.CallLifeProofs.
Import ListNotations.

Fixpoint cnt {A} (f : A -> bool) (l : list A) : nat :=
  match l with [] => 0 | x :: r => (if f x then 1 else 0) + cnt f r end.

Lemma cnt_upd {A} (f : A -> bool) l i x y :
  nth_error l i = Some x -> cnt f (upd l i y) + (if f x then 1 else 0) = cnt f l + (if f y then 1 else 0).
Proof.
  revert i; induction l as [|a l IH]; intros [|i] H; cbn in *; try discriminate.
  - inversion H; subst. lia.
  - specialize (IH i H). lia.
Qed.

Lemma cnt_snoc {A} (f : A -> bool) l x : cnt f (l ++ [x]) = cnt f l + (if f x then 1 else 0).
Proof. induction l; cbn; lia. Qed.

Lemma cnt_zero {A} (f : A -> bool) l : cnt f l = 0 -> Forall (fun x => f x = false) l.
Proof.
  induction l as [|a l IH]; cbn; intros H; constructor.
  - destruct (f a); auto; lia.
  - apply IH. destruct (f a); lia.
Qed.

Definition ctx_active (h : hctx) : bool := match k_pc h with KDone => false | _ => true end.
Definition h_active (c : call) : bool := match c_h c with H0 _ | H1 => true | _ => false end.
Definition undone (c : call) : bool := c_dones c =? 0.

Definition wg_ok (s : sess) : Prop :=
  ctxWG s = cnt ctx_active (hctxs s) + cnt h_active (calls s) /\
  callWG s = cnt undone (calls s).

Ltac upd_facts En :=
  repeat match goal with
  | |- context [cnt ?f (upd _ _ ?y)] =>
      lazymatch goal with
      | _ : cnt f (upd _ _ y) + _ = _ |- _ => fail
      | _ => pose proof (cnt_upd f _ _ _ y En)
      end
  end.

Lemma caller_step_wg s i v w s' : calls_ok s -> wg_ok s -> caller_step s i v w = Some s' -> wg_ok s'.
Proof.
  intros Hc (Hx & Hw) H. unfold caller_step in H.
  destruct (nth_error (calls s) i) as [c|] eqn:En; [|discriminate].
  pose proof (Forall_nth _ _ _ _ Hc En) as Hci.
  assert (Hh : c_a c <> ADone -> h_active c = false /\ (c_a c <> A4 -> c_dones c = 0)).
  { unfold call_ok in Hci. unfold h_active. intros Hn. destruct (c_a c) eqn:Ea; try congruence;
      destruct (c_h c); intuition congruence. }
  destruct (c_a c) eqn:Ea; try discriminate;
    (destruct Hh as (Hh1 & Hh2); [discriminate|]);
    repeat match type of H with
           | context [if ?x then _ else _] => destruct x
           | context [match ?x with _ => _ end] => destruct x
           end; try discriminate H; inversion H; subst; clear H;
    unfold wg_ok, fail_call, done_call; cbn; rewrite Hx, Hw;
    pose proof (cnt_upd h_active _ _ _ c En) as U0;
    match goal with |- context [upd (calls s) i ?y] =>
      pose proof (cnt_upd h_active _ _ _ y En) as U1; pose proof (cnt_upd undone _ _ _ y En) as U2 end;
    unfold h_active, undone in *; cbn in *; rewrite ?Hh1 in *;
    try (rewrite Hh2 in * by discriminate); cbn in *;
    destruct (c_h c); try discriminate; cbn in *; try (destruct (c_dones c =? 0)); lia.
Qed.

Lemma reply_step_wg s i s' : calls_ok s -> wg_ok s -> reply_step s i = Some s' -> wg_ok s'.
Proof.
  intros Hc (Hx & Hw) H. unfold reply_step in H.
  destruct (nth_error (calls s) i) as [c|] eqn:En; [|discriminate].
  pose proof (Forall_nth _ _ _ _ Hc En) as Hci.
  destruct (c_h c) eqn:Eh; try discriminate; inversion H; subst; clear H;
    unfold wg_ok, done_call; cbn; rewrite Hx, Hw;
    match goal with |- context [upd (calls s) i ?y] =>
      pose proof (cnt_upd h_active _ _ _ y En) as U1; pose proof (cnt_upd undone _ _ _ y En) as U2 end;
    unfold call_ok in Hci; rewrite Eh in Hci; destruct Hci as (_ & _ & _ & (Hd & _) & _);
    unfold h_active, undone in *; cbn in *; rewrite Eh, Hd in *; cbn in *; lia.
Qed.

Lemma visit_step_wg s i s' : calls_ok s -> wg_ok s -> visit_step s i = Some s' -> wg_ok s'.
Proof.
  intros Hc (Hx & Hw) H. unfold visit_step in H. destruct (rd_cancel (rd s)) eqn:Erc; [|discriminate]. unfold visit_body in H.
  destruct (nth_error (calls s) i) as [c|] eqn:En; [|discriminate].
  pose proof (Forall_nth _ _ _ _ Hc En) as Hci.
  destruct (c_tab c) eqn:Et; [|discriminate]. cbn in H.
  destruct (negb (c_vis c)); [|discriminate]. cbn in H.
  destruct (mu_free c) eqn:Em; [|discriminate].
  unfold mu_free in Em. destruct (c_a c) eqn:Ea; try discriminate. destruct (c_h c) eqn:Eh; try discriminate.
  assert (Hd : c_dones c = 0) by (unfold call_ok in Hci; intuition).
  destruct (negb (c_rep c) && cstat_ok (c_stat c)); inversion H; subst; clear H;
    unfold wg_ok, fail_call, done_call; cbn; rewrite Hx, Hw;
    match goal with |- context [upd (calls s) i ?y] =>
      pose proof (cnt_upd h_active _ _ _ y En) as U1; pose proof (cnt_upd undone _ _ _ y En) as U2 end;
    unfold h_active, undone in *; cbn in *; rewrite ?Eh, ?Hd in *; cbn in *; lia.
Qed.

Lemma handler_step_wg s j v w s' : wg_ok s -> handler_step s j v w = Some s' -> wg_ok s'.
Proof.
  intros (Hx & Hw) H. unfold handler_step in H.
  destruct (nth_error (hctxs s) j) as [h|] eqn:En; [|discriminate]. cbv zeta in H.
  destruct (k_pc h) eqn:Ep; try discriminate;
    repeat match type of H with
           | context [match ?x with _ => _ end] => destruct x; try discriminate H
           | context [if ?x then _ else _] => destruct x; try discriminate H
           end; inversion H; subst; clear H;
    unfold wg_ok, put_ctx; cbn; rewrite Hx, Hw;
    match goal with |- context [upd (hctxs s) j ?y] => pose proof (cnt_upd ctx_active _ _ _ y En) as U1 end;
    unfold ctx_active in *; cbn in *; rewrite Ep in *; cbn in *; lia.
Qed.

Lemma hwait_step_wg s j i s' : wg_ok s -> hwait_step s j i = Some s' -> wg_ok s'.
Proof.
  intros (Hx & Hw) H. destruct (hwait_step_shape _ _ _ _ H) as (h & En & Ep & ->).
  unfold wg_ok; cbn; rewrite Hx, Hw.
  pose proof (cnt_upd ctx_active _ _ _ (set_kpc h (K1w i)) En) as U1.
  unfold ctx_active in *; cbn in *; rewrite Ep in *; cbn in *; lia.
Qed.

Lemma reader_step_wg s b s' fx :
  calls_ok s -> bound_ok s -> wg_ok s -> reader_step fixed s b = Some (s', fx) -> wg_ok s'.
Proof.
  intros Hc Hb (Hx & Hw) H. unfold reader_step in H.
  destruct (rd s) eqn:Erd; try discriminate.
  - destruct (estab s); [|discriminate]. cbn [fix_acc fixed] in H. inversion H; subst; split; cbn; auto.
  - destruct (goon (st s)); inversion H; subst; split; cbn; auto.
  - destruct (nth_error (calls s) i) as [c|]; [destruct (c_tab c)|]; inversion H; subst; split; cbn; auto.
  - destruct (nth_error (calls s) i) as [c|] eqn:En; [|discriminate].
    destruct (mu_free c) eqn:Em; [|discriminate].
    unfold mu_free in Em. destruct (c_a c) eqn:Ea; try discriminate. destruct (c_h c) eqn:Eh; try discriminate.
    cbn [fix_dup fixed andb] in H.
    destruct (c_dones c =? 0) eqn:Ed; cbn [negb] in H; [|inversion H; subst; split; cbn; auto].
    destruct d; cbn [fix_abort fixed] in H; inversion H; subst; clear H;
      unfold wg_ok, abort_call, done_call; cbn; rewrite Hx, Hw;
      match goal with |- context [upd (calls s) i ?y] =>
        pose proof (cnt_upd h_active _ _ _ y En) as U1; pose proof (cnt_upd undone _ _ _ y En) as U2 end;
      unfold h_active, undone in *; cbn in *; rewrite ?Eh, ?Ed in *;
      try destruct (cstat_ok (c_stat c)); cbn in *; rewrite ?Ed in *; lia.
  - destruct (early s x).
    + destruct x; try (inversion H; subst; split; cbn; auto; fail).
      destruct (nth_error (calls s) i) as [c|] eqn:En; [|discriminate].
      pose proof (Forall_nth _ _ _ _ Hc En) as Hci.
      unfold bound_ok in Hb. rewrite Erd in Hb. destruct Hb as (c0 & Hc0 & Hh0).
      assert (c0 = c) by congruence. subst c0.
      unfold call_ok in Hci; rewrite Hh0 in Hci; destruct Hci as (_ & _ & _ & (Hd & _) & _).
      cbn [fix_abort fixed] in H. inversion H; subst; clear H.
      unfold wg_ok, abort_call, done_call; cbn; rewrite Hx, Hw;
      match goal with |- context [upd (calls s) i ?y] =>
        pose proof (cnt_upd h_active _ _ _ y En) as U1; pose proof (cnt_upd undone _ _ _ y En) as U2 end;
      unfold h_active, undone in *; cbn in *; rewrite ?Hh0, ?Hd in *;
      destruct (cstat_ok (c_stat c)); cbn in *; rewrite ?Hd in *; cbn in *; lia.
    + inversion H; subst; split; cbn; auto.
  - destruct x; try discriminate.
    + destruct b; [|destruct k]; inversion H; subst; clear H; unfold wg_ok; cbn; rewrite ?cnt_snoc;
        unfold ctx_active in *; cbn; lia.
    + destruct (nth_error (calls s) i) as [c|] eqn:En; [|discriminate].
      pose proof (Forall_nth _ _ _ _ Hc En) as Hci.
      unfold bound_ok in Hb. rewrite Erd in Hb. destruct Hb as (c0 & Hc0 & Hh0).
      assert (c0 = c) by congruence. subst c0.
      unfold call_ok in Hci; rewrite Hh0 in Hci; destruct Hci as (_ & _ & _ & (Hd & _) & _).
      destruct b; cbn [fix_abort fixed] in H; inversion H; subst; clear H;
        unfold wg_ok, done_call; cbn; rewrite Hx, Hw;
        match goal with |- context [upd (calls s) i ?y] =>
          pose proof (cnt_upd h_active _ _ _ y En) as U1; pose proof (cnt_upd undone _ _ _ y En) as U2 end;
        unfold h_active, undone in *; cbn in *; rewrite ?Hh0, ?Hd in *; cbn in *; lia.
  - inversion H; subst; split; cbn; auto.
  - destruct seen; cbn [fix_cas fixed] in H; try destruct (status_eqb (st s) _); inversion H; subst; split; cbn; auto.
  - inversion H; subst; split; cbn; auto.
  - destruct (ctxWG s) eqn:E; inversion H; subst; split; cbn; rewrite ?E; auto.
  - destruct (all_visited (calls s)); inversion H; subst; split; cbn; auto.
  - destruct seen; inversion H; subst; split; cbn; auto.
  - inversion H; subst; split; cbn; auto.
  - inversion H; subst; unfold notify; cbn. destruct (notified s); split; auto.
  - destruct (all_visited (calls s)); inversion H; subst; split; cbn; auto.
Qed.

Lemma wg_ok_step s e s' fx : calls_ok s -> bound_ok s -> wg_ok s -> sstep s e = Some (s', fx) -> wg_ok s'.
Proof.
  intros Hc Hb Hw H. unfold sstep, sstep_cfg in H. destruct e.
  - destruct (conn s); inversion H; subst; destruct Hw; split; auto.
  - unfold noeff, frame_step in H. destruct (rd s); try discriminate.
    destruct f; inversion H; subst; destruct Hw; split; auto.
  - unfold noeff, close_call in H. destruct (cl s); try discriminate. inversion H; subst; destruct Hw; split; auto.
  - inversion H; subst. destruct Hw as (Hx & Hy). unfold wg_ok, issue; cbn. rewrite !cnt_snoc, Hx, Hy.
    unfold h_active, undone; cbn. lia.
  - inversion H; subst. destruct Hw as (Hx & Hy). unfold wg_ok, push_call; cbn. rewrite !cnt_snoc, Hx, Hy.
    unfold ctx_active; cbn. lia.
  - unfold closer_step, notify in H. destruct Hw as (Hx & Hy). destruct (cl s); try discriminate.
    all: try (destruct (st s); inversion H; subst; split; auto; fail).
    all: try (destruct (ctxWG s) eqn:E; inversion H; subst; split; cbn; rewrite ?E; auto; fail).
    all: try (destruct (callWG s) eqn:E; inversion H; subst; split; cbn; rewrite ?E; auto; fail).
    all: try (destruct (notified s); inversion H; subst; split; auto; fail).
    all: inversion H; subst; split; auto.
  - eapply reader_step_wg; eauto.
  - unfold noeff in H. destruct (visit_step s i) eqn:E; inversion H; subst. eapply visit_step_wg; eauto.
  - unfold noeff in H. destruct (caller_step s i veto wr) eqn:E; inversion H; subst. eapply caller_step_wg; eauto.
  - unfold noeff in H. destruct (reply_step s i) eqn:E; inversion H; subst. eapply reply_step_wg; eauto.
  - unfold noeff in H. destruct (handler_step s j veto wr) eqn:E; inversion H; subst. eapply handler_step_wg; eauto.
  - unfold noeff in H. destruct (hwait_step s j i) eqn:E; inversion H; subst. eapply hwait_step_wg; eauto.
Qed.



Definition passive (x : status) : bool :=
  match x with PassiveClosing | PassiveClosed => true | _ => false end.

Definition past_ctx_wait (s : sess) : Prop :=
  match cl s with C4 | C5 | C6 | C7 => True | _ => False end \/ st s = ActiveClosed.

Definition early_done (h : hctx) : Prop := k_cl h = false -> k_pc h = KDone.

Definition hres_ok (stt : status) (h : hctx) : Prop :=
  k_kind h = KCall -> k_cl h = false ->
  match k_pc h with
  | K0 | K1 | K1w _ | K2 | K2w => k_res h = WrNone
  | K4 | KDone => k_res h = WrWritten \/ k_res h = WrFailedOther \/ passive stt = true
  end.

Definition g_inv (s : sess) : Prop :=
  (past_ctx_wait s -> Forall early_done (hctxs s)) /\
  (sock s = false -> passive (st s) = true \/ st s = ActiveClosed \/ estab s = false) /\
  (rd s = RNone -> Forall (fun h => k_kind h = KPushOut) (hctxs s)) /\
  (st s <> Redialing /\ st s <> RedialFailed) /\
  Forall (hres_ok (st s)) (hctxs s).

Lemma g_inv_same s s' :
  st s' = st s -> cl s' = cl s -> rd s' = rd s -> sock s' = sock s -> estab s' = estab s ->
  hctxs s' = hctxs s -> g_inv s -> g_inv s'.
Proof.
  intros E1 E2 E3 E4 E5 E6 H. unfold g_inv, past_ctx_wait in *. rewrite E1, E2, E3, E4, E5, E6. exact H.
Qed.

Lemma passive_mono s e s' fx : stat_inv s -> sstep s e = Some (s', fx) -> passive (st s) = true -> passive (st s') = true.
Proof.
  intros (Hc & Hr & _) H Hp. destruct (sstep_st_change _ _ _ _ H) as [E|E1 E2 E3|E1 E2|E1 E2 E3|E1 E2].
  - rewrite E; auto.
  - destruct E2 as [E2|E2]; rewrite E2 in Hp; discriminate.
  - unfold cl_ok in Hc. rewrite E1 in Hc. rewrite Hc in Hp. discriminate.
  - rewrite E3. reflexivity.
  - rewrite E2. reflexivity.
Qed.

Lemma hres_ok_mono a b h : (passive a = true -> passive b = true) -> hres_ok a h -> hres_ok b h.
Proof.
  unfold hres_ok. intros Hm H Hk Hc. specialize (H Hk Hc). destruct (k_pc h); auto; intuition.
Qed.

Lemma st_not_redial s e s' fx : sstep s e = Some (s', fx) ->
  (st s <> Redialing /\ st s <> RedialFailed) -> (st s' <> Redialing /\ st s' <> RedialFailed).
Proof.
  intros H Hn. destruct (sstep_st_change _ _ _ _ H) as [E|E1 E2 E3|E1 E2|E1 E2 E3|E1 E2];
    try rewrite E; try rewrite E3; try rewrite E2; auto; split; discriminate.
Qed.

Lemma not_ok_kcl x : x <> Ok -> negb (status_eqb x Ok) = true.
Proof. destruct x; cbn; auto; congruence. Qed.

Lemma past_wait_not_ok s : stat_inv s -> past_ctx_wait s -> st s <> Ok.
Proof.
  intros (Hc & _) [H|H]; [|congruence]. unfold cl_ok in Hc. destruct (cl s); try tauto; congruence.
Qed.

Lemma handler_step_g s j v w s' : stat_inv s -> g_inv s -> handler_step s j v w = Some s' -> g_inv s'.
Proof.
  intros Hsi (G1 & G2 & G3 & G4 & G5) H.
  pose proof (handler_step_ctrl _ _ _ _ _ H) as (E1 & _ & _ & E4 & E5 & E6 & _).
  assert (Esock : sock s' = sock s).
  { unfold handler_step in H. destruct (nth_error (hctxs s) j); [|discriminate]. cbv zeta in H.
    destruct (k_pc h); try discriminate;
      repeat match type of H with
             | context [match ?x with _ => _ end] => destruct x; try discriminate H
             | context [if ?x then _ else _] => destruct x; try discriminate H
             end; inversion H; reflexivity. }
  unfold handler_step in H. destruct (nth_error (hctxs s) j) as [h|] eqn:En; [|discriminate]. cbv zeta in H.
  pose proof (Forall_nth _ _ _ _ G5 En) as Hh.
  assert (Hact : k_pc h <> KDone) by (intros X; rewrite X in H; discriminate).
  (* the shape of the update *)
  assert (Hshape : exists h', hctxs s' = upd (hctxs s) j h' /\ k_kind h' = k_kind h /\ k_cl h' = k_cl h /\
                             hres_ok (st s) h').
  { destruct (k_pc h) eqn:Ep; try discriminate.
    - destruct (k_kind h) eqn:Ek.
      + inversion H; subst. eexists; split; [reflexivity|]. cbn. repeat split; auto.
        unfold hres_ok in *; cbn. rewrite Ep in Hh. auto.
      + inversion H; subst. eexists; split; [reflexivity|]. cbn. repeat split; auto.
        unfold hres_ok; cbn. congruence.
      + inversion H; subst. unfold put_ctx. eexists; split; [reflexivity|]. cbn. repeat split; auto.
        unfold hres_ok; cbn. congruence.
      + destruct v; inversion H; subst; (eexists; split; [reflexivity|]); cbn; repeat split; auto;
          unfold hres_ok; cbn; congruence.
    - destruct (k_kind h) eqn:Ek; inversion H; subst; (eexists; split; [reflexivity|]); cbn; repeat split; auto;
        unfold hres_ok in *; cbn; rewrite ?Ep in Hh; try congruence; auto.
    - destruct (admits (st s) _) eqn:Ead; inversion H; subst; (eexists; split; [reflexivity|]); cbn; repeat split; auto;
        unfold hres_ok in *; cbn; rewrite ?Ep in Hh; auto.
      (* refused: the status is neither ok nor active-closing *)
      intros Hk Hcl. right. right. rewrite Hk in Ead.
      destruct (st s) eqn:Est; cbn in Ead; try discriminate; auto; exfalso.
      * destruct Hsi as (_ & _ & _ & _ & (_ & _ & He3 & _)). specialize (He3 Est).
        pose proof (Forall_nth _ _ _ _ (G3 He3) En). congruence.
      * assert (P : past_ctx_wait s) by (right; auto).
        pose proof (Forall_nth _ _ _ _ (G1 P) En Hcl). congruence.
      * destruct G4; congruence.
      * destruct G4; congruence.
    - destruct (wr_ok s w) eqn:Ew; [|discriminate]. inversion H; subst. (eexists; split; [reflexivity|]); cbn; repeat split; auto.
      unfold hres_ok in *; cbn. intros Hk Hcl. destruct w; auto.
      right. right. unfold wr_ok in Ew. destruct (sock s) eqn:Es; [discriminate|].
      destruct (G2 eq_refl) as [P|[P|P]]; auto; exfalso.
      * assert (P' : past_ctx_wait s) by (right; auto).
        pose proof (Forall_nth _ _ _ _ (G1 P') En Hcl). congruence.
      * destruct Hsi as (_ & _ & _ & _ & (_ & He2 & _)).
        destruct (rd s) eqn:Erd; try (rewrite He2 in P by discriminate; discriminate).
        pose proof (Forall_nth _ _ _ _ (G3 eq_refl) En). congruence.
    - inversion H; subst. unfold put_ctx. (eexists; split; [reflexivity|]); cbn; repeat split; auto.
      unfold hres_ok in *; cbn. rewrite Ep in Hh. auto.
    - destruct (nth_error (calls s) i) as [c|]; [destruct (c_dones c =? 0); [discriminate|]|];
        inversion H; subst; (eexists; split; [reflexivity|]); cbn; repeat split; auto;
        unfold hres_ok in *; cbn; rewrite Ep in Hh; auto. }
  destruct Hshape as (h' & Eh & Hk & Hcl & Hres).
  unfold g_inv, past_ctx_wait. rewrite E1, E4, E5, E6, Esock, Eh. repeat split; auto; try tauto.
  - intros P. apply Forall_upd; auto. unfold early_done. intros X. rewrite Hcl in X.
    pose proof (Forall_nth _ _ _ _ (G1 P) En X). congruence.
  - intros P. apply Forall_upd; auto. rewrite Hk. apply (Forall_nth _ _ _ _ (G3 P) En).
  - apply Forall_upd; auto.
Qed.

Lemma hwait_step_g s j i s' : g_inv s -> hwait_step s j i = Some s' -> g_inv s'.
Proof.
  intros (G1 & G2 & G3 & G4 & G5) H. destruct (hwait_step_shape _ _ _ _ H) as (h & En & Ep & ->).
  pose proof (Forall_nth _ _ _ _ G5 En) as Hh.
  unfold g_inv, past_ctx_wait; cbn. repeat split; auto; try tauto.
  - intros P. apply Forall_upd; auto. unfold early_done; cbn. intros X.
    pose proof (Forall_nth _ _ _ _ (G1 P) En X). congruence.
  - intros P. apply Forall_upd; auto. cbn. apply (Forall_nth _ _ _ _ (G3 P) En).
  - apply Forall_upd; auto. unfold hres_ok in *; cbn. rewrite Ep in Hh. auto.
Qed.

Lemma cnt_zero_done l : cnt ctx_active l = 0 -> Forall early_done l.
Proof.
  intros H. apply cnt_zero in H. eapply Forall_impl; [|exact H].
  intros h Hh _. unfold ctx_active in Hh. destruct (k_pc h); auto; discriminate.
Qed.

Lemma closer_step_g s s' fx : stat_inv s -> wg_ok s -> g_inv s -> closer_step s = Some (s', fx) -> g_inv s'.
Proof.
  intros Hsi (Hx & _) (G1 & G2 & G3 & G4 & G5) H.
  pose proof (stat_inv_step s ECloser s' fx Hsi H) as Hsi'.
  pose proof (passive_mono s ECloser s' fx Hsi H) as Hpm.
  pose proof (st_not_redial s ECloser s' fx H G4) as G4'.
  destruct Hsi as (Hc & _). unfold cl_ok in Hc.
  unfold closer_step, notify in H. destruct (cl s) eqn:Ecl; try discriminate.
  - (* C0 *)
    destruct (st s) eqn:Est; inversion H; subst; clear H; unfold g_inv, past_ctx_wait in *; cbn in *;
      rewrite ?Ecl, ?Est in *; repeat split; auto; try tauto; try discriminate;
      try (intros [[]|X]; discriminate);
      try (intros X; destruct (G2 X) as [P|[P|P]]; auto; discriminate);
      try (eapply Forall_impl; [|exact G5]; intros h; apply hres_ok_mono; cbn; auto).
  - inversion H; subst; clear H; unfold g_inv, past_ctx_wait in *; cbn in *; rewrite ?Ecl in *; repeat split; auto; tauto.
  - destruct (notified s); inversion H; subst; clear H; unfold g_inv, past_ctx_wait in *; cbn in *; rewrite ?Ecl in *; repeat split; auto; tauto.
  - (* C3: the context wait is over *)
    destruct (ctxWG s) eqn:Ew; inversion H; subst; clear H; unfold g_inv, past_ctx_wait in *; cbn in *; rewrite ?Ecl in *;
      repeat split; auto; try tauto.
    intros _; apply cnt_zero_done; lia.
  - destruct (callWG s); inversion H; subst; clear H; unfold g_inv, past_ctx_wait in *; cbn in *; rewrite ?Ecl in *;
      repeat split; auto; tauto.
  - inversion H; subst; clear H; unfold g_inv, past_ctx_wait in *; cbn in *; rewrite ?Ecl in *; repeat split; auto; try tauto;
      try discriminate.
    eapply Forall_impl; [|exact G5]. intros h. apply hres_ok_mono. rewrite Hc. discriminate.
  - inversion H; subst; clear H; unfold g_inv, past_ctx_wait in *; cbn in *; rewrite ?Ecl in *; repeat split; auto; tauto.
  - inversion H; subst; clear H; unfold g_inv, past_ctx_wait in *; cbn in *; rewrite ?Ecl in *; repeat split; auto; tauto.
Qed.

Lemma g_inv_st_change s s' :
  stat_inv s' -> g_inv s -> cl s' = cl s -> rd s' <> RNone -> rd s <> RNone -> sock s' = sock s -> estab s' = estab s ->
  hctxs s' = hctxs s -> passive (st s') = true -> (st s <> ActiveClosed) -> g_inv s'.
Proof.
  intros (Hc' & _) (G1 & G2 & G3 & G4 & G5) Ecl Hrd' Hrd Es Ee Eh Hp Hna.
  unfold g_inv, past_ctx_wait in *. rewrite Ecl, Es, Ee, Eh. repeat split; auto; try tauto.
  - intros [P|P]; [|rewrite P in Hp; discriminate]. exfalso.
    unfold cl_ok in Hc'. rewrite Ecl in Hc'. destruct (cl s); try tauto; rewrite Hc' in Hp; discriminate.
  - destruct (st s'); discriminate.
  - destruct (st s'); discriminate.
  - eapply Forall_impl; [|exact G5]. intros h. apply hres_ok_mono. auto.
Qed.

Lemma reader_pre_shape s b s' fx :
  reader_step fixed s b = Some (s', fx) ->
  match rd s with RNone | R0 | RLook _ _ | RLock _ _ | R3 _ | R4 _ => True | _ => False end ->
  sock s' = sock s /\
  (hctxs s' = hctxs s \/
   exists k p, hctxs s' = hctxs s ++ [mkHctx k p WrNone Preparing (negb (status_eqb (st s) Ok)) false] /\ (p = K0 \/ p = K2)).
Proof.
  unfold reader_step. destruct (rd s) eqn:Erd; try tauto; intros H _.
  - destruct (estab s); [|discriminate]. cbn [fix_acc fixed] in H. inversion H; subst; cbn; auto.
  - destruct (goon (st s)); inversion H; subst; cbn; auto.
  - destruct (nth_error (calls s) i) as [c|]; [destruct (c_tab c)|]; inversion H; subst; cbn; auto.
  - destruct (nth_error (calls s) i) as [c|]; [|discriminate].
    destruct (mu_free c); [|discriminate].
    destruct (fix_dup fixed && negb (c_dones c =? 0)); [inversion H; subst; cbn; auto|].
    destruct d; cbn [fix_abort fixed] in H; inversion H; subst; cbn; auto.
  - destruct (early s x).
    + destruct x; try (inversion H; subst; cbn; auto; fail).
      destruct (nth_error (calls s) i) as [c|]; [|discriminate].
      cbn [fix_abort fixed] in H; inversion H; subst; cbn; auto.
    + inversion H; subst; cbn; auto.
  - destruct x; try discriminate.
    + destruct b; [|destruct k]; inversion H; subst; cbn; split; auto; right; eauto.
    + destruct (nth_error (calls s) i) as [c|]; [|discriminate].
      destruct b; cbn [fix_abort fixed] in H; inversion H; subst; cbn; auto.
Qed.

Lemma reader_step_g s b s' fx : stat_inv s -> g_inv s -> reader_step fixed s b = Some (s', fx) -> g_inv s'.
Proof.
  intros Hsi G H.
  pose proof (stat_inv_step s (EReader b) s' fx Hsi H) as Hsi'.
  destruct (rd s) eqn:Erd; try (unfold reader_step in H; rewrite Erd in H; discriminate).
  (* read loop proper *)
  all: try (destruct (reader_step_pre _ _ _ _ H) as ((E1 & _ & _ & E4 & E5 & _) & _ & Hn); [rewrite Erd; exact I|];
            destruct (reader_pre_shape _ _ _ _ H) as (Es & [Eh|(k & p & Eh & Hp)]); [rewrite Erd; exact I| |];
            destruct G as (G1 & G2 & G3 & G4 & G5); unfold g_inv, past_ctx_wait; rewrite E1, E4, E5, Es, Eh;
            [ repeat split; auto; try tauto; try (intros X; exfalso; exact (Hn X)); fail
            | repeat split; auto; try tauto; try (intros X; exfalso; exact (Hn X));
              [ intros P; apply Forall_snoc; [apply G1; exact P|];
                unfold early_done; cbn; rewrite (not_ok_kcl _ (past_wait_not_ok s Hsi P)); discriminate
              | apply Forall_snoc; auto; unfold hres_ok; cbn; destruct Hp as [->| ->]; auto ] ]).
  all: destruct Hsi as (Hc & Hr & Hrest); unfold rd_ok, seen_ok in Hr; rewrite Erd in Hr;
    unfold reader_step, notify in H; rewrite Erd in H.
  - (* D0 *) inversion H; subst. eapply g_inv_same; eauto.
    destruct G as (G1 & G2 & G3 & G4 & G5). unfold g_inv, past_ctx_wait; cbn. repeat split; auto; try tauto; try discriminate.
  - (* D1 *)
    assert (Gsame : forall r, r <> RNone -> g_inv (set_rd s r)).
    { intros r Hr0. destruct G as (G1 & G2 & G3 & G4 & G5). unfold g_inv, past_ctx_wait; cbn.
      repeat split; auto; try tauto; try (intros X; congruence). }
    destruct seen; cbn [fix_cas fixed] in H;
      try (inversion H; subst; apply Gsame; discriminate).
    all: destruct (status_eqb (st s) _) eqn:Eq; inversion H; subst; try (apply Gsame; discriminate).
    all: apply status_eqb_eq in Eq;
      eapply (g_inv_st_change s); eauto; cbn; try discriminate; try reflexivity; rewrite ?Erd; try discriminate;
      rewrite Eq; discriminate.
  - inversion H; subst. destruct G as (G1 & G2 & G3 & G4 & G5). unfold g_inv, past_ctx_wait; cbn.
    repeat split; auto; try tauto; try discriminate.
  - destruct (ctxWG s); inversion H; subst. destruct G as (G1 & G2 & G3 & G4 & G5). unfold g_inv, past_ctx_wait; cbn.
    repeat split; auto; try tauto; try discriminate.
  - destruct (all_visited (calls s)); inversion H; subst. destruct G as (G1 & G2 & G3 & G4 & G5). unfold g_inv, past_ctx_wait; cbn.
    repeat split; auto; try tauto; try discriminate.
  - destruct seen; inversion H; subst; destruct G as (G1 & G2 & G3 & G4 & G5); unfold g_inv, past_ctx_wait; cbn;
      repeat split; auto; try tauto; discriminate.
  - (* D6: socket close while passive-closing *)
    inversion H; subst. destruct G as (G1 & G2 & G3 & G4 & G5). unfold g_inv, past_ctx_wait; cbn.
    repeat split; auto; try tauto; try discriminate. intros _. left. rewrite Hr. reflexivity.
  - (* D8 *)
    assert (E : s' = set_rd (set_hooks (notify (set_st s PassiveClosed)) (S (hooks (notify (set_st s PassiveClosed))))) RDone)
      by (inversion H; reflexivity).
    subst s'. eapply (g_inv_st_change s); eauto; unfold notify; cbn; destruct (notified s); cbn; auto;
      try discriminate; rewrite ?Erd; try discriminate; rewrite Hr; discriminate.
  - destruct (all_visited (calls s)); inversion H; subst. destruct G as (G1 & G2 & G3 & G4 & G5). unfold g_inv, past_ctx_wait; cbn.
    repeat split; auto; try tauto; try discriminate.
Qed.

Lemma g_inv_step s e s' fx : stat_inv s -> wg_ok s -> g_inv s -> sstep s e = Some (s', fx) -> g_inv s'.
Proof.
  intros Hsi Hw G H. unfold sstep, sstep_cfg in H. destruct e.
  - destruct (conn s); inversion H; subst. eapply g_inv_same; eauto.
  - unfold noeff, frame_step in H. destruct (rd s) eqn:Erd; try discriminate.
    destruct G as (G1 & G2 & G3 & G4 & G5).
    destruct f; inversion H; subst; unfold g_inv, past_ctx_wait; cbn; repeat split; auto; try tauto; discriminate.
  - unfold noeff, close_call in H. destruct (cl s) eqn:Ecl; try discriminate. inversion H; subst.
    destruct G as (G1 & G2 & G3 & G4 & G5). unfold g_inv, past_ctx_wait in *; cbn. rewrite Ecl in G1.
    repeat split; auto; tauto.
  - inversion H; subst. eapply g_inv_same; eauto.
  - (* Push *)
    inversion H; subst. destruct G as (G1 & G2 & G3 & G4 & G5). unfold g_inv, past_ctx_wait, push_call; cbn.
    repeat split; auto; try tauto.
    + intros P. apply Forall_snoc; [apply G1; exact P|].
      unfold early_done; cbn. rewrite (not_ok_kcl _ (past_wait_not_ok s Hsi P)). discriminate.
    + intros X. apply Forall_snoc; auto.
    + apply Forall_snoc; auto. unfold hres_ok; cbn. discriminate.
  - eapply closer_step_g; eauto.
  - eapply reader_step_g; eauto.
  - unfold noeff in H. destruct (visit_step s i) eqn:E; inversion H; subst.
    destruct (visit_step_ctrl _ _ _ E) as (E1 & _ & _ & E4 & E5 & E6 & _).
    eapply g_inv_same; eauto;
      unfold visit_step in E; destruct (rd_cancel (rd s)) eqn:Erc; try discriminate; unfold visit_body in E;
      destruct (nth_error (calls s) i) as [c|]; try discriminate;
      destruct (c_tab c && negb (c_vis c) && mu_free c); try discriminate;
      destruct (negb (c_rep c) && cstat_ok (c_stat c)); inversion E; reflexivity.
  - unfold noeff in H. destruct (caller_step s i veto wr) eqn:E; inversion H; subst.
    destruct (caller_step_ctrl _ _ _ _ _ E) as (E1 & _ & _ & E4 & E5 & E6 & _).
    eapply g_inv_same; eauto;
      unfold caller_step in E; destruct (nth_error (calls s) i) as [c|]; try discriminate;
      destruct (c_a c); try discriminate;
      repeat match type of E with
             | context [match ?x with _ => _ end] => destruct x; try discriminate E
             | context [if ?x then _ else _] => destruct x; try discriminate E
             end; inversion E; reflexivity.
  - unfold noeff in H. destruct (reply_step s i) eqn:E; inversion H; subst.
    destruct (reply_step_ctrl _ _ _ E) as (E1 & _ & _ & E4 & E5 & E6 & _).
    eapply g_inv_same; eauto;
      unfold reply_step in E; destruct (nth_error (calls s) i) as [c|]; try discriminate;
      destruct (c_h c); try discriminate; inversion E; reflexivity.
  - unfold noeff in H. destruct (handler_step s j veto wr) eqn:E; inversion H; subst.
    eapply handler_step_g; eauto.
  - unfold noeff in H. destruct (hwait_step s j i) eqn:E; inversion H; subst.
    eapply hwait_step_g; eauto.
Qed.



Definition c8_inv (s : sess) : Prop := calls_ok s /\ wg_ok s /\ g_inv s.

Lemma reach_c8 s : reach_sess s -> c8_inv s.
Proof.
  apply lift_reach.
  - intros id. unfold c8_inv, calls_ok, wg_ok, g_inv, past_ctx_wait; cbn.
    repeat split; auto; try constructor; try discriminate; try tauto; try (intros [[]|X]; discriminate).
  - intros id. unfold c8_inv, calls_ok, wg_ok, g_inv, past_ctx_wait; cbn.
    repeat split; auto; try constructor; try discriminate; try tauto; try (intros [[]|X]; discriminate).
  - intros id. unfold c8_inv, calls_ok, wg_ok, g_inv, past_ctx_wait; cbn.
    repeat split; auto; try constructor; try discriminate; try tauto; try (intros [[]|X]; discriminate).
  - intros s0 id (A & (B1 & B2) & C). unfold c8_inv. split; [exact A|]. split; [split; [exact B1|exact B2]|].
    eapply g_inv_same; [| | | | | |exact C]; reflexivity.
  - intros s0 (A & (B1 & B2) & (G1 & G2 & G3 & G4 & G5)) Hcl. unfold c8_inv.
    split; [exact A|]. split; [split; [exact B1|exact B2]|].
    unfold g_inv, past_ctx_wait in *; cbn. rewrite Hcl in G1. repeat split; auto; tauto.
  - intros s0 e s1 fx (Hsi & Hic) (A & B & C) H. unfold c8_inv. split; [|split].
    + eapply calls_ok_step; eauto. apply Hic.
    + eapply wg_ok_step; eauto. apply Hic.
    + eapply g_inv_step; eauto.
Qed.

(* C08 entered_before_close_gets_reply *)
Lemma entered_before_close_lemma s j h :
  reach_sess s -> nth_error (hctxs s) j = Some h -> k_kind h = KCall -> k_cl h = false ->
  (k_pc h = K4 \/ k_pc h = KDone) ->
  k_res h = WrWritten \/ k_res h = WrFailedOther \/ passive (st s) = true.
Proof.
  intros H Hn Hk Hc Hp. destruct (reach_c8 s H) as (_ & _ & (_ & _ & _ & _ & G5)).
  pose proof (Forall_nth _ _ _ _ G5 Hn Hk Hc) as X. destruct Hp as [Hp|Hp]; rewrite Hp in X; exact X.
Qed.

(* the reply write of such a handler is never refused by the status check while the
   session is not passively closing: it is admitted in ok and in active-closing *)
Lemma entered_handler_admitted s j h :
  reach_sess s -> nth_error (hctxs s) j = Some h -> k_kind h = KCall -> k_cl h = false ->
  k_pc h = K2 -> passive (st s) = false -> admits (st s) true = true.
Proof.
  intros H Hn Hk Hc Hp Hps. pose proof (reach_sinv s H) as ((_ & _ & _ & _ & (_ & _ & He3 & _)) & _).
  destruct (reach_c8 s H) as (_ & _ & (G1 & _ & G3 & G4 & _)).
  destruct (st s) eqn:Est; cbn in *; auto; try discriminate; exfalso.
  - pose proof (Forall_nth _ _ _ _ (G3 (He3 eq_refl)) Hn). congruence.
  - assert (P : past_ctx_wait s) by (right; auto).
    pose proof (Forall_nth _ _ _ _ (G1 P) Hn Hc). congruence.
  - destruct G4; congruence.
  - destruct G4; congruence.
Qed.

(* C08 close_returns_after_handlers *)
Lemma close_returns_after_handlers_lemma s j h :
  reach_sess s -> past_ctx_wait s -> nth_error (hctxs s) j = Some h -> k_cl h = false -> k_pc h = KDone.
Proof.
  intros H P Hn Hc. destruct (reach_c8 s H) as (_ & _ & (G1 & _)).
  apply (Forall_nth _ _ _ _ (G1 P) Hn Hc).
Qed.

(* Close() has returned <-> closeLocked ran to its end on an active-closed session *)
Lemma close_returned_past_wait s : st s = ActiveClosed -> past_ctx_wait s.
Proof. intros H. right. exact H. Qed.

(* C08 peer_close_joins_all: peer.Close starts Close on every live session *)
Lemma start_close_marks ss m s : nth_error (start_close ss m) m = Some s -> cl s <> CIdle.
Proof.
  unfold start_close. destruct (nth_error ss m) as [t|] eqn:E; [|congruence].
  destruct (cl t) eqn:Ec; intros H.
  - rewrite (nth_error_upd_eq _ _ _ _ E) in H. inversion H; subst. cbn. discriminate.
  - assert (t = s) by congruence; subst; congruence.
  - assert (t = s) by congruence; subst; congruence.
  - assert (t = s) by congruence; subst; congruence.
  - assert (t = s) by congruence; subst; congruence.
  - assert (t = s) by congruence; subst; congruence.
  - assert (t = s) by congruence; subst; congruence.
  - assert (t = s) by congruence; subst; congruence.
  - assert (t = s) by congruence; subst; congruence.
Qed.

Lemma sc_rel_marked t0 t : sc_rel t0 t -> cl t0 <> CIdle -> cl t <> CIdle.
Proof. intros [->|(H & ->)] Hc; auto; cbn; discriminate. Qed.

Lemma fold_start_close_marks (l : index) : forall ss k n s,
  In (k, n) l -> nth_error (fold_left (fun ss kn => start_close ss (snd kn)) l ss) n = Some s -> cl s <> CIdle.
Proof.
  induction l as [|[k0 n0] l IH]; intros ss k n s Hin Hn; [destruct Hin|].
  cbn in Hn. destruct Hin as [E|Hin].
  - inversion E; subst.
    destruct (ss_rel_nth _ _ _ _ (fold_start_close_rel l (start_close ss n)) Hn) as (t0 & Ht0 & Hr).
    eapply sc_rel_marked; eauto. eapply start_close_marks; eauto.
  - eapply IH; eauto.
Qed.

Lemma idx_get_in ix id n : idx_get ix id = Some n -> In (id, n) ix.
Proof.
  induction ix as [|[k m] r IH]; cbn; [discriminate|]. destruct (N.eqb k id) eqn:E.
  - intros H; inversion H; subst. apply N.eqb_eq in E. subst. left; reflexivity.
  - intros H. right. auto.
Qed.

Lemma peer_close_joins_all_lemma es p p' n s :
  prun peer0 es = Some p -> pstep p PPeerClose = Some p' ->
  nth_error (sessions p') n = Some s -> st s = Ok -> cl s = C0.
Proof.
  intros Hr Hs Hn Hok. pose proof (prun_pinv es _ _ pinv0 Hr) as Hp.
  pose proof (pinv_step _ _ _ Hp Hs) as [Hs' _ _].
  pose proof (Forall_nth _ _ _ _ Hs' Hn) as ((Hc & _) & _).
  unfold pstep, pstep_cfg in Hs. inversion Hs; subst; clear Hs. cbn in *.
  destruct (ss_rel_nth _ _ _ _ (fold_start_close_rel (pindex p) (sessions p)) Hn) as (t0 & Ht0 & Hrel).
  destruct Hp as [_ _ Hok0].
  assert (Hok' : st t0 = Ok) by (rewrite <- (sc_rel_st _ _ Hrel); exact Hok).
  assert (Hne : cl s <> CIdle).
  { destruct (Hok0 n t0 Ht0 Hok') as [Hi|Hi].
    - eapply fold_start_close_marks; [apply idx_get_in; exact Hi|exact Hn].
    - rewrite (sc_rel_c0 _ _ Hrel Hi). discriminate. }
  unfold cl_ok in Hc. destruct (cl s); auto; try congruence.
Qed.
