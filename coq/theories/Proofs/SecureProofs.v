(* Lemmas about Model/Secure.v.  AES, the key version, the user codec and the envelope codec
   are section variables; what is assumed of them is stated as section hypotheses and shows
   up as premises of every lemma after the section is closed. *)
From Coq Require Import Strings.String Strings.Byte.
From Coq Require Import List Arith NArith ZArith Bool Lia.
From Verif Require Import Base.Bytes Model.Secure.
Import ListNotations.

Lemma is_lit_true_lit : is_lit (Some (str "true")) "true" = true.
Proof. reflexivity. Qed.

Lemma is_secure_true xs : is_lit xs "true" = true -> is_secure xs = (true, xs).
Proof. unfold is_secure. intros ->. reflexivity. Qed.

Lemma is_secure_false xs : is_lit xs "true" = false -> is_secure xs = (false, None).
Proof. unfold is_secure. intros ->. reflexivity. Qed.

(* application entries never look like the plugin's entries *)
Lemma plugin_view_app_only m :
  Forall (fun k => match k with AppKey _ => True | _ => False end) m ->
  plugin_view true m = mkSwap false false.
Proof.
  intros H. unfold plugin_view, has_key. f_equal.
  - induction H as [|k m Hk _ IH]; cbn [existsb]; [reflexivity|]. destruct k; try contradiction. exact IH.
  - induction H as [|k m Hk _ IH]; cbn [existsb]; [reflexivity|]. destruct k; try contradiction. exact IH.
Qed.

Section Secure.
  Variable key : Type.
  Variable V : Type.
  Variable zarg zres : V.
  Variable mar : V -> option bytes.
  Variable unm : bytes -> option V.
  Variable enc : key -> bytes -> bytes.
  Variable dec : key -> bytes -> option bytes.
  Variable keyver : key -> bytes.
  Variable wrap : bytes -> bytes -> option bytes.
  Variable unwrap : bytes -> option (bytes * bytes).

  Notation pre_write := (pre_write key V mar enc keyver).
  Notation wire_body := (wire_body V mar wrap).
  Notation read_body := (read_body key V unm dec keyver unwrap).
  Notation post_read := (post_read key V unm dec keyver).
  Notation call_flow := (call_flow key V zarg zres mar unm enc dec keyver wrap unwrap).
  Notation push_flow := (push_flow key V zarg mar unm enc dec keyver wrap unwrap).
  Notation reply_enveloped := (reply_enveloped key V zarg mar unm enc dec keyver wrap unwrap).
  Notation plain_call := (plain_call V zarg zres mar unm).

  (* ---- facts that need no assumption about the libraries ---- *)

  (* marked (or accept entry present): the body handed to the protocol is the envelope of the
     cipher text of the encoded value, whatever else the message carries *)
  Lemma pre_write_marked k xs acc v b :
    is_lit xs "true" = true \/ acc = true -> mar v = Some b ->
    pre_write k true xs acc v = WOk V (Some (str "true")) (OEnv V (keyver k) (enc k b)).
  Proof.
    intros Hm Hb. unfold Secure.pre_write. cbn [negb].
    destruct (is_lit xs "true") eqn:E.
    - rewrite (is_secure_true _ E). cbn [negb andb]. rewrite Hb. reflexivity.
    - rewrite (is_secure_false _ E). destruct Hm as [Hm| ->]; [discriminate|].
      cbn [negb andb]. rewrite Hb. reflexivity.
  Qed.

  Lemma pre_write_unmarked k xs v :
    is_lit xs "true" = false -> pre_write k true xs false v = WOk V None (OPlain V v).
  Proof.
    intros E. unfold Secure.pre_write. cbn [negb]. rewrite (is_secure_false _ E). reflexivity.
  Qed.

  Lemma pre_read_true xa : pre_read (Some (str "true")) xa = (true, negb (is_lit xa "false"), Some (str "true")).
  Proof. reflexivity. Qed.

  Lemma pre_read_none xa : pre_read None xa = (false, is_lit xa "true", None).
  Proof. reflexivity. Qed.

  Lemma pre_write_env_shape k sn xs acc v xs2 ver ct :
    pre_write k sn xs acc v = WOk V xs2 (OEnv V ver ct) ->
    xs2 = Some (str "true") /\ ver = keyver k /\ exists b, mar v = Some b /\ ct = enc k b.
  Proof.
    unfold Secure.pre_write. destruct (negb sn); [discriminate|].
    destruct (is_secure xs) as [sec xs']. destruct (negb sec && negb acc); [discriminate|].
    destruct (mar v) as [b|]; [|discriminate]. intros E; inversion E; subst. eauto.
  Qed.

  (* the request of a call as it is written *)
  Lemma request_written kc ks q h :
    (is_lit (q_secure V q) "true" = true ->
       forall b, mar (q_arg V q) = Some b ->
       c_req_secure V (call_flow kc ks q h) = Some (str "true") /\
       c_req_wire V (call_flow kc ks q h) = wrap (keyver kc) (enc kc b)) /\
    (is_lit (q_secure V q) "true" = false ->
       c_req_secure V (call_flow kc ks q h) = None /\
       c_req_wire V (call_flow kc ks q h) = mar (q_arg V q)).
  Proof.
    split.
    - intros E b Hb. unfold Secure.call_flow. rewrite (pre_write_marked kc _ false _ b (or_introl E) Hb).
      cbn [Secure.wire_body]. destruct (wrap (keyver kc) (enc kc b)) as [w1|]; [|split; reflexivity].
      rewrite pre_read_true.
      destruct (read_body zarg ks true w1); try (split; reflexivity).
      destruct (negb (h_ok V h)); [split; reflexivity|].
      destruct (pre_write ks true _ _ _); [|split; reflexivity].
      destruct (wire_body b0); [|split; reflexivity].
      destruct (pre_read xs None) as [[u ?] ?]. destruct (read_body zres kc u b1); split; reflexivity.
    - intros E. unfold Secure.call_flow. rewrite (pre_write_unmarked kc _ _ E).
      cbn [Secure.wire_body]. destruct (mar (q_arg V q)) as [w1|]; [|split; reflexivity].
      rewrite pre_read_none.
      destruct (read_body zarg ks false w1); try (split; reflexivity).
      destruct (negb (h_ok V h)); [split; reflexivity|].
      destruct (pre_write ks true _ _ _); [|split; reflexivity].
      destruct (wire_body b); [|split; reflexivity].
      destruct (pre_read xs None) as [[u ?] ?]. destruct (read_body zres kc u b0); split; reflexivity.
  Qed.

  (* the accept decision the server stores for the reply *)
  Definition reply_wanted (q : request V) (h : handler V) : bool :=
    is_lit (h_secure V h) "true" ||
    (if is_lit (q_secure V q) "true" then negb (is_lit (q_accept V q) "false")
     else is_lit (q_accept V q) "true").

  Lemma reply_enveloped_exact kc ks q h a :
    c_handler_arg V (call_flow kc ks q h) = Some a ->
    reply_enveloped kc ks q h =
      h_ok V h && (match mar (h_fun V h a) with Some _ => true | None => false end) && reply_wanted q h.
  Proof.
    unfold Secure.call_flow, Secure.reply_enveloped, reply_wanted.
    destruct (is_lit (q_secure V q) "true") eqn:E.
    - destruct (mar (q_arg V q)) as [b|] eqn:Hb.
      + rewrite (pre_write_marked kc _ false _ b (or_introl E) Hb). cbn [Secure.wire_body].
        destruct (wrap _ _) as [w1|]; [|discriminate]. rewrite pre_read_true.
        destruct (read_body zarg ks true w1) as [a'| |]; try discriminate.
        destruct (h_ok V h) eqn:Hok; cbn [negb andb].
        * intros Ha. assert (a' = a) as ->.
          { destruct (pre_write ks true _ _ _); [destruct (wire_body _); [destruct (pre_read _ None) as [[u ?] ?]; destruct (read_body zres kc u _)|]|];
              cbn in Ha; congruence. }
          clear Ha. unfold Secure.pre_write. cbn [negb].
          destruct (is_lit (h_secure V h) "true") eqn:Eh.
          -- rewrite (is_secure_true _ Eh). cbn [negb andb orb]. destruct (mar (h_fun V h a)); reflexivity.
          -- rewrite (is_secure_false _ Eh). cbn [negb andb orb].
             destruct (negb (is_lit (q_accept V q) "false")); cbn [negb]; [destruct (mar (h_fun V h a)); reflexivity|].
             rewrite andb_false_r. reflexivity.
        * reflexivity.
      + unfold Secure.pre_write. cbn [negb]. rewrite (is_secure_true _ E). cbn [negb andb]. rewrite Hb. discriminate.
    - rewrite (pre_write_unmarked kc _ _ E). cbn [Secure.wire_body].
      destruct (mar (q_arg V q)) as [w1|]; [|discriminate]. rewrite pre_read_none.
      destruct (read_body zarg ks false w1) as [a'| |]; try discriminate.
      destruct (h_ok V h) eqn:Hok; cbn [negb andb].
      + intros Ha. assert (a' = a) as ->.
        { destruct (pre_write ks true _ _ _); [destruct (wire_body _); [destruct (pre_read _ None) as [[u ?] ?]; destruct (read_body zres kc u _)|]|];
            cbn in Ha; congruence. }
        clear Ha. unfold Secure.pre_write. cbn [negb].
        destruct (is_lit (h_secure V h) "true") eqn:Eh.
        * rewrite (is_secure_true _ Eh). cbn [negb andb orb]. destruct (mar (h_fun V h a)); reflexivity.
        * rewrite (is_secure_false _ Eh). cbn [negb andb orb].
          destruct (is_lit (q_accept V q) "true"); cbn [negb]; [destruct (mar (h_fun V h a)); reflexivity|].
          rewrite andb_false_r. reflexivity.
      + reflexivity.
  Qed.

  (* an enveloped reply is the envelope of the cipher text of the encoded result *)
  Lemma reply_written kc ks q h :
    reply_enveloped kc ks q h = true ->
    exists a br, c_handler_arg V (call_flow kc ks q h) = Some a /\ mar (h_fun V h a) = Some br /\
      c_rep_secure V (call_flow kc ks q h) = Some (str "true") /\
      c_rep_wire V (call_flow kc ks q h) = wrap (keyver ks) (enc ks br).
  Proof.
    unfold Secure.reply_enveloped, Secure.call_flow.
    destruct (pre_write kc true (q_secure V q) false (q_arg V q)) as [xs1 ob1|]; [|discriminate].
    destruct (wire_body ob1) as [w1|]; [|discriminate].
    destruct (pre_read xs1 (q_accept V q)) as [[use1 acc] m1].
    destruct (read_body zarg ks use1 w1) as [a| |]; try discriminate.
    destruct (h_ok V h); cbn [negb]; [|discriminate].
    destruct (pre_write ks true (h_secure V h) acc (h_fun V h a)) as [xs2 ob2|] eqn:PW; [|discriminate].
    destruct ob2 as [|ver ct]; [discriminate|]. intros _.
    destruct (pre_write_env_shape _ _ _ _ _ _ _ _ PW) as (-> & -> & br & Hbr & ->).
    exists a, br. cbn [Secure.wire_body].
    destruct (wrap (keyver ks) (enc ks br)) as [w2|]; [|cbn; auto].
    rewrite pre_read_true. destruct (read_body zres kc true w2); cbn; auto.
  Qed.

  (* call_flow is the client's pre-write hook followed by serve_call on what was written *)
  Lemma call_flow_server_half kc ks q h xs1 ob1 w1 :
    pre_write kc true (q_secure V q) false (q_arg V q) = WOk V xs1 ob1 -> wire_body ob1 = Some w1 ->
    let o := call_flow kc ks q h in
    let s := serve_call key V zarg mar unm enc dec keyver wrap unwrap ks xs1 (q_accept V q) w1 h in
    c_handler_arg V o = s_handler_arg V s /\ c_rep_secure V o = s_rep_secure V s /\
    c_rep_wire V o = s_rep_wire V s /\
    (s_status V s <> SOk -> c_status V o = s_status V s).
  Proof.
    intros Hw Hb. cbn zeta. unfold Secure.call_flow, Secure.serve_call. rewrite Hw, Hb.
    destruct (pre_read xs1 (q_accept V q)) as [[use1 acc] m1].
    destruct (read_body zarg ks use1 w1); try (cbn; auto; fail).
    destruct (negb (h_ok V h)); [cbn; auto|].
    destruct (pre_write ks true (h_secure V h) acc (h_fun V h v)); [|cbn; auto].
    destruct (wire_body b); [|cbn; auto].
    destruct (pre_read xs None) as [[use2 a2] m2].
    destruct (read_body zres kc use2 b0); cbn; repeat split; auto; intros X; congruence.
  Qed.

  (* ---- per-message swap ---- *)
  Notation serve_call := (serve_call key V zarg mar unm enc dec keyver wrap unwrap).
  Notation serve_call_sw := (serve_call_sw key V zarg mar unm enc dec keyver wrap unwrap).
  Notation serve_seq := (serve_seq key V zarg mar unm enc dec keyver wrap unwrap).

  Lemma serve_call_sw_empty ks xs xa w h :
    fst (serve_call_sw ks (mkSwap false false) xs xa w h) = serve_call ks xs xa w h.
  Proof.
    unfold Secure.serve_call_sw, Secure.serve_call. destruct (pre_read xs xa) as [[use1 acc1] m1].
    cbn [sw_acc sw_raw orb].
    destruct (read_body zarg ks use1 w); try reflexivity.
    destruct use1; cbn [negb andb].
    - destruct (negb (h_ok V h)); [reflexivity|].
      destruct (pre_write ks true (h_secure V h) acc1 (h_fun V h v)); [|reflexivity].
      destruct (wire_body b); reflexivity.
    - destruct (negb (h_ok V h)); [reflexivity|].
      destruct (pre_write ks true (h_secure V h) acc1 (h_fun V h v)); [|reflexivity].
      destruct (wire_body b); reflexivity.
  Qed.

  (* every message is served from the session swap alone: no message's plugin entries reach a
     later message *)
  Lemma serve_seq_independent ks S ms :
    serve_seq false ks S ms =
    map (fun m => let '(xs, xa, w, h) := m in fst (serve_call_sw ks S xs xa w h)) ms.
  Proof.
    induction ms as [|[[[xs xa] w] h] r IH]; cbn [Secure.serve_seq map]; [reflexivity|].
    destruct (serve_call_sw ks S xs xa w h) as [o S']. cbn [fst]. rewrite IH. reflexivity.
  Qed.

  Lemma serve_seq_fresh_session ks ms :
    serve_seq false ks (mkSwap false false) ms =
    map (fun m => let '(xs, xa, w, h) := m in serve_call ks xs xa w h) ms.
  Proof.
    rewrite serve_seq_independent. apply map_ext. intros [[[xs xa] w] h]. apply serve_call_sw_empty.
  Qed.

  (* application data in the session swap, whatever its string keys, is invisible to the plugin *)
  Lemma app_swap_invisible ks m xs xa w h :
    Forall (fun k => match k with AppKey _ => True | _ => False end) m ->
    fst (serve_call_sw ks (plugin_view true m) xs xa w h) = serve_call ks xs xa w h.
  Proof. intros H. rewrite (plugin_view_app_only m H). apply serve_call_sw_empty. Qed.

  (* the handler's returned status and the hook's test, composed: whatever the kind of handler, a
     nil status and a non-nil status with code OK both leave ctx.Status() nil *)
  Lemma ok_status_object_is_ok h : h_ret V h <> RetErr -> h_ok V h = true.
  Proof. unfold h_ok, router_sets_stat. destruct (h_ret V h); intros Hn; try reflexivity. exfalso. apply Hn. reflexivity. Qed.

  Lemma h_ok_iff h : h_ok V h = true <-> h_ret V h <> RetErr.
  Proof.
    split; [|apply ok_status_object_is_ok].
    unfold h_ok, router_sets_stat. destruct (h_ret V h); cbn; intros E; try discriminate; intros X; discriminate.
  Qed.

  Lemma err_status_not_ok h : h_ret V h = RetErr -> h_ok V h = false.
  Proof. unfold h_ok, router_sets_stat. intros ->. reflexivity. Qed.

  (* no marker anywhere: the plugin is invisible, for any pair of keys *)
  Lemma unmarked_is_plain kc ks q h :
    is_lit (q_secure V q) "true" = false -> is_lit (q_accept V q) "true" = false ->
    is_lit (h_secure V h) "true" = false ->
    let o := call_flow kc ks q h in
    (c_req_wire V o, c_handler_arg V o, c_rep_wire V o, c_result V o) = plain_call q h /\
    c_req_secure V o = None.
  Proof.
    intros E Ea Eh. cbn zeta. unfold Secure.call_flow, Secure.plain_call.
    rewrite (pre_write_unmarked kc _ _ E). cbn [Secure.wire_body].
    destruct (mar (q_arg V q)) as [w1|]; [|split; reflexivity].
    rewrite pre_read_none, Ea. unfold Secure.read_body.
    destruct w1 as [|x w1].
    - destruct (negb (h_ok V h)); [split; reflexivity|].
      rewrite (pre_write_unmarked ks _ _ Eh). cbn [Secure.wire_body].
      destruct (mar (h_fun V h zarg)) as [w2|]; [|split; reflexivity].
      rewrite pre_read_none. destruct w2 as [|y w2]; [split; reflexivity|].
      destruct (unm (y :: w2)); split; reflexivity.
    - destruct (unm (x :: w1)) as [a|]; [|split; reflexivity].
      destruct (negb (h_ok V h)); [split; reflexivity|].
      rewrite (pre_write_unmarked ks _ _ Eh). cbn [Secure.wire_body].
      destruct (mar (h_fun V h a)) as [w2|]; [|split; reflexivity].
      rewrite pre_read_none. destruct w2 as [|y w2]; [split; reflexivity|].
      destruct (unm (y :: w2)); split; reflexivity.
  Qed.

  (* ---- facts that use the library hypotheses ---- *)
  Hypothesis dec_enc : forall k x, dec k (enc k x) = Some x.
  Hypothesis unm_mar : forall x b, mar x = Some b -> unm b = Some x.
  Hypothesis unwrap_wrap : forall v c w, wrap v c = Some w -> unwrap w = Some (v, c) /\ w <> [].
  Hypothesis keyver_nonempty : forall k, keyver k <> [].

  Lemma post_read_own z k b v : mar v = Some b -> post_read z k (keyver k, enc k b) = ROk V v.
  Proof.
    intros Hb. unfold Secure.post_read. pose proof (keyver_nonempty k) as Hk.
    destruct (keyver k) as [|x r]; [congruence|].
    rewrite bytes_eqb_refl. cbn [negb]. rewrite dec_enc, (unm_mar _ _ Hb). reflexivity.
  Qed.

  Lemma post_read_foreign z k k' c : keyver k <> keyver k' -> post_read z k' (keyver k, c) = RPlugin V.
  Proof.
    intros Hne. unfold Secure.post_read. pose proof (keyver_nonempty k) as Hk.
    destruct (bytes_eqb (keyver k) (keyver k')) eqn:B; [apply bytes_eqb_eq in B; contradiction|].
    destruct (keyver k) as [|x r]; [congruence|]. reflexivity.
  Qed.

  (* one hop: whatever the markers, what is written is read back as the original value *)
  Lemma hop z k xs acc v b xa :
    mar v = Some b -> b <> [] -> (forall ver ct, wrap ver ct <> None) ->
    exists xs' ob w,
      pre_write k true xs acc v = WOk V xs' ob /\ wire_body ob = Some w /\
      read_body z k (fst (fst (pre_read xs' xa))) w = ROk V v.
  Proof.
    intros Hb Hne Hcarry.
    assert (Henv : is_lit xs "true" = true \/ acc = true ->
              exists xs' ob w, pre_write k true xs acc v = WOk V xs' ob /\ wire_body ob = Some w /\
                read_body z k (fst (fst (pre_read xs' xa))) w = ROk V v).
    { intros Hm. exists (Some (str "true")), (OEnv V (keyver k) (enc k b)).
      destruct (wrap (keyver k) (enc k b)) as [w|] eqn:W; [|exfalso; eapply Hcarry; exact W].
      exists w. split; [apply pre_write_marked; auto|]. split; [exact W|].
      rewrite pre_read_true. cbn [fst]. unfold Secure.read_body.
      destruct (unwrap_wrap _ _ _ W) as [Hu Hw]. destruct w; [congruence|]. rewrite Hu.
      apply post_read_own. exact Hb. }
    destruct (is_lit xs "true") eqn:E; [apply Henv; auto|].
    destruct acc; [apply Henv; auto|].
    exists None, (OPlain V v), b. split; [apply pre_write_unmarked; exact E|].
    split; [exact Hb|]. rewrite pre_read_none. cbn [fst]. unfold Secure.read_body.
    destruct b; [congruence|]. rewrite (unm_mar _ _ Hb). reflexivity.
  Qed.

  Lemma end_to_end k q h ba br :
    (forall ver ct, wrap ver ct <> None) ->
    mar (q_arg V q) = Some ba -> ba <> [] ->
    h_ok V h = true -> mar (h_fun V h (q_arg V q)) = Some br -> br <> [] ->
    let o := call_flow k k q h in
    c_handler_arg V o = Some (q_arg V q) /\ c_result V o = Some (h_fun V h (q_arg V q)) /\
    c_status V o = SOk.
  Proof.
    intros Hcarry Ha Hane Hok Hr Hrne. cbn zeta. unfold Secure.call_flow.
    destruct (hop zarg k (q_secure V q) false (q_arg V q) ba (q_accept V q) Ha Hane Hcarry)
      as (xs1 & ob1 & w1 & -> & -> & Hread).
    destruct (pre_read xs1 (q_accept V q)) as [[use1 acc] m1]. cbn [fst] in Hread. rewrite Hread.
    rewrite Hok. cbn [negb].
    destruct (hop zres k (h_secure V h) acc (h_fun V h (q_arg V q)) br None Hr Hrne Hcarry)
      as (xs2 & ob2 & w2 & -> & -> & Hread2).
    destruct (pre_read xs2 None) as [[use2 acc2] m2]. cbn [fst] in Hread2. rewrite Hread2.
    cbn. auto.
  Qed.

  Lemma push_end_to_end k q ba :
    (forall ver ct, wrap ver ct <> None) -> mar (q_arg V q) = Some ba -> ba <> [] ->
    p_handler_arg V (push_flow k k q) = Some (q_arg V q).
  Proof.
    intros Hcarry Ha Hane. unfold Secure.push_flow.
    destruct (hop zarg k (q_secure V q) false (q_arg V q) ba (q_accept V q) Ha Hane Hcarry)
      as (xs1 & ob1 & w1 & -> & -> & Hread).
    destruct (pre_read xs1 (q_accept V q)) as [[use1 acc] m1]. cbn [fst] in Hread. rewrite Hread.
    reflexivity.
  Qed.

  (* an envelope made with a key of another version is refused by the reader *)
  Lemma foreign_envelope_refused z k k' b w :
    keyver k <> keyver k' -> wrap (keyver k) (enc k b) = Some w ->
    read_body z k' true w = RPlugin V.
  Proof.
    intros Hk W. unfold Secure.read_body. destruct (unwrap_wrap _ _ _ W) as [Hu Hw].
    destruct w; [congruence|]. rewrite Hu. apply post_read_foreign. exact Hk.
  Qed.

  Lemma wrong_key_request kc ks q h :
    keyver kc <> keyver ks -> is_lit (q_secure V q) "true" = true ->
    let o := call_flow kc ks q h in
    c_handler_arg V o = None /\ c_result V o = None /\ c_status V o <> SOk.
  Proof.
    intros Hk E. cbn zeta. unfold Secure.call_flow, Secure.pre_write. cbn [negb].
    rewrite (is_secure_true _ E). cbn [negb andb].
    destruct (mar (q_arg V q)) as [b|]; [|cbn; repeat split; discriminate].
    cbn [Secure.wire_body]. destruct (wrap (keyver kc) (enc kc b)) as [w1|] eqn:W;
      [|cbn; repeat split; discriminate].
    rewrite pre_read_true. rewrite (foreign_envelope_refused zarg kc ks b w1 Hk W).
    cbn. repeat split; discriminate.
  Qed.

  Lemma wrong_key_push kc ks q :
    keyver kc <> keyver ks -> is_lit (q_secure V q) "true" = true ->
    p_handler_arg V (push_flow kc ks q) = None.
  Proof.
    intros Hk E. unfold Secure.push_flow, Secure.pre_write. cbn [negb].
    rewrite (is_secure_true _ E). cbn [negb andb].
    destruct (mar (q_arg V q)) as [b|]; [|reflexivity].
    cbn [Secure.wire_body]. destruct (wrap (keyver kc) (enc kc b)) as [w1|] eqn:W; [|reflexivity].
    rewrite pre_read_true. rewrite (foreign_envelope_refused zarg kc ks b w1 Hk W). reflexivity.
  Qed.

  (* request in clear, reply enveloped by a server holding another key: not delivered *)
  Lemma wrong_key_reply kc ks q h :
    keyver kc <> keyver ks -> reply_enveloped kc ks q h = true ->
    let o := call_flow kc ks q h in c_result V o = None /\ c_status V o <> SOk.
  Proof.
    intros Hk. cbn zeta. unfold Secure.reply_enveloped, Secure.call_flow.
    destruct (pre_write kc true (q_secure V q) false (q_arg V q)) as [xs1 ob1|]; [|discriminate].
    destruct (wire_body ob1) as [w1|]; [|discriminate].
    destruct (pre_read xs1 (q_accept V q)) as [[use1 acc] m1].
    destruct (read_body zarg ks use1 w1) as [a| |]; try discriminate.
    destruct (h_ok V h); cbn [negb]; [|discriminate].
    destruct (pre_write ks true (h_secure V h) acc (h_fun V h a)) as [xs2 ob2|] eqn:PW; [|discriminate].
    destruct ob2 as [|ver ct]; [discriminate|]. intros _.
    destruct (pre_write_env_shape _ _ _ _ _ _ _ _ PW) as (-> & -> & br & Hbr & ->).
    cbn [Secure.wire_body]. destruct (wrap (keyver ks) (enc ks br)) as [w2|] eqn:W;
      [|cbn; split; [reflexivity | discriminate]].
    rewrite pre_read_true.
    rewrite (foreign_envelope_refused zres ks kc br w2 (fun e => Hk (eq_sym e)) W).
    cbn. split; [reflexivity | discriminate].
  Qed.
End Secure.

(* The property's wording "a reply is encrypted whenever the request was encrypted" read
   literally is NOT what the code does: X-Secure: true together with X-Accept-Secure: false. *)
Definition toy_unwrap (w : bytes) : option (bytes * bytes) :=
  match w with x :: r => Some ([x], r) | [] => None end.

Definition toy_call (q : request bytes) (h : handler bytes) : call_obs bytes :=
  call_flow unit bytes [] [] (fun v : bytes => Some v) (fun b : bytes => Some b)
            (fun (_ : unit) (x : bytes) => x) (fun (_ : unit) (x : bytes) => Some x)
            (fun _ : unit => str "v") (fun v c : bytes => Some (v ++ c)) toy_unwrap tt tt q h.
Definition toy_enveloped (q : request bytes) (h : handler bytes) : bool :=
  reply_enveloped unit bytes [] (fun v : bytes => Some v) (fun b : bytes => Some b)
            (fun (_ : unit) (x : bytes) => x) (fun (_ : unit) (x : bytes) => Some x)
            (fun _ : unit => str "v") (fun v c : bytes => Some (v ++ c)) toy_unwrap tt tt q h.

Lemma encrypted_request_clear_reply :
  exists (q : request bytes) (h : handler bytes),
    is_lit (q_secure bytes q) "true" = true /\ h_ok bytes h = true /\
    c_req_wire bytes (toy_call q h) = Some (str "varg") /\     (* request enveloped *)
    c_handler_arg bytes (toy_call q h) = Some (str "arg") /\   (* decrypted, handler invoked *)
    toy_enveloped q h = false /\
    c_rep_wire bytes (toy_call q h) = Some (str "res").         (* the result, in clear *)
Proof.
  exists (mkReq bytes (Some (str "true")) (Some (str "false")) (str "arg")),
         (mkHandler bytes (fun _ => str "res") KStruct RetNil None).
  vm_compute. auto 10.
Qed.

(* The variant in which the context uses the session's swap map itself: the accept entry of an
   encrypted call survives and the NEXT, unmarked call on the session gets an enveloped reply. *)
Definition toy_seq (share : bool) (ms : list (marker * marker * bytes * handler bytes)) : list (serve_obs bytes) :=
  serve_seq unit bytes [] (fun v : bytes => Some v) (fun b : bytes => Some b)
            (fun (_ : unit) (x : bytes) => x) (fun (_ : unit) (x : bytes) => Some x)
            (fun _ : unit => str "v") (fun v c : bytes => Some (v ++ c)) toy_unwrap share tt (mkSwap false false) ms.

Lemma shared_swap_leaks :
  let h := mkHandler bytes (fun _ => str "res") KStruct RetNil None in
  let ms := [(Some (str "true"), None, str "varg", h); (None, None, str "arg", h)] in
  map (s_rep_wire bytes) (toy_seq false ms) = [Some (str "vres"); Some (str "res")] /\
  map (s_rep_wire bytes) (toy_seq true ms) = [Some (str "vres"); Some (str "vres")] /\
  map (s_rep_secure bytes) (toy_seq true ms) = [Some (str "true"); Some (str "true")].
Proof. vm_compute. auto. Qed.

(* The variant whose swap keys are the plain strings "" and "0": application data stored under "0"
   is taken for the accept entry and an unmarked call gets an enveloped reply. *)
Lemma untyped_keys_collide :
  let h := mkHandler bytes (fun _ => str "res") KStruct RetNil None in
  let serve typed := fst (serve_call_sw unit bytes [] (fun v : bytes => Some v) (fun b : bytes => Some b)
            (fun (_ : unit) (x : bytes) => x) (fun (_ : unit) (x : bytes) => Some x)
            (fun _ : unit => str "v") (fun v c : bytes => Some (v ++ c)) toy_unwrap tt
            (plugin_view typed [AppKey (str "0")]) None None (str "arg") h) in
  s_rep_wire bytes (serve true) = Some (str "res") /\ s_rep_secure bytes (serve true) = None /\
  s_rep_wire bytes (serve false) = Some (str "vres") /\ s_rep_secure bytes (serve false) = Some (str "true").
Proof. vm_compute. auto. Qed.
