(* Invariants of one session of the machine in Model/{Lifecycle,CallLife,Graceful}.v that
   the C07 theorems rest on. *)
From Coq Require Import Strings.String Strings.Byte.
From Coq Require Import List Arith NArith Bool Lia.
From Verif Require Import Model.Lifecycle Model.CallLife Model.Graceful.
Import ListNotations.

(* ---- list helpers ---- *)
Lemma nth_error_upd_eq {A} (l : list A) i x y :
  nth_error l i = Some y -> nth_error (upd l i x) i = Some x.
Proof.
  revert i; induction l as [|a l IH]; intros [|i] H; cbn in *; try discriminate; auto.
Qed.

Lemma nth_error_upd_ne {A} (l : list A) i j x :
  i <> j -> nth_error (upd l i x) j = nth_error l j.
Proof.
  revert i j; induction l as [|a l IH]; intros [|i] [|j] H; cbn; auto; try congruence.
Qed.

Lemma upd_length {A} (l : list A) i x : length (upd l i x) = length l.
Proof. revert i; induction l as [|a l IH]; intros [|i]; cbn; auto. Qed.

Lemma Forall_upd {A} (P : A -> Prop) l i x :
  Forall P l -> P x -> Forall P (upd l i x).
Proof.
  revert i; induction l as [|a l IH]; intros [|i] H Hx; cbn; auto;
  inversion H; subst; constructor; auto.
Qed.

Lemma Forall_nth {A} (P : A -> Prop) l i x :
  Forall P l -> nth_error l i = Some x -> P x.
Proof.
  intros H E. rewrite Forall_forall in H. apply H. eapply nth_error_In; eauto.
Qed.

Lemma Forall_snoc {A} (P : A -> Prop) l x : Forall P l -> P x -> Forall P (l ++ [x]).
Proof. intros. apply Forall_app. split; auto. Qed.

(* ---- the status side of a session ---- *)
Definition cl_ok (s : sess) : Prop :=
  match cl s with
  | C1 | C2 | C3 | C4 | C5 => st s = ActiveClosing
  | C6 | C7 => st s = ActiveClosed
  | _ => True
  end.

Definition seen_ok (x : status) (cur : status) : Prop :=
  match x with
  | ActiveClosing => cur = ActiveClosing \/ cur = ActiveClosed
  | PassiveClosed | ActiveClosed | PassiveClosing => False
  | _ => cur = PassiveClosing
  end.

Definition rd_ok (s : sess) : Prop :=
  match rd s with
  | D2 x | D3 x | D4 x | D5 x | DC x => seen_ok x (st s)
  | D6 | D8 => st s = PassiveClosing
  | D1 ActiveClosing => st s = ActiveClosing \/ st s = ActiveClosed
  | _ => True
  end.

Definition nt_ok (s : sess) : Prop :=
  notified s <= 1 /\
  match cl s with C3 | C4 | C5 | C6 | C7 => notified s = 1 | _ => True end /\
  (closed (st s) = true -> notified s = 1).

Definition hk_ok (s : sess) : Prop :=
  hooks s = match st s with
            | ActiveClosed => match cl s with C6 | C7 => 0 | _ => 1 end
            | PassiveClosed => 1
            | _ => 0
            end.

Definition est_ok (s : sess) : Prop :=
  (st s = Ok -> estab s = true) /\ (rd s <> RNone -> estab s = true) /\
  (st s = Preparing -> rd s = RNone) /\ (estab s = true -> st s <> Preparing).

Definition stat_inv (s : sess) : Prop := cl_ok s /\ rd_ok s /\ nt_ok s /\ hk_ok s /\ est_ok s.

(* the control part of a session; most steps leave it alone *)
Definition same_ctrl (s s' : sess) : Prop :=
  st s' = st s /\ notified s' = notified s /\ hooks s' = hooks s /\ rd s' = rd s /\
  cl s' = cl s /\ estab s' = estab s /\ sid s' = sid s.

Ltac ctrl_tac := unfold same_ctrl; cbn; repeat split; reflexivity.

Lemma caller_step_ctrl s i v w s' : caller_step s i v w = Some s' -> same_ctrl s s'.
Proof.
  unfold caller_step. destruct (nth_error (calls s) i) as [c|]; [|discriminate].
  destruct (c_a c); try discriminate.
  - destruct v; intros H; inversion H; subst; ctrl_tac.
  - destruct (admits (st s) false); intros H; inversion H; subst; ctrl_tac.
  - destruct (wr_ok s w); [|discriminate]. destruct w; intros H; inversion H; subst; ctrl_tac.
  - intros H; inversion H; subst; ctrl_tac.
Qed.

Lemma reply_step_ctrl s i s' : reply_step s i = Some s' -> same_ctrl s s'.
Proof.
  unfold reply_step. destruct (nth_error (calls s) i) as [c|]; [|discriminate].
  destruct (c_h c); try discriminate; intros H; inversion H; subst; ctrl_tac.
Qed.

Lemma visit_step_ctrl s i s' : visit_step s i = Some s' -> same_ctrl s s'.
Proof.
  unfold visit_step. destruct (rd_cancel (rd s)) eqn:Erc; [|discriminate]. unfold visit_body.
  destruct (nth_error (calls s) i) as [c|]; [|discriminate].
  destruct (c_tab c && negb (c_vis c) && mu_free c); [|discriminate].
  destruct (negb (c_rep c) && cstat_ok (c_stat c)); intros H; inversion H; subst; ctrl_tac.
Qed.

Lemma handler_step_ctrl s j v w s' : handler_step s j v w = Some s' -> same_ctrl s s'.
Proof.
  unfold handler_step. destruct (nth_error (hctxs s) j) as [h|]; [|discriminate].
  destruct (k_pc h); try discriminate.
  - destruct (k_kind h); try (intros H; inversion H; subst; ctrl_tac).
    destruct v; intros H; inversion H; subst; ctrl_tac.
  - destruct (k_kind h); intros H; inversion H; subst; ctrl_tac.
  - destruct (admits (st s) _); intros H; inversion H; subst; ctrl_tac.
  - destruct (wr_ok s w); [|discriminate]. intros H; inversion H; subst; ctrl_tac.
  - intros H; inversion H; subst; ctrl_tac.
  - destruct (nth_error (calls s) i) as [c|]; [destruct (c_dones c =? 0); [discriminate|]|];
      intros H; inversion H; subst; ctrl_tac.
Qed.

Lemma hwait_step_shape s j i s' :
  hwait_step s j i = Some s' ->
  exists h, nth_error (hctxs s) j = Some h /\ k_pc h = K1 /\ s' = set_hctxs s (upd (hctxs s) j (set_kpc h (K1w i))).
Proof.
  unfold hwait_step. destruct (nth_error (hctxs s) j) as [h|]; [|discriminate].
  destruct (k_pc h) eqn:E; try discriminate. intros H; inversion H; subst. exists h. auto.
Qed.

Lemma hwait_step_ctrl s j i s' : hwait_step s j i = Some s' -> same_ctrl s s'.
Proof. intros H. destruct (hwait_step_shape _ _ _ _ H) as (h & _ & _ & ->). ctrl_tac. Qed.

Lemma stat_inv_ctrl s s' : same_ctrl s s' -> stat_inv s -> stat_inv s'.
Proof.
  intros (E1 & E2 & E3 & E4 & E5 & E6 & _) (Hc & Hr & Hn & Hh & He).
  unfold stat_inv, cl_ok, rd_ok, nt_ok, hk_ok, est_ok in *.
  rewrite E1, E2, E3, E4, E5, E6. auto.
Qed.

Lemma closer_step_inv s s' fx : stat_inv s -> closer_step s = Some (s', fx) -> stat_inv s'.
Proof.
  intros (Hc & Hr & Hn & Hh & He) H. unfold closer_step in H.
  unfold stat_inv, cl_ok, rd_ok, nt_ok, hk_ok, est_ok, seen_ok in *.
  destruct (cl s) eqn:Ecl; try discriminate.
  - (* C0 *)
    destruct (st s) eqn:Est; inversion H; subst; clear H; cbn; rewrite ?Est, ?Ecl;
      destruct (rd s) eqn:Erd; cbn in *; try destruct seen;
      intuition (try congruence; try discriminate; try lia).
  - inversion H; subst; clear H; cbn; rewrite ?Ecl; intuition congruence.
  - (* C2 notify *)
    inversion H; subst; clear H. unfold notify. destruct (notified s) eqn:En; cbn; rewrite ?En;
      intuition (try congruence; try lia).
  - destruct (ctxWG s); inversion H; subst; clear H; cbn; intuition congruence.
  - destruct (callWG s); inversion H; subst; clear H; cbn; intuition congruence.
  - (* C5 *)
    inversion H; subst; clear H; cbn. rewrite Hc in *.
    destruct (rd s) eqn:Erd; cbn in *; try destruct seen;
      intuition (try congruence; try discriminate; try lia).
  - inversion H; subst; clear H; cbn. rewrite Hc in *. intuition congruence.
  - inversion H; subst; clear H; cbn. rewrite Hc in *. cbn in *. intuition (try congruence; try lia).
Qed.

(* reader steps outside readDisconnected only move the reader's own pc *)
Definition rd_pre (r : rpc) : bool :=
  match r with R0 | R2 | RLook _ _ | RLock _ _ | R3 _ | R4 _ | D0 | RNone | RDone => true | _ => false end.

Definition same_ctrl_but_rd (s s' : sess) : Prop :=
  st s' = st s /\ notified s' = notified s /\ hooks s' = hooks s /\
  cl s' = cl s /\ estab s' = estab s /\ sid s' = sid s.

Ltac rdc_tac := unfold same_ctrl_but_rd; cbn; repeat split; reflexivity.

Lemma reader_step_pre s b s' fx :
  reader_step fixed s b = Some (s', fx) ->
  match rd s with RNone | R0 | RLook _ _ | RLock _ _ | R3 _ | R4 _ => True | _ => False end ->
  same_ctrl_but_rd s s' /\ rd_pre (rd s') = true /\ rd s' <> RNone.
Proof.
  unfold reader_step. destruct (rd s) eqn:Erd; try tauto; intros H _.
  - destruct (estab s); [|discriminate]. cbn [fix_acc fixed] in H. inversion H; subst; cbn; repeat split; try rdc_tac; discriminate.
  - destruct (goon (st s)); inversion H; subst; cbn; repeat split; try rdc_tac; discriminate.
  - destruct (nth_error (calls s) i) as [c|]; [destruct (c_tab c)|]; inversion H; subst; cbn;
      repeat split; try rdc_tac; discriminate.
  - destruct (nth_error (calls s) i) as [c|]; [|discriminate].
    destruct (mu_free c); [|discriminate].
    destruct (fix_dup fixed && negb (c_dones c =? 0)).
    + inversion H; subst; cbn; repeat split; try rdc_tac; discriminate.
    + destruct d; try destruct (fix_abort fixed); inversion H; subst; cbn; repeat split; try rdc_tac; discriminate.
  - destruct (early s x).
    + destruct x; try (inversion H; subst; cbn; repeat split; try rdc_tac; discriminate).
      destruct (nth_error (calls s) i) as [c|]; [|discriminate].
      destruct (fix_abort fixed); inversion H; subst; cbn; repeat split; try rdc_tac; discriminate.
    + inversion H; subst; cbn; repeat split; try rdc_tac; discriminate.
  - destruct x; try discriminate.
    + destruct b; [|destruct k]; inversion H; subst; cbn; repeat split; try rdc_tac; discriminate.
    + destruct (nth_error (calls s) i) as [c|]; [|discriminate].
      destruct b; [|destruct (fix_abort fixed)]; inversion H; subst; cbn; repeat split; try rdc_tac; discriminate.
Qed.

Lemma stat_inv_pre s s' :
  same_ctrl_but_rd s s' -> rd_pre (rd s') = true -> estab s = true -> rd s' <> RNone ->
  stat_inv s -> stat_inv s'.
Proof.
  intros (E1 & E2 & E3 & E5 & E6 & _) Hp Hes Hn' (Hc & Hr & Hnt & Hh & (He1 & He2 & He3 & He4)).
  unfold stat_inv, cl_ok, rd_ok, nt_ok, hk_ok, est_ok in *.
  rewrite E1, E2, E3, E5, E6. repeat split; try tauto;
    try (intros X; exfalso; exact (He4 Hes X)).
  destruct (rd s'); try discriminate; exact I.
Qed.

(* readDisconnected proper *)
Lemma reader_step_disc s b s' fx :
  stat_inv s -> reader_step fixed s b = Some (s', fx) ->
  match rd s with D0 | D1 _ | D2 _ | D3 _ | D4 _ | D5 _ | D6 | D8 | DC _ => True | _ => False end ->
  stat_inv s'.
Proof.
  intros (Hc & Hr & Hn & Hh & He) H Hpc. unfold reader_step in H.
  unfold stat_inv, cl_ok, rd_ok, nt_ok, hk_ok, est_ok, seen_ok in *.
  destruct (rd s) eqn:Erd; try tauto; clear Hpc.
  - (* D0 *)
    inversion H; subst; clear H; cbn. destruct (st s) eqn:Est; cbn;
      intuition (try congruence; try discriminate).
  - (* D1 *)
    destruct seen; cbn in H;
      try (inversion H; subst; clear H; cbn; rewrite ?Erd;
           destruct (cl s) eqn:Ecl; cbn in *; intuition (try congruence; try discriminate; fail)).
    all: destruct (status_eqb (st s) _) eqn:Eq; inversion H; subst; clear H; cbn;
      destruct (st s) eqn:Est; try discriminate Eq;
      destruct (cl s) eqn:Ecl; cbn in *; intuition (try congruence; try discriminate; try lia).
  - inversion H; subst; clear H; cbn. intuition (try congruence; try discriminate).
  - destruct (ctxWG s); inversion H; subst; clear H; cbn. intuition (try congruence; try discriminate).
  - destruct (all_visited (calls s)); inversion H; subst; clear H; cbn. intuition (try congruence; try discriminate).
  - destruct seen; inversion H; subst; clear H; cbn; cbn in Hr; intuition (try congruence; try discriminate).
  - inversion H; subst; clear H; cbn. intuition (try congruence; try discriminate).
  - inversion H; subst; clear H. unfold notify; cbn. rewrite Hr in *.
    destruct (notified s) eqn:En; cbn; rewrite ?En;
      destruct (cl s) eqn:Ecl; cbn in *; intuition (try congruence; try discriminate; try lia).
  - destruct (all_visited (calls s)); inversion H; subst; clear H; cbn. intuition (try congruence; try discriminate).
Qed.

Lemma stat_inv_step s e s' fx : stat_inv s -> sstep s e = Some (s', fx) -> stat_inv s'.
Proof.
  intros Hi H. unfold sstep, sstep_cfg in H. destruct e.
  - destruct (conn s); inversion H; subst. eapply stat_inv_ctrl; [|exact Hi]. ctrl_tac.
  - (* frame *) unfold noeff, frame_step in H. destruct (rd s) eqn:Erd; try discriminate.
    destruct Hi as (Hc & Hr & Hn & Hh & (He1 & He2 & He3 & He4)).
    assert (Hst : st s <> Preparing) by (intros X; specialize (He3 X); congruence).
    assert (Hes : estab s = true) by (apply He2; congruence).
    unfold stat_inv, cl_ok, rd_ok, nt_ok, hk_ok, est_ok in *.
    destruct f; inversion H; subst; cbn; rewrite ?Erd in *; repeat split; auto; try discriminate;
      try (intros X; exfalso; exact (Hst X)).
    all: tauto.
  - (* Close() *) unfold noeff, close_call in H. destruct (cl s) eqn:Ecl; try discriminate.
    inversion H; subst. destruct Hi as (Hc & Hr & Hn & Hh & He).
    unfold stat_inv, cl_ok, rd_ok, nt_ok, hk_ok, est_ok in *; cbn; rewrite ?Ecl in *.
    destruct (st s); intuition.
  - inversion H; subst. eapply stat_inv_ctrl; [|exact Hi]. ctrl_tac.
  - inversion H; subst. eapply stat_inv_ctrl; [|exact Hi]. ctrl_tac.
  - eapply closer_step_inv; eauto.
  - destruct (rd s) eqn:Erd; try (unfold reader_step in H; rewrite Erd in H; discriminate).
    all: try (eapply reader_step_disc; [exact Hi|exact H|rewrite Erd; exact I]).
    all: destruct (reader_step_pre _ _ _ _ H) as (Hs & Hp & Hn); [rewrite Erd; exact I|];
      (assert (Hes : estab s = true) by
         (destruct (estab s) eqn:X; auto; exfalso;
          first [ unfold reader_step in H; rewrite Erd, X in H; discriminate H
                | destruct Hi as (_ & _ & _ & _ & (_ & He2 & _)); rewrite He2 in X by (rewrite Erd; discriminate); discriminate X ]));
      eapply stat_inv_pre; eauto.
  - unfold noeff in H. destruct (visit_step s i) eqn:E; inversion H; subst.
    eapply stat_inv_ctrl; [eapply visit_step_ctrl; eauto|exact Hi].
  - unfold noeff in H. destruct (caller_step s i veto wr) eqn:E; inversion H; subst.
    eapply stat_inv_ctrl; [eapply caller_step_ctrl; eauto|exact Hi].
  - unfold noeff in H. destruct (reply_step s i) eqn:E; inversion H; subst.
    eapply stat_inv_ctrl; [eapply reply_step_ctrl; eauto|exact Hi].
  - unfold noeff in H. destruct (handler_step s j veto wr) eqn:E; inversion H; subst.
    eapply stat_inv_ctrl; [eapply handler_step_ctrl; eauto|exact Hi].
  - unfold noeff in H. destruct (hwait_step s j i) eqn:E; inversion H; subst.
    eapply stat_inv_ctrl; [eapply hwait_step_ctrl; eauto|exact Hi].
Qed.

(* ---- every way the status word can change ---- *)
Inductive st_change (s s' : sess) : Prop :=
| ch_same : st s' = st s -> st_change s s'
| ch_c0 : cl s = C0 -> (st s = Ok \/ st s = Preparing) -> st s' = ActiveClosing -> st_change s s'
| ch_c5 : cl s = C5 -> st s' = ActiveClosed -> st_change s s'
| ch_d1 : rd s = D1 (st s) -> (st s = Ok \/ st s = Preparing \/ st s = Redialing \/ st s = RedialFailed) ->
          st s' = PassiveClosing -> st_change s s'
| ch_d8 : rd s = D8 -> st s' = PassiveClosed -> st_change s s'.

Lemma status_eqb_eq a b : status_eqb a b = true -> a = b.
Proof. destruct a, b; cbn; congruence. Qed.

Lemma sstep_st_change s e s' fx : sstep s e = Some (s', fx) -> st_change s s'.
Proof.
  intros H. unfold sstep, sstep_cfg in H. destruct e.
  - destruct (conn s); inversion H; subst. apply ch_same. reflexivity.
  - unfold noeff, frame_step in H. destruct (rd s); try discriminate.
    destruct f; inversion H; subst; apply ch_same; reflexivity.
  - unfold noeff, close_call in H. destruct (cl s); try discriminate. inversion H; subst.
    apply ch_same; reflexivity.
  - inversion H; subst. apply ch_same; reflexivity.
  - inversion H; subst. apply ch_same; reflexivity.
  - unfold closer_step in H. destruct (cl s) eqn:Ecl; try discriminate.
    + destruct (st s) eqn:Est; inversion H; subst;
        try (apply ch_same; cbn; congruence); apply ch_c0; cbn; auto.
    + inversion H; subst; apply ch_same; reflexivity.
    + inversion H; subst; apply ch_same. unfold notify. destruct (notified s); reflexivity.
    + destruct (ctxWG s); inversion H; subst; apply ch_same; reflexivity.
    + destruct (callWG s); inversion H; subst; apply ch_same; reflexivity.
    + inversion H; subst. apply ch_c5; auto.
    + inversion H; subst; apply ch_same; reflexivity.
    + inversion H; subst; apply ch_same; reflexivity.
  - destruct (rd s) eqn:Erd; try (unfold reader_step in H; rewrite Erd in H; discriminate).
    all: try (destruct (reader_step_pre _ _ _ _ H) as ((E & _) & _); [rewrite Erd; exact I|];
              apply ch_same; exact E).
    all: unfold reader_step in H; rewrite Erd in H.
    + inversion H; subst; apply ch_same; reflexivity.
    + destruct seen; cbn in H; try (inversion H; subst; apply ch_same; reflexivity).
      all: destruct (status_eqb (st s) _) eqn:Eq; inversion H; subst;
        try (apply ch_same; reflexivity).
      all: apply status_eqb_eq in Eq; apply ch_d1; cbn; try congruence; rewrite Eq; tauto.
    + inversion H; subst; apply ch_same; reflexivity.
    + destruct (ctxWG s); inversion H; subst; apply ch_same; reflexivity.
    + destruct (all_visited (calls s)); inversion H; subst; apply ch_same; reflexivity.
    + destruct seen; inversion H; subst; apply ch_same; reflexivity.
    + inversion H; subst; apply ch_same; reflexivity.
    + inversion H; subst. apply ch_d8; auto. unfold notify; cbn. destruct (notified s); reflexivity.
    + destruct (all_visited (calls s)); inversion H; subst; apply ch_same; reflexivity.
  - unfold noeff in H. destruct (visit_step s i) eqn:E; inversion H; subst.
    apply ch_same. apply (visit_step_ctrl _ _ _ E).
  - unfold noeff in H. destruct (caller_step s i veto wr) eqn:E; inversion H; subst.
    apply ch_same. apply (caller_step_ctrl _ _ _ _ _ E).
  - unfold noeff in H. destruct (reply_step s i) eqn:E; inversion H; subst.
    apply ch_same. apply (reply_step_ctrl _ _ _ E).
  - unfold noeff in H. destruct (handler_step s j veto wr) eqn:E; inversion H; subst.
    apply ch_same. apply (handler_step_ctrl _ _ _ _ _ E).
  - unfold noeff in H. destruct (hwait_step s j i) eqn:E; inversion H; subst.
    apply ch_same. apply (hwait_step_ctrl _ _ _ _ E).
Qed.

(* closed_absorbing *)
Lemma closed_absorbing_step s e s' fx :
  stat_inv s -> sstep s e = Some (s', fx) -> closed (st s) = true -> st s' = st s.
Proof.
  intros (Hc & Hr & _) H Hcl. destruct (sstep_st_change _ _ _ _ H) as [E|E1 E2 E3|E1 E2|E1 E2 E3|E1 E2]; auto.
  - destruct E2 as [E2|E2]; rewrite E2 in Hcl; discriminate.
  - unfold cl_ok in Hc. rewrite E1 in Hc. rewrite Hc in Hcl. discriminate.
  - destruct E2 as [E2|[E2|[E2|E2]]]; rewrite E2 in Hcl; discriminate.
  - unfold rd_ok in Hr. rewrite E1 in Hr. rewrite Hr in Hcl. discriminate.
Qed.

Lemma closed_mono_step s e s' fx :
  stat_inv s -> sstep s e = Some (s', fx) -> closed (st s) = true -> closed (st s') = true.
Proof. intros Hi H Hc. rewrite (closed_absorbing_step _ _ _ _ Hi H Hc). exact Hc. Qed.

(* healthy status is only ever left, never entered, by a session step *)
Lemma ok_not_entered s e s' fx : sstep s e = Some (s', fx) -> st s' = Ok -> st s = Ok.
Proof.
  intros H E. destruct (sstep_st_change _ _ _ _ H) as [E0|E1 E2 E3|E1 E2|E1 E2 E3|E1 E2]; congruence.
Qed.

(* ---- calls and pushes issued on a closed session fail fast, without a write ---- *)
Definition call_ic_ok (stt : status) (c : call) : Prop :=
  c_ic c = true ->
  closed stt = true /\ c_h c = HNone /\ c_wrote c = false /\
  match c_a c with
  | A1 | A2 => c_dones c = 0 /\ c_tab c = true
  | A2w => False
  | A4 | ADone => c_dones c = 1 /\ c_tab c = false /\ (c_stat c = StConnClosed \/ c_stat c = StVeto)
  end.

Definition push_ic_ok (stt : status) (h : hctx) : Prop :=
  k_ic h = true ->
  closed stt = true /\ k_kind h = KPushOut /\
  match k_pc h with
  | K0 | K2 => k_res h = WrNone
  | K4 | KDone => k_res h = WrRefused \/ k_res h = WrVeto
  | _ => False
  end.

(* the reader's bound call really is bound *)
Definition bound_ok (s : sess) : Prop :=
  match rd s with
  | R3 (XBound i d) | R4 (XBound i d) => exists c, nth_error (calls s) i = Some c /\ c_h c = HBound d
  | _ => True
  end.

Definition ic_inv (s : sess) : Prop :=
  Forall (call_ic_ok (st s)) (calls s) /\ Forall (push_ic_ok (st s)) (hctxs s) /\ bound_ok s.

Lemma call_ic_ok_mono a b c : (closed a = true -> closed b = true) -> call_ic_ok a c -> call_ic_ok b c.
Proof. unfold call_ic_ok. intros Hm H E. specialize (H E). intuition. Qed.
Lemma push_ic_ok_mono a b c : (closed a = true -> closed b = true) -> push_ic_ok a c -> push_ic_ok b c.
Proof. unfold push_ic_ok. intros Hm H E. specialize (H E). intuition. Qed.

Lemma closed_not_admits x r : closed x = true -> admits x r = false.
Proof. destruct x; cbn; try discriminate; reflexivity. Qed.

Lemma nth_error_snoc_lt {A} (l : list A) x i y : nth_error l i = Some y -> nth_error (l ++ [x]) i = Some y.
Proof. intros H. rewrite nth_error_app1; auto. apply nth_error_Some. congruence. Qed.

Lemma bound_ok_upd s i c c' (s' : sess) :
  bound_ok s -> nth_error (calls s) i = Some c -> c_h c' = c_h c ->
  rd s' = rd s -> calls s' = upd (calls s) i c' -> bound_ok s'.
Proof.
  unfold bound_ok. intros Hb Hn Hh Er Ec. rewrite Er, Ec.
  destruct (rd s); auto; destruct x; auto; destruct Hb as (c0 & Hc0 & Hh0);
    (destruct (Nat.eq_dec i i0) as [->|Hne];
     [exists c'; split; [eapply nth_error_upd_eq; eauto | congruence]
     |exists c0; split; [rewrite nth_error_upd_ne; auto | auto]]).
Qed.

Lemma caller_step_ic s i v w s' : ic_inv s -> caller_step s i v w = Some s' -> ic_inv s'.
Proof.
  intros (Hc & Hp & Hb) H.
  pose proof (caller_step_ctrl _ _ _ _ _ H) as (Est & _ & _ & Erd & _).
  unfold caller_step in H. destruct (nth_error (calls s) i) as [c|] eqn:En; [|discriminate].
  pose proof (Forall_nth _ _ _ _ Hc En) as Hci.
  assert (G : forall c', c_h c' = c_h c -> call_ic_ok (st s) c' ->
              hctxs s' = hctxs s -> calls s' = upd (calls s) i c' -> ic_inv s').
  { intros c' Hh Hok Eh Ec. unfold ic_inv. rewrite Est, Eh, Ec. repeat split; auto.
    - apply Forall_upd; auto.
    - eapply bound_ok_upd; eauto. }
  unfold call_ic_ok in Hci.
  destruct (c_a c) eqn:Ea; try discriminate.
  - destruct v; inversion H; subst; clear H.
    + refine (G _ _ _ eq_refl eq_refl); [reflexivity|]. unfold call_ic_ok; cbn. intros E. specialize (Hci E). intuition.
    + refine (G _ _ _ eq_refl eq_refl); [reflexivity|]. unfold call_ic_ok; cbn. intros E. specialize (Hci E). intuition.
  - destruct (admits (st s) false) eqn:Ead; inversion H; subst; clear H.
    + refine (G _ _ _ eq_refl eq_refl); [reflexivity|]. unfold call_ic_ok; cbn. intros E. specialize (Hci E).
      destruct Hci as (Hcl & _). rewrite (closed_not_admits _ _ Hcl) in Ead. discriminate.
    + refine (G _ _ _ eq_refl eq_refl); [reflexivity|]. unfold call_ic_ok; cbn. intros E. specialize (Hci E). intuition.
  - destruct (wr_ok s w); [|discriminate].
    destruct w; inversion H; subst; clear H; (refine (G _ _ _ eq_refl eq_refl); [reflexivity|]);
      unfold call_ic_ok; cbn; intros E; specialize (Hci E); intuition.
  - inversion H; subst; clear H. refine (G _ _ _ eq_refl eq_refl); [reflexivity|].
    unfold call_ic_ok; cbn. intros E. specialize (Hci E). intuition.
Qed.

Lemma reply_step_ic s i s' : ic_inv s -> reply_step s i = Some s' -> ic_inv s'.
Proof.
  intros (Hc & Hp & Hb) H.
  pose proof (reply_step_ctrl _ _ _ H) as (Est & _ & _ & Erd & _).
  unfold reply_step in H. destruct (nth_error (calls s) i) as [c|] eqn:En; [|discriminate].
  pose proof (Forall_nth _ _ _ _ Hc En) as Hci. unfold call_ic_ok in Hci.
  assert (Hnb : match rd s with R3 (XBound i0 _) | R4 (XBound i0 _) => i0 = i -> exists d, c_h c = HBound d | _ => True end).
  { unfold bound_ok in Hb. destruct (rd s); auto; destruct x; auto; intros ->;
      destruct Hb as (c0 & Hc0 & Hh0); exists d; congruence. }
  destruct (c_h c) eqn:Eh; try discriminate; inversion H; subst; clear H.
  - unfold ic_inv; cbn. repeat split; auto.
    + apply Forall_upd; auto. unfold call_ic_ok; cbn. intros E. specialize (Hci E).
      destruct Hci as (_ & X & _). discriminate.
    + unfold bound_ok in *; cbn.
      destruct (rd s); auto; destruct x; auto; destruct Hb as (c0 & Hc0 & Hh0);
        (destruct (Nat.eq_dec i i0) as [->|Hne];
         [destruct (Hnb eq_refl) as (d1 & X); discriminate
         |exists c0; split; [rewrite nth_error_upd_ne; auto|auto]]).
  - unfold ic_inv, done_call; cbn. repeat split; auto.
    + apply Forall_upd; auto. unfold call_ic_ok; cbn. intros E. specialize (Hci E).
      destruct Hci as (_ & X & _). discriminate.
    + unfold bound_ok in *; cbn.
      destruct (rd s); auto; destruct x; auto; destruct Hb as (c0 & Hc0 & Hh0);
        (destruct (Nat.eq_dec i i0) as [->|Hne];
         [destruct (Hnb eq_refl) as (d1 & X); discriminate
         |exists c0; split; [rewrite nth_error_upd_ne; auto|auto]]).
Qed.

Lemma visit_step_ic s i s' : ic_inv s -> visit_step s i = Some s' -> ic_inv s'.
Proof.
  intros (Hc & Hp & Hb) H.
  unfold visit_step in H. destruct (rd_cancel (rd s)) eqn:Erc; [|discriminate]. unfold visit_body in H.
  destruct (nth_error (calls s) i) as [c|] eqn:En; [|discriminate].
  pose proof (Forall_nth _ _ _ _ Hc En) as Hci. unfold call_ic_ok in Hci.
  destruct (c_tab c) eqn:Et; [|discriminate]. cbn in H.
  destruct (negb (c_vis c)); [|discriminate]. cbn in H.
  destruct (mu_free c) eqn:Em; [|discriminate].
  unfold mu_free in Em. destruct (c_a c) eqn:Ea; try discriminate. destruct (c_h c) eqn:Eh; try discriminate.
  assert (Hic : c_ic c = false).
  { destruct (c_ic c); auto. destruct (Hci eq_refl) as (_ & _ & _ & X). intuition congruence. }
  destruct (negb (c_rep c) && cstat_ok (c_stat c)); inversion H; subst; clear H;
    unfold ic_inv, fail_call, done_call; cbn; repeat split; auto;
    try (apply Forall_upd; auto; unfold call_ic_ok; cbn; congruence);
    unfold bound_ok; cbn; destruct (rd s); try discriminate Erc; exact I.
Qed.

Lemma handler_step_ic s j v w s' : ic_inv s -> handler_step s j v w = Some s' -> ic_inv s'.
Proof.
  intros (Hc & Hp & Hb) H.
  unfold handler_step in H. destruct (nth_error (hctxs s) j) as [h|] eqn:En; [|discriminate].
  pose proof (Forall_nth _ _ _ _ Hp En) as Hpi. unfold push_ic_ok in Hpi.
  assert (G : forall h', push_ic_ok (st s) h' -> st s' = st s -> calls s' = calls s -> rd s' = rd s ->
              hctxs s' = upd (hctxs s) j h' -> ic_inv s').
  { intros h' Hok Est Ec Er Eh. unfold ic_inv, bound_ok. rewrite Est, Ec, Er, Eh. repeat split; auto.
    apply Forall_upd; auto. }
  destruct (k_pc h) eqn:Epc; try discriminate.
  - destruct (k_kind h) eqn:Ek.
    + inversion H; subst; clear H. refine (G _ _ eq_refl eq_refl eq_refl eq_refl).
      unfold push_ic_ok; cbn. intros E. destruct (Hpi E) as (_ & X & _). congruence.
    + inversion H; subst; clear H. refine (G _ _ eq_refl eq_refl eq_refl eq_refl).
      unfold push_ic_ok; cbn. intros E. destruct (Hpi E) as (_ & X & _). congruence.
    + inversion H; subst; clear H. refine (G _ _ eq_refl eq_refl eq_refl eq_refl).
      unfold push_ic_ok; cbn. intros E. destruct (Hpi E) as (_ & X & _). congruence.
    + destruct v; inversion H; subst; clear H; refine (G _ _ eq_refl eq_refl eq_refl eq_refl);
        unfold push_ic_ok; cbn; intros E; destruct (Hpi E) as (X1 & X2 & X3); rewrite ?Epc in *; auto.
  - destruct (k_kind h) eqn:Ek; inversion H; subst; clear H; refine (G _ _ eq_refl eq_refl eq_refl eq_refl);
      unfold push_ic_ok; cbn; intros E; destruct (Hpi E) as (X1 & X2 & X3); rewrite ?Epc in *; try tauto; congruence.
  - destruct (admits (st s) _) eqn:Ead; inversion H; subst; clear H; refine (G _ _ eq_refl eq_refl eq_refl eq_refl);
      unfold push_ic_ok; cbn; intros E; destruct (Hpi E) as (X1 & X2 & X3); rewrite ?Epc in *; auto.
    rewrite (closed_not_admits _ _ X1) in Ead. discriminate.
  - destruct (wr_ok s w); [|discriminate]. inversion H; subst; clear H.
    refine (G _ _ eq_refl eq_refl eq_refl eq_refl).
    unfold push_ic_ok; cbn; intros E; destruct (Hpi E) as (X1 & X2 & X3); rewrite ?Epc in *; tauto.
  - inversion H; subst; clear H. unfold put_ctx. refine (G _ _ eq_refl eq_refl eq_refl eq_refl).
    unfold push_ic_ok; cbn; intros E; destruct (Hpi E) as (X1 & X2 & X3); rewrite ?Epc in *; tauto.
  - destruct (nth_error (calls s) i) as [c|]; [destruct (c_dones c =? 0); [discriminate|]|];
      inversion H; subst; clear H; refine (G _ _ eq_refl eq_refl eq_refl eq_refl);
      unfold push_ic_ok; cbn; intros E; destruct (Hpi E) as (X1 & X2 & X3); rewrite ?Epc in *; tauto.
Qed.

Lemma hwait_step_ic s j i s' : ic_inv s -> hwait_step s j i = Some s' -> ic_inv s'.
Proof.
  intros (Hc & Hp & Hb) H. destruct (hwait_step_shape _ _ _ _ H) as (h & En & Epc & ->).
  pose proof (Forall_nth _ _ _ _ Hp En) as Hpi. unfold push_ic_ok in Hpi.
  unfold ic_inv, bound_ok; cbn. repeat split; auto. apply Forall_upd; auto.
  unfold push_ic_ok; cbn. intros E. destruct (Hpi E) as (X1 & X2 & X3). rewrite Epc in X3. tauto.
Qed.

Lemma ic_inv_same s s' :
  ic_inv s -> calls s' = calls s -> hctxs s' = hctxs s -> bound_ok s' ->
  (closed (st s) = true -> closed (st s') = true) -> ic_inv s'.
Proof.
  intros (Hc & Hp & _) Ec Eh Hb Hm. unfold ic_inv. rewrite Ec, Eh. repeat split; auto.
  - eapply Forall_impl; [|exact Hc]. intros c. apply call_ic_ok_mono; auto.
  - eapply Forall_impl; [|exact Hp]. intros c. apply push_ic_ok_mono; auto.
Qed.

Lemma reader_step_ic s b s' fx :
  stat_inv s -> ic_inv s -> reader_step fixed s b = Some (s', fx) -> ic_inv s'.
Proof.
  intros Hsi Hi H.
  assert (Hmono : closed (st s) = true -> closed (st s') = true).
  { apply (closed_mono_step s (EReader b) s' fx Hsi). exact H. }
  destruct Hi as (Hc & Hp & Hb).
  unfold reader_step in H. destruct (rd s) eqn:Erd; try discriminate.
  - (* the read loop starts *) destruct (estab s); [|discriminate]. cbn [fix_acc fixed] in H. inversion H; subst; clear H;
      (eapply ic_inv_same; [split; [exact Hc|split; [exact Hp|exact Hb]]|reflexivity|reflexivity|exact I|exact Hmono]).
  - (* R0 *) destruct (goon (st s)); inversion H; subst; clear H;
      (eapply ic_inv_same; [split; [exact Hc|split; [exact Hp|exact Hb]]|reflexivity|reflexivity|exact I|exact Hmono]).
  - (* RLook *)
    destruct (nth_error (calls s) i) as [c|]; [destruct (c_tab c)|]; inversion H; subst; clear H;
      (eapply ic_inv_same; [split; [exact Hc|split; [exact Hp|exact Hb]]|reflexivity|reflexivity|exact I|exact Hmono]).
  - (* RLock *)
    destruct (nth_error (calls s) i) as [c|] eqn:En; [|discriminate].
    pose proof (Forall_nth _ _ _ _ Hc En) as Hci. unfold call_ic_ok in Hci.
    destruct (mu_free c) eqn:Em; [|discriminate].
    unfold mu_free in Em. destruct (c_a c) eqn:Ea; try discriminate. destruct (c_h c) eqn:Eh; try discriminate.
    cbn [fix_dup fixed andb] in H.
    destruct (c_dones c =? 0) eqn:Ed; cbn [negb] in H.
    + assert (Hic : c_ic c = false).
      { destruct (c_ic c); auto. destruct (Hci eq_refl) as (_ & _ & _ & X & _).
        apply Nat.eqb_eq in Ed. congruence. }
      destruct d; cbn [fix_abort fixed] in H; inversion H; subst; clear H;
        unfold ic_inv, abort_call, done_call, bound_ok; cbn; repeat split; auto;
        try (apply Forall_upd; auto; unfold call_ic_ok; cbn; try destruct (cstat_ok (c_stat c)); cbn; congruence);
        try (eexists; split; [eapply nth_error_upd_eq; eauto|reflexivity]).
    + inversion H; subst; clear H.
      (eapply ic_inv_same; [split; [exact Hc|split; [exact Hp|exact Hb]]|reflexivity|reflexivity|exact I|exact Hmono]).
  - (* R3 *)
    destruct (early s x).
    + destruct x;
        try (inversion H; subst; clear H;
             (eapply ic_inv_same; [split; [exact Hc|split; [exact Hp|exact Hb]]|reflexivity|reflexivity|exact I|exact Hmono])).
      destruct (nth_error (calls s) i) as [c|] eqn:En; [|discriminate].
      pose proof (Forall_nth _ _ _ _ Hc En) as Hci. unfold call_ic_ok in Hci.
      unfold bound_ok in Hb. rewrite Erd in Hb. destruct Hb as (c0 & Hc0 & Hh0).
      assert (c0 = c) by congruence. subst c0.
      assert (Hic : c_ic c = false).
      { destruct (c_ic c); auto. destruct (Hci eq_refl) as (_ & X & _). congruence. }
      cbn [fix_abort fixed] in H. inversion H; subst; clear H.
      unfold ic_inv, abort_call, done_call, bound_ok; cbn; repeat split; auto.
      apply Forall_upd; auto; unfold call_ic_ok; cbn; destruct (cstat_ok (c_stat c)); cbn; congruence.
    + inversion H; subst; clear H.
      eapply ic_inv_same; [split; [exact Hc|split; [exact Hp|exact Hb]]|reflexivity|reflexivity| |exact Hmono].
      unfold bound_ok in *. cbn. rewrite Erd in Hb. destruct x; auto.
  - (* R4 *)
    destruct x; try discriminate.
    + destruct b; [|destruct k]; inversion H; subst; clear H;
        unfold ic_inv, bound_ok; cbn; repeat split; auto;
        apply Forall_snoc; auto; unfold push_ic_ok; cbn; discriminate.
    + destruct (nth_error (calls s) i) as [c|] eqn:En; [|discriminate].
      pose proof (Forall_nth _ _ _ _ Hc En) as Hci. unfold call_ic_ok in Hci.
      unfold bound_ok in Hb. rewrite Erd in Hb. destruct Hb as (c0 & Hc0 & Hh0).
      assert (c0 = c) by congruence. subst c0.
      assert (Hic : c_ic c = false).
      { destruct (c_ic c); auto. destruct (Hci eq_refl) as (_ & X & _). congruence. }
      destruct b; cbn [fix_abort fixed] in H; inversion H; subst; clear H;
        unfold ic_inv, done_call, bound_ok; cbn; repeat split; auto;
        apply Forall_upd; auto; unfold call_ic_ok; cbn; congruence.
  - inversion H; subst; clear H.
    (eapply ic_inv_same; [split; [exact Hc|split; [exact Hp|exact Hb]]|reflexivity|reflexivity|exact I|exact Hmono]).
  - (* D1 *)
    destruct seen; cbn [fix_cas fixed] in H;
      try (destruct (status_eqb (st s) _));
      inversion H; subst; clear H;
      (eapply ic_inv_same; [split; [exact Hc|split; [exact Hp|exact Hb]]|reflexivity|reflexivity|exact I|exact Hmono]).
  - inversion H; subst; clear H.
    (eapply ic_inv_same; [split; [exact Hc|split; [exact Hp|exact Hb]]|reflexivity|reflexivity|exact I|exact Hmono]).
  - destruct (ctxWG s); inversion H; subst; clear H.
    (eapply ic_inv_same; [split; [exact Hc|split; [exact Hp|exact Hb]]|reflexivity|reflexivity|exact I|exact Hmono]).
  - destruct (all_visited (calls s)); inversion H; subst; clear H.
    (eapply ic_inv_same; [split; [exact Hc|split; [exact Hp|exact Hb]]|reflexivity|reflexivity|exact I|exact Hmono]).
  - destruct seen; inversion H; subst; clear H;
    (eapply ic_inv_same; [split; [exact Hc|split; [exact Hp|exact Hb]]|reflexivity|reflexivity|exact I|exact Hmono]).
  - inversion H; subst; clear H.
    (eapply ic_inv_same; [split; [exact Hc|split; [exact Hp|exact Hb]]|reflexivity|reflexivity|exact I|exact Hmono]).
  - inversion H; subst; clear H.
    eapply ic_inv_same; [split; [exact Hc|split; [exact Hp|exact Hb]]| | |exact I|exact Hmono];
      unfold notify; cbn; destruct (notified s); reflexivity.
  - destruct (all_visited (calls s)); inversion H; subst; clear H.
    (eapply ic_inv_same; [split; [exact Hc|split; [exact Hp|exact Hb]]|reflexivity|reflexivity|exact I|exact Hmono]).
Qed.

Lemma ic_inv_step s e s' fx : stat_inv s -> ic_inv s -> sstep s e = Some (s', fx) -> ic_inv s'.
Proof.
  intros Hsi Hi H.
  assert (Hmono : closed (st s) = true -> closed (st s') = true) by (eapply closed_mono_step; eauto).
  unfold sstep, sstep_cfg in H. destruct e.
  - destruct (conn s); inversion H; subst. eapply ic_inv_same; eauto. apply Hi.
  - unfold noeff, frame_step in H. destruct (rd s) eqn:Erd; try discriminate.
    destruct f; inversion H; subst; (eapply ic_inv_same; eauto; exact I).
  - unfold noeff, close_call in H. destruct (cl s); try discriminate. inversion H; subst.
    eapply ic_inv_same; eauto. apply Hi.
  - (* issue *) inversion H; subst. destruct Hi as (Hc & Hp & Hb).
    unfold ic_inv, issue; cbn. repeat split; auto.
    + apply Forall_snoc; auto. unfold call_ic_ok; cbn. intros E. rewrite E. auto.
    + unfold bound_ok in *; cbn. destruct (rd s); auto; destruct x; auto;
        destruct Hb as (c0 & Hc0 & Hh0); exists c0; split; auto; apply nth_error_snoc_lt; auto.
  - (* push *) inversion H; subst. destruct Hi as (Hc & Hp & Hb).
    unfold ic_inv, push_call; cbn. repeat split; auto.
    apply Forall_snoc; auto. unfold push_ic_ok; cbn. intros E. rewrite E. auto.
  - (* closer *)
    unfold closer_step, notify in H. destruct (cl s); try discriminate;
      try destruct (ctxWG s); try destruct (callWG s); try destruct (notified s);
      try (inversion H; subst; clear H;
           (eapply ic_inv_same; [exact Hi|reflexivity|reflexivity|apply Hi|exact Hmono])).
    all: destruct (st s) eqn:Est; inversion H; subst; clear H;
      (eapply ic_inv_same; [exact Hi|reflexivity|reflexivity|apply Hi|rewrite ?Est; exact Hmono]).
  - eapply reader_step_ic; eauto.
  - unfold noeff in H. destruct (visit_step s i) eqn:E; inversion H; subst. eapply visit_step_ic; eauto.
  - unfold noeff in H. destruct (caller_step s i veto wr) eqn:E; inversion H; subst. eapply caller_step_ic; eauto.
  - unfold noeff in H. destruct (reply_step s i) eqn:E; inversion H; subst. eapply reply_step_ic; eauto.
  - unfold noeff in H. destruct (handler_step s j veto wr) eqn:E; inversion H; subst. eapply handler_step_ic; eauto.
  - unfold noeff in H. destruct (hwait_step s j i) eqn:E; inversion H; subst. eapply hwait_step_ic; eauto.
Qed.
(* ---- no handler starts after close ---- *)
Definition hq (h : hctx) : Prop :=
  match k_kind h with KCall | KPush => k_pc h <> K0 | _ => True end.

Definition quiet_closed (s : sess) : Prop :=
  closed (st s) = true /\ (match rd s with R4 (XMsg _) | R4 (XBound _ _) => False | _ => True end) /\ Forall hq (hctxs s).

Lemma closed_not_goon x : closed x = true -> goon x = false.
Proof. destruct x; cbn; try discriminate; reflexivity. Qed.

Lemma early_closed s x : closed (st s) = true -> early s x = true.
Proof.
  intros H. unfold early. rewrite (closed_not_goon _ H). destruct x; auto. destruct d; auto.
Qed.

Lemma quiet_closed_step s e s' fx :
  stat_inv s -> quiet_closed s -> sstep s e = Some (s', fx) ->
  quiet_closed s' /\ starts s' = starts s.
Proof.
  intros Hsi (Hcl & Hrd & Hh) H.
  assert (Hcl' : closed (st s') = true) by (eapply closed_mono_step; eauto).
  unfold quiet_closed. rewrite Hcl'.
  unfold sstep, sstep_cfg in H. destruct e.
  - destruct (conn s); inversion H; subst; cbn; auto.
  - unfold noeff, frame_step in H. destruct (rd s) eqn:Erd; try discriminate.
    destruct f; inversion H; subst; cbn; auto.
  - unfold noeff, close_call in H. destruct (cl s); try discriminate. inversion H; subst; cbn; auto.
  - inversion H; subst; cbn; auto.
  - inversion H; subst; cbn. repeat split; auto. apply Forall_snoc; auto. unfold hq; cbn; exact I.
  - unfold closer_step, notify in H. destruct (cl s); try discriminate;
      try destruct (ctxWG s); try destruct (callWG s); try destruct (notified s);
      try (inversion H; subst; cbn; auto; fail).
    all: destruct (st s); inversion H; subst; cbn; auto.
  - unfold reader_step in H. destruct (rd s) eqn:Erd; try discriminate; try tauto.
    all: try (destruct x; try tauto; discriminate H).
    + destruct (estab s); [|discriminate]. cbn [fix_acc fixed] in H. inversion H; subst; cbn; auto.
    + destruct (goon (st s)); inversion H; subst; cbn; auto.
    + destruct (nth_error (calls s) i) as [c|]; [destruct (c_tab c)|]; inversion H; subst; cbn; auto.
    + destruct (nth_error (calls s) i) as [c|]; [|discriminate]. destruct (mu_free c); [|discriminate].
      destruct (fix_dup fixed && negb (c_dones c =? 0)); [inversion H; subst; cbn; auto|].
      destruct d; cbn [fix_abort fixed] in H; inversion H; subst; cbn; auto.
    + rewrite (early_closed s x Hcl) in H.
      destruct x; try (inversion H; subst; cbn; auto; fail).
      destruct (nth_error (calls s) i) as [c|]; [|discriminate].
      cbn [fix_abort fixed] in H; inversion H; subst; cbn; auto.
    + inversion H; subst; cbn; auto.
    + destruct seen; cbn [fix_cas fixed] in H; try destruct (status_eqb (st s) _);
        inversion H; subst; cbn; auto.
    + inversion H; subst; cbn; auto.
    + destruct (ctxWG s); inversion H; subst; cbn; auto.
    + destruct (all_visited (calls s)); inversion H; subst; cbn; auto.
    + destruct seen; inversion H; subst; cbn; auto.
    + inversion H; subst; cbn; auto.
    + inversion H; subst; unfold notify; cbn. destruct (notified s); cbn; auto.
    + destruct (all_visited (calls s)); inversion H; subst; cbn; auto.
  - unfold noeff in H. destruct (visit_step s i) eqn:E; inversion H; subst.
    pose proof (visit_step_ctrl _ _ _ E) as (_ & _ & _ & Er & _). rewrite Er.
    unfold visit_step in E. destruct (rd_cancel (rd s)) eqn:Erc; [|discriminate]. unfold visit_body in E.
    destruct (nth_error (calls s) i) as [c|]; [|discriminate].
    destruct (c_tab c && negb (c_vis c) && mu_free c); [|discriminate].
    destruct (negb (c_rep c) && cstat_ok (c_stat c)); inversion E; subst; cbn; auto.
  - unfold noeff in H. destruct (caller_step s i veto wr) eqn:E; inversion H; subst.
    pose proof (caller_step_ctrl _ _ _ _ _ E) as (_ & _ & _ & Er & _). rewrite Er.
    unfold caller_step in E. destruct (nth_error (calls s) i) as [c|]; [|discriminate].
    destruct (c_a c); try discriminate.
    + destruct veto; inversion E; subst; cbn; auto.
    + destruct (admits (st s) false); inversion E; subst; cbn; auto.
    + destruct (wr_ok s wr); [|discriminate]. destruct wr; inversion E; subst; cbn; auto.
    + inversion E; subst; cbn; auto.
  - unfold noeff in H. destruct (reply_step s i) eqn:E; inversion H; subst.
    pose proof (reply_step_ctrl _ _ _ E) as (_ & _ & _ & Er & _). rewrite Er.
    unfold reply_step in E. destruct (nth_error (calls s) i) as [c|]; [|discriminate].
    destruct (c_h c); try discriminate; inversion E; subst; cbn; auto.
  - unfold noeff in H. destruct (handler_step s j veto wr) eqn:E; inversion H; subst.
    pose proof (handler_step_ctrl _ _ _ _ _ E) as (_ & _ & _ & Er & _). rewrite Er.
    unfold handler_step in E. destruct (nth_error (hctxs s) j) as [h|] eqn:En; [|discriminate].
    pose proof (Forall_nth _ _ _ _ Hh En) as Hq. unfold hq in Hq.
    destruct (k_pc h) eqn:Epc; try discriminate.
    + destruct (k_kind h) eqn:Ek; try (exfalso; apply Hq; reflexivity).
      * inversion E; subst; unfold put_ctx; cbn. repeat split; auto.
        apply Forall_upd; auto. unfold hq; cbn. rewrite Ek. exact I.
      * destruct veto; inversion E; subst; cbn; repeat split; auto;
          apply Forall_upd; auto; unfold hq; cbn; rewrite Ek; exact I.
    + destruct (k_kind h) eqn:Ek; inversion E; subst; cbn; repeat split; auto;
        apply Forall_upd; auto; unfold hq; cbn; rewrite Ek; try exact I; discriminate.
    + destruct (admits (st s) _); inversion E; subst; cbn; repeat split; auto;
        apply Forall_upd; auto; unfold hq; cbn; destruct (k_kind h); try exact I; discriminate.
    + destruct (wr_ok s wr); [|discriminate]. inversion E; subst; cbn; repeat split; auto;
        apply Forall_upd; auto; unfold hq; cbn; destruct (k_kind h); try exact I; discriminate.
    + inversion E; subst; unfold put_ctx; cbn; repeat split; auto;
        apply Forall_upd; auto; unfold hq; cbn; destruct (k_kind h); try exact I; discriminate.
    + destruct (nth_error (calls s) i) as [c|]; [destruct (c_dones c =? 0); [discriminate|]|];
        inversion E; subst; cbn; repeat split; auto;
        apply Forall_upd; auto; unfold hq; cbn; destruct (k_kind h); try exact I; discriminate.
  - unfold noeff in H. destruct (hwait_step s j i) eqn:E; inversion H; subst.
    destruct (hwait_step_shape _ _ _ _ E) as (h & En & Epc & ->). cbn. repeat split; auto.
    pose proof (Forall_nth _ _ _ _ Hh En) as Hq. unfold hq in Hq.
    apply Forall_upd; auto. unfold hq; cbn. destruct (k_kind h); try exact I; discriminate.
Qed.
(* ---- the session invariant along histories ---- *)
Definition sinv (s : sess) : Prop := stat_inv s /\ ic_inv s.

Lemma sinv_step s e s' fx : sinv s -> sstep s e = Some (s', fx) -> sinv s'.
Proof. intros (A & B) H. split; [eapply stat_inv_step|eapply ic_inv_step]; eauto. Qed.

Lemma srun_inv es : forall s s', sinv s -> srun s es = Some s' -> sinv s'.
Proof.
  induction es as [|e r IH]; intros s s' Hi H; cbn in H.
  - inversion H; subst; auto.
  - unfold srun in H; cbn in H. fold sstep in H. destruct (sstep s e) as [[s1 fx]|] eqn:E; [|discriminate].
    eapply IH; [eapply sinv_step; eauto|exact H].
Qed.

(* ---- what a terminal state excludes ---- *)
Lemma terminal_event s e : terminal s = true -> In e (cand s) -> internal s e = true -> sstep s e = None.
Proof.
  unfold terminal, terminal_cfg. rewrite forallb_forall. intros H Hin Hint.
  specialize (H e Hin). unfold enabled_cfg in H. rewrite Hint in H. cbn in H.
  fold sstep in H. destruct (sstep s e); [discriminate|reflexivity].
Qed.

Lemma terminal_closer s : terminal s = true -> closer_step s = None.
Proof.
  intros H. apply (terminal_event s ECloser H); [|reflexivity]. unfold cand. cbn. auto.
Qed.

Lemma terminal_reader s : terminal s = true -> reader_step fixed s true = None.
Proof.
  intros H. apply (terminal_event s (EReader true) H); [|reflexivity]. unfold cand. cbn. auto.
Qed.

Lemma terminal_handler s j h : terminal s = true -> nth_error (hctxs s) j = Some h ->
  handler_step s j false (wr_choice s) = None.
Proof.
  intros H Hn. pose proof (terminal_event s (EHandler j false (wr_choice s)) H) as T.
  unfold sstep, sstep_cfg, noeff in T.
  destruct (handler_step s j false (wr_choice s)); [|reflexivity].
  assert (X : Some (s0, FxNone) = None); [|discriminate]. apply T; [|reflexivity].
  unfold cand. rewrite !in_app_iff. right. right. right. right.
  apply in_map_iff. exists j. split; auto. apply in_seq. split; [lia|].
  cbn. apply nth_error_Some. congruence.
Qed.

Lemma terminal_caller s i c : terminal s = true -> nth_error (calls s) i = Some c ->
  caller_step s i false (wr_choice s) = None.
Proof.
  intros H Hn. pose proof (terminal_event s (ECaller i false (wr_choice s)) H) as T.
  unfold sstep, sstep_cfg, noeff in T.
  destruct (caller_step s i false (wr_choice s)); [|reflexivity].
  assert (X : Some (s0, FxNone) = None); [|discriminate]. apply T; [|reflexivity].
  unfold cand. rewrite !in_app_iff. right. right. left.
  apply in_map_iff. exists i. split; auto. apply in_seq. split; [lia|].
  cbn. apply nth_error_Some. congruence.
Qed.

Lemma terminal_reply s i c : terminal s = true -> nth_error (calls s) i = Some c -> reply_step s i = None.
Proof.
  intros H Hn. pose proof (terminal_event s (EReply i) H) as T.
  unfold sstep, sstep_cfg, noeff in T.
  destruct (reply_step s i); [|reflexivity].
  assert (X : Some (s0, FxNone) = None); [|discriminate]. apply T; [|reflexivity].
  unfold cand. rewrite !in_app_iff. right. right. right. left.
  apply in_map_iff. exists i. split; auto. apply in_seq. split; [lia|].
  cbn. apply nth_error_Some. congruence.
Qed.

Lemma terminal_visit s i c : terminal s = true -> nth_error (calls s) i = Some c -> visit_step s i = None.
Proof.
  intros H Hn. pose proof (terminal_event s (EVisit i) H) as T.
  unfold sstep, sstep_cfg, noeff in T.
  destruct (visit_step s i); [|reflexivity].
  assert (X : Some (s0, FxNone) = None); [|discriminate]. apply T; [|reflexivity].
  unfold cand. rewrite !in_app_iff. right. left.
  apply in_map_iff. exists i. split; auto. apply in_seq. split; [lia|].
  cbn. apply nth_error_Some. congruence.
Qed.

Lemma wr_choice_ok s : wr_ok s (wr_choice s) = true.
Proof. unfold wr_ok, wr_choice. destruct (sock s); reflexivity. Qed.

(* in a terminal state every handler context is finished, or its user handler waits for a
   call of the session that has not completed *)
Lemma terminal_hctx_done s j h : terminal s = true -> nth_error (hctxs s) j = Some h ->
  k_pc h = KDone \/ exists i c, k_pc h = K1w i /\ nth_error (calls s) i = Some c /\ c_dones c = 0.
Proof.
  intros H Hn. pose proof (terminal_handler s j h H Hn) as T.
  unfold handler_step in T. rewrite Hn in T. rewrite wr_choice_ok in T. cbv zeta in T.
  destruct (k_pc h) eqn:Epc; auto; try discriminate.
  1-3: try (destruct (k_kind h) eqn:Ek; discriminate T).
  1-2: try (match type of T with context [if ?x then _ else _] => destruct x end; discriminate T).
  right. destruct (nth_error (calls s) i) as [c|] eqn:Ec; [|discriminate].
  destruct (c_dones c =? 0) eqn:Ed; [|discriminate]. apply Nat.eqb_eq in Ed. exists i, c. auto.
Qed.

Lemma terminal_quiet_closed s : ic_inv s -> terminal s = true -> closed (st s) = true -> quiet_closed s.
Proof.
  intros (_ & _ & Hb) H Hc. unfold quiet_closed. repeat split; auto.
  - pose proof (terminal_reader s H) as T. unfold reader_step in T. unfold bound_ok in Hb.
    destruct (rd s); auto. destruct x; auto; try discriminate.
    destruct Hb as (c & Hn & _). rewrite Hn in T. discriminate.
  - apply Forall_forall. intros h Hin. destruct (In_nth_error _ _ Hin) as (j & Hj).
    unfold hq. destruct (terminal_hctx_done s j h H Hj) as [X|(i & c & X & _)]; rewrite X;
      destruct (k_kind h); auto; discriminate.
Qed.

(* no_handler_after_close, along any continuation *)
Lemma quiet_closed_run es : forall s s', sinv s -> quiet_closed s -> srun s es = Some s' ->
  starts s' = starts s /\ quiet_closed s'.
Proof.
  induction es as [|e r IH]; intros s s' Hi Hq H.
  - inversion H; subst; auto.
  - unfold srun in H; cbn in H. fold sstep in H. destruct (sstep s e) as [[s1 fx]|] eqn:E; [|discriminate].
    destruct (quiet_closed_step _ _ _ _ (proj1 Hi) Hq E) as (Hq1 & E1).
    destruct (IH s1 s' (sinv_step _ _ _ _ Hi E) Hq1 H) as (E2 & Hq2). split; [congruence|auto].
Qed.

(* counters *)
Lemma stat_inv_notified s : stat_inv s -> notified s <= 1.
Proof. intros (_ & _ & (H & _) & _). exact H. Qed.

Lemma stat_inv_hooks s : stat_inv s -> hooks s <= 1.
Proof.
  intros (_ & _ & _ & H & _). unfold hk_ok in H. rewrite H.
  destruct (st s); try lia. destruct (cl s); lia.
Qed.

Lemma closed_notified s : stat_inv s -> closed (st s) = true -> notified s = 1.
Proof. intros (_ & _ & (_ & _ & H) & _). exact H. Qed.

Lemma terminal_closed_hooks s : stat_inv s -> terminal s = true -> closed (st s) = true -> hooks s = 1.
Proof.
  intros (Hc & _ & _ & H & _) T Hcl. unfold hk_ok in H. rewrite H.
  pose proof (terminal_closer s T) as X. unfold closer_step in X.
  destruct (st s); try discriminate; auto. destruct (cl s); auto; discriminate.
Qed.

Lemma not_closed_hooks s : stat_inv s -> closed (st s) = false -> hooks s = 0 .
Proof.
  intros (_ & _ & _ & H & _) Hcl. unfold hk_ok in H. rewrite H. destruct (st s); auto; discriminate.
Qed.
