(* Lemmas for C20 over Model/PoolsAlias.v: a call on one metadata container writes only to
   buffers that container already reaches or to newly allocated ones; with the copy loop of
   copyArgs as coded two containers never reach a common buffer, so they stay independent. *)
From Coq Require Import Strings.String Strings.Byte.
From Coq Require Import List Arith NArith ZArith Bool Lia Permutation.
From Verif Require Import Base.Bytes Base.Val Model.Pools Model.PoolsAlias.
Import ListNotations.

Lemma upd_nth_length {A} n (x : A) l : length (upd_nth n x l) = length l.
Proof. revert n; induction l as [|a l IH]; intros [|n]; cbn; auto. Qed.

Lemma upd_nth_other {A} n (x d : A) l j : j <> n -> nth j (upd_nth n x l) d = nth j l d.
Proof.
  revert n j; induction l as [|a l IH]; intros [|n] [|j] H; cbn; auto; try congruence.
Qed.

(* [frame hp0 hp W]: hp extends hp0, and agrees with it outside the buffers in W *)
Definition frame (hp0 hp : heap) (W : list nat) : Prop :=
  length hp0 <= length hp /\
  forall j, j < length hp0 -> ~ In j W -> nth j hp arr_empty = nth j hp0 arr_empty.

(* an id that the acting container may write: one of its own (W) or allocated since hp0 *)
Definition okid (hp0 : heap) (W : list nat) (hp : heap) (id : nat) : Prop :=
  (In id W \/ length hp0 <= id) /\ id < length hp.

Lemma okid_mono hp0 W hp hp' id : okid hp0 W hp id -> length hp <= length hp' -> okid hp0 W hp' id.
Proof. unfold okid. intros [H1 H2] L. split; [exact H1|lia]. Qed.

Lemma frame_refl hp W : frame hp hp W.
Proof. split; auto. Qed.

Section Proofs.
Variable grow : nat -> nat -> nat -> nat.

Lemma hset_ok hp0 W hp h x hp' h' :
  frame hp0 hp W -> (forall id, In id (hdr_ids h) -> okid hp0 W hp id) ->
  hset grow hp h x = (hp', h') ->
  frame hp0 hp' W /\ length hp <= length hp' /\ (forall id, In id (hdr_ids h') -> okid hp0 W hp' id).
Proof.
  intros [FL FN] Hh E.
  assert (New : forall a, frame hp0 (hp ++ [a]) W /\ length hp <= length (hp ++ [a]) /\
                 (forall id, In id (hdr_ids (Some (length hp, length x))) -> okid hp0 W (hp ++ [a]) id)).
  { intros a. assert (La : length (hp ++ [a]) = S (length hp)) by (rewrite app_length; cbn; lia).
    split; [split; [lia|]|split; [lia|]].
    - intros j Hj Hn. rewrite app_nth1 by lia. apply FN; auto.
    - intros id Hi. cbn in Hi. destruct Hi as [<-|[]]. split; [right; lia|lia]. }
  unfold hset in E. destruct h as [[id n]|].
  - specialize (Hh id (or_introl eq_refl)). destruct Hh as [Hw Hlt].
    destruct (Nat.leb _ _).
    + inversion E; subst; clear E. split; [split; [rewrite upd_nth_length; exact FL|]|split; [rewrite upd_nth_length; lia|]].
      * intros j Hj Hn. rewrite upd_nth_other; [apply FN; auto|].
        intros ->. destruct Hw; [contradiction|lia].
      * intros id' Hi. cbn in Hi. destruct Hi as [<-|[]]. split; [exact Hw|rewrite upd_nth_length; exact Hlt].
    + inversion E; subst; clear E. apply New.
  - destruct x.
    + inversion E; subst. split; [split; [exact FL|exact FN]|split; [lia|intros id []]].
    + inversion E; subst; clear E. apply New.
Qed.

(* the container-level invariant of a run that started at heap hp0 owning W *)
Definition cP (hp0 : heap) (W : list nat) (hp : heap) (c : hargs) : Prop :=
  frame hp0 hp W /\ forall id, In id (owned c) -> okid hp0 W hp id.

Lemma owned_in c id : In id (owned c) <-> exists s, In s (vis c ++ hid c) /\ In id (slot_ids s).
Proof. unfold owned. apply in_flat_map. Qed.

Lemma slot_ids_in s id : In id (slot_ids s) <-> In id (hdr_ids (hk s)) \/ In id (hdr_ids (hv s)).
Proof. unfold slot_ids. apply in_app_iff. Qed.

Lemma h_pop_in c s t z : h_pop grow c = (s, t, z) ->
  (forall id, In id (slot_ids s) -> In id (owned c)) /\
  (forall x, In x t -> In x (hid c)).
Proof.
  unfold h_pop. destruct (hid c) as [|s0 t0] eqn:E.
  - destruct (zc c); intros H; inversion H; subst; split; intros ? [].
  - intros H; inversion H; subst. split.
    + intros id Hi. apply owned_in. exists s. split; [|exact Hi]. rewrite E. apply in_or_app. right. left. reflexivity.
    + intros x Hx. right. exact Hx.
Qed.

Lemma h_add_ok hp0 W hp c k v hp' c' :
  cP hp0 W hp c -> h_add grow hp c k v = (hp', c') -> cP hp0 W hp' c' /\ length hp <= length hp'.
Proof.
  intros [F O] E. unfold h_add in E.
  destruct (h_pop grow c) as [[s t] z] eqn:Ep. destruct (h_pop_in c s t z Ep) as [Ps Pt].
  destruct (hset grow hp (hk s) k) as [hp1 k'] eqn:E1.
  destruct (hset grow hp1 (hv s) v) as [hp2 v'] eqn:E2.
  inversion E; subst; clear E.
  destruct (hset_ok hp0 W hp (hk s) k hp1 k' F) as (F1 & L1 & K1); [|exact E1|].
  { intros id Hi. apply O, Ps, slot_ids_in. left. exact Hi. }
  destruct (hset_ok hp0 W hp1 (hv s) v hp' v' F1) as (F2 & L2 & K2); [|exact E2|].
  { intros id Hi. apply okid_mono with hp; [|exact L1]. apply O, Ps, slot_ids_in. right. exact Hi. }
  split; [|lia]. split; [exact F2|].
  intros id Hi. apply owned_in in Hi as (x & Hx & Hid). cbn [vis hid] in Hx.
  rewrite <- app_assoc in Hx. apply in_app_or in Hx as [Hx|Hx].
  - apply okid_mono with hp; [|lia]. apply O, owned_in. exists x. split; [apply in_or_app; left; exact Hx|exact Hid].
  - cbn in Hx. destruct Hx as [<-|Hx].
    + apply slot_ids_in in Hid. cbn [hk hv] in Hid. destruct Hid as [Hid|Hid].
      * apply okid_mono with hp1; [apply K1; exact Hid|exact L2].
      * apply K2; exact Hid.
    + apply okid_mono with hp; [|lia]. apply O, owned_in. exists x. split; [apply in_or_app; right; apply Pt; exact Hx|exact Hid].
Qed.

Lemma h_adds_ok hp0 W l : forall hp c hp' c',
  cP hp0 W hp c -> h_adds grow hp c l = (hp', c') -> cP hp0 W hp' c' /\ length hp <= length hp'.
Proof.
  induction l as [|[k v] r IH]; intros hp c hp' c' P E; cbn in E.
  - inversion E; subst. auto.
  - destruct (h_add grow hp c k v) as [hp1 c1] eqn:E1.
    destruct (h_add_ok _ _ _ _ _ _ _ _ P E1) as [P1 L1].
    destruct (IH _ _ _ _ P1 E) as [P2 L2]. split; [exact P2|lia].
Qed.

Lemma cP_sub hp0 W hp c c' : cP hp0 W hp c -> (forall id, In id (owned c') -> In id (owned c)) -> cP hp0 W hp c'.
Proof. intros [F O] H. split; [exact F|]. intros id Hi. apply O, H, Hi. Qed.

Lemma owned_trunc0 (c : hargs) id : In id (owned (gs_trunc0 c)) -> In id (owned c).
Proof. unfold owned, gs_trunc0. cbn. auto. Qed.

Lemma h_set_first_ok hp0 W k v : forall l hp hp' l',
  frame hp0 hp W -> (forall id, In id (flat_map slot_ids l) -> okid hp0 W hp id) ->
  h_set_first grow hp l k v = Some (hp', l') ->
  frame hp0 hp' W /\ length hp <= length hp' /\ (forall id, In id (flat_map slot_ids l') -> okid hp0 W hp' id).
Proof.
  induction l as [|s r IH]; intros hp hp' l' F O E; cbn in E; [discriminate|].
  destruct (bytes_eqb k (hread hp (hk s))).
  - destruct (hset grow hp (hv s) v) as [hp1 v'] eqn:E1. inversion E; subst; clear E.
    destruct (hset_ok hp0 W hp (hv s) v hp' v' F) as (F1 & L1 & K1); [|exact E1|].
    { intros id Hi. apply O. cbn. apply in_or_app. left. apply slot_ids_in. right. exact Hi. }
    split; [exact F1|split; [exact L1|]]. intros id Hi. cbn in Hi. apply in_app_or in Hi as [Hi|Hi].
    + apply slot_ids_in in Hi. cbn [hk hv] in Hi. destruct Hi as [Hi|Hi].
      * apply okid_mono with hp; [|exact L1]. apply O. cbn. apply in_or_app. left. apply slot_ids_in. left. exact Hi.
      * apply K1. exact Hi.
    + apply okid_mono with hp; [|exact L1]. apply O. cbn. apply in_or_app. right. exact Hi.
  - destruct (h_set_first grow hp r k v) as [[hp1 r']|] eqn:E1; [|discriminate].
    inversion E; subst; clear E.
    destruct (IH hp hp' r' F) as (F1 & L1 & K1); [|exact E1|].
    { intros id Hi. apply O. cbn. apply in_or_app. right. exact Hi. }
    split; [exact F1|split; [exact L1|]]. intros id Hi. cbn in Hi. apply in_app_or in Hi as [Hi|Hi].
    + apply okid_mono with hp; [|exact L1]. apply O. cbn. apply in_or_app. left. exact Hi.
    + apply K1. exact Hi.
Qed.

Lemma h_set_ok hp0 W hp c k v hp' c' :
  cP hp0 W hp c -> h_set grow hp c k v = (hp', c') -> cP hp0 W hp' c' /\ length hp <= length hp'.
Proof.
  intros P E. unfold h_set in E.
  destruct (h_set_first grow hp (vis c) k v) as [[hp1 l]|] eqn:E1.
  - inversion E; subst; clear E. destruct P as [F O].
    destruct (h_set_first_ok hp0 W k v (vis c) hp hp' l F) as (F1 & L1 & K1); [|exact E1|].
    { intros id Hi. apply O. unfold owned. rewrite flat_map_app. apply in_or_app. left. exact Hi. }
    split; [|exact L1]. split; [exact F1|]. intros id Hi. unfold owned in Hi. cbn [vis hid] in Hi.
    rewrite flat_map_app in Hi. apply in_app_or in Hi as [Hi|Hi]; [apply K1; exact Hi|].
    apply okid_mono with hp; [|exact L1]. apply O. unfold owned. rewrite flat_map_app. apply in_or_app. right. exact Hi.
  - eapply h_add_ok; eauto.
Qed.

Lemma h_del_loop_in p n : forall rest pre parked x,
  length rest <= n ->
  In x (fst (h_del_loop p pre rest parked) ++ snd (h_del_loop p pre rest parked)) ->
  In x (pre ++ rest ++ parked).
Proof.
  induction n as [|n IH]; intros rest pre parked x Hn H.
  - destruct rest; [|cbn in Hn; lia]. exact H.
  - destruct rest as [|a r]; [exact H|]. cbn [h_del_loop] in H. destruct (p a).
    + destruct r as [|b r'].
      * cbn in H. apply in_app_or in H as [H|H]; apply in_or_app; [left; exact H|right; exact H].
      * apply IH in H; [|cbn in Hn; cbn; lia].
        rewrite <- app_assoc in H. cbn in H.
        apply in_app_or in H as [H|H]; [apply in_or_app; left; exact H|].
        destruct H as [<-|H]; [apply in_or_app; right; right; left; reflexivity|].
        apply in_app_or in H as [H|H]; [apply in_or_app; right; right; right; apply in_or_app; left; exact H|].
        destruct H as [<-|H]; [apply in_or_app; right; left; reflexivity|].
        apply in_or_app; right; right; right; apply in_or_app; right; exact H.
    + apply IH in H; [|cbn in Hn; lia]. rewrite <- app_assoc in H. exact H.
Qed.

Lemma h_del_owned hp c k id : In id (owned (h_del hp c k)) -> In id (owned c).
Proof.
  unfold h_del. intros H.
  destruct (h_del_loop _ [] (vis c) (hid c)) as [v pk] eqn:E.
  apply owned_in in H as (s & Hs & Hid). cbn [vis hid] in Hs.
  apply owned_in. exists s. split; [|exact Hid].
  pose proof (h_del_loop_in (fun s0 => bytes_eqb k (hread hp (hk s0))) (length (vis c)) (vis c) [] (hid c) s (le_n _)) as L.
  rewrite E in L. cbn [fst snd app] in L. apply L. exact Hs.
Qed.

Lemma h_copy_loop_ok hp0 W : forall dst src hp hp' l,
  frame hp0 hp W -> (forall id, In id (flat_map slot_ids dst) -> okid hp0 W hp id) ->
  h_copy_loop grow hp dst src = (hp', l) ->
  frame hp0 hp' W /\ length hp <= length hp' /\ (forall id, In id (flat_map slot_ids l) -> okid hp0 W hp' id).
Proof.
  induction dst as [|d dr IH]; intros src hp hp' l F O E; cbn in E.
  - inversion E; subst. split; [exact F|split; [lia|intros id []]].
  - destruct src as [|s sr].
    + inversion E; subst. split; [exact F|split; [lia|intros id []]].
    + destruct (hset grow hp (hk d) _) as [hp1 k'] eqn:E1.
      destruct (hset grow hp1 (hv d) _) as [hp2 v'] eqn:E2.
      destruct (h_copy_loop grow hp2 dr sr) as [hp3 rest] eqn:E3. inversion E; subst; clear E.
      destruct (hset_ok hp0 W hp (hk d) (hread hp (hk s)) hp1 k' F) as (F1 & L1 & K1); [|exact E1|].
      { intros id Hi. apply O. cbn. apply in_or_app. left. apply slot_ids_in. left. exact Hi. }
      destruct (hset_ok hp0 W hp1 (hv d) (hread hp1 (hv s)) hp2 v' F1) as (F2 & L2 & K2); [|exact E2|].
      { intros id Hi. apply okid_mono with hp; [|exact L1]. apply O. cbn. apply in_or_app. left. apply slot_ids_in. right. exact Hi. }
      destruct (IH sr hp2 hp' rest F2) as (F3 & L3 & K3); [|exact E3|].
      { intros id Hi. apply okid_mono with hp; [|lia]. apply O. cbn. apply in_or_app. right. exact Hi. }
      split; [exact F3|split; [lia|]]. intros id Hi. cbn in Hi. apply in_app_or in Hi as [Hi|Hi]; [|apply K3; exact Hi].
      apply slot_ids_in in Hi. cbn [hk hv] in Hi. destruct Hi as [Hi|Hi].
      * apply okid_mono with hp1; [apply K1; exact Hi|lia].
      * apply okid_mono with hp2; [apply K2; exact Hi|lia].
Qed.

Lemma repeat_zero_ids n id : In id (flat_map slot_ids (repeat hs_zero n)) -> False.
Proof. induction n; cbn; auto. Qed.

Lemma reslice_in (c : hargs) n s : In s (vis (gs_reslice hs_zero n c) ++ hid (gs_reslice hs_zero n c)) ->
  In s (vis c ++ hid c) \/ s = hs_zero.
Proof.
  unfold gs_reslice. destruct (Nat.leb _ _); cbn [vis hid].
  - rewrite firstn_skipn. auto.
  - rewrite app_nil_r. intros H. apply in_app_or in H as [H|H]; [left; exact H|].
    right. apply repeat_spec in H. exact H.
Qed.

(* the copy as coded: only the destination's own (or new) buffers are written *)
Lemma h_copy_ok hp0 W hp dst src hp' c' :
  cP hp0 W hp dst -> h_copy grow false hp dst src = (hp', c') -> cP hp0 W hp' c' /\ length hp <= length hp'.
Proof.
  intros [F O] E. unfold h_copy in E.
  set (d0 := gs_trunc0 dst) in *. set (n := length (vis src)) in *.
  set (d1 := if Nat.ltb (gs_cap d0) n then mkGs (repeat hs_zero n) [] 0 else gs_reslice hs_zero n d0) in *.
  assert (D1 : forall s, In s (vis d1 ++ hid d1) -> In s (vis dst ++ hid dst) \/ s = hs_zero).
  { intros s Hs. unfold d1 in Hs. destruct (Nat.ltb _ _).
    - cbn [vis hid] in Hs. rewrite app_nil_r in Hs. right. apply repeat_spec in Hs. exact Hs.
    - apply reslice_in in Hs. exact Hs. }
  assert (O1 : forall id, In id (flat_map slot_ids (vis d1 ++ hid d1)) -> okid hp0 W hp id).
  { intros id Hi. apply in_flat_map in Hi as (s & Hs & Hid). destruct (D1 s Hs) as [H| ->].
    - apply O, owned_in. exists s. auto.
    - destruct Hid. }
  destruct (h_copy_loop grow hp (vis d1) (vis src)) as [hp1 l] eqn:E1. inversion E; subst; clear E.
  destruct (h_copy_loop_ok hp0 W (vis d1) (vis src) hp hp' l F) as (F1 & L1 & K1); [|exact E1|].
  { intros id Hi. apply O1. rewrite flat_map_app. apply in_or_app. left. exact Hi. }
  split; [|exact L1]. split; [exact F1|]. intros id Hi. unfold owned in Hi. cbn [vis hid] in Hi.
  rewrite flat_map_app in Hi. apply in_app_or in Hi as [Hi|Hi]; [apply K1; exact Hi|].
  apply okid_mono with hp; [|exact L1]. apply O1. rewrite flat_map_app. apply in_or_app. right. exact Hi.
Qed.

Lemma cstep_ok hp0 W hp c o op hp' c' :
  cP hp0 W hp c -> cstep grow false hp c o op = (hp', c') -> cP hp0 W hp' c' /\ length hp <= length hp'.
Proof.
  intros P E. destruct op; cbn in E.
  - inversion E; subst. split; [|lia]. eapply cP_sub; [exact P|]. apply owned_trunc0.
  - eapply h_add_ok; eauto.
  - eapply h_set_ok; eauto.
  - inversion E; subst. split; [|lia]. eapply cP_sub; [exact P|]. intros id. apply h_del_owned.
  - unfold h_refill in E. eapply h_adds_ok; [|exact E]. eapply cP_sub; [exact P|]. apply owned_trunc0.
  - eapply h_copy_ok; eauto.
Qed.

(* ---- reading through a frame ---- *)
Lemma hread_frame hp0 hp W h :
  frame hp0 hp W -> (forall id, In id (hdr_ids h) -> id < length hp0 /\ ~ In id W) -> hread hp h = hread hp0 h.
Proof.
  intros [FL FN] H. destruct h as [[id n]|]; [|reflexivity]. cbn.
  destruct (H id (or_introl eq_refl)) as [H1 H2]. rewrite FN; auto.
Qed.

Lemma habs_frame hp0 hp W (c : hargs) :
  frame hp0 hp W -> (forall id, In id (owned c) -> id < length hp0 /\ ~ In id W) -> habs hp c = habs hp0 c.
Proof.
  intros F H. unfold habs. apply map_ext_in. intros s Hs.
  assert (Hk : forall id, In id (slot_ids s) -> id < length hp0 /\ ~ In id W).
  { intros id Hi. apply H, owned_in. exists s. split; [apply in_or_app; left; exact Hs|exact Hi]. }
  f_equal; apply (hread_frame hp0 hp W); auto; intros id Hi; apply Hk, slot_ids_in; auto.
Qed.

(* ---- two containers ---- *)
Definition wf (hp : heap) (c : hargs) : Prop := forall id, In id (owned c) -> id < length hp.
Definition disjoint (c1 c2 : hargs) : Prop := forall id, In id (owned c1) -> In id (owned c2) -> False.
Definition Inv (w : world) : Prop :=
  wf (w_heap w) (w_a w) /\ wf (w_heap w) (w_b w) /\ disjoint (w_a w) (w_b w).

Lemma Inv_empty : Inv world_empty.
Proof. repeat split; intros id []. Qed.

Lemma Inv_this_other s w : Inv w ->
  wf (w_heap w) (this s w) /\ wf (w_heap w) (other s w) /\ disjoint (this s w) (other s w).
Proof.
  intros (A & B & D). destruct s; cbn; repeat split; auto. intros id H1 H2. exact (D id H2 H1).
Qed.

Lemma wstep_independent w s op : Inv w ->
  Inv (wstep grow false w (s, op)) /\
  habs (w_heap (wstep grow false w (s, op))) (other s (wstep grow false w (s, op)))
  = habs (w_heap w) (other s w).
Proof.
  intros I. destruct (Inv_this_other s w I) as (Wt & Wo & D).
  unfold wstep. destruct (cstep grow false (w_heap w) (this s w) (other s w) op) as [hp c] eqn:E.
  assert (P0 : cP (w_heap w) (owned (this s w)) (w_heap w) (this s w)).
  { split; [apply frame_refl|]. intros id Hi. split; [left; exact Hi|apply Wt; exact Hi]. }
  destruct (cstep_ok _ _ _ _ _ _ _ _ P0 E) as [[F O] L].
  assert (Wc : wf hp c) by (intros id Hi; apply O; exact Hi).
  assert (Wo' : wf hp (other s w)) by (intros id Hi; specialize (Wo id Hi); lia).
  assert (Dc : disjoint c (other s w)).
  { intros id H1 H2. destruct (O id H1) as [[Hw|Hf] _]; [exact (D id Hw H2)|]. specialize (Wo id H2). lia. }
  assert (Ab : habs hp (other s w) = habs (w_heap w) (other s w)).
  { apply (habs_frame _ _ (owned (this s w))); [exact F|]. intros id Hi. split; [apply Wo; exact Hi|].
    intros Hw. exact (D id Hw Hi). }
  destruct s; cbn [put this other w_heap w_a w_b] in *; (split; [|exact Ab]).
  - repeat split; auto.
  - repeat split; auto. intros id H1 H2. exact (Dc id H2 H1).
Qed.

(* any number of calls, all on one side: the other container shows what it showed before *)
Lemma wrun_one_side s ops : forall w, Inv w ->
  Inv (fst (wrun grow false w (map (fun op => (s, op)) ops))) /\
  habs (w_heap (fst (wrun grow false w (map (fun op => (s, op)) ops))))
       (other s (fst (wrun grow false w (map (fun op => (s, op)) ops))))
  = habs (w_heap w) (other s w).
Proof.
  induction ops as [|op r IH]; intros w I.
  - cbn. auto.
  - cbn [map wrun]. destruct (wstep_independent w s op I) as [I1 A1].
    remember (wstep grow false w (s, op)) as w1 eqn:Ew1. clear Ew1.
    specialize (IH w1 I1).
    destruct (wrun grow false w1 (map (fun op0 => (s, op0)) r)) as [w2 obs].
    cbn [fst] in *. destruct IH as [I2 A2]. split; [exact I2|]. rewrite A2. exact A1.
Qed.

(* every world reachable from two empty containers by any interleaving keeps them apart *)
Lemma wrun_Inv ops : forall w, Inv w -> Inv (fst (wrun grow false w ops)).
Proof.
  induction ops as [|[s op] r IH]; intros w I; [exact I|].
  cbn [wrun]. destruct (wstep_independent w s op I) as [I1 _].
  remember (wstep grow false w (s, op)) as w1 eqn:Ew1. clear Ew1.
  specialize (IH w1 I1). destruct (wrun grow false w1 r). exact IH.
Qed.

End Proofs.

(* ---- the aliasing variant: copy(tmp, src) in the grow path ---- *)
Definition g1 : nat -> nat -> nat -> nat := fun _ _ _ => 0.

Definition alias_history : list (side * hop) :=
  [(SA, HRefill [(str "user", str "alice"); (str "role", str "guest")]);
   (SB, HCopyFromOther);
   (SA, HRefill [(str "user", str "mallo"); (str "role", str "admin")])].

Lemma alias_witness :
  let w2 := fst (wrun g1 true world_empty (firstn 2 alias_history)) in
  let w3 := fst (wrun g1 true world_empty alias_history) in
  habs (w_heap w2) (w_b w2) = [(str "user", str "alice"); (str "role", str "guest")] /\
  habs (w_heap w3) (w_b w3) = [(str "user", str "mallo"); (str "role", str "admin")].
Proof. vm_compute. split; reflexivity. Qed.

Lemma alias_as_coded :
  let w3 := fst (wrun g1 false world_empty alias_history) in
  habs (w_heap w3) (w_b w3) = [(str "user", str "alice"); (str "role", str "guest")].
Proof. vm_compute. reflexivity. Qed.

(* second face of it: the released copy is re-acquired and written to *)
Definition alias_history2 : list (side * hop) :=
  [(SA, HAdd (str "user") (str "alice")); (SA, HAdd (str "role") (str "guest"));
   (SB, HCopyFromOther); (SB, HReset); (SB, HAdd (str "auth") (str "admin"))].

Lemma alias_witness2 :
  let w := fst (wrun g1 true world_empty alias_history2) in
  habs (w_heap w) (w_a w) = [(str "auth", str "admin"); (str "role", str "guest")].
Proof. vm_compute. reflexivity. Qed.

(* ==================================================================== swap maps *)
Lemma upd_nth_same {A} n (x d : A) l : n < length l -> nth n (upd_nth n x l) d = x.
Proof.
  revert n; induction l as [|a l IH]; intros [|n] H; cbn in *; try lia; auto. apply IH. lia.
Qed.

Lemma nth_app_last {A} (l : list A) x d : nth (length l) (l ++ [x]) d = x.
Proof. rewrite app_nth2 by lia. rewrite Nat.sub_diag. reflexivity. Qed.

Definition SInv (w : sworld) : Prop :=
  (forall i, sw_sock w = Some i -> i < length (sw_heap w)) /\
  (forall j, sw_ctx w = Some j -> j < length (sw_heap w)) /\
  (forall i j, sw_sock w = Some i -> sw_ctx w = Some j -> i <> j).

Lemma SInv_new : SInv sworld_new.
Proof. repeat split; cbn; intros; discriminate. Qed.

Lemma mread_app hp x o : (forall i, o = Some i -> i < length hp) -> mread (hp ++ [x]) o = mread hp o.
Proof. intros H. destruct o as [i|]; [|reflexivity]. cbn. apply app_nth1. apply H. reflexivity. Qed.

Definition touches_session (o : wop) : bool := match o with WSockStore _ _ => true | _ => false end.

(* one step of the code as it is: the invariant is kept; unless the session itself is written
   to, the session's entries stay what they were; and a new message's context starts with a
   copy of exactly those *)
Lemma SInv_intro hp so sc :
  (forall i, so = Some i -> i < length hp) -> (forall j, sc = Some j -> j < length hp) ->
  (forall i j, so = Some i -> sc = Some j -> i <> j) -> SInv (mkSW hp so sc).
Proof. intros A B C. split; [exact A|split; [exact B|exact C]]. Qed.

Lemma sw_step_ok w o : SInv w ->
  SInv (sw_step false w o) /\
  (touches_session o = false -> sock_view (sw_step false w o) = sock_view w) /\
  (o = WReinit -> ctx_view (sw_step false w o) = copy_entries (sock_view w)).
Proof.
  intros I0. pose proof I0 as (Is & Ic & Id). destruct o; cbn [sw_step touches_session].
  - (* reinit *) unfold sw_reinit. cbn beta iota delta [andb]. split; [|split].
    + apply SInv_intro; rewrite ?app_length; cbn [length].
      * intros i H. specialize (Is i H). lia.
      * intros j H. inversion H. lia.
      * intros i j H1 H2. inversion H2. specialize (Is i H1). lia.
    + intros _. unfold sock_view. cbn [sw_heap sw_sock]. apply mread_app. exact Is.
    + intros _. unfold ctx_view. cbn [sw_heap sw_ctx mread]. apply nth_app_last.
  - (* ctx store *) destruct (sw_ctx w) as [j|] eqn:Ej.
    + split; [|split].
      * apply SInv_intro; rewrite ?upd_nth_length.
        -- exact Is.
        -- intros j0 H. inversion H; subst. apply Ic. reflexivity.
        -- intros i j0 H1 H2. inversion H2; subst. apply Id; auto.
      * intros _. unfold sock_view. cbn [sw_heap sw_sock]. destruct (sw_sock w) as [i|] eqn:Ei; [|reflexivity].
        cbn. apply upd_nth_other. apply (Id i j); auto.
      * intros H. discriminate H.
    + split; [|split].
      * exact I0.
      * reflexivity.
      * intros H. discriminate H.
  - (* session store *) split; [|split; intros H; discriminate H].
    unfold sw_sock_map. destruct (sw_sock w) as [i|] eqn:Ei.
    + apply SInv_intro; rewrite ?upd_nth_length.
      * intros i0 H. cbn [sw_sock] in H. rewrite Ei in H. apply Is. exact H.
      * exact Ic.
      * intros i0 j H1 H2. cbn [sw_sock] in H1. rewrite Ei in H1. apply Id; auto.
    + cbn [fst snd sw_heap sw_sock sw_ctx]. apply SInv_intro; rewrite ?upd_nth_length, ?app_length; cbn [length].
      * intros i H. inversion H. lia.
      * intros j H. specialize (Ic j H). lia.
      * intros i j H1 H2. inversion H1. specialize (Ic j H2). lia.
Qed.

Lemma sw_run_ok ops : forall w, SInv w -> forallb (fun o => negb (touches_session o)) ops = true ->
  SInv (sw_run false w ops) /\ sock_view (sw_run false w ops) = sock_view w.
Proof.
  unfold sw_run. induction ops as [|o r IH]; intros w I H; cbn [fold_left]; [auto|].
  cbn in H. apply andb_true_iff in H as [Ho Hr]. apply negb_true_iff in Ho.
  destruct (sw_step_ok w o I) as (I1 & S1 & _).
  destruct (IH _ I1 Hr) as [I2 S2]. split; [exact I2|]. rewrite S2. apply S1. exact Ho.
Qed.

(* whatever earlier messages' handlers stored in their contexts, the next message's context
   shows the session's entries and nothing else, and the session still holds exactly its own *)
Lemma sw_next_message_clean ops w : SInv w -> forallb (fun o => negb (touches_session o)) ops = true ->
  let w' := sw_step false (sw_run false w ops) WReinit in
  ctx_view w' = copy_entries (sock_view w) /\ sock_view w' = sock_view w.
Proof.
  intros I H. destruct (sw_run_ok ops w I H) as [I1 S1].
  destruct (sw_step_ok (sw_run false w ops) WReinit I1) as (_ & S2 & C2).
  cbv zeta. split.
  - rewrite (C2 eq_refl), S1. reflexivity.
  - rewrite (S2 eq_refl), S1. reflexivity.
Qed.

Definition swap_leak_history : list wop :=
  [WSockStore (str "session-user") (str "alice"); WReinit; WCtxStore (str "accept-encrypt") (str "1"); WReinit].

Lemma swap_leak_witness :
  sock_view (sw_run true sworld_new swap_leak_history)
    = [(str "accept-encrypt", str "1"); (str "session-user", str "alice")] /\
  ctx_view (sw_run true sworld_new swap_leak_history)
    = [(str "accept-encrypt", str "1"); (str "session-user", str "alice")] /\
  sock_view (sw_run false sworld_new swap_leak_history) = [(str "session-user", str "alice")] /\
  ctx_view (sw_run false sworld_new swap_leak_history) = [(str "session-user", str "alice")].
Proof. vm_compute. repeat split. Qed.

(* ==================================================================== pool discipline *)
Definition PInv (st : pstate) : Prop :=
  NoDup (p_pool st ++ p_held st) /\ forall x, In x (p_pool st ++ p_held st) -> x < p_next st.

Lemma PInv_new : PInv pool_new.
Proof. split; [constructor|intros x []]. Qed.

Lemma perm_remove_at {A} i (l : list A) x : nth_error l i = Some x -> Permutation l (x :: remove_at i l).
Proof.
  revert i; induction l as [|a l IH]; intros [|i] H; cbn in *; try discriminate.
  - inversion H. reflexivity.
  - apply IH in H. rewrite perm_swap. constructor. exact H.
Qed.

Lemma nodup_app_disj {A} (l1 l2 : list A) x : NoDup (l1 ++ l2) -> In x l1 -> In x l2 -> False.
Proof.
  induction l1 as [|a l1 IH]; cbn; intros N H1 H2; [destruct H1|].
  inversion N as [|? ? Hn N']; subst. destruct H1 as [->|H1].
  - apply Hn. apply in_or_app. right. exact H2.
  - apply IH; auto.
Qed.

Lemma pstep_ok st o : PInv st -> disciplined o = true ->
  PInv (pstep st o) /\
  (forall c, o = PGet c -> ~ In (pget_obj st c) (p_held st)).
Proof.
  intros [N B] D. destruct o as [choice|i| |x]; try discriminate; cbn [pstep].
  - (* Get *)
    assert (Fresh : PInv (mkP (p_pool st) (p_next st :: p_held st) (S (p_next st))) /\ ~ In (p_next st) (p_held st)).
    { split; [split|]; cbn [p_pool p_held p_next].
      - apply (Permutation_NoDup (Permutation_middle (p_pool st) (p_held st) (p_next st))).
        constructor; [|exact N]. intros H. apply B in H. lia.
      - intros y Hy. apply in_app_or in Hy as [Hy|Hy].
        + assert (y < p_next st) by (apply B, in_or_app; left; exact Hy). lia.
        + destruct Hy as [<-|Hy]; [lia|]. assert (y < p_next st) by (apply B, in_or_app; right; exact Hy). lia.
      - intros H. assert (p_next st < p_next st) by (apply B, in_or_app; right; exact H). lia. }
    destruct choice as [i|].
    + destruct (nth_error (p_pool st) i) as [x|] eqn:E.
      * pose proof (perm_remove_at i (p_pool st) x E) as P.
        assert (P2 : Permutation (p_pool st ++ p_held st) (remove_at i (p_pool st) ++ x :: p_held st)).
        { rewrite P at 1. cbn. apply Permutation_middle. }
        split.
        -- split; cbn [p_pool p_held p_next].
           ++ apply (Permutation_NoDup P2). exact N.
           ++ intros y Hy. apply B. apply (Permutation_in y (Permutation_sym P2)). exact Hy.
        -- intros c Hc. inversion Hc; subst. unfold pget_obj. rewrite E.
           intros H. apply nth_error_In in E. exact (nodup_app_disj _ _ x N E H).
      * destruct Fresh as [F1 F2]. split; [exact F1|]. intros c Hc. inversion Hc; subst. unfold pget_obj. rewrite E. exact F2.
    + destruct Fresh as [F1 F2]. split; [exact F1|]. intros c Hc. inversion Hc; subst. exact F2.
  - (* Put *) split; [|intros c Hc; discriminate].
    destruct (nth_error (p_held st) i) as [x|] eqn:E; [|split; auto].
    pose proof (perm_remove_at i (p_held st) x E) as P.
    assert (P2 : Permutation (p_pool st ++ p_held st) ((x :: p_pool st) ++ remove_at i (p_held st))).
    { rewrite P at 1. cbn. symmetry. apply Permutation_middle. }
    split; cbn [p_pool p_held p_next].
    + apply (Permutation_NoDup P2). exact N.
    + intros y Hy. apply B. apply (Permutation_in y (Permutation_sym P2)). exact Hy.
  - (* Drop *) split; [|intros c Hc; discriminate]. split; cbn [p_pool p_held p_next app].
    + clear B. induction (p_pool st) as [|a l IH]; [exact N|]. inversion N; subst. apply IH. assumption.
    + intros y Hy. apply B. apply in_or_app. right. exact Hy.
Qed.

Lemma prun_ok ops : forall st, PInv st -> forallb disciplined ops = true -> PInv (fold_left pstep ops st).
Proof.
  induction ops as [|o r IH]; intros st I H; cbn [fold_left]; [exact I|].
  cbn in H. apply andb_true_iff in H as [Ho Hr]. apply IH; [|exact Hr]. apply pstep_ok; auto.
Qed.

(* after any disciplined history, the object a Get hands out is held by nobody *)
Lemma pool_exclusive ops c : forallb disciplined ops = true ->
  let st := fold_left pstep ops pool_new in ~ In (pget_obj st c) (p_held st).
Proof.
  intros H. cbv zeta. pose proof (prun_ok ops pool_new PInv_new H) as I.
  destruct (pstep_ok _ (PGet c) I eq_refl) as [_ E]. apply E. reflexivity.
Qed.

(* a second Put of the same object: the pool then hands it to two holders *)
Lemma double_put_witness :
  let st := fold_left pstep [PGet None; PPut 0; PPutAgain 0; PGet (Some 0)] pool_new in
  In (pget_obj st (Some 0)) (p_held st).
Proof. vm_compute. left. reflexivity. Qed.

