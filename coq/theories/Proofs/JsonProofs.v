(* Lemmas about Model/JsonFrame.v: string escaping against gjson's reader, numbers, the
   frame shape, one frame, streams, the sub-protocol of the websocket mixer. *)
From Coq Require Import Strings.String Strings.Byte.
From Coq Require Import List Arith NArith ZArith Bool Lia.
From Verif Require Import Base.Bytes Base.Val Base.Outcome Model.Quote Model.Args Model.Numfmt
  Model.StatusQuery Model.Xfer Model.RawProto Model.FrameStream Model.JsonFrame
  Proofs.QuoteProofs Proofs.ArgsProofs Proofs.NumfmtProofs Proofs.StatusProofs
  Proofs.XferProofs Proofs.RawProofs.
Import ListNotations.
Local Open Scope N_scope.

(* ---- generic stream lemma ---- *)
Lemma decode_all_frames {A X} (unpack : bytes -> res (A * bytes)) (frame : X -> bytes) (obs : X -> A)
  (xs : list X) : forall fuel,
  (forall x, In x xs -> frame x <> [] /\ forall rest, unpack (frame x ++ rest) = Ok (obs x, rest)) ->
  (length xs < fuel)%nat ->
  decode_all fuel unpack (concat (map frame xs)) = (map obs xs, Ok tt).
Proof.
  induction xs as [|x xs IH]; intros fuel H Hfuel.
  - destruct fuel; [lia|]. reflexivity.
  - destruct fuel as [|fuel]; [cbn [length] in Hfuel; lia|]. cbn [length] in Hfuel.
    destruct (H x (or_introl eq_refl)) as [Hne Hu].
    cbn [map concat decode_all].
    destruct (frame x ++ concat (map frame xs)) as [|c0 t0] eqn:E.
    { apply app_eq_nil in E as [E _]. contradiction. }
    rewrite <- E, Hu, IH; [reflexivity | intros y Hy; apply H; right; exact Hy | lia].
Qed.

(* ---- one escaped byte as gjson reads it ---- *)
Definition jesc_u (c : byte) : bytes :=
  [bsl; "u"%byte; "0"%byte; "0"%byte; digit_char (b2n c / 16); digit_char (b2n c mod 16)].

Inductive chunk_ok (c : byte) : bytes -> Prop :=
| ck_plain : (32 <=? b2n c) = true -> beqb c bsl = false -> beqb c dqt = false -> chunk_ok c [c]
| ck_pair d : unesc_char d = Some c -> chunk_ok c [bsl; d]
| ck_u : b2n c < 32 -> chunk_ok c (jesc_u c).

Lemma jesc_byte_ok c : chunk_ok c (jesc_byte c).
Proof.
  destruct c; first
    [ apply ck_plain; reflexivity
    | apply ck_pair; reflexivity
    | apply ck_u; reflexivity ].
Qed.

Lemma goq_byte_ok c : json_safe c = true -> chunk_ok c (goq_byte c) /\ (b2n c <? 128) = true.
Proof.
  destruct c; intros H; try discriminate H; split; try reflexivity; first
    [ apply ck_plain; reflexivity
    | apply ck_pair; reflexivity ].
Qed.

Lemma jesc_u_facts c : b2n c < 32 ->
  let h1 := digit_char (b2n c / 16) in
  let h2 := digit_char (b2n c mod 16) in
  beqb h1 bsl = false /\ beqb h1 dqt = false /\ beqb h2 bsl = false /\ beqb h2 dqt = false /\
  hex4 "0"%byte "0"%byte h1 h2 = b2n c.
Proof.
  destruct c; intros H; try (exfalso; vm_compute in H; discriminate H); vm_compute; repeat split; reflexivity.
Qed.

Section Esc.
  Variable e : byte -> bytes.

  Lemma scan_esc (b : bytes) : forall acc rest,
    (forall c, In c b -> chunk_ok c (e c)) ->
    jstr_scan (flat_map e b ++ dqt :: rest) acc = Some (rev acc ++ flat_map e b, rest).
  Proof.
    induction b as [|c b IH]; intros acc rest H.
    - cbn [flat_map app jstr_scan]. change (beqb dqt bsl) with false. cbn iota.
      rewrite beqb_refl, frev_rev, app_nil_r. reflexivity.
    - cbn [flat_map]. rewrite <- app_assoc.
      assert (Hb : forall c', In c' b -> chunk_ok c' (e c')) by (intros; apply H; right; assumption).
      destruct (H c (or_introl eq_refl)) as [H1 H2 H3 | d Hd | Hu].
      + cbn [app jstr_scan]. rewrite H2, H3. rewrite IH by exact Hb.
        cbn [rev]. rewrite <- app_assoc. reflexivity.
      + cbn [app jstr_scan]. rewrite beqb_refl. rewrite IH by exact Hb.
        cbn [rev]. rewrite <- !app_assoc. reflexivity.
      + destruct (jesc_u_facts c Hu) as (A1 & A2 & A3 & A4 & _).
        unfold jesc_u. cbn [app jstr_scan]. rewrite beqb_refl.
        change (beqb "0"%byte bsl) with false. change (beqb "0"%byte dqt) with false. cbn iota.
        rewrite A1, A2, A3, A4. rewrite IH by exact Hb.
        cbn [rev]. rewrite <- !app_assoc. reflexivity.
  Qed.

  Lemma unescape_esc (b : bytes) :
    (forall c, In c b -> chunk_ok c (e c)) -> junescape (flat_map e b) = Some b.
  Proof.
    induction b as [|c b IH]; intros H; [reflexivity|].
    assert (Hb : forall c', In c' b -> chunk_ok c' (e c')) by (intros; apply H; right; assumption).
    cbn [flat_map].
    destruct (H c (or_introl eq_refl)) as [H1 H2 H3 | d Hd | Hu].
    - cbn [app junescape].
      replace (b2n c <? 32) with false by (symmetry; apply N.ltb_ge; apply N.leb_le; exact H1).
      rewrite H2, IH by exact Hb. reflexivity.
    - cbn [app junescape]. change (b2n bsl <? 32) with false. cbn iota.
      rewrite beqb_refl, Hd, IH by exact Hb. reflexivity.
    - destruct (jesc_u_facts c Hu) as (_ & _ & _ & _ & A5).
      unfold jesc_u. cbn [app junescape]. change (b2n bsl <? 32) with false. cbn iota.
      rewrite beqb_refl. change (unesc_char "u"%byte) with (@None byte). cbn iota.
      rewrite beqb_refl. cbv zeta in A5. rewrite A5.
      replace (b2n c <? 128) with true by (symmetry; apply N.ltb_lt; lia).
      rewrite n2b_b2n, IH by exact Hb. reflexivity.
  Qed.

  Lemma no_bsl_esc (b : bytes) :
    (forall c, In c b -> chunk_ok c (e c)) -> has_bsl (flat_map e b) = false -> flat_map e b = b.
  Proof.
    induction b as [|c b IH]; intros H Hn; [reflexivity|].
    assert (Hb : forall c', In c' b -> chunk_ok c' (e c')) by (intros; apply H; right; assumption).
    cbn [flat_map] in *. unfold has_bsl in Hn. rewrite existsb_app in Hn.
    apply orb_false_iff in Hn as [Hc Hr].
    destruct (H c (or_introl eq_refl)) as [H1 H2 H3 | d Hd | Hu].
    - cbn [app]. f_equal. apply IH; assumption.
    - cbn [existsb] in Hc. rewrite beqb_refl in Hc. discriminate.
    - unfold jesc_u in Hc. cbn [existsb] in Hc. rewrite beqb_refl in Hc. discriminate.
  Qed.

  Lemma jstring_esc (b rest : bytes) :
    (forall c, In c b -> chunk_ok c (e c)) ->
    jstring (dqt :: flat_map e b ++ dqt :: rest) = Some (b, rest).
  Proof.
    intros H. unfold jstring. rewrite beqb_refl, scan_esc by exact H. cbn [rev app].
    unfold jstr_val. destruct (has_bsl (flat_map e b)) eqn:Eb.
    - rewrite unescape_esc by exact H. reflexivity.
    - rewrite no_bsl_esc by assumption. reflexivity.
  Qed.
End Esc.

(* ---- strconv.Quote on json-safe ASCII text ---- *)
Lemma goq_body_ascii quote_hi (s : bytes) :
  forallb (fun c => b2n c <? 128) s = true -> goq_body quote_hi s [] = flat_map goq_byte s.
Proof.
  induction s as [|c s IH]; intros H; [reflexivity|].
  cbn [forallb] in H. apply andb_true_iff in H as [Hc Hs].
  cbn [goq_body flat_map]. rewrite Hc. cbn [flush_hi app]. rewrite IH by exact Hs. reflexivity.
Qed.

Lemma jstring_quote quote_hi (s rest : bytes) :
  forallb json_safe s = true -> jstring (go_quote quote_hi s ++ rest) = Some (s, rest).
Proof.
  intros H. unfold go_quote. rewrite forallb_forall in H.
  rewrite goq_body_ascii.
  - cbn [app]. rewrite <- app_assoc. cbn [app]. apply jstring_esc.
    intros c Hc. apply goq_byte_ok. apply H. exact Hc.
  - apply forallb_forall. intros c Hc. apply goq_byte_ok. apply H. exact Hc.
Qed.

(* ---- character classes of the encodings written into the frame ---- *)
Section Charset.
  Variable P : byte -> bool.

  Lemma forallb_app_intro (x y : bytes) : forallb P x = true -> forallb P y = true -> forallb P (x ++ y) = true.
  Proof. intros. rewrite forallb_app. apply andb_true_iff; split; assumption. Qed.

  Hypothesis P_digit : forall d, d < 16 -> P (digit_char d) = true.
  Hypothesis P_unres : forall c, unreserved c = true -> P c = true.
  Hypothesis P_hex : forall d, d < 16 -> P (hex_upper d) = true.
  Hypothesis P_pct : P "%"%byte = true.
  Hypothesis P_minus : P "-"%byte = true.
  Hypothesis P_amp : P "&"%byte = true.
  Hypothesis P_eq : P "="%byte = true.

  Lemma digits_fuel_class f : forall n rest,
    forallb P rest = true -> forallb P (digits_fuel f 10 n rest) = true.
  Proof.
    induction f as [|f IH]; intros n rest Hr; [exact Hr|].
    cbn [digits_fuel]. destruct (n <? 10) eqn:E.
    - apply N.ltb_lt in E. cbn [forallb]. rewrite P_digit by lia. exact Hr.
    - apply IH. cbn [forallb]. rewrite P_digit; [exact Hr|].
      assert (n mod 10 < 10) by (apply N.mod_lt; lia). lia.
  Qed.

  Lemma format_int_class z : forallb P (format_int 10 z) = true.
  Proof.
    unfold format_int, digits. destruct (z <? 0)%Z; cbn [forallb];
      rewrite ?P_minus, ?digits_fuel_class by reflexivity; reflexivity.
  Qed.

  Lemma quote_class s : forallb P (quote s) = true.
  Proof.
    induction s as [|c r IH]; [reflexivity|]. cbn [quote].
    destruct (unreserved c) eqn:E; cbn [forallb].
    - rewrite P_unres by exact E. exact IH.
    - rewrite P_pct, !P_hex, IH; try reflexivity.
      + apply N.mod_lt. lia.
      + pose proof (b2n_lt c). apply N.div_lt_upper_bound; lia.
  Qed.

  Lemma enc_kv_class p : forallb P (enc_kv p) = true.
  Proof.
    destruct p as [k v]. unfold enc_kv. apply forallb_app_intro; [apply quote_class|].
    destruct (is_nil v); [reflexivity|]. cbn [forallb]. rewrite P_eq. apply quote_class.
  Qed.

  Lemma args_encode_class l : forallb P (args_encode l) = true.
  Proof.
    induction l as [|p r IH]; [reflexivity|].
    destruct r as [|q r]; [apply enc_kv_class|].
    change (args_encode (p :: q :: r)) with (enc_kv p ++ "&"%byte :: args_encode (q :: r)).
    apply forallb_app_intro; [apply enc_kv_class|]. cbn [forallb]. rewrite P_amp. exact IH.
  Qed.

  Hypothesis P_lit : forallb P (str "code=&msg=&cause=") = true.

  Lemma status_encode_class s : forallb P (status_encode s) = true.
  Proof.
    unfold status_encode.
    assert (L1 : forallb P (str "code=") = true) by (revert P_lit; cbn [str forallb]; intros H; repeat (apply andb_true_iff in H as [? H]); repeat (apply andb_true_iff; split); auto).
    assert (L2 : forallb P (str "&msg=") = true) by (revert P_lit; cbn [str forallb]; intros H; repeat (apply andb_true_iff in H as [? H]); repeat (apply andb_true_iff; split); auto).
    assert (L3 : forallb P (str "&cause=") = true) by (revert P_lit; cbn [str forallb]; intros H; repeat (apply andb_true_iff in H as [? H]); repeat (apply andb_true_iff; split); auto).
    repeat apply forallb_app_intro.
    - exact L1.
    - apply format_int_class.
    - destruct (is_nil (st_msg s)); [reflexivity|]. apply forallb_app_intro; [exact L2 | apply quote_class].
    - destruct (st_cause s); [|reflexivity]. apply forallb_app_intro; [exact L3 | apply quote_class].
  Qed.
End Charset.

Lemma lt16_cases (Q : N -> Prop) :
  Q 0 -> Q 1 -> Q 2 -> Q 3 -> Q 4 -> Q 5 -> Q 6 -> Q 7 -> Q 8 -> Q 9 -> Q 10 -> Q 11 -> Q 12 ->
  Q 13 -> Q 14 -> Q 15 -> forall d, d < 16 -> Q d.
Proof.
  intros. destruct d as [|p]; [assumption|].
  do 4 (destruct p as [p|p|]; try assumption; try (exfalso; lia)).
Qed.

Lemma json_safe_unres c : unreserved c = true -> json_safe c = true.
Proof. destruct c; vm_compute; congruence. Qed.

Lemma status_encode_safe s : forallb json_safe (status_encode s) = true.
Proof.
  apply status_encode_class; try reflexivity; try apply json_safe_unres;
    apply lt16_cases; reflexivity.
Qed.

Lemma args_encode_safe l : forallb json_safe (args_encode l) = true.
Proof.
  apply args_encode_class; try reflexivity; try apply json_safe_unres;
    apply lt16_cases; reflexivity.
Qed.

(* ---- numbers ---- *)
Definition not_delim (c : byte) : bool := negb (num_delim c).

Lemma format_int_nodelim z : forallb not_delim (format_int 10 z) = true.
Proof. apply format_int_class; [apply lt16_cases; reflexivity | reflexivity]. Qed.

Lemma span_num_app (x : bytes) : forall acc c rest,
  forallb not_delim x = true -> num_delim c = true ->
  span_num (x ++ c :: rest) acc = (rev acc ++ x, c :: rest).
Proof.
  induction x as [|a x IH]; intros acc c rest Hx Hc.
  - cbn [app span_num]. rewrite Hc, frev_rev, app_nil_r. reflexivity.
  - cbn [forallb] in Hx. apply andb_true_iff in Hx as [Ha Hx].
    unfold not_delim in Ha. apply negb_true_iff in Ha.
    cbn [app span_num]. rewrite Ha, IH by assumption. cbn [rev]. rewrite <- app_assoc. reflexivity.
Qed.

Lemma format_int_head z : exists c t, format_int 10 z = c :: t /\ beqb c "+"%byte = false.
Proof.
  unfold format_int. destruct (z <? 0)%Z.
  - eexists _, _. split; reflexivity.
  - unfold digits.
    assert (B1 : 2 <= 10) by lia. assert (B2 : 10 <= 36) by lia.
    destruct (digits_fuel_head 10 B1 B2 (S (N.to_nat (N.log2 (Z.to_N z)))) (Z.to_N z) []) as (d & t & Hd & E);
      [left; discriminate|].
    exists (digit_char d), t. split; [exact E|]. apply digit_char_facts. exact Hd.
Qed.

Lemma num_tok_format z : int32_ok z = true -> num_tok (format_int 10 z) = Some z.
Proof.
  intros H. destruct (format_int_head z) as (c & t & E & Hc). unfold num_tok.
  rewrite E, Hc, <- E, int10_roundtrip by exact H. reflexivity.
Qed.

Lemma jnum_format z c rest :
  int32_ok z = true -> num_delim c = true ->
  jnum (format_int 10 z ++ c :: rest) = Some (z, c :: rest).
Proof.
  intros Hz Hc. unfold jnum. rewrite span_num_app by (auto using format_int_nodelim).
  cbn [rev app]. rewrite num_tok_format by exact Hz. reflexivity.
Qed.

Lemma byte_z_ok c : int32_ok (byte_z c) = true.
Proof. destruct c; reflexivity. Qed.

Lemma wrap8_byte_z c : wrap8 (byte_z c) = c.
Proof. destruct c; reflexivity. Qed.

Lemma wrap32_id z : int32_ok z = true -> wrap32 z = z.
Proof.
  unfold int32_ok, wrap32. intros H. apply andb_true_iff in H as [H1 H2].
  apply Z.leb_le in H1, H2. rewrite Z.mod_small by lia. lia.
Qed.

Lemma strip_app (l s : bytes) : strip l (l ++ s) = Some s.
Proof. induction l as [|a l IH]; [reflexivity|]. cbn [app strip]. rewrite beqb_refl. exact IH. Qed.

Lemma jnum_format_lit z (L rest : bytes) :
  int32_ok z = true ->
  match L with c :: _ => num_delim c | [] => false end = true ->
  jnum (format_int 10 z ++ L ++ rest) = Some (z, L ++ rest).
Proof.
  intros Hz HL. destruct L as [|c L]; [discriminate|]. cbn [app]. apply jnum_format; assumption.
Qed.

(* ---- the guard of the JSON round trip ---- *)
Definition json_ok (m : msg) : bool :=
  int32_ok (m_seq m) && int32_ok (st_code (m_status m)) && args_ok (m_meta m).

(* the guard before the repair of the service method member *)
Definition json_ok_prefix (m : msg) : bool := json_ok m && forallb json_safe (m_method m).

Definition jraw_of (m : msg) (body : bytes) (xs : list Z) : jraw :=
  mkJraw (m_seq m) (byte_z (m_mtype m)) (m_method m) (status_encode (m_status m))
         (args_encode (m_meta m)) (byte_z (m_codec m)) body xs.

Section Frame.
  Variable quote_hi : bytes -> bytes.
  Variable e : byte -> bytes.

  Lemma parse_members_with mq m body tail :
    json_ok m = true -> (forall c, In c body -> chunk_ok c (e c)) ->
    (forall rest, jstring (mq (m_method m) ++ rest) = Some (m_method m, rest)) ->
    parse_members (json_members_with quote_hi mq e m body ++ tail) = Some (jraw_of m body [], tail).
  Proof.
    unfold json_ok. intros H He Hmeth.
    apply andb_true_iff in H as [H Hmeta].
    apply andb_true_iff in H as [Hseq Hcode].
    unfold json_members_with. repeat rewrite <- app_assoc. unfold parse_members.
    rewrite strip_app. cbn [obind].
    rewrite jnum_format_lit by (auto; reflexivity). cbn [obind].
    rewrite strip_app. cbn [obind].
    rewrite jnum_format_lit by (auto using byte_z_ok; reflexivity). cbn [obind].
    rewrite strip_app. cbn [obind].
    rewrite Hmeth. cbn [obind].
    rewrite strip_app. cbn [obind].
    rewrite jstring_quote by apply status_encode_safe. cbn [obind].
    rewrite strip_app. cbn [obind].
    rewrite jstring_quote by apply args_encode_safe. cbn [obind].
    rewrite strip_app. cbn [obind].
    rewrite jnum_format_lit by (auto using byte_z_ok; reflexivity). cbn [obind].
    rewrite strip_app. cbn [obind].
    change ((dqt :: flat_map e body ++ [dqt]) ++ tail) with (dqt :: (flat_map e body ++ [dqt]) ++ tail).
    rewrite <- app_assoc. cbn [app].
    rewrite jstring_esc by exact He. cbn [obind]. reflexivity.
  Qed.

  (* the repaired code: every service method, as long as the escape function is sound on its
     bytes *)
  Lemma parse_members_ok m body tail :
    json_ok m = true -> (forall c, In c body -> chunk_ok c (e c)) ->
    (forall c, In c (m_method m) -> chunk_ok c (e c)) ->
    parse_members (json_members quote_hi e m body ++ tail) = Some (jraw_of m body [], tail).
  Proof.
    intros H He Hm. unfold json_members. apply parse_members_with; [exact H | exact He |].
    intros rest. unfold esc_str.
    change ((dqt :: flat_map e (m_method m) ++ [dqt]) ++ rest)
      with (dqt :: (flat_map e (m_method m) ++ [dqt]) ++ rest).
    rewrite <- app_assoc. cbn [app]. apply jstring_esc. exact Hm.
  Qed.

  (* before the repair: under the guard on the service method *)
  Lemma parse_members_prefix_ok m body tail :
    json_ok_prefix m = true -> (forall c, In c body -> chunk_ok c (e c)) ->
    parse_members (json_members_prefix quote_hi e m body ++ tail) = Some (jraw_of m body [], tail).
  Proof.
    unfold json_ok_prefix. intros H He. apply andb_true_iff in H as [H Hmeth].
    unfold json_members_prefix. apply parse_members_with; [exact H | exact He |].
    intros rest. apply jstring_quote. exact Hmeth.
  Qed.

  Lemma parse_json_ok m :
    json_ok m = true -> (forall c, chunk_ok c (e c)) ->
    parse_json (json_payload quote_hi e m) = Some (jraw_of m (m_body m) []).
  Proof.
    intros H He. unfold parse_json, json_payload.
    rewrite parse_members_ok by auto. reflexivity.
  Qed.
End Frame.

Lemma msg_of_jraw_ok m body xs :
  json_ok m = true ->
  msg_of_jraw (jraw_of m body xs) body
  = Ok (mkMsg (m_seq m) (m_mtype m) (m_method m) (m_status m) (m_meta m) (m_codec m) body).
Proof.
  unfold json_ok. intros H.
  apply andb_true_iff in H as [H Hmeta].
  apply andb_true_iff in H as [Hseq Hcode].
  unfold msg_of_jraw, jraw_of. cbn [jr_seq jr_mtype jr_method jr_status jr_meta jr_codec].
  rewrite status_roundtrip by exact Hcode. cbn [rbind].
  rewrite args_roundtrip by exact Hmeta. cbn [rbind].
  rewrite wrap32_id by exact Hseq. rewrite !wrap8_byte_z. reflexivity.
Qed.

Lemma msg_eta m :
  mkMsg (m_seq m) (m_mtype m) (m_method m) (m_status m) (m_meta m) (m_codec m) (m_body m) = m.
Proof. destruct m; reflexivity. Qed.

Lemma Some_inj {A} (a b : A) : Some a = Some b -> a = b.
Proof. intros H; injection H; auto. Qed.

(* ---- the shared framing: one frame ---- *)
Theorem pfx_roundtrip parse payload reg lim ids p m f size rest :
  (forall g, In g reg -> inverts g) ->
  pipe_append reg [] ids = (p, None) ->
  parse payload = Ok m ->
  pfx_pack lim p payload = Ok (f, size) ->
  blen f < 4294967296 ->
  pfx_unpack parse reg lim (f ++ rest) = Ok (m, ids, size, rest) /\ 4 + size = blen f.
Proof.
  intros Hinv Hp Hparse Hpack Hlen.
  destruct (append_ok_ids _ _ _ Hp) as (Hids & Hidlen & _).
  unfold pfx_pack in Hpack.
  destruct (pipe_pack p payload) as [b|] eqn:Hpp; cbn [of_option rbind] in Hpack; [|discriminate].
  rewrite Hids in Hpack.
  set (sz := (1 + blen ids + blen b) mod 4294967296) in Hpack.
  destruct (lim <? sz) eqn:Hlim; [discriminate|].
  apply Ok_inj in Hpack. apply pair_equal_spec in Hpack as [Ef Es]. subst size.
  assert (Hflen : blen f = 4 + (1 + blen ids + blen b)).
  { rewrite <- Ef. rewrite blen_app, (be_of_N_blen 4), blen_cons, blen_app. lia. }
  assert (Hsz : sz = 1 + blen ids + blen b).
  { unfold sz. apply N.mod_small. lia. }
  split; [|lia].
  assert (Hidl : blen ids <= 255) by (unfold blen; lia).
  unfold pfx_unpack. rewrite <- Ef. rewrite <- app_assoc.
  rewrite take_app by apply (be_of_N_blen 4). cbn [rbind].
  rewrite N_of_be_of_N by (change (256 ^ N.of_nat 4) with 4294967296; lia).
  rewrite Hlim.
  replace (sz =? 0) with false by (symmetry; apply N.eqb_neq; lia).
  rewrite take_app by (rewrite blen_cons, blen_app; lia). cbn [rbind].
  rewrite b2n_n2b by lia.
  destruct ids as [|i0 ids'].
  - assert (p = []) by (destruct p; [reflexivity | cbn in Hids; discriminate]). subst p.
    cbn [pipe_pack] in Hpp. apply Some_inj in Hpp. subst b.
    change (blen []) with 0. cbn [N.eqb app rbind].
    rewrite Hparse. cbn [rbind]. reflexivity.
  - replace (blen (i0 :: ids') =? 0) with false
      by (symmetry; apply N.eqb_neq; rewrite blen_cons; lia).
    replace (blen ((i0 :: ids') ++ b) <? blen (i0 :: ids')) with false
      by (symmetry; apply N.ltb_ge; rewrite blen_app; lia).
    unfold blen at 1 2. rewrite Nat2N.id, firstn_len_app, skipn_len_app, Hp.
    rewrite (registered_pipe_roundtrip reg _ p Hinv Hp _ _ Hpp). cbn [of_option rbind].
    rewrite Hids, Hparse. cbn [rbind]. reflexivity.
Qed.

Lemma pfx_pack_nonnil lim p payload f size : pfx_pack lim p payload = Ok (f, size) -> f <> [].
Proof.
  unfold pfx_pack. destruct (pipe_pack p payload); cbn [of_option rbind]; [|discriminate].
  destruct (lim <? _); [discriminate|]. intros H. apply Ok_inj in H.
  apply pair_equal_spec in H as [<- _]. destruct (be_of_N 4 _) eqn:E; [|discriminate].
  apply (f_equal (@length byte)) in E. rewrite be_of_N_length in E. discriminate.
Qed.

(* streams of frames of one framing, any payload parser *)
Theorem pfx_stream {X} parse (payload_of : X -> bytes) (msg_of : X -> msg) reg lim :
  (forall g, In g reg -> inverts g) ->
  forall (xs : list (list byte * X * bytes)) fuel,
  Forall (fun '(ids, x, f) => exists p size,
            pipe_append reg [] ids = (p, None) /\ parse (payload_of x) = Ok (msg_of x) /\
            pfx_pack lim p (payload_of x) = Ok (f, size) /\ blen f < 4294967296) xs ->
  (length xs < fuel)%nat ->
  decode_all fuel (fun s => retuple (pfx_unpack parse reg lim s)) (concat (map snd xs))
  = (map (fun '(ids, x, f) => (msg_of x, ids, blen f - 4)) xs, Ok tt).
Proof.
  intros Hinv xs fuel Hwf Hfuel.
  apply (decode_all_frames _ snd (fun '(ids, x, f) => (msg_of x, ids, blen f - 4))); [|exact Hfuel].
  intros [[ids x] f] Hin. rewrite Forall_forall in Hwf. specialize (Hwf _ Hin).
  destruct Hwf as (p & size & Hp & Hparse & Hpack & Hlen). cbn [snd]. split.
  - eapply pfx_pack_nonnil. exact Hpack.
  - intros rest.
    destruct (pfx_roundtrip parse _ reg lim ids p _ f size rest Hinv Hp Hparse Hpack Hlen) as [Hu Hs].
    rewrite Hu. cbn [retuple]. replace (blen f - 4) with size by lia. reflexivity.
Qed.

(* ---- jsonproto: one frame ---- *)
Section JsonProto.
  Variable quote_hi : bytes -> bytes.
  Variable gjson_other : bytes -> jraw.

  Lemma json_parse_ok m :
    json_ok m = true ->
    json_parse gjson_other (json_payload quote_hi jesc_byte m) = Ok m.
  Proof.
    intros Hok. unfold json_parse, gjson_json.
    rewrite parse_json_ok by (auto using jesc_byte_ok). cbn [jr_body jraw_of].
    rewrite msg_of_jraw_ok by exact Hok. rewrite msg_eta. reflexivity.
  Qed.

  Theorem json_roundtrip_lemma reg lim ids p m f size rest :
    (forall g, In g reg -> inverts g) ->
    pipe_append reg [] ids = (p, None) ->
    json_ok m = true ->
    json_pack quote_hi jesc_byte lim p m = Ok (f, size) ->
    blen f < 4294967296 ->
    json_unpack gjson_other reg lim (f ++ rest) = Ok (m, ids, size, rest) /\ 4 + size = blen f.
  Proof.
    intros Hinv Hp Hok Hpack Hlen. unfold json_unpack, json_pack in *.
    eapply pfx_roundtrip; eauto using json_parse_ok.
  Qed.
End JsonProto.

(* ---- jsonproto: streams ---- *)
Definition wf_jframe quote_hi reg lim (x : list byte * msg * bytes) : Prop :=
  let '(ids, m, f) := x in
  exists p size, pipe_append reg [] ids = (p, None) /\ json_ok m = true /\
                 json_pack quote_hi jesc_byte lim p m = Ok (f, size) /\ blen f < 4294967296.

Theorem json_stream_lemma quote_hi gjson_other reg lim :
  (forall g, In g reg -> inverts g) ->
  forall (xs : list (list byte * msg * bytes)) fuel,
  Forall (wf_jframe quote_hi reg lim) xs ->
  (length xs < fuel)%nat ->
  decode_all fuel (fun s => retuple (json_unpack gjson_other reg lim s)) (concat (map snd xs))
  = (map (fun '(ids, m, f) => (m, ids, blen f - 4)) xs, Ok tt).
Proof.
  intros Hinv xs fuel Hwf Hfuel.
  apply (decode_all_frames _ snd (fun '(ids, m, f) => (m, ids, blen f - 4))); [|exact Hfuel].
  intros [[ids m] f] Hin. rewrite Forall_forall in Hwf. specialize (Hwf _ Hin).
  destruct Hwf as (p & size & Hp & Hok & Hpack & Hlen). cbn [snd]. split.
  - eapply pfx_pack_nonnil. exact Hpack.
  - intros rest.
    destruct (json_roundtrip_lemma quote_hi gjson_other reg lim ids p m f size rest Hinv Hp Hok Hpack Hlen)
      as [Hu Hs].
    rewrite Hu. cbn [retuple]. replace (blen f - 4) with size by lia. reflexivity.
Qed.

(* the size reported for a frame depends on that frame alone: whatever frames precede it *)
Theorem json_size_alone_lemma quote_hi gjson_other reg lim :
  (forall g, In g reg -> inverts g) ->
  forall pre1 pre2 x d,
  Forall (wf_jframe quote_hi reg lim) pre1 -> Forall (wf_jframe quote_hi reg lim) pre2 ->
  wf_jframe quote_hi reg lim x ->
  let dec pre := fst (decode_all (S (S (length pre))) (fun s => retuple (json_unpack gjson_other reg lim s))
                                 (concat (map snd (pre ++ [x])))) in
  last (dec pre1) d = last (dec pre2) d /\
  last (dec pre1) d = (let '(ids, m, f) := x in (m, ids, blen f - 4)).
Proof.
  intros Hinv pre1 pre2 x d H1 H2 Hx dec.
  assert (E : forall pre, Forall (wf_jframe quote_hi reg lim) pre ->
              last (dec pre) d = (let '(ids, m, f) := x in (m, ids, blen f - 4))).
  { intros pre Hpre. unfold dec. rewrite (json_stream_lemma quote_hi gjson_other reg lim Hinv).
    - cbn [fst]. rewrite map_app. cbn [map]. rewrite last_last. reflexivity.
    - apply Forall_app. split; [exact Hpre | constructor; [exact Hx | constructor]].
    - rewrite app_length. cbn [length]. lia. }
  rewrite (E pre1 H1), (E pre2 H2). split; reflexivity.
Qed.

(* ---- the body escaping before the repair ---- *)
Theorem json_body_v0_refuted quote_hi gjson_other :
  exists m f size, json_ok m = true /\ json_pack quote_hi jesc_byte_v0 1000 [] m = Ok (f, size) /\
                   json_unpack gjson_other [] 1000 f <> Ok (m, [], size, []).
Proof.
  exists (mkMsg 1 x01 (str "/a/b") status_zero [] x6a [ "a"%byte; bsl; "b"%byte ]).
  eexists. eexists. split; [reflexivity|]. split; [vm_compute; reflexivity|].
  vm_compute. intros H. discriminate H.
Qed.

(* escaping backslash and quote only is not enough: a control character next to an escape *)
Theorem json_body_v1_refuted quote_hi gjson_other :
  exists m f size, json_ok m = true /\ json_pack quote_hi jesc_byte_v1 1000 [] m = Ok (f, size) /\
                   json_unpack gjson_other [] 1000 f <> Ok (m, [], size, []).
Proof.
  exists (mkMsg 1 x01 (str "/a/b") status_zero [] x6a [ "{"%byte; x0a; dqt; "a"%byte; dqt; "}"%byte ]).
  eexists. eexists. split; [reflexivity|]. split; [vm_compute; reflexivity|].
  vm_compute. intros H. discriminate H.
Qed.

(* before the repair of the service method member (strconv.Quote): a service method with a
   control character, written as \x00, is cut short by the reader *)
Theorem json_method_prefix_refuted quote_hi gjson_other :
  exists m f size, json_ok m = true /\ json_pack_prefix quote_hi jesc_byte 1000 [] m = Ok (f, size) /\
                   json_unpack gjson_other [] 1000 f <> Ok (m, [], size, []).
Proof.
  exists (mkMsg 1 x01 (str "/test" ++ [x00]) status_zero [] x6a []).
  eexists. eexists. split; [reflexivity|]. split; [vm_compute; reflexivity|].
  vm_compute. intros H. discriminate H.
Qed.

(* ... and under its guard that code round-trips too (the statement that held before) *)
Theorem json_parse_prefix_ok quote_hi gjson_other m :
  json_ok_prefix m = true ->
  json_parse gjson_other (json_members_prefix quote_hi jesc_byte m (m_body m) ++ [ "}"%byte ]) = Ok m.
Proof.
  intros Hok. unfold json_parse, gjson_json, parse_json.
  rewrite parse_members_prefix_ok by (auto using jesc_byte_ok). cbn [jr_body jraw_of].
  unfold json_ok_prefix in Hok. apply andb_true_iff in Hok as [Hok _].
  change (beqb "}"%byte "}"%byte) with true. cbn iota.
  rewrite msg_of_jraw_ok by exact Hok. rewrite msg_eta. reflexivity.
Qed.

Definition no_sep (c : byte) : bool := negb (beqb c "]"%byte) && negb (beqb c ","%byte).

Lemma format_int_nosep z : forallb no_sep (format_int 10 z) = true.
Proof. apply format_int_class; [apply lt16_cases; reflexivity | reflexivity]. Qed.

Lemma jarr_scan_tok (t : bytes) : forall s cur acc,
  forallb no_sep t = true -> jarr_scan (t ++ s) cur acc = jarr_scan s (rev t ++ cur) acc.
Proof.
  induction t as [|a t IH]; intros s cur acc H; [reflexivity|].
  cbn [forallb] in H. apply andb_true_iff in H as [Ha Ht].
  unfold no_sep in Ha. apply andb_true_iff in Ha as [A1 A2]. apply negb_true_iff in A1, A2.
  cbn [app jarr_scan]. rewrite A1, A2, IH by exact Ht. cbn [rev]. rewrite <- app_assoc. reflexivity.
Qed.

Definition fmtb (c : byte) : bytes := format_int 10 (byte_z c).

Lemma jarr_scan_tail (r : list byte) : forall cur acc rest,
  jarr_scan (jints_tail r ++ "]"%byte :: rest) cur acc = Some (rev acc ++ rev cur :: map fmtb r, rest).
Proof.
  induction r as [|c r IH]; intros cur acc rest.
  - cbn [jints_tail app jarr_scan map]. rewrite beqb_refl, !frev_rev. reflexivity.
  - cbn [jints_tail app jarr_scan map]. change (beqb ","%byte "]"%byte) with false. cbn iota.
    rewrite beqb_refl. rewrite <- app_assoc.
    rewrite jarr_scan_tok by apply format_int_nosep. rewrite IH, frev_rev.
    cbn [rev]. rewrite app_nil_r, rev_involutive, <- app_assoc. reflexivity.
Qed.

Lemma num_toks_fmt (l : list byte) : num_toks (map fmtb l) = Some (map byte_z l).
Proof.
  induction l as [|c l IH]; [reflexivity|]. cbn [map num_toks]. unfold fmtb at 1.
  rewrite num_tok_format by apply byte_z_ok. rewrite IH. reflexivity.
Qed.

Lemma jarray_jints (ids : list byte) (tail : bytes) :
  jarray (jints ids ++ tail) = Some (map byte_z ids, tail).
Proof.
  destruct ids as [|c r]; [reflexivity|].
  unfold jints. cbn [app]. unfold jarray. rewrite beqb_refl.
  rewrite <- !app_assoc. cbn [app].
  rewrite jarr_scan_tok by apply format_int_nosep.
  rewrite jarr_scan_tail. cbn [rev app]. rewrite app_nil_r, rev_involutive.
  fold (fmtb c). change (fmtb c :: map fmtb r) with (map fmtb (c :: r)).
  destruct (format_int_head (byte_z c)) as (h & t & E & _).
  rewrite num_toks_fmt. cbn [map]. unfold fmtb at 1. rewrite E. reflexivity.
Qed.

Lemma append_each_err_loop reg (ids : list byte) : forall q p,
  pipe_append_loop reg q ids = (p, None) -> (length p <= 255)%nat ->
  append_each_err reg ids q = Some p.
Proof.
  induction ids as [|id r IH]; intros q p H Hl; cbn [pipe_append_loop] in H.
  - inversion H. reflexivity.
  - destruct (reg_get reg id) as [f|] eqn:E; [|discriminate].
    destruct (append_loop_ok _ _ _ _ H) as (fs & -> & _ & _).
    cbn [append_each_err]. unfold pipe_append. cbn [pipe_append_loop]. rewrite E.
    replace (Nat.ltb 255 (length (q ++ [f]))) with false
      by (symmetry; apply Nat.ltb_ge; rewrite app_length in Hl; lia).
    apply IH; assumption.
Qed.

Lemma append_each_err_ok reg ids p :
  pipe_append reg [] ids = (p, None) -> append_each_err reg ids [] = Some p.
Proof.
  unfold pipe_append. destruct (pipe_append_loop reg [] ids) as [q [e|]] eqn:E; [discriminate|].
  destruct (Nat.ltb 255 (length q)) eqn:L; [discriminate|]. intros H; inversion H; subst q.
  apply append_each_err_loop; [exact E | apply Nat.ltb_ge in L; exact L].
Qed.

Lemma map_wrap8_byte_z (ids : list byte) : map wrap8 (map byte_z ids) = ids.
Proof. induction ids as [|c r IH]; [reflexivity|]. cbn [map]. rewrite wrap8_byte_z, IH. reflexivity. Qed.

Lemma msg_of_jraw_ok2 m b1 b2 xs :
  json_ok m = true ->
  msg_of_jraw (jraw_of m b1 xs) b2
  = Ok (mkMsg (m_seq m) (m_mtype m) (m_method m) (m_status m) (m_meta m) (m_codec m) b2).
Proof.
  intros H. pose proof (msg_of_jraw_ok m b2 xs H) as E. unfold msg_of_jraw, jraw_of in *.
  cbn [jr_seq jr_mtype jr_method jr_status jr_meta jr_codec] in *. exact E.
Qed.

Section WsJson.
  Variable quote_hi : bytes -> bytes.
  Variable gjson_other : bytes -> jraw.

  Lemma parse_wsj_ok ids m body :
    json_ok m = true ->
    parse_wsj (wsj_payload quote_hi jesc_byte ids m body) = Some (jraw_of m body (map byte_z ids)).
  Proof.
    intros H. unfold parse_wsj, wsj_payload.
    rewrite parse_members_ok by (auto using jesc_byte_ok). cbn [obind].
    rewrite strip_app. cbn [obind]. rewrite jarray_jints. cbn [obind]. reflexivity.
  Qed.

  Theorem wsj_roundtrip_lemma reg lim ids p m b size :
    (forall g, In g reg -> inverts g) ->
    pipe_append reg [] ids = (p, None) ->
    json_ok m = true ->
    wsj_pack quote_hi jesc_byte lim p m = Ok (b, size) ->
    wsj_unpack gjson_other reg lim b = Ok (m, ids, size) /\ size = sub_size lim b.
  Proof.
    intros Hinv Hp Hok Hpack.
    destruct (append_ok_ids _ _ _ Hp) as (Hids & _ & _).
    unfold wsj_pack in Hpack.
    destruct (pipe_pack p (m_body m)) as [body|] eqn:Hpp; cbn [of_option rbind] in Hpack; [|discriminate].
    apply Ok_inj in Hpack. apply pair_equal_spec in Hpack as [Eb Es].
    rewrite Hids in Eb, Es. subst b size. split; [|reflexivity].
    unfold wsj_unpack, gjson_wsj.
    rewrite parse_wsj_ok by exact Hok. cbn [jr_xfer jr_body jraw_of].
    rewrite map_wrap8_byte_z, (append_each_err_ok reg ids p Hp). cbn [of_option rbind].
    rewrite (registered_pipe_roundtrip reg ids p Hinv Hp _ _ Hpp). cbn [of_option rbind].
    rewrite msg_of_jraw_ok2 by exact Hok. cbn [rbind]. rewrite msg_eta, Hids. reflexivity.
  Qed.

  (* the size reported for a websocket message is a function of that message's bytes *)
  Lemma wsj_size_own reg lim b m ids size :
    wsj_unpack gjson_other reg lim b = Ok (m, ids, size) -> size = sub_size lim b.
  Proof.
    unfold wsj_unpack. destruct (append_each_err _ _ _); cbn [of_option rbind]; [|discriminate].
    destruct (pipe_unpack _ _); cbn [of_option rbind]; [|discriminate].
    destruct (msg_of_jraw _ _); cbn [rbind]; try discriminate.
    intros H. apply Ok_inj in H. congruence.
  Qed.
End WsJson.

Theorem wsj_body_v0_refuted quote_hi gjson_other :
  exists m b size, json_ok m = true /\ wsj_pack quote_hi jesc_byte_v0 1000 [] m = Ok (b, size) /\
                   wsj_unpack gjson_other [] 1000 b <> Ok (m, [], size).
Proof.
  exists (mkMsg 1 x01 (str "/a/b") status_zero [] x6a [ "a"%byte; bsl; "b"%byte ]).
  eexists. eexists. split; [reflexivity|]. split; [vm_compute; reflexivity|].
  vm_compute. intros H. discriminate H.
Qed.

(* jsonSubProto before the repair of the service method member (%q) *)
Theorem wsj_method_prefix_refuted quote_hi gjson_other :
  exists m b size, json_ok m = true /\ wsj_pack_prefix quote_hi jesc_byte 1000 [] m = Ok (b, size) /\
                   wsj_unpack gjson_other [] 1000 b <> Ok (m, [], size).
Proof.
  exists (mkMsg 1 x01 (str "/test" ++ [x00]) status_zero [] x6a []).
  eexists. eexists. split; [reflexivity|]. split; [vm_compute; reflexivity|].
  vm_compute. intros H. discriminate H.
Qed.
