(* Proofs about Model/AuthPool.v: the info a checker holds is a copy that no later use of the pooled
   read buffers can change, so every verdict is a function of the connection's own auth frame; the
   zero-copy store is refuted. *)
From Coq Require Import Strings.String Strings.Byte.
From Coq Require Import List Arith NArith ZArith Bool Lia.
From Verif Require Import Base.Bytes Model.Auth Model.AuthPool Proofs.AuthProofs.
Import ListNotations.

(* ---- the system with the copying store refines the specification ---- *)
Definition prel (s : psys) (t : pspec) : Prop :=
  (forall c, held_of s c = option_map Copied (own_of t c)) /\ plog s = slog t.

Lemma prel_step s t e : prel s t -> prel (pstep false s e) (sstep t e).
Proof.
  intros [Hh Hl]. destruct e as [c buf payload off len | buf payload | c]; cbn.
  - split; [|exact Hl]. intros j. cbn. destruct (Nat.eqb j c); [reflexivity | apply Hh].
  - split; assumption.
  - split; [exact Hh|]. rewrite Hl, Hh. destruct (own_of t c); reflexivity.
Qed.

Lemma prel_fold evs : forall s t, prel s t ->
  prel (fold_left (pstep false) evs s) (fold_left sstep evs t).
Proof.
  induction evs as [|e evs IH]; intros s t H; cbn; [exact H|].
  apply IH, prel_step, H.
Qed.

Lemma prun_copy_spec evs : plog (prun false evs) = slog (srun evs).
Proof.
  apply (prel_fold evs psys0 pspec0). split; [intros c; reflexivity | reflexivity].
Qed.

(* ---- in the specification a connection's verdicts depend on its own steps only ---- *)
Definition agree (c : nat) (a b : pspec) : Prop :=
  own_of a c = own_of b c /\ log_of c (slog a) = log_of c (slog b).

Lemma log_of_snoc c l c' v :
  log_of c (l ++ [(c', v)]) = log_of c l ++ (if Nat.eqb c' c then [v] else []).
Proof.
  unfold log_of. rewrite filter_app, map_app. cbn. destruct (Nat.eqb c' c); reflexivity.
Qed.

Lemma agree_step c a b e : agree c a b -> agree c (sstep a e) (sstep b e).
Proof.
  intros [Ho Hl]. destruct e as [c' buf payload off len | buf payload | c']; unfold agree; cbn [sstep own_of slog].
  - split; [|exact Hl]. destruct (Nat.eqb c c'); [reflexivity | exact Ho].
  - split; assumption.
  - split; [exact Ho|]. rewrite !log_of_snoc, Hl.
    destruct (Nat.eqb c' c) eqn:E; [|reflexivity].
    apply Nat.eqb_eq in E. subst c'. rewrite Ho. reflexivity.
Qed.

Lemma agree_fold c evs : forall a b, agree c a b -> agree c (fold_left sstep evs a) (fold_left sstep evs b).
Proof.
  induction evs as [|e evs IH]; intros a b H; cbn; [exact H|]. apply IH, agree_step, H.
Qed.

Lemma agree_skip c t e : about c e = false -> agree c (sstep t e) t.
Proof.
  destruct e as [c' buf payload off len | buf payload | c']; cbn [about]; intros E; unfold agree; cbn [sstep own_of slog].
  - split; [|reflexivity]. rewrite Nat.eqb_sym, E. reflexivity.
  - split; reflexivity.
  - split; [reflexivity|]. rewrite log_of_snoc, E. apply app_nil_r.
Qed.

Lemma agree_trans c x y z : agree c x y -> agree c y z -> agree c x z.
Proof. intros [A B] [C D]. split; congruence. Qed.

Lemma agree_filter c evs : forall t,
  agree c (fold_left sstep evs t) (fold_left sstep (filter (about c) evs) t).
Proof.
  induction evs as [|e evs IH]; intros t; cbn; [split; reflexivity|].
  destruct (about c e) eqn:E; cbn.
  - apply IH.
  - eapply agree_trans; [|apply IH]. apply agree_fold, agree_skip, E.
Qed.

Lemma own_steps_only c evs1 evs2 :
  filter (about c) evs1 = filter (about c) evs2 ->
  log_of c (slog (srun evs1)) = log_of c (slog (srun evs2)).
Proof.
  intros H. unfold srun.
  destruct (agree_filter c evs1 pspec0) as [_ A], (agree_filter c evs2 pspec0) as [_ B].
  rewrite A, B, H. reflexivity.
Qed.

Lemma copy_verdicts_own_steps_only c evs1 evs2 :
  filter (about c) evs1 = filter (about c) evs2 ->
  log_of c (plog (prun false evs1)) = log_of c (plog (prun false evs2)).
Proof. intros H. rewrite !prun_copy_spec. apply own_steps_only, H. Qed.

(* ---- the parked checker of the accept machine ---- *)
Lemma held_others alias c others : forall s,
  Forall (fun e => about c e = false) others ->
  held_of (fold_left (pstep alias) others s) c = held_of s c.
Proof.
  induction others as [|e others IH]; intros s H; cbn; [reflexivity|].
  inversion H as [|? ? E H']; subst. rewrite (IH _ H').
  destruct e as [c' buf payload off len | buf payload | c']; cbn in *; try reflexivity.
  rewrite Nat.eqb_sym, E. reflexivity.
Qed.

Lemma seen_after_copy others i :
  Forall (fun e => about 0 e = false) others -> seen_after false others i = i.
Proof.
  intros H. unfold seen_after. rewrite (held_others false 0 others _ H). cbn.
  apply firstn_all.
Qed.

Section Ext.
  Variable status_code : bytes -> Z.
  Variable info_dec : byte -> bytes -> option bytes.
  Variable route_call : bytes -> bool.
  Variable route_push : bytes -> bool.
  Variable limit : N.
  Notation run := (Auth.run status_code info_dec route_call route_push limit).
  Notation pump_fuel := (Auth.pump_fuel status_code info_dec route_call route_push limit).
  Notation finish_accept := (Auth.finish_accept).

  Definition same_but_verify (a b : checker) : Prop :=
    ck_recvs a = ck_recvs b /\ ck_propagate a = ck_propagate b /\ ck_panic a = ck_panic b /\
    ck_before a = ck_before b /\ ck_after a = ck_after b /\ ck_setid a = ck_setid b /\
    forall i, ck_verify a i = ck_verify b i.

  Lemma verdict_code_ext a b r : same_but_verify a b -> verdict_code a r = verdict_code b r.
  Proof.
    intros (H1 & H2 & _ & _ & _ & _ & Hv). unfold verdict_code. rewrite H1, H2.
    destruct r as [[i|c]|]; rewrite ?Hv; reflexivity.
  Qed.

  Lemma finish_accept_ext a b s r rest :
    same_but_verify a b -> finish_accept a s r rest = finish_accept b s r rest.
  Proof.
    intros H. pose proof (verdict_code_ext a b r H) as Hc.
    destruct H as (H1 & H2 & H3 & H4 & H5 & H6 & Hv).
    unfold Auth.finish_accept. rewrite Hc, H1, H3, H5, H6. reflexivity.
  Qed.

  Lemma pump_fuel_ext a b n : same_but_verify a b -> forall s, pump_fuel a n s = pump_fuel b n s.
  Proof.
    intros H. pose proof H as (H1 & H2 & H3 & H4 & H5 & H6 & Hv).
    induction n as [|n IH]; intros s; [reflexivity|].
    cbn [Auth.pump_fuel]. rewrite H1, H3, H4, H6.
    destruct (ph s); try reflexivity.
    - destruct (hook_fails (ck_before b)); [reflexivity | apply IH].
    - destruct (Nat.eqb (ck_panic b) 1); [reflexivity|].
      destruct (ck_recvs b).
      + rewrite (finish_accept_ext a b _ _ _ H). apply IH.
      + destruct (parse limit (buf s)).
        * destruct (eof s || gone s); [|reflexivity].
          rewrite (finish_accept_ext a b _ _ _ H). apply IH.
        * rewrite (finish_accept_ext a b _ _ _ H). apply IH.
        * rewrite (finish_accept_ext a b _ _ _ H). apply IH.
    - destruct (parse limit (buf s)); try reflexivity.
      destruct (is_app_type f); [apply IH | reflexivity].
  Qed.

  Lemma run_ext a b ins : same_but_verify a b -> run a ins = run b ins.
  Proof.
    intros H. unfold Auth.run.
    assert (P : forall s, pump status_code info_dec route_call route_push limit a s
                          = pump status_code info_dec route_call route_push limit b s)
      by (intros s; unfold pump; apply pump_fuel_ext, H).
    rewrite P. generalize (pump status_code info_dec route_call route_push limit b init).
    induction ins as [|i ins IH]; intros s; cbn; [reflexivity|].
    rewrite IH. f_equal. unfold step. apply P.
  Qed.

  Lemma gated_copy_run ck others ins :
    Forall (fun e => about 0 e = false) others ->
    run (gated false others ck) ins = run ck ins.
  Proof.
    intros H. apply run_ext. unfold same_but_verify, gated; cbn.
    repeat split; try reflexivity. intros i. rewrite (seen_after_copy others i H). reflexivity.
  Qed.
End Ext.

(* ---- the zero-copy store: refuted ---- *)
(* the verdict log of connection 0 changes although its own steps are the same: another connection's
   frame of the same layout, read into the recycled buffer, replaces the info it holds *)
Lemma alias_verdict_depends_on_others :
  exists evs1 evs2 c,
    filter (about c) evs1 = filter (about c) evs2 /\
    log_of c (plog (prun true evs1)) = [Some (str "wrong")] /\
    log_of c (plog (prun true evs2)) = [Some (str "right")].
Proof.
  exists [PRecv 0 7 (str "hdr:wrong") 4 5; PVerdict 0],
         [PRecv 0 7 (str "hdr:wrong") 4 5; PRecv 1 7 (str "hdr:right") 4 5; PVerdict 0], 0%nat.
  vm_compute. repeat split.
Qed.

(* end to end on the accept machine: AUTH_CALL with info "q" (wrong) and a CALL pipelined behind it;
   while the checker is parked another connection's AUTH_CALL with info "r" (right) is read *)
Definition rf_stream : bytes :=
  hex "000000160002776604000006636f64653d3000007371" ++
  hex "0000002d0002323001092f6170702f6563686f0006636f64653d30000073627a726a7861776e77656b7262656d".

Lemma gated_alias_refuted :
  exists others ins,
    Forall (fun e => about 0 e = false) others /\
    let ck := mkChecker 1 false (fun i => bytes_eqb i (str "r")) 0 None None 0 in
    let run' := Auth.run (fun _ => 0%Z) (fun _ b => Some b) (fun _ => true) (fun _ => true) 65536 in
    accepted (run' ck ins) = false /\
    accepted (run' (gated true others ck) ins) = true /\
    In (EvHandler true 72) (trace (run' (gated true others ck) ins)).
Proof.
  exists [PRecv 1 0 (str "r") 0 1], [Bytes rf_stream; Eof].
  split; [repeat constructor|]. vm_compute. repeat split; auto 20.
Qed.
