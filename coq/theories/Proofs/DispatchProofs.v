(* Lemmas about Model/Dispatch.v (C03). *)
From Coq Require Import Strings.String Strings.Byte.
From Coq Require Import List Arith NArith ZArith Bool Lia.
From Verif Require Import Base.Bytes Model.Dispatch.
Import ListNotations.
Local Open Scope Z_scope.

Lemma filter_len_le {A} (p : A -> bool) l : (length (filter p l) <= length l)%nat.
Proof. induction l as [|a l IH]; cbn; [lia|]. destruct (p a); cbn; lia. Qed.

(* ---- shape of what a CALL produces ---- *)
Inductive terminal (q : Z) : action -> Prop :=
| T_reply st : terminal q (Reply q st)
| T_disc : terminal q Disconnect
| T_drop : terminal q Drop.

Inductive call_shape (q : Z) : list action -> Prop :=
| CS0 a : terminal q a -> call_shape q [a]
| CS1 k a : terminal q a -> call_shape q [Invoke k; a].

Section Generic.
  Variable effw : frame -> wres -> wres.
  Variable pf : bool.

  Lemma write_once_terminal f st :
    exists a, write_once effw f st = [a] /\ terminal (f_seq f) a.
  Proof.
    unfold write_once. destruct (first_write effw f st); eexists; split; try reflexivity; constructor.
  Qed.

  Lemma reply_path_terminal f st :
    exists a, reply_path effw f st = [a] /\ terminal (f_seq f) a.
  Proof.
    unfold reply_path.
    destruct (f_verdict f SPreWriteReply); try apply write_once_terminal;
      destruct (first_write effw f st); try (eexists; split; [reflexivity | constructor]);
      destruct (effw f (f_w_err2 f)); eexists; split; try reflexivity; constructor.
  Qed.

  Lemma handle_call_shape f stat h pc : call_shape (f_seq f) (handle_call effw f stat h pc).
  Proof.
    unfold handle_call.
    destruct (negb pc).
    { destruct (write_once_terminal f (if st_ok stat then Some (st_internal CLib) else stat))
        as (a & -> & Ha). constructor; exact Ha. }
    destruct (st_ok stat).
    2:{ destruct (reply_path_terminal f stat) as (a & -> & Ha). constructor; exact Ha. }
    destruct (hook (f_verdict f SPostReadCallBody)) as [|s|c].
    - destruct h as [k|].
      + destruct (f_handler f) as [hs|c|c].
        * destruct (reply_path_terminal f (if st_ok hs then None else hs)) as (a & -> & Ha).
          constructor; exact Ha.
        * destruct (write_once_terminal f (Some (st_internal c))) as (a & -> & Ha).
          constructor; exact Ha.
        * destruct (write_once_terminal f (encode_panic_status f c)) as (a & -> & Ha).
          constructor; exact Ha.
      + destruct (reply_path_terminal f None) as (a & -> & Ha). constructor; exact Ha.
    - destruct (reply_path_terminal f (Some s)) as (a & -> & Ha). constructor; exact Ha.
    - destruct (write_once_terminal f (Some (st_internal c))) as (a & -> & Ha).
      constructor; exact Ha.
  Qed.

  Lemma handle_shape f stat h pc :
    classify_type (f_type f) = TCall -> call_shape (f_seq f) (handle effw f stat h pc).
  Proof.
    intros Ht. unfold handle. destruct (is_not_allowed _). { constructor; constructor. }
    rewrite Ht. apply handle_call_shape.
  Qed.

  Lemma after_read_call_shape f e stat h pc :
    classify_type (f_type f) = TCall ->
    call_shape (f_seq f) (after_read effw pf f e stat h pc).
  Proof.
    intros Ht. unfold after_read.
    destruct (_ || _). { constructor; constructor. }
    destruct (f_spawn_failed f); [|apply handle_shape; exact Ht].
    destruct pf; rewrite Ht; [apply handle_shape; exact Ht | constructor; constructor].
  Qed.

  Lemma dispatch_call_shape f :
    classify_type (f_type f) = TCall -> call_shape (f_seq f) (dispatch effw pf f).
  Proof.
    intros Ht. unfold dispatch.
    destruct (f_verdict f SPreReadHeader); try (constructor; constructor).
    destruct (f_read f).
    - apply after_read_call_shape; exact Ht.
    - destruct (binding f); [constructor; constructor|].
      apply after_read_call_shape; exact Ht.
  Qed.

  (* ---- PUSH / REPLY / unsupported types never produce a reply ---- *)
  Lemma handle_push_no_reply f stat h a :
    In a (handle_push f stat h) -> exists k, a = Invoke k.
  Proof.
    unfold handle_push. destruct h as [k|]; [|intros []].
    destruct (st_ok stat); [|intros []].
    destruct (hook (f_verdict f SPostReadPushBody)); cbn; intros H; try contradiction.
    destruct H as [<-|[]]. eauto.
  Qed.

  Lemma handle_push_length f stat h : (length (handle_push f stat h) <= 1)%nat.
  Proof.
    unfold handle_push. destruct h; [|cbn; lia]. destruct (st_ok stat); [|cbn; lia].
    destruct (hook (f_verdict f SPostReadPushBody)); cbn; lia.
  Qed.

  Lemma handle_noncall f stat h pc a :
    classify_type (f_type f) <> TCall ->
    In a (handle effw f stat h pc) -> a = Disconnect \/ exists k, a = Invoke k.
  Proof.
    intros Ht. unfold handle.
    destruct (is_not_allowed _). { intros [<-|[]]. left; reflexivity. }
    destruct (classify_type (f_type f)); try congruence.
    - intros [].
    - intros H. right. eapply handle_push_no_reply; exact H.
    - intros [<-|[]]. left; reflexivity.
  Qed.

  Lemma after_read_noncall f e stat h pc a :
    classify_type (f_type f) <> TCall ->
    In a (after_read effw pf f e stat h pc) -> a = Disconnect \/ exists k, a = Invoke k.
  Proof.
    intros Ht. unfold after_read.
    destruct (_ || _). { intros [<-|[]]. left; reflexivity. }
    destruct (f_spawn_failed f); [|apply handle_noncall; exact Ht].
    destruct pf.
    - destruct (classify_type (f_type f)) eqn:E; try congruence;
        try (apply handle_noncall; congruence). intros [].
    - destruct (classify_type (f_type f)); try congruence; intros [].
  Qed.

  Lemma dispatch_noncall f a :
    classify_type (f_type f) <> TCall ->
    In a (dispatch effw pf f) -> a = Disconnect \/ exists k, a = Invoke k.
  Proof.
    intros Ht. unfold dispatch.
    destruct (f_verdict f SPreReadHeader); try (intros [<-|[]]; left; reflexivity).
    destruct (f_read f).
    - apply after_read_noncall; exact Ht.
    - destruct (binding f); [intros [<-|[]]; left; reflexivity|].
      apply after_read_noncall; exact Ht.
  Qed.

  Lemma handle_invocations_noncall f stat h pc :
    classify_type (f_type f) <> TCall -> (count is_invoke (handle effw f stat h pc) <= 1)%nat.
  Proof.
    intros Ht. unfold handle. destruct (is_not_allowed _). { cbn; lia. }
    destruct (classify_type (f_type f)); try congruence; try (cbn; lia).
    unfold count. etransitivity; [apply filter_len_le | apply handle_push_length].
  Qed.

  Lemma after_read_noncall_invocations f e stat h pc :
    classify_type (f_type f) <> TCall ->
    (count is_invoke (after_read effw pf f e stat h pc) <= 1)%nat.
  Proof.
    intros Ht. unfold after_read.
    destruct (_ || _). { cbn; lia. }
    destruct (f_spawn_failed f); [|apply handle_invocations_noncall; exact Ht].
    destruct pf.
    - destruct (classify_type (f_type f)) eqn:E; try congruence;
        try (apply handle_invocations_noncall; congruence). cbn; lia.
    - destruct (classify_type (f_type f)); try congruence; cbn; lia.
  Qed.

  (* ---- extensionality in the write filter ---- *)
  Variable effw' : frame -> wres -> wres.

  Lemma first_write_ext f st : (forall w, effw f w = effw' f w) ->
    first_write effw f st = first_write effw' f st.
  Proof. intros H. unfold first_write. apply H. Qed.

  Lemma write_once_ext f st : (forall w, effw f w = effw' f w) ->
    write_once effw f st = write_once effw' f st.
  Proof. intros H. unfold write_once. rewrite (first_write_ext f st H). reflexivity. Qed.

  Lemma reply_path_ext f st : (forall w, effw f w = effw' f w) ->
    reply_path effw f st = reply_path effw' f st.
  Proof.
    intros H. unfold reply_path.
    destruct (f_verdict f SPreWriteReply); try apply write_once_ext; auto;
      rewrite (first_write_ext f st H), (H (f_w_err2 f)); reflexivity.
  Qed.

  Lemma handle_call_ext f stat h pc : (forall w, effw f w = effw' f w) ->
    handle_call effw f stat h pc = handle_call effw' f stat h pc.
  Proof.
    intros H. unfold handle_call.
    destruct (negb pc); [apply write_once_ext; exact H|].
    destruct (st_ok stat); [|apply reply_path_ext; exact H].
    destruct (hook (f_verdict f SPostReadCallBody)).
    - destruct h; [|apply reply_path_ext; exact H].
      destruct (f_handler f); f_equal; [apply reply_path_ext | apply write_once_ext | apply write_once_ext]; exact H.
    - apply reply_path_ext; exact H.
    - apply write_once_ext; exact H.
  Qed.

  Lemma handle_ext f stat h pc : (forall w, effw f w = effw' f w) ->
    handle effw f stat h pc = handle effw' f stat h pc.
  Proof.
    intros H. unfold handle. destruct (is_not_allowed _); [reflexivity|].
    destruct (classify_type (f_type f)); try reflexivity. apply handle_call_ext; exact H.
  Qed.

  Lemma after_read_ext f e stat h pc : (forall w, effw f w = effw' f w) ->
    after_read effw pf f e stat h pc = after_read effw' pf f e stat h pc.
  Proof.
    intros H. unfold after_read. destruct (_ || _); [reflexivity|].
    destruct (f_spawn_failed f); [|apply handle_ext; exact H].
    destruct pf; [|reflexivity].
    destruct (classify_type (f_type f)); try reflexivity; apply handle_ext; exact H.
  Qed.

  Lemma dispatch_ext f : (forall w, effw f w = effw' f w) ->
    dispatch effw pf f = dispatch effw' pf f.
  Proof.
    intros H. unfold dispatch.
    destruct (f_verdict f SPreReadHeader); try reflexivity.
    destruct (f_read f).
    - apply after_read_ext; exact H.
    - destruct (binding f); [reflexivity|]. apply after_read_ext; exact H.
  Qed.
End Generic.

(* ---- consequences of the shape ---- *)
Lemma shape_invocations q l : call_shape q l -> (count is_invoke l <= 1)%nat.
Proof. intros [a Ha|k a Ha]; destruct Ha; cbn; lia. Qed.

Lemma shape_replies q l : call_shape q l -> (count is_reply l <= 1)%nat.
Proof. intros [a Ha|k a Ha]; destruct Ha; cbn; lia. Qed.

Lemma shape_reply_seq q l s st : call_shape q l -> In (Reply s st) l -> s = q.
Proof.
  intros [a Ha|k a Ha] Hin; destruct Ha; cbn in Hin;
    repeat (destruct Hin as [Hin|Hin]; try discriminate; try contradiction);
    inversion Hin; reflexivity.
Qed.

(* exactly one of: answered once (same seq) / disconnected / dropped *)
Definition answered_once (q : Z) (l : list action) : Prop :=
  count (is_reply_seq q) l = 1%nat /\ count is_reply l = 1%nat /\
  count is_disc l = 0%nat /\ count is_drop l = 0%nat.
Definition disconnected_instead (l : list action) : Prop :=
  count is_reply l = 0%nat /\ count is_disc l = 1%nat /\ count is_drop l = 0%nat.
Definition dropped (l : list action) : Prop :=
  count is_reply l = 0%nat /\ count is_disc l = 0%nat /\ count is_drop l = 1%nat.

Lemma shape_trichotomy q l : call_shape q l ->
  answered_once q l \/ disconnected_instead l \/ dropped l.
Proof.
  intros [a Ha|k a Ha]; destruct Ha; unfold answered_once, disconnected_instead, dropped, count;
    cbn; rewrite ?Z.eqb_refl; cbn; auto 10.
Qed.

Lemma dropped_iff_in q l : call_shape q l -> (dropped l <-> In Drop l).
Proof.
  intros [a Ha|k a Ha]; destruct Ha; unfold dropped, count; cbn; split; intros H;
    try (destruct H as (? & ? & ?); discriminate);
    repeat (destruct H as [H|H]; try discriminate; try contradiction); auto.
Qed.

(* ---- where a Drop can come from (repaired tree) ---- *)
Definition error_frames_writable (f : frame) : Prop :=
  f_w_err1 f <> WRefused /\ f_w_err2 f <> WRefused.

Lemma st_internal_not_ok c : st_ok (Some (st_internal c)) = false.
Proof. reflexivity. Qed.

Lemma write_once_no_drop f st :
  st_ok st = false -> f_w_err1 f <> WRefused -> ~ In Drop (write_once eff_write f st).
Proof.
  intros Hs Hw. unfold write_once, first_write, eff_write. rewrite Hs.
  destruct (f_w_err1 f); try congruence; cbn; intros [H|[]]; discriminate.
Qed.

Lemma reply_path_no_drop f st :
  error_frames_writable f -> ~ In Drop (reply_path eff_write f st).
Proof.
  intros [H1 H2]. unfold reply_path.
  assert (Hp : forall c, ~ In Drop (write_once eff_write f (if st_ok st then Some (st_internal c) else st))).
  { intros c. apply write_once_no_drop; [|exact H1]. destruct (st_ok st) eqn:E; [reflexivity | exact E]. }
  assert (Hn : ~ In Drop
     match first_write eff_write f st with
     | WOk => [Reply (f_seq f) (if st_ok st then None else st)]
     | WClosed => [Disconnect]
     | WRefused =>
         match eff_write f (f_w_err2 f) with
         | WOk => [Reply (f_seq f) (Some (st_internal CLib))]
         | WClosed => [Disconnect]
         | WRefused => [Drop]
         end
     end).
  { unfold first_write, eff_write.
    destruct (st_ok st).
    - destruct (f_w_ok f); cbn; try (intros [H|[]]; discriminate).
      destruct (f_w_err2 f); try congruence; cbn; intros [H|[]]; discriminate.
    - destruct (f_w_err1 f); try congruence; cbn; intros [H|[]]; discriminate. }
  destruct (f_verdict f SPreWriteReply); auto.
Qed.

Lemma handle_call_no_drop f stat h pc :
  error_frames_writable f -> ~ In Drop (handle_call eff_write f stat h pc).
Proof.
  intros Hw. pose proof Hw as [H1 H2]. unfold handle_call.
  destruct (negb pc).
  { apply write_once_no_drop; [|exact H1]. destruct (st_ok stat) eqn:E; [reflexivity | exact E]. }
  destruct (st_ok stat) eqn:Es; [|apply reply_path_no_drop; exact Hw].
  destruct (hook (f_verdict f SPostReadCallBody)).
  - destruct h; [|apply reply_path_no_drop; exact Hw].
    destruct (f_handler f); cbn; intros [H|H]; try discriminate; revert H.
    + apply reply_path_no_drop; exact Hw.
    + apply write_once_no_drop; [reflexivity | exact H1].
    + apply write_once_no_drop; [reflexivity | exact H1].
  - apply reply_path_no_drop; exact Hw.
  - apply write_once_no_drop; [reflexivity | exact H1].
Qed.

Lemma handle_no_drop f stat h pc :
  error_frames_writable f -> ~ In Drop (handle eff_write f stat h pc).
Proof.
  intros Hw. unfold handle. destruct (is_not_allowed _); [cbn; intros [H|[]]; discriminate|].
  destruct (classify_type (f_type f)); try (cbn; intros [H|[]]; discriminate).
  - apply handle_call_no_drop; exact Hw.
  - intros [].
  - intros H. apply (handle_push_no_reply f _ _ _) in H. destruct H; discriminate.
Qed.

Lemma after_read_no_drop pf f e stat h pc :
  pf = true \/ f_spawn_failed f = false ->
  error_frames_writable f -> ~ In Drop (after_read eff_write pf f e stat h pc).
Proof.
  intros Hs Hw. unfold after_read.
  destruct (_ || _); [cbn; intros [H|[]]; discriminate|].
  destruct (f_spawn_failed f); [|apply handle_no_drop; exact Hw].
  destruct Hs as [->|Hs]; [|discriminate].
  destruct (classify_type (f_type f)); try (apply handle_no_drop; exact Hw). intros [].
Qed.

Lemma dispatch_no_drop pf f :
  pf = true \/ f_spawn_failed f = false ->
  error_frames_writable f -> ~ In Drop (dispatch eff_write pf f).
Proof.
  intros Hs Hw. unfold dispatch.
  destruct (f_verdict f SPreReadHeader); try (cbn; intros [H|[]]; discriminate).
  destruct (f_read f).
  - apply after_read_no_drop; assumption.
  - destruct (binding f); [cbn; intros [H|[]]; discriminate|].
    apply after_read_no_drop; assumption.
Qed.

(* ---- main lemmas in the form used by Properties/C03.v ---- *)
Definition is_call (f : frame) : Prop := classify_type (f_type f) = TCall.

Lemma call_at_most_one_invocation_lemma effw pf f :
  is_call f -> (count is_invoke (dispatch effw pf f) <= 1)%nat.
Proof. intros H. eapply shape_invocations, dispatch_call_shape, H. Qed.

Lemma noncall_at_most_one_invocation effw pf f :
  classify_type (f_type f) <> TCall -> (count is_invoke (dispatch effw pf f) <= 1)%nat.
Proof.
  intros Hn. unfold dispatch.
  destruct (f_verdict f SPreReadHeader); try (cbn; lia).
  destruct (f_read f).
  - apply after_read_noncall_invocations; exact Hn.
  - destruct (binding f); [cbn; lia|]. apply after_read_noncall_invocations; exact Hn.
Qed.

Lemma any_frame_at_most_one_invocation_lemma effw pf f :
  (count is_invoke (dispatch effw pf f) <= 1)%nat.
Proof.
  destruct (classify_type (f_type f)) eqn:Ht.
  - apply call_at_most_one_invocation_lemma; exact Ht.
  - apply noncall_at_most_one_invocation; congruence.
  - apply noncall_at_most_one_invocation; congruence.
  - apply noncall_at_most_one_invocation; congruence.
Qed.

Lemma call_never_answered_twice_lemma effw pf f :
  is_call f ->
  (count is_reply (dispatch effw pf f) <= 1)%nat /\
  (forall s st, In (Reply s st) (dispatch effw pf f) -> s = f_seq f).
Proof.
  intros H. pose proof (dispatch_call_shape effw pf f H) as Hs. split.
  - eapply shape_replies; exact Hs.
  - intros s st. eapply shape_reply_seq; exact Hs.
Qed.

Lemma call_trichotomy_lemma effw pf f :
  is_call f ->
  answered_once (f_seq f) (dispatch effw pf f) \/ disconnected_instead (dispatch effw pf f) \/
  dropped (dispatch effw pf f).
Proof. intros H. eapply shape_trichotomy, dispatch_call_shape, H. Qed.

Lemma call_exactly_one_reply_or_disconnect_lemma f :
  is_call f -> error_frames_writable f ->
  answered_once (f_seq f) (dispatch_now f) \/ disconnected_instead (dispatch_now f).
Proof.
  intros Hc Hw.
  pose proof (dispatch_call_shape eff_write true f Hc) as Hsh.
  destruct (shape_trichotomy _ _ Hsh) as [H|[H|H]]; auto.
  exfalso. apply (dropped_iff_in _ _ Hsh) in H. revert H.
  apply dispatch_no_drop; [left; reflexivity | assumption].
Qed.

(* the tree before the pool fix needs a goroutine *)
Lemma call_exactly_one_reply_or_disconnect_pre_pool_lemma f :
  is_call f -> f_spawn_failed f = false -> error_frames_writable f ->
  answered_once (f_seq f) (dispatch eff_write false f) \/
  disconnected_instead (dispatch eff_write false f).
Proof.
  intros Hc Hs Hw.
  pose proof (dispatch_call_shape eff_write false f Hc) as Hsh.
  destruct (shape_trichotomy _ _ Hsh) as [H|[H|H]]; auto.
  exfalso. apply (dropped_iff_in _ _ Hsh) in H. revert H.
  apply dispatch_no_drop; [right; exact Hs | assumption].
Qed.

Lemma spawn_ok_pool_irrelevant effw f :
  f_spawn_failed f = false -> dispatch effw false f = dispatch effw true f.
Proof.
  intros Hs. unfold dispatch, after_read. rewrite Hs. reflexivity.
Qed.

(* the pinned tree behaves like the current one while the context is alive and a
   goroutine is available *)
Lemma prefix_agrees_lemma f :
  f_ctx_expired f = false -> f_spawn_failed f = false -> dispatch_prefix f = dispatch_now f.
Proof.
  intros H Hs. unfold dispatch_prefix, dispatch_now.
  rewrite (spawn_ok_pool_irrelevant _ f Hs). apply dispatch_ext.
  intros w. unfold eff_write_prefix, eff_write. rewrite H. destruct w; reflexivity.
Qed.

Lemma noncall_never_replied_lemma effw pf f :
  classify_type (f_type f) <> TCall ->
  count is_reply (dispatch effw pf f) = 0%nat /\ count is_drop (dispatch effw pf f) = 0%nat.
Proof.
  intros Hn. pose proof (dispatch_noncall effw pf f) as Hd.
  assert (Hall : forall p, (forall k, p (Invoke k) = false) -> p Disconnect = false ->
                           count p (dispatch effw pf f) = 0%nat).
  { intros p Hi Hdc. unfold count.
    induction (dispatch effw pf f) as [|a l IH]; [reflexivity|]. cbn.
    destruct (Hd a Hn (or_introl eq_refl)) as [->|[k ->]].
    - rewrite Hdc. apply IH. intros b Hb Hin. apply Hd; [exact Hb | right; exact Hin].
    - rewrite Hi. apply IH. intros b Hb Hin. apply Hd; [exact Hb | right; exact Hin]. }
  split; apply Hall; reflexivity.
Qed.

Lemma push_never_replied_lemma effw pf f :
  classify_type (f_type f) = TPush ->
  count is_reply (dispatch effw pf f) = 0%nat /\ count is_drop (dispatch effw pf f) = 0%nat /\
  (count is_invoke (dispatch effw pf f) <= 1)%nat.
Proof.
  intros Ht. assert (Hn : classify_type (f_type f) <> TCall) by congruence.
  destruct (noncall_never_replied_lemma effw pf f Hn) as [H1 H2].
  repeat split; auto. apply any_frame_at_most_one_invocation_lemma.
Qed.

Lemma unsupported_type_disconnects_lemma effw pf f :
  classify_type (f_type f) = TOther -> pf = true \/ f_spawn_failed f = false ->
  dispatch effw pf f = [Disconnect].
Proof.
  intros Ht Hs.
  assert (Hh : forall stat h pc, handle effw f stat h pc = [Disconnect]).
  { intros. unfold handle. destruct (is_not_allowed _); [reflexivity|]. rewrite Ht. reflexivity. }
  assert (Ha : forall e stat h pc, after_read effw pf f e stat h pc = [Disconnect]).
  { intros. unfold after_read. destruct (_ || _); [reflexivity|].
    destruct (f_spawn_failed f); [|apply Hh].
    destruct Hs as [->|Hs]; [|discriminate]. rewrite Ht. apply Hh. }
  unfold dispatch.
  destruct (f_verdict f SPreReadHeader); try reflexivity.
  destruct (f_read f); [apply Ha|].
  unfold binding. rewrite Ht. apply Ha.
Qed.

Lemma classify_type_total b :
  classify_type b = TOther <-> (b <> x01 /\ b <> x02 /\ b <> x03).
Proof. destruct b; cbn; split; intros H; try discriminate; try reflexivity;
         try (repeat split; discriminate); destruct H as (H1 & H2 & H3); congruence. Qed.

(* ---- which status a reply carries ---- *)
Lemma hook_veto_code v s : hook v = HookVeto s -> (st_code s =? 0) = false.
Proof. destruct v as [|t|c]; cbn; try discriminate. destruct (st_code t =? 0) eqn:E; intros H; inversion H; subst; exact E. Qed.

Lemma hook_veto_src v s : hook v = HookVeto s -> v = VStat s.
Proof. destruct v as [|t|c]; cbn; try discriminate. destruct (st_code t =? 0); intros H; inversion H; reflexivity. Qed.

(* the statuses a reply of [reply_path f st] can carry *)
Lemma write_once_status f st q st' :
  In (Reply q st') (write_once eff_write f st) -> st' = (if st_ok st then None else st).
Proof.
  unfold write_once. destruct (first_write eff_write f st); cbn; intros [H|[]]; inversion H; reflexivity.
Qed.

Lemma reply_path_status f st q st' :
  In (Reply q st') (reply_path eff_write f st) ->
  st' = (if st_ok st then None else st) \/ exists c, st' = Some (st_internal c).
Proof.
  unfold reply_path.
  assert (Hn : In (Reply q st')
     match first_write eff_write f st with
     | WOk => [Reply (f_seq f) (if st_ok st then None else st)]
     | WClosed => [Disconnect]
     | WRefused =>
         match eff_write f (f_w_err2 f) with
         | WOk => [Reply (f_seq f) (Some (st_internal CLib))]
         | WClosed => [Disconnect]
         | WRefused => [Drop]
         end
     end -> st' = (if st_ok st then None else st) \/ exists c, st' = Some (st_internal c)).
  { destruct (first_write eff_write f st); cbn.
    - intros [H|[]]; inversion H; auto.
    - intros [H|[]]; discriminate.
    - destruct (eff_write f (f_w_err2 f)); cbn; intros [H|[]]; inversion H; eauto. }
  destruct (f_verdict f SPreWriteReply); auto.
  intros H. apply write_once_status in H. destruct (st_ok st) eqn:E; cbn in H.
  - right. eauto.
  - rewrite E in H. left. exact H.
Qed.

Inductive reply_source (f : frame) : ostatus -> Prop :=
| RS_ok : reply_source f None
| RS_not_found : reply_source f (Some st_not_found)
| RS_invalid_method : reply_source f (Some st_invalid_method)
| RS_bad_body : reply_source f (Some (st_bad_message CLib))
| RS_internal c : reply_source f (Some (st_internal c))
| RS_plugin sg s :
    In sg [SPostReadCallHeader; SPreReadCallBody; SPostReadCallBody] ->
    f_verdict f sg = VStat s -> reply_source f (Some s)
| RS_handler s : f_handler f = HReturn (Some s) -> reply_source f (Some s).

(* what c.stat can be when handle() starts, for a CALL *)
Definition entry_status (f : frame) (stat : ostatus) : Prop :=
  st_ok stat = true \/ reply_source f stat.

Lemma handle_call_source f stat h pc q st' :
  entry_status f stat ->
  In (Reply q st') (handle_call eff_write f stat h pc) -> reply_source f st'.
Proof.
  intros He. unfold handle_call.
  assert (Hrp : forall st, entry_status f st -> In (Reply q st') (reply_path eff_write f st) ->
                           reply_source f st').
  { intros st Hs H. apply reply_path_status in H. destruct H as [->|[c ->]]; [|constructor].
    destruct (st_ok st) eqn:E; [constructor|]. destruct Hs as [Hs|Hs]; [congruence | exact Hs]. }
  assert (Hwo : forall st, entry_status f st -> In (Reply q st') (write_once eff_write f st) ->
                           reply_source f st').
  { intros st Hs H. apply write_once_status in H. subst.
    destruct (st_ok st) eqn:E; [constructor|]. destruct Hs as [Hs|Hs]; [congruence | exact Hs]. }
  destruct (negb pc).
  { apply Hwo. destruct (st_ok stat) eqn:E; [right; constructor | exact He]. }
  destruct (st_ok stat) eqn:Es; [|apply Hrp; exact He].
  destruct (hook (f_verdict f SPostReadCallBody)) as [|s|c] eqn:Eh.
  - destruct h as [k|].
    + destruct (f_handler f) as [hs|c|c] eqn:Ehd; cbn; intros [H|H]; try discriminate; revert H.
      * apply Hrp. destruct (st_ok hs) eqn:E.
        -- left. reflexivity.
        -- right. destruct hs as [s'|]; [|discriminate]. apply RS_handler. exact Ehd.
      * apply Hwo. right. constructor.
      * apply Hwo. right. constructor.
    + apply Hrp. left. reflexivity.
  - apply Hrp. right. apply (RS_plugin f SPostReadCallBody); [cbn; auto | apply hook_veto_src; exact Eh].
  - apply Hwo. right. constructor.
Qed.

Lemma bind_call_entry f stat h body :
  bind_with f SPostReadCallHeader SPreReadCallBody = Bound stat h body -> entry_status f stat.
Proof.
  unfold bind_with.
  destruct (hook (f_verdict f SPostReadCallHeader)) as [|s|c] eqn:E1; try discriminate.
  - destruct (f_sm_empty f). { intros H; inversion H; subst. right. constructor. }
    destruct (lookup (f_route f)). 2:{ intros H; inversion H; subst. right. constructor. }
    destruct (hook (f_verdict f SPreReadCallBody)) as [|s2|c2] eqn:E2; try discriminate;
      intros H; inversion H; subst.
    + left. reflexivity.
    + right. apply (RS_plugin f SPreReadCallBody); [cbn; auto | apply hook_veto_src; exact E2].
  - intros H; inversion H; subst. right.
    apply (RS_plugin f SPostReadCallHeader); [cbn; auto | apply hook_veto_src; exact E1].
Qed.

Lemma handle_source f stat h pc q st' :
  is_call f -> entry_status f stat ->
  In (Reply q st') (handle eff_write f stat h pc) -> reply_source f st'.
Proof.
  intros Hc He. unfold handle. destruct (is_not_allowed _); [intros [H|[]]; discriminate|].
  rewrite Hc. apply handle_call_source. exact He.
Qed.

Lemma after_read_source f e stat h pc q st' :
  is_call f -> entry_status f stat ->
  In (Reply q st') (after_read eff_write true f e stat h pc) -> reply_source f st'.
Proof.
  intros Hc He. unfold after_read.
  destruct (_ || _); [intros [H|[]]; discriminate|].
  assert (He' : entry_status f (match e with Some _ => Some (st_bad_message CLib) | None => stat end)).
  { destruct e; [right; constructor | exact He]. }
  destruct (f_spawn_failed f); [|apply handle_source; assumption].
  rewrite Hc. apply handle_source; [exact Hc|].
  destruct (st_ok _) eqn:E; [right; constructor | exact He'].
Qed.

Lemma reply_status_source_lemma f q st :
  is_call f -> In (Reply q st) (dispatch_now f) -> reply_source f st.
Proof.
  intros Hc. unfold dispatch_now, dispatch.
  destruct (f_verdict f SPreReadHeader); try (intros [H|[]]; discriminate).
  destruct (f_read f).
  - apply after_read_source; [exact Hc | left; reflexivity].
  - destruct (binding f) as [|stat h body] eqn:Eb; [intros [H|[]]; discriminate|].
    apply after_read_source; [exact Hc|].
    unfold binding in Eb. rewrite Hc in Eb. eapply bind_call_entry; exact Eb.
Qed.

(* ---- the rule, case by case ----
   base environment: the frame is read while the session is open, a goroutine is
   available, preWriteReply does not panic; normal: moreover the first write succeeds *)
Record base_env (f : frame) : Prop := {
  be_call : is_call f;
  be_pre : f_verdict f SPreReadHeader = VNil;
  be_goon : f_goon f = true;
  be_spawn : f_spawn_failed f = false;
  be_pww : forall c, f_verdict f SPreWriteReply <> VPanic c
}.
Record normal_env (f : frame) : Prop := {
  ne_base : base_env f;
  ne_wok : f_w_ok f = WOk;
  ne_werr : f_w_err1 f = WOk
}.

Definition passes (v : verdict) : Prop := hook v = HookOk.

Lemma reply_path_normal f st :
  f_w_ok f = WOk -> f_w_err1 f = WOk -> (forall c, f_verdict f SPreWriteReply <> VPanic c) ->
  reply_path eff_write f st = [Reply (f_seq f) (if st_ok st then None else st)].
Proof.
  intros H1 H2 H3. unfold reply_path, first_write, eff_write.
  destruct (f_verdict f SPreWriteReply) eqn:E; try (exfalso; eapply H3; reflexivity);
    destruct (st_ok st); rewrite ?H1, ?H2; reflexivity.
Qed.

Lemma write_once_normal f st :
  st_ok st = false -> f_w_err1 f = WOk ->
  write_once eff_write f st = [Reply (f_seq f) st].
Proof. intros H1 H2. unfold write_once, first_write, eff_write. rewrite H1, H2. reflexivity. Qed.

Ltac base_start B :=
  destruct B as [Hc Hpre Hgo Hsp Hpw];
  unfold dispatch_now, dispatch, binding, bind_with, after_read, handle;
  rewrite ?Hpre, ?Hc, ?Hgo, ?Hsp.
Ltac norm_start N := destruct N as [B Hwok Hwerr]; base_start B.

Lemma rule_veto_header_lemma f e s :
  normal_env f -> f_read f = RBody e ->
  f_verdict f SPostReadCallHeader = VStat s -> st_code s <> 0 -> st_code s <> 405 ->
  dispatch_now f = [Reply (f_seq f) (Some s)].
Proof.
  intros N Hr Hv H0 H5. norm_start N. rewrite Hr, Hv. cbn [hook].
  apply Z.eqb_neq in H0. rewrite H0. cbn [orb negb].
  unfold is_not_allowed, code_mtype_not_allowed. apply Z.eqb_neq in H5. rewrite H5.
  unfold handle_call. cbn [negb st_ok]. rewrite H0.
  rewrite reply_path_normal by assumption. cbn [st_ok]. rewrite H0. reflexivity.
Qed.

(* a veto whose code is 405 is indistinguishable from an unsupported type *)
Lemma rule_veto_405_lemma effw pf f e s :
  base_env f -> f_read f = RBody e ->
  f_verdict f SPostReadCallHeader = VStat s -> st_code s = 405 ->
  dispatch effw pf f = [Disconnect].
Proof.
  intros B Hr Hv H5. base_start B. rewrite Hr, Hv. cbn [hook]. rewrite H5. cbn [Z.eqb orb negb].
  unfold is_not_allowed, code_mtype_not_allowed. rewrite H5. reflexivity.
Qed.

Lemma rule_invalid_method_lemma f e :
  normal_env f -> f_read f = RBody e -> passes (f_verdict f SPostReadCallHeader) ->
  f_sm_empty f = true ->
  dispatch_now f = [Reply (f_seq f) (Some st_invalid_method)].
Proof.
  intros N Hr Hp Hm. norm_start N. rewrite Hr, Hp, Hm. cbn [orb negb].
  cbn. unfold handle_call. cbn [negb st_ok st_invalid_method st_bad_message st_code Z.eqb].
  rewrite reply_path_normal by assumption. reflexivity.
Qed.

Lemma rule_not_found_lemma f e :
  normal_env f -> f_read f = RBody e -> passes (f_verdict f SPostReadCallHeader) ->
  f_sm_empty f = false -> f_route f = RNone ->
  dispatch_now f = [Reply (f_seq f) (Some st_not_found)].
Proof.
  intros N Hr Hp Hm Hrt. norm_start N. rewrite Hr, Hp, Hm, Hrt. cbn [lookup orb negb].
  cbn. unfold handle_call. cbn [negb st_ok st_not_found st_code Z.eqb].
  rewrite reply_path_normal by assumption. reflexivity.
Qed.

Lemma rule_veto_body_lemma f e s :
  normal_env f -> f_read f = RBody e -> passes (f_verdict f SPostReadCallHeader) ->
  f_sm_empty f = false -> f_route f <> RNone ->
  f_verdict f SPreReadCallBody = VStat s -> st_code s <> 0 -> st_code s <> 405 ->
  dispatch_now f = [Reply (f_seq f) (Some s)].
Proof.
  intros N Hr Hp Hm Hrt Hv H0 H5. norm_start N. rewrite Hr, Hp, Hm, Hv. cbn [hook].
  apply Z.eqb_neq in H0. apply Z.eqb_neq in H5. rewrite H0.
  destruct (f_route f); try congruence; cbn [lookup]; cbn [orb negb];
    unfold is_not_allowed, code_mtype_not_allowed; rewrite H5;
    unfold handle_call; cbn [negb st_ok]; rewrite H0;
    rewrite reply_path_normal by assumption; cbn [st_ok]; rewrite H0; reflexivity.
Qed.

(* body of a known route cannot be decoded, codec id known *)
Lemma rule_bad_body_lemma f :
  normal_env f -> f_read f = RBody (Some true) -> passes (f_verdict f SPostReadCallHeader) ->
  f_sm_empty f = false -> f_route f = RKnown -> passes (f_verdict f SPreReadCallBody) ->
  dispatch_now f = [Reply (f_seq f) (Some (st_bad_message CLib))].
Proof.
  intros N Hr Hp Hm Hrt Hp2. norm_start N. rewrite Hr, Hp, Hm, Hrt, Hp2.
  cbn [lookup]. cbn [orb negb]. cbn.
  unfold handle_call. cbn [negb st_ok st_bad_message st_code Z.eqb].
  rewrite reply_path_normal by assumption. reflexivity.
Qed.

(* same, codec id still 0: the read loop ends *)
Lemma rule_bad_body_no_codec_lemma effw pf f :
  f_verdict f SPreReadHeader = VNil -> f_read f = RBody (Some false) ->
  passes (f_verdict f SPostReadCallHeader) ->
  f_sm_empty f = false -> f_route f = RKnown -> passes (f_verdict f SPreReadCallBody) ->
  is_call f -> dispatch effw pf f = [Disconnect].
Proof.
  intros Hpre Hr Hp Hm Hrt Hp2 Hc.
  unfold dispatch, binding, bind_with, after_read. rewrite Hpre, Hr, Hc, Hp, Hm, Hrt, Hp2.
  reflexivity.
Qed.

(* the frame gets as far as postReadCallBody with handler kind k *)
Record reaches_post_body (f : frame) (k : hkind) : Prop := {
  rb_read : f_read f = RBody None \/ (exists e, f_read f = RBody e /\ k = HUnknown);
  rb_h : passes (f_verdict f SPostReadCallHeader);
  rb_m : f_sm_empty f = false;
  rb_r : lookup (f_route f) = Some k;
  rb_b : passes (f_verdict f SPreReadCallBody)
}.

Lemma to_post_body f k :
  base_env f -> reaches_post_body f k ->
  dispatch_now f = handle_call eff_write f None (Some k) true.
Proof.
  intros B [Hr Hp Hm Hl Hp2]. base_start B.
  destruct Hr as [Hr|(e & Hr & ->)]; rewrite Hr, Hp, Hm, Hl, Hp2.
  - destruct k; reflexivity.
  - reflexivity.
Qed.

Lemma rule_veto_post_body_lemma f k s :
  normal_env f -> reaches_post_body f k ->
  f_verdict f SPostReadCallBody = VStat s -> st_code s <> 0 ->
  dispatch_now f = [Reply (f_seq f) (Some s)].
Proof.
  intros [B Hwok Hwerr] R Hv H0. rewrite (to_post_body f k B R).
  destruct B. apply Z.eqb_neq in H0.
  unfold handle_call. cbn [negb st_ok]. rewrite Hv. cbn [hook]. rewrite H0.
  rewrite reply_path_normal by assumption. cbn [st_ok]. rewrite H0. reflexivity.
Qed.

Lemma to_handler f k :
  base_env f -> reaches_post_body f k -> passes (f_verdict f SPostReadCallBody) ->
  dispatch_now f =
  match f_handler f with
  | HPanic c => Invoke k :: write_once eff_write f (Some (st_internal c))
  | HEncodePanic c => Invoke k :: write_once eff_write f (encode_panic_status f c)
  | HReturn hs => Invoke k :: reply_path eff_write f (if st_ok hs then None else hs)
  end.
Proof.
  intros B R Hp3. rewrite (to_post_body f k B R).
  unfold handle_call. cbn [negb st_ok]. rewrite Hp3. reflexivity.
Qed.

Lemma rule_handler_status_lemma f k hs :
  normal_env f -> reaches_post_body f k -> passes (f_verdict f SPostReadCallBody) ->
  f_handler f = HReturn (Some hs) -> st_code hs <> 0 ->
  dispatch_now f = [Invoke k; Reply (f_seq f) (Some hs)].
Proof.
  intros [B Hwok Hwerr] R Hp Hh H0. rewrite (to_handler f k B R Hp), Hh.
  destruct B. apply Z.eqb_neq in H0. cbn [st_ok]. rewrite H0.
  rewrite reply_path_normal by assumption. cbn [st_ok]. rewrite H0. reflexivity.
Qed.

Lemma rule_handler_ok_lemma f k hs :
  normal_env f -> reaches_post_body f k -> passes (f_verdict f SPostReadCallBody) ->
  f_handler f = HReturn hs -> st_ok hs = true ->
  dispatch_now f = [Invoke k; Reply (f_seq f) None].
Proof.
  intros [B Hwok Hwerr] R Hp Hh H0. rewrite (to_handler f k B R Hp), Hh, H0.
  destruct B. rewrite reply_path_normal by assumption. reflexivity.
Qed.

Lemma rule_handler_panic_lemma f k c :
  normal_env f -> reaches_post_body f k -> passes (f_verdict f SPostReadCallBody) ->
  f_handler f = HPanic c ->
  dispatch_now f = [Invoke k; Reply (f_seq f) (Some (st_internal c))].
Proof.
  intros [B Hwok Hwerr] R Hp Hh. rewrite (to_handler f k B R Hp), Hh.
  rewrite write_once_normal by (assumption || reflexivity). reflexivity.
Qed.

(* the handler's OK reply cannot be written (its result cannot be marshalled ...):
   exactly one 500 instead *)
Lemma rule_unwritable_result_lemma f k hs :
  base_env f -> reaches_post_body f k -> passes (f_verdict f SPostReadCallBody) ->
  f_handler f = HReturn hs -> st_ok hs = true ->
  f_w_ok f = WRefused -> f_w_err2 f = WOk ->
  dispatch_now f = [Invoke k; Reply (f_seq f) (Some (st_internal CLib))].
Proof.
  intros B R Hp Hh H0 Hw1 Hw2. rewrite (to_handler f k B R Hp), Hh, H0.
  destruct B as [_ _ _ _ Hpw]. unfold reply_path, first_write, eff_write. cbn [st_ok].
  rewrite Hw1, Hw2.
  destruct (f_verdict f SPreWriteReply) eqn:E; try reflexivity. exfalso. eapply Hpw. reflexivity.
Qed.

(* a panic in a hook that runs on the handler goroutine is answered with 500 *)
Lemma rule_post_body_panic_lemma f k c :
  normal_env f -> reaches_post_body f k -> f_verdict f SPostReadCallBody = VPanic c ->
  dispatch_now f = [Reply (f_seq f) (Some (st_internal c))].
Proof.
  intros [B Hwok Hwerr] R Hv. rewrite (to_post_body f k B R).
  unfold handle_call. cbn [negb st_ok]. rewrite Hv. cbn [hook].
  rewrite write_once_normal by (assumption || reflexivity). reflexivity.
Qed.

(* a panic in a hook that runs on the read goroutine ends the session *)
Lemma rule_header_panic_lemma effw pf f e c :
  f_verdict f SPreReadHeader = VNil -> is_call f -> f_read f = RBody e ->
  f_verdict f SPostReadCallHeader = VPanic c -> dispatch effw pf f = [Disconnect].
Proof.
  intros Hpre Hc Hr Hv. unfold dispatch, binding, bind_with. rewrite Hpre, Hr, Hc, Hv. reflexivity.
Qed.

(* no goroutine: the CALL is refused with a 500, its handler is not run *)
Lemma rule_no_goroutine_lemma f k :
  is_call f -> f_verdict f SPreReadHeader = VNil -> f_goon f = true ->
  f_spawn_failed f = true -> (forall c, f_verdict f SPreWriteReply <> VPanic c) ->
  f_w_err1 f = WOk -> reaches_post_body f k ->
  dispatch_now f = [Reply (f_seq f) (Some st_no_goroutine)].
Proof.
  intros Hc Hpre Hgo Hsp Hpw Hw [Hr Hp Hm Hl Hp2].
  unfold dispatch_now, dispatch, binding, bind_with, after_read, handle.
  rewrite Hpre, Hc, Hgo, Hsp.
  assert (Hfin : forall kk, handle_call eff_write f (Some st_no_goroutine) (Some kk) true
                            = [Reply (f_seq f) (Some st_no_goroutine)]).
  { intros kk. unfold handle_call. cbn [negb st_ok st_no_goroutine st_internal st_code Z.eqb].
    unfold reply_path, first_write, eff_write. cbn [st_ok st_internal st_code Z.eqb]. rewrite Hw.
    destruct (f_verdict f SPreWriteReply) eqn:E; try reflexivity. exfalso. eapply Hpw. reflexivity. }
  destruct Hr as [Hr|(e & Hr & ->)]; rewrite Hr, Hp, Hm, Hl, Hp2.
  - destruct k; cbn [orb negb st_ok]; apply Hfin.
  - cbn [orb negb st_ok]. apply Hfin.
Qed.

(* ---- plugin chains: the stage's verdict is the FIRST refusal ---- *)
Lemma stage_verdict_first_refusal l v :
  hook v <> HookOk ->
  (stage_verdict l = v /\ hook (stage_verdict l) <> HookOk <->
   exists pre post, l = pre ++ v :: post /\ Forall (fun x => hook x = HookOk) pre).
Proof.
  intros Hv. split.
  - intros [H _]. induction l as [|x r IH]; cbn in H.
    + subst v. exfalso. apply Hv. reflexivity.
    + destruct (hook x) eqn:E.
      * destruct (IH H) as (pre & post & -> & Hp). exists (x :: pre), post. split; [reflexivity|].
        constructor; assumption.
      * subst x. exists [], r. split; [reflexivity | constructor].
      * subst x. exists [], r. split; [reflexivity | constructor].
  - intros (pre & post & -> & Hp). induction Hp as [|x pre Hx Hp IH]; cbn.
    + destruct (hook v) eqn:E; [congruence | split; [reflexivity|congruence] | split; [reflexivity|congruence]].
    + rewrite Hx. exact IH.
Qed.

Lemma stage_verdict_passes_iff l :
  hook (stage_verdict l) = HookOk <-> Forall (fun x => hook x = HookOk) l.
Proof.
  induction l as [|x r IH]; cbn.
  - split; [constructor | reflexivity].
  - destruct (hook x) eqn:E.
    + rewrite IH. split; [intros H; constructor; assumption | intros H; inversion H; assumption].
    + rewrite E. split; [discriminate | intros H; inversion H; congruence].
    + rewrite E. split; [discriminate | intros H; inversion H; congruence].
Qed.

(* the handler's result cannot be encoded because its encoder PANICS: one 500 with the panic
   value, the session's write lock is free again (the reply is written at all) *)
Lemma rule_encode_panic_lemma f k c :
  normal_env f -> reaches_post_body f k -> passes (f_verdict f SPostReadCallBody) ->
  f_handler f = HEncodePanic c ->
  dispatch_now f = [Invoke k; Reply (f_seq f) (Some (st_internal c))].
Proof.
  intros [B Hwok Hwerr] R Hp Hh. rewrite (to_handler f k B R Hp), Hh.
  unfold encode_panic_status. destruct B as [_ _ _ _ Hpw].
  destruct (f_verdict f SPreWriteReply) eqn:E; try (exfalso; eapply Hpw; reflexivity);
    rewrite write_once_normal by (assumption || reflexivity); reflexivity.
Qed.
