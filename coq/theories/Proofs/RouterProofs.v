From Coq Require Import Strings.String Strings.Byte.
From Coq Require Import List Arith NArith Bool Lia.
From Verif Require Import Base.Bytes Model.Mapper Model.Router.
Import ListNotations.

(* ---- association lists with unique keys ---- *)
Lemma t_get_some_in t n h : t_get t n = Some h -> In (n, h) t.
Proof.
  induction t as [|[k x] r IH]; cbn [t_get]; [discriminate|].
  destruct (bytes_eqb k n) eqn:E.
  - intros H; inversion H; subst. apply bytes_eqb_eq in E; subst. left; reflexivity.
  - intros H; right; auto.
Qed.

Lemma t_get_none_notin t n : t_get t n = None <-> ~ In n (map fst t).
Proof.
  induction t as [|[k x] r IH]; cbn [t_get map fst In].
  - split; auto.
  - destruct (bytes_eqb k n) eqn:E.
    + apply bytes_eqb_eq in E. subst. split; [discriminate|].
      intros H; exfalso; apply H; left; reflexivity.
    + rewrite IH. split.
      * intros H [Hk|Hi]; [subst; rewrite bytes_eqb_refl in E; discriminate | auto].
      * intros H Hi; apply H; right; exact Hi.
Qed.

Lemma t_get_in t n h : NoDup (map fst t) -> In (n, h) t -> t_get t n = Some h.
Proof.
  induction t as [|[k x] r IH]; cbn [t_get map fst]; intros Hnd Hin; [destruct Hin|].
  inversion Hnd as [|? ? Hni Hnd']; subst. destruct Hin as [E|Hin].
  - inversion E; subst. rewrite bytes_eqb_refl. reflexivity.
  - destruct (bytes_eqb k n) eqn:E.
    + apply bytes_eqb_eq in E; subst. exfalso. apply Hni.
      apply in_map_iff. exists (n, h). split; auto.
    + apply IH; auto.
Qed.

Lemma t_get_iff t n h : NoDup (map fst t) -> (t_get t n = Some h <-> In (n, h) t).
Proof. intros Hnd; split; [apply t_get_some_in | apply t_get_in; exact Hnd]. Qed.

Lemma NoDup_snoc {A} (l : list A) x : NoDup l -> ~ In x l -> NoDup (l ++ [x]).
Proof.
  induction l as [|a l IH]; cbn; intros Hnd Hni.
  - constructor; [intros [] | constructor].
  - inversion Hnd; subst. constructor.
    + rewrite in_app_iff. cbn. intros [H|[H|[]]]; [contradiction | subst; apply Hni; left; reflexivity].
    + apply IH; auto.
Qed.

(* ---- reg_loop ---- *)
Lemma reg_loop_ok hs : forall t t',
  reg_loop t hs = Ok t' -> NoDup (map fst t) ->
  NoDup (map fst t') /\ (forall n h, In (n, h) t' <-> In (n, h) t \/ In (n, h) hs).
Proof.
  induction hs as [|[n h] r IH]; intros t t' H Hnd; cbn [reg_loop] in H.
  - inversion H; subst. split; [exact Hnd|]. intros; split; [auto | intros [|[]]; auto].
  - destruct (t_get t n) eqn:E; [discriminate|]. apply IH in H.
    + destruct H as [Hnd' Hiff]. split; [exact Hnd'|]. intros n0 h0. rewrite Hiff. cbn [In].
      tauto.
    + cbn [map fst]. constructor; [apply t_get_none_notin; exact E | exact Hnd].
Qed.

(* a name already in the table, or met twice in one registration, is fatal *)
Lemma reg_loop_conflict hs : forall t n,
  In n (map fst hs) -> In n (map fst t) -> exists n', reg_loop t hs = Error n'.
Proof.
  induction hs as [|[m h] r IH]; intros t n Hin Ht; [destruct Hin|].
  cbn [reg_loop]. destruct (t_get t m) eqn:E; [eauto|].
  cbn [map fst In] in Hin. destruct Hin as [->|Hin].
  - apply t_get_none_notin in E. contradiction.
  - apply (IH _ n Hin). cbn [map fst In]. right; exact Ht.
Qed.

Lemma reg_loop_dup a n h1 b h2 c : forall t,
  exists n', reg_loop t (a ++ (n, h1) :: b ++ (n, h2) :: c) = Error n'.
Proof.
  induction a as [|[m h] a IH]; intros t; cbn [app reg_loop].
  - destruct (t_get t n) eqn:E; [eauto|].
    apply (reg_loop_conflict _ _ n).
    + rewrite map_app, in_app_iff. right. left. reflexivity.
    + left. reflexivity.
  - destruct (t_get t m); [eauto | apply IH].
Qed.

Definition key (e : entry) : ns * bytes := (fst (fst e), snd e).

Lemma reg_loop_log s hs : forall t t' lg,
  reg_loop t hs = Ok t' ->
  (forall n, In (s, n) (map key lg) -> In n (map fst t)) ->
  NoDup (map key lg) -> NoDup (map key (lg ++ log_of s hs)).
Proof.
  induction hs as [|[n h] r IH]; intros t t' lg H Hsub Hnd; cbn [reg_loop log_of map] in *.
  - rewrite app_nil_r. exact Hnd.
  - destruct (t_get t n) eqn:E; [discriminate|]. cbn [fst snd].
    change (lg ++ (s, h, n) :: map (fun nh => (s, snd nh, fst nh)) r)
      with (lg ++ [(s, h, n)] ++ log_of s r).
    rewrite app_assoc. apply (IH ((n, h) :: t) t'); [exact H | |].
    + intros n0. rewrite map_app, in_app_iff. cbn [map key fst snd In].
      intros [Hin|[Heq|[]]].
      * right. apply Hsub. exact Hin.
      * inversion Heq; subst. left. reflexivity.
    + rewrite map_app. cbn [map key fst snd]. apply NoDup_snoc; [exact Hnd|].
      intros Hin. apply Hsub in Hin. apply t_get_none_notin in E. contradiction.
Qed.

Lemma in_log_of s s' h n hs : In (s', h, n) (log_of s hs) <-> s' = s /\ In (n, h) hs.
Proof.
  unfold log_of. rewrite in_map_iff. split.
  - intros ([n0 h0] & E & Hin). cbn in E. inversion E; subst. auto.
  - intros (-> & Hin). exists (n, h). auto.
Qed.

(* ---- the invariant of every reachable state ---- *)
Definition inv (st : state) : Prop :=
  let '(r, lg) := st in
  (forall s, NoDup (map fst (tbl r s))) /\
  (forall s n h, In (n, h) (tbl r s) <-> In (s, h, n) lg) /\
  NoDup (map key lg).

Lemma inv_init : inv init.
Proof.
  unfold inv, init. split; [|split].
  - intros []; constructor.
  - intros [] n h; cbn; tauto.
  - constructor.
Qed.

Lemma tbl_set_tbl_same r s t : tbl (set_tbl r s t) s = t.
Proof. destruct s; reflexivity. Qed.
Lemma tbl_set_tbl_other r s s' t : s' <> s -> tbl (set_tbl r s t) s' = tbl r s'.
Proof. destruct s, s'; intros H; try reflexivity; contradiction. Qed.
Lemma unk_set_tbl r s s' t : unk (set_tbl r s t) s' = unk r s'.
Proof. destruct s, s'; reflexivity. Qed.
Lemma tbl_set_unk r s s' h : tbl (set_unk r s h) s' = tbl r s'.
Proof. destruct s, s'; reflexivity. Qed.

Lemma ns_dec (a b : ns) : a = b \/ a <> b.
Proof. destruct a, b; auto; right; discriminate. Qed.

Lemma step_inv k st o st' : inv st -> step k st o = Ok st' -> inv st'.
Proof.
  destruct st as [r lg]. intros (Hnd & Hiff & Hlog) H. cbn [step] in H.
  destruct o as [s g it | s g h].
  - set (hs := handlers_of k (group_prefix k g) it) in *.
    destruct (reg_loop (tbl r s) hs) as [t|n] eqn:E; [|discriminate].
    inversion H; subst st'. clear H.
    destruct (reg_loop_ok _ _ _ E (Hnd s)) as [Hnd' Hin'].
    repeat split.
    + intros s'. destruct (ns_dec s' s) as [->|Hne].
      * rewrite tbl_set_tbl_same. exact Hnd'.
      * rewrite tbl_set_tbl_other by exact Hne. apply Hnd.
    + destruct (ns_dec s0 s) as [->|Hne].
      * rewrite tbl_set_tbl_same. intros Hi. apply Hin' in Hi. rewrite in_app_iff.
        destruct Hi as [Hi|Hi]; [left; apply Hiff; exact Hi | right; apply in_log_of; auto].
      * rewrite tbl_set_tbl_other by exact Hne. intros Hi. rewrite in_app_iff. left. apply Hiff. exact Hi.
    + destruct (ns_dec s0 s) as [->|Hne].
      * rewrite tbl_set_tbl_same. rewrite in_app_iff. intros [Hi|Hi]; apply Hin'.
        -- left. apply Hiff. exact Hi.
        -- right. apply in_log_of in Hi. tauto.
      * rewrite tbl_set_tbl_other by exact Hne. rewrite in_app_iff. intros [Hi|Hi].
        -- apply Hiff. exact Hi.
        -- apply in_log_of in Hi. destruct Hi as [-> _]. contradiction.
    + apply (reg_loop_log s hs _ _ lg E); [|exact Hlog].
      intros n Hi. apply in_map_iff in Hi. destruct Hi as ([[s1 h1] n1] & Hk & Hi).
      cbn in Hk. inversion Hk; subst. apply Hiff in Hi.
      apply in_map_iff. exists (n, h1). auto.
  - inversion H; subst st'. clear H. repeat split.
    + intros s'. rewrite tbl_set_unk. apply Hnd.
    + rewrite tbl_set_unk. apply Hiff.
    + rewrite tbl_set_unk. apply Hiff.
    + exact Hlog.
Qed.

Lemma run_inv k ops : forall st st', inv st -> run k st ops = Ok st' -> inv st'.
Proof.
  induction ops as [|o r IH]; intros st st' Hi H; cbn [run] in H.
  - inversion H; subst. exact Hi.
  - destruct (step k st o) as [st1|n] eqn:E; [|discriminate].
    apply (IH st1); [eapply step_inv; eauto | exact H].
Qed.

Lemma run_app k a : forall st b,
  run k st (a ++ b) = match run k st a with Ok st' => run k st' b | Error n => Error n end.
Proof.
  induction a as [|o a IH]; intros st b; cbn [app run]; [reflexivity|].
  destruct (step k st o); [apply IH | reflexivity].
Qed.

(* the log is nothing but what the registrations returned, in order *)
Definition op_log (k : mapper_kind) (o : op) : list entry :=
  match o with
  | OReg s g it => log_of s (handlers_of k (group_prefix k g) it)
  | OSetUnknown _ _ _ => []
  end.
Definition returned_log (k : mapper_kind) (ops : list op) : list entry := flat_map (op_log k) ops.

Lemma run_log k ops : forall r lg r' lg',
  run k (r, lg) ops = Ok (r', lg') -> lg' = lg ++ returned_log k ops.
Proof.
  induction ops as [|o rest IH]; intros r lg r' lg' H; cbn [run] in H.
  - inversion H; subst. cbn. rewrite app_nil_r. reflexivity.
  - destruct (step k (r, lg) o) as [[r1 lg1]|n] eqn:E; [|discriminate].
    apply IH in H. subst lg'. cbn [returned_log flat_map]. rewrite app_assoc. f_equal.
    cbn [step] in E. destruct o as [s g it | s g h]; cbn [op_log].
    + destruct (reg_loop _ _); [|discriminate]. inversion E; subst. reflexivity.
    + inversion E; subst. rewrite app_nil_r. reflexivity.
Qed.

Lemma in_returned_log k ops s h n :
  In (s, h, n) (returned_log k ops) <->
  exists g it, In (OReg s g it) ops /\ In (n, h) (handlers_of k (group_prefix k g) it).
Proof.
  unfold returned_log. rewrite in_flat_map. split.
  - intros ([s' g it | s' g h'] & Hin & Hl); cbn [op_log] in Hl; [|destruct Hl].
    apply in_log_of in Hl. destruct Hl as [-> Hl]. eauto.
  - intros (g & it & Hin & Hl). exists (OReg s g it). split; [exact Hin|].
    cbn [op_log]. apply in_log_of. auto.
Qed.

(* ---- reg_names_exact ---- *)
Lemma get_found_iff r lg : inv (r, lg) ->
  forall s n h, get r s n = Found h <-> In (s, h, n) lg.
Proof.
  intros (Hnd & Hiff & _) s n h. unfold get. rewrite <- Hiff, <- (t_get_iff _ _ _ (Hnd s)).
  destruct (t_get (tbl r s) n) as [x|].
  - split; intros E; inversion E; reflexivity.
  - split; [destruct (unk r s); discriminate | discriminate].
Qed.

Lemma reg_names_exact_lemma k ops r lg :
  run k init ops = Ok (r, lg) ->
  forall s n h, get r s n = Found h <-> In (s, h, n) (returned_log k ops).
Proof.
  intros H s n h. pose proof (run_inv _ _ _ _ inv_init H) as Hi.
  pose proof (run_log _ _ _ _ _ _ H) as Hl. cbn [app] in Hl. subst lg.
  apply get_found_iff. exact Hi.
Qed.

Lemma reg_names_exact_ops k ops r lg :
  run k init ops = Ok (r, lg) ->
  forall s n h, get r s n = Found h <->
    exists g it, In (OReg s g it) ops /\ In (n, h) (handlers_of k (group_prefix k g) it).
Proof.
  intros H s n h. rewrite (reg_names_exact_lemma _ _ _ _ H). apply in_returned_log.
Qed.

(* ---- namespaces ---- *)
Lemma reg_frame k r lg s g it r' lg' :
  step k (r, lg) (OReg s g it) = Ok (r', lg') ->
  forall s', s' <> s -> forall n, get r' s' n = get r s' n.
Proof.
  cbn [step]. destruct (reg_loop _ _) as [t|]; [|discriminate].
  intros E; inversion E; subst. intros s' Hne n. unfold get.
  rewrite tbl_set_tbl_other by exact Hne. rewrite unk_set_tbl. reflexivity.
Qed.

Lemma unknown_frame k r lg s g h r' lg' :
  step k (r, lg) (OSetUnknown s g h) = Ok (r', lg') ->
  (forall s' n x, get r' s' n = Found x <-> get r s' n = Found x) /\
  (forall s', s' <> s -> forall n, get r' s' n = get r s' n).
Proof.
  cbn [step]. intros E; inversion E; subst. split.
  - intros s' n x. unfold get. rewrite tbl_set_unk.
    destruct (t_get (tbl r s') n); [reflexivity|].
    destruct (unk (set_unk r s h) s'), (unk r s'); split; discriminate.
  - intros s' Hne n. unfold get. rewrite tbl_set_unk.
    destruct s, s'; try contradiction; reflexivity.
Qed.

Lemma namespaces_separate_lemma k ops r lg :
  run k init ops = Ok (r, lg) ->
  forall s n,
  (forall g it, In (OReg s g it) ops -> ~ In n (returned_names k g it)) ->
  forall h, get r s n <> Found h.
Proof.
  intros H s n Hno h E. apply (reg_names_exact_ops _ _ _ _ H) in E.
  destruct E as (g & it & Hin & Hh). apply (Hno g it Hin).
  unfold returned_names. apply in_map_iff. exists (n, h). auto.
Qed.

(* ---- unknown fallback ---- *)
Lemma unk_set_unk r s s' h : unk (set_unk r s h) s' = if ns_eqb s' s then Some h else unk r s'.
Proof. destruct s, s'; reflexivity. Qed.

Lemma run_unknown k ops : forall r lg r' lg' s,
  run k (r, lg) ops = Ok (r', lg') -> unk r' s = last_unknown s ops (unk r s).
Proof.
  induction ops as [|o rest IH]; intros r lg r' lg' s H; cbn [run] in H.
  - inversion H; subst. reflexivity.
  - destruct (step k (r, lg) o) as [[r1 lg1]|n] eqn:E; [|discriminate].
    rewrite (IH _ _ _ _ s H). cbn [step] in E. destruct o as [s1 g it | s1 g h]; cbn [last_unknown].
    + destruct (reg_loop _ _); [|discriminate]. inversion E; subst. rewrite unk_set_tbl. reflexivity.
    + inversion E; subst. rewrite unk_set_unk. reflexivity.
Qed.

Lemma unknown_fallback_lemma k ops r lg :
  run k init ops = Ok (r, lg) ->
  forall s n, (forall h, ~ In (s, h, n) (returned_log k ops)) ->
  get r s n = match last_unknown s ops None with Some u => Unknown u | None => NotFound end.
Proof.
  intros H s n Hno. pose proof (run_unknown _ _ _ _ _ _ s H) as Hu.
  replace (unk empty_router s) with (@None hid) in Hu by (destruct s; reflexivity).
  rewrite <- Hu.
  unfold get. destruct (t_get (tbl r s) n) as [x|] eqn:E; [|reflexivity].
  exfalso. apply (Hno x). apply (reg_names_exact_lemma _ _ _ _ H). unfold get. rewrite E. reflexivity.
Qed.

(* ---- no silent sharing ---- *)
Lemma run_ok_nodup k ops r lg :
  run k init ops = Ok (r, lg) -> NoDup (map key (returned_log k ops)).
Proof.
  intros H. pose proof (run_inv _ _ _ _ inv_init H) as (_ & _ & Hnd).
  pose proof (run_log _ _ _ _ _ _ H) as Hl. cbn [app] in Hl. subst lg. exact Hnd.
Qed.

Lemma conflict_is_error k pre r lg s g it post n h :
  run k init pre = Ok (r, lg) ->
  In n (returned_names k g it) -> In (s, h, n) lg ->
  exists n', run k init (pre ++ OReg s g it :: post) = Error n'.
Proof.
  intros H Hn Hl. rewrite run_app, H. cbn [run step].
  pose proof (run_inv _ _ _ _ inv_init H) as (_ & Hiff & _).
  destruct (reg_loop_conflict (handlers_of k (group_prefix k g) it) (tbl r s) n Hn) as [n' E].
  - apply in_map_iff. exists (n, h). split; [reflexivity | apply Hiff; exact Hl].
  - rewrite E. eauto.
Qed.

Lemma self_conflict_is_error k pre st s g it post a n b c :
  run k init pre = Ok st ->
  returned_names k g it = a ++ n :: b ++ n :: c ->
  exists n', run k init (pre ++ OReg s g it :: post) = Error n'.
Proof.
  intros H Hn. rewrite run_app, H. destruct st as [r lg]. cbn [run step].
  unfold returned_names in Hn.
  assert (Hsplit : exists a' h1 b' h2 c',
            handlers_of k (group_prefix k g) it = a' ++ (n, h1) :: b' ++ (n, h2) :: c').
  { generalize dependent (handlers_of k (group_prefix k g) it). intros hs Hn.
    apply map_eq_app in Hn. destruct Hn as (a' & r1 & -> & _ & Hn).
    destruct r1 as [|[n1 h1] r1]; [discriminate|]. cbn in Hn. injection Hn as E1 Hn'. subst n1.
    apply map_eq_app in Hn'. destruct Hn' as (b' & r2 & -> & _ & Hn').
    destruct r2 as [|[n2 h2] c']; [discriminate|]. cbn in Hn'. injection Hn' as E2 _. subst n2.
    exists a', h1, b', h2, c'. reflexivity. }
  destruct Hsplit as (a' & h1 & b' & h2 & c' & ->).
  destruct (reg_loop_dup a' n h1 b' h2 c' (tbl r s)) as [n' E]. rewrite E. eauto.
Qed.

(* ---- dispatch ---- *)
Lemma dispatch_exact_lemma k ops r lg :
  run k init ops = Ok (r, lg) ->
  forall s n h, n <> [] ->
  (dispatch r s n = DRun h false <-> In (s, h, n) (returned_log k ops)).
Proof.
  intros H s n h Hne. rewrite <- (reg_names_exact_lemma _ _ _ _ H).
  unfold dispatch. destruct n as [|c n]; [contradiction|].
  destruct (get r s (c :: n)); split; intros E; inversion E; reflexivity.
Qed.

Lemma dispatch_unregistered_lemma k ops r lg :
  run k init ops = Ok (r, lg) ->
  forall s n, n <> [] -> (forall h, ~ In (s, h, n) (returned_log k ops)) ->
  dispatch r s n = match last_unknown s ops None with Some u => DRun u true | None => DNotFound end.
Proof.
  intros H s n Hne Hno. unfold dispatch. destruct n as [|c n]; [contradiction|].
  rewrite (unknown_fallback_lemma _ _ _ _ H s (c :: n) Hno).
  destruct (last_unknown s ops None); reflexivity.
Qed.

Lemma http_names_nonempty ops s h n : In (s, h, n) (returned_log MHTTP ops) -> n <> [].
Proof.
  intros Hin. apply in_returned_log in Hin. destruct Hin as (g & it & _ & Hh).
  destruct it as [sn ms | f x]; cbn [handlers_of] in Hh.
  - apply in_map_iff in Hh. destruct Hh as (mh & E & _). inversion E. discriminate.
  - destruct Hh as [E|[]]. inversion E. discriminate.
Qed.

(* with the RPC mapper a registration can return the empty name; such a handler is
   registered but can never be invoked *)
Lemma rpc_empty_name_unreachable :
  exists ops r lg h,
    run MRPC init ops = Ok (r, lg) /\ In (CALL, h, []) (returned_log MRPC ops) /\
    get r CALL [] = Found h /\ dispatch r CALL [] = DBadMessage.
Proof.
  exists [OReg CALL [] (IFunc (str "__") (str "h"))]. eexists. eexists. exists (str "h").
  split; [vm_compute; reflexivity|]. split; [vm_compute; left; reflexivity|].
  split; vm_compute; reflexivity.
Qed.

(* ---- the code before the repair ---- *)
Lemma unknown_via_group_prefix_ignored :
  exists ops r lg u n,
    run_prefix MHTTP init ops = Ok (r, lg) /\ last_unknown CALL ops None = Some u /\
    (forall h, ~ In (CALL, h, n) (returned_log MHTTP ops)) /\ get r CALL n = NotFound.
Proof.
  exists [OSetUnknown CALL [str "g"] (str "u")]. eexists. eexists. exists (str "u"), (str "/x").
  split; [vm_compute; reflexivity|]. split; [reflexivity|]. split; [intros h []|].
  vm_compute. reflexivity.
Qed.

(* ---- conflict detection is exact: a sequence is fatal ONLY IF two registrations (or two
   methods of one) map to one name in one namespace ---- *)
Lemma NoDup_app_inv {A} (a b : list A) :
  NoDup (a ++ b) -> NoDup a /\ NoDup b /\ (forall x, In x a -> ~ In x b).
Proof.
  induction a as [|x a IH]; cbn [app]; intros H.
  - repeat split; [constructor | exact H | intros x []].
  - inversion H as [|? ? Hni Hnd]; subst. destruct (IH Hnd) as (Ha & Hb & Hd). repeat split.
    + constructor; [intros Hi; apply Hni; apply in_app_iff; left; exact Hi | exact Ha].
    + exact Hb.
    + intros y [->|Hy]; [intros Hi; apply Hni; apply in_app_iff; right; exact Hi | apply Hd; exact Hy].
Qed.

Lemma reg_loop_total hs : forall t,
  NoDup (map fst hs) -> (forall n, In n (map fst hs) -> ~ In n (map fst t)) ->
  exists t', reg_loop t hs = Ok t'.
Proof.
  induction hs as [|[n h] r IH]; intros t Hnd Hdis; cbn [reg_loop]; [eauto|].
  cbn [map fst] in Hnd, Hdis. inversion Hnd as [|? ? Hni Hnd']; subst.
  destruct (t_get t n) eqn:E.
  - exfalso. apply (Hdis n (or_introl eq_refl)). apply t_get_some_in in E.
    apply in_map_iff. eexists. split; [|exact E]. reflexivity.
  - apply IH; [exact Hnd'|]. intros m Hm. cbn [map fst In]. intros [Hk|Hk].
    + subst. contradiction.
    + apply (Hdis m (or_intror Hm)). exact Hk.
Qed.

Lemma map_key_log_of s hs : map key (log_of s hs) = map (pair s) (map fst hs).
Proof. unfold log_of. rewrite !map_map. reflexivity. Qed.

Lemma run_total k ops : forall r lg,
  inv (r, lg) -> NoDup (map key (lg ++ returned_log k ops)) -> exists st, run k (r, lg) ops = Ok st.
Proof.
  induction ops as [|o rest IH]; intros r lg Hinv Hnd; cbn [run]; [eauto|].
  cbn [returned_log flat_map] in Hnd. fold (returned_log k rest) in Hnd.
  destruct o as [s g it | s g h]; cbn [op_log] in Hnd.
  - set (hs := handlers_of k (group_prefix k g) it) in *.
    rewrite app_assoc, map_app in Hnd. destruct (NoDup_app_inv _ _ Hnd) as (Hnd1 & _ & _).
    rewrite map_app in Hnd1. destruct (NoDup_app_inv _ _ Hnd1) as (_ & Hnew & Hdis).
    rewrite map_key_log_of in Hnew, Hdis.
    destruct Hinv as (Htn & Hiff & Hlog).
    destruct (reg_loop_total hs (tbl r s)) as [t' E].
    + apply NoDup_map_inv in Hnew. exact Hnew.
    + intros n Hn Ht. apply in_map_iff in Ht. destruct Ht as ([n' h'] & En & Ht). cbn in En. subst n'.
      apply Hiff in Ht. apply (Hdis (s, n)).
      * apply in_map_iff. exists (s, h', n). split; [reflexivity | exact Ht].
      * apply in_map. exact Hn.
    + assert (Hstep : step k (r, lg) (OReg s g it) = Ok (set_tbl r s t', lg ++ log_of s hs)).
      { cbn [step]. fold hs. rewrite E. reflexivity. }
      rewrite Hstep. apply IH.
      * eapply step_inv; [|exact Hstep]. exact (conj Htn (conj Hiff Hlog)).
      * rewrite <- map_app in Hnd. rewrite <- app_assoc in Hnd. rewrite <- app_assoc. exact Hnd.
  - cbn [step]. apply IH.
    + apply (step_inv k (r, lg) (OSetUnknown s g h)); [exact Hinv | reflexivity].
    + exact Hnd.
Qed.

Lemma run_ok_iff_nodup k ops :
  (exists r lg, run k init ops = Ok (r, lg)) <-> NoDup (map key (returned_log k ops)).
Proof.
  split.
  - intros (r & lg & H). eapply run_ok_nodup. exact H.
  - intros Hnd. destruct (run_total k ops empty_router [] inv_init Hnd) as [[r lg] H].
    exists r, lg. exact H.
Qed.

(* ---- ctrlStructName / handlerFuncName recover the declared identifier exactly ---- *)
Lemma after_last_none c s : forall cur, ~ In c s -> after_last c s cur = rev cur ++ s.
Proof.
  induction s as [|x r IH]; intros cur H; cbn [after_last].
  - rewrite app_nil_r. reflexivity.
  - destruct (beqb x c) eqn:E.
    + apply beqb_eq in E. subst. exfalso. apply H. left. reflexivity.
    + rewrite IH by (intros Hi; apply H; right; exact Hi). cbn [rev]. rewrite <- app_assoc. reflexivity.
Qed.

Lemma after_last_app c q t : forall cur, after_last c (q ++ c :: t) cur = after_last c t [].
Proof.
  induction q as [|x q IH]; intros cur; cbn [app after_last].
  - rewrite beqb_refl. reflexivity.
  - destruct (beqb x c); apply IH.
Qed.

Lemma object_ident_exact q ident :
  ~ In c_dot ident ->
  object_ident (q ++ c_dot :: ident) = ident /\ object_ident ident = ident.
Proof.
  intros H. unfold object_ident. split.
  - rewrite after_last_app. rewrite (after_last_none _ _ [] H). reflexivity.
  - rewrite (after_last_none _ _ [] H). reflexivity.
Qed.
