(* Lemmas about Model/ReadBuf.v: values that own their bytes never change, a window reads right
   at the moment it is made and as long as its array is not handed out again, and changes
   when it is. *)
From Coq Require Import Strings.String Strings.Byte.
From Coq Require Import List Arith NArith ZArith Bool Lia.
From Verif Require Import Base.Bytes Model.ReadBuf.
Import ListNotations.

Definition rfold (zc : zc_table) (st : rstate) (evs : list (nat * rmsg)) : rstate :=
  fold_left (rstep zc) evs st.

Lemma rrun_rfold zc evs : rrun zc evs = rfold zc rinit evs.
Proof. reflexivity. Qed.

Definition arr_of (st : rstate) (ev : nat * rmsg) : nat :=
  snd (fill (r_heap st) (fst ev) (rm_data (snd ev))).

Lemma rstep_held zc st ev :
  r_held (rstep zc st ev) = r_held st ++ [(decoded zc (snd ev) (arr_of st ev), rm_body (snd ev))].
Proof.
  destruct ev as [a m]. unfold rstep, arr_of. cbn [fst snd].
  destruct (fill (r_heap st) a (rm_data m)) as [h' a']. reflexivity.
Qed.

Lemma rstep_heap zc st ev :
  r_heap (rstep zc st ev) = fst (fill (r_heap st) (fst ev) (rm_data (snd ev))).
Proof.
  destruct ev as [a m]. unfold rstep. cbn [fst snd].
  destruct (fill (r_heap st) a (rm_data m)) as [h' a']. reflexivity.
Qed.

(* the held list only grows at its end *)
Lemma rfold_held_prefix zc evs : forall st,
  exists more, r_held (rfold zc st evs) = r_held st ++ more /\ length more = length evs.
Proof.
  induction evs as [|ev r IH]; intro st; cbn.
  - exists []. now rewrite app_nil_r.
  - destruct (IH (rstep zc st ev)) as [more [E L]].
    rewrite rstep_held in E. rewrite <- app_assoc in E. cbn in E.
    eexists. split; [exact E|]. cbn. now rewrite L.
Qed.

Lemma rfold_held_nth zc evs : forall st i ev,
  nth_error evs i = Some ev ->
  exists a', nth_error (r_held (rfold zc st evs)) (length (r_held st) + i)
             = Some (decoded zc (snd ev) a', rm_body (snd ev)).
Proof.
  induction evs as [|e r IH]; intros st i ev H.
  - destruct i; discriminate.
  - destruct i as [|i]; cbn in H.
    + injection H as <-. cbn [rfold fold_left].
      destruct (rfold_held_prefix zc r (rstep zc st e)) as [more [E _]].
      change (fold_left (rstep zc) r (rstep zc st e)) with (rfold zc (rstep zc st e) r).
      rewrite E, rstep_held. exists (arr_of st e).
      rewrite <- app_assoc. rewrite Nat.add_0_r.
      rewrite nth_error_app2 by lia. now rewrite Nat.sub_diag.
    + cbn [rfold fold_left].
      change (fold_left (rstep zc) r (rstep zc st e)) with (rfold zc (rstep zc st e) r).
      destruct (IH (rstep zc st e) i ev H) as [a' Ha]. exists a'.
      rewrite rstep_held, app_length in Ha. cbn in Ha.
      replace (length (r_held st) + S i) with (length (r_held st) + 1 + i) by lia. exact Ha.
Qed.

Lemma views_nth st i v b :
  nth_error (r_held st) i = Some (v, b) -> nth_error (views st) i = Some (rd (r_heap st) v).
Proof. intro H. unfold views. now rewrite nth_error_map, H. Qed.

(* a copying decode: whatever is read later, into whichever buffers, the holder of message i
   reads the bytes its sender supplied *)
Lemma held_copy_stable_lemma : forall zc evs i a m,
  nth_error evs i = Some (a, m) ->
  zc (rm_kind m) && negb (rm_fresh m) = false ->
  nth_error (views (rrun zc evs)) i = Some (rm_body m).
Proof.
  intros zc evs i a m H Hz.
  destruct (rfold_held_nth zc evs rinit i (a, m) H) as [a' Ha]. cbn in Ha.
  rewrite rrun_rfold. rewrite (views_nth _ _ _ _ Ha).
  unfold decoded. cbn [snd]. rewrite Hz. reflexivity.
Qed.

Lemma all_copy_views_lemma : forall zc evs,
  (forall ev, In ev evs -> zc (rm_kind (snd ev)) && negb (rm_fresh (snd ev)) = false) ->
  views (rrun zc evs) = map (fun ev => rm_body (snd ev)) evs.
Proof.
  intros zc evs H. apply nth_ext with (d := []) (d' := []).
  - unfold views. rewrite !map_length. rewrite rrun_rfold.
    destruct (rfold_held_prefix zc evs rinit) as [more [E L]]. rewrite E. cbn. exact L.
  - intros i Hi.
    assert (Hl : i < length evs).
    { unfold views in Hi. rewrite map_length, rrun_rfold in Hi.
      destruct (rfold_held_prefix zc evs rinit) as [more [E L]]. rewrite E in Hi. cbn in Hi. lia. }
    destruct (nth_error evs i) as [[a m]|] eqn:En; [|apply nth_error_None in En; lia].
    rewrite (nth_error_nth _ _ _ (held_copy_stable_lemma zc evs i a m En (H _ (nth_error_In _ _ En)))).
    symmetry. apply nth_error_nth. now rewrite nth_error_map, En.
Qed.

(* ---- windows ---- *)

Lemma put_nth_nth {A} (l : list A) : forall n x d, n < length l -> nth n (put_nth n x l) d = x.
Proof.
  induction l as [|y r IH]; intros n x d H; cbn in H; [lia|].
  destruct n; cbn; [reflexivity|]. apply IH. lia.
Qed.

Lemma put_nth_other {A} (l : list A) : forall n k x d, n <> k -> nth k (put_nth n x l) d = nth k l d.
Proof.
  induction l as [|y r IH]; intros n k x d H; [destruct n; reflexivity|].
  destruct n, k; cbn; try reflexivity; try lia. apply IH. lia.
Qed.

Lemma put_nth_length {A} (l : list A) : forall n x, length (put_nth n x l) = length l.
Proof. induction l as [|y r IH]; intros [|n] x; cbn; auto. Qed.

Lemma window_mid (pre body post rest : bytes) :
  window (length pre) (length body) ((pre ++ body ++ post) ++ rest) = body.
Proof.
  unfold window. rewrite <- !app_assoc.
  rewrite skipn_app, skipn_all, Nat.sub_diag. cbn [skipn app].
  rewrite firstn_app, firstn_all, Nat.sub_diag. cbn [firstn]. now rewrite app_nil_r.
Qed.

(* the array a frame was read into starts with that frame *)
Lemma fill_spec h a data :
  let '(h', a') := fill h a data in
  a' < length h' /\ exists rest, nth a' h' [] = data ++ rest.
Proof.
  unfold fill. destruct (nth_error h a) as [arr|] eqn:E.
  - destruct (length data <=? length arr).
    + assert (a < length h) by (apply nth_error_Some; congruence).
      split; [now rewrite put_nth_length|].
      exists (skipn (length data) arr). now apply put_nth_nth.
    + split; [rewrite app_length; cbn; lia|].
      exists []. rewrite app_nth2 by lia. rewrite Nat.sub_diag. cbn. now rewrite app_nil_r.
  - split; [rewrite app_length; cbn; lia|].
    exists []. rewrite app_nth2 by lia. rewrite Nat.sub_diag. cbn. now rewrite app_nil_r.
Qed.

(* at the moment of decoding every value reads right, copying codec or not *)
Lemma fresh_value_right_lemma : forall zc st a m,
  rd (r_heap (rstep zc st (a, m))) (decoded zc m (arr_of st (a, m))) = rm_body m.
Proof.
  intros zc st a m. rewrite rstep_heap. unfold arr_of, decoded. cbn [fst snd].
  pose proof (fill_spec (r_heap st) a (rm_data m)) as F.
  destruct (fill (r_heap st) a (rm_data m)) as [h' a']. destruct F as [_ [rest F]].
  destruct (zc (rm_kind m) && negb (rm_fresh m)); [|reflexivity].
  cbn [rd fst snd]. rewrite F. unfold rm_data. apply window_mid.
Qed.

(* a later read into ANOTHER array leaves this one alone *)
Lemma fill_other h a data k :
  k < length h -> snd (fill h a data) <> k -> nth k (fst (fill h a data)) [] = nth k h [].
Proof.
  intros Hk. unfold fill. destruct (nth_error h a) as [arr|] eqn:E.
  - destruct (length data <=? length arr); cbn [fst snd]; intro Hn.
    + now apply put_nth_other.
    + now rewrite app_nth1.
  - cbn [fst snd]. intro. now rewrite app_nth1.
Qed.

Lemma fill_length h a data : length h <= length (fst (fill h a data)).
Proof.
  unfold fill. destruct (nth_error h a) as [arr|].
  - destruct (length data <=? length arr); cbn [fst]; [rewrite put_nth_length|rewrite app_length]; lia.
  - cbn [fst]. rewrite app_length. lia.
Qed.

Lemma rfold_array_untouched zc evs : forall st k,
  k < length (r_heap st) ->
  (forall ev st', In ev evs -> arr_of st' ev = k -> False) ->
  nth k (r_heap (rfold zc st evs)) [] = nth k (r_heap st) [] /\ k < length (r_heap (rfold zc st evs)).
Proof.
  induction evs as [|e r IH]; intros st k Hk Hn; [now split|].
  cbn [rfold fold_left]. change (fold_left (rstep zc) r (rstep zc st e)) with (rfold zc (rstep zc st e) r).
  assert (Hk' : k < length (r_heap (rstep zc st e))).
  { rewrite rstep_heap. pose proof (fill_length (r_heap st) (fst e) (rm_data (snd e))). lia. }
  destruct (IH (rstep zc st e) k Hk') as [E L].
  - intros ev st' Hin. apply Hn. now right.
  - split; [|exact L]. rewrite E, rstep_heap. apply fill_other; [exact Hk|].
    intro Hc. apply (Hn e st); [now left|exact Hc].
Qed.

(* a window stays right for as long as no later read goes into its array *)
Lemma window_intact_lemma : forall zc st a m evs,
  (forall ev st', In ev evs -> arr_of st' ev = arr_of st (a, m) -> False) ->
  nth_error (views (rfold zc (rstep zc st (a, m)) evs)) (length (r_held st)) = Some (rm_body m).
Proof.
  intros zc st a m evs Hn.
  destruct (rfold_held_prefix zc evs (rstep zc st (a, m))) as [more [E _]].
  assert (Hh : nth_error (r_held (rfold zc (rstep zc st (a, m)) evs)) (length (r_held st))
               = Some (decoded zc m (arr_of st (a, m)), rm_body m)).
  { rewrite E, rstep_held. cbn [snd]. rewrite <- app_assoc.
    rewrite nth_error_app2 by lia. now rewrite Nat.sub_diag. }
  rewrite (views_nth _ _ _ _ Hh). f_equal.
  pose proof (fresh_value_right_lemma zc st a m) as R.
  unfold decoded in *. destruct (zc (rm_kind m) && negb (rm_fresh m)); [|reflexivity].
  cbn [rd] in *.
  assert (Hk : arr_of st (a, m) < length (r_heap (rstep zc st (a, m)))).
  { rewrite rstep_heap. unfold arr_of. cbn [fst snd].
    pose proof (fill_spec (r_heap st) a (rm_data m)) as F.
    destruct (fill (r_heap st) a (rm_data m)) as [h' a']. cbn [fst snd]. tauto. }
  destruct (rfold_array_untouched zc evs (rstep zc st (a, m)) _ Hk Hn) as [U _].
  now rewrite U.
Qed.

(* ---- witnesses ---- *)

(* two messages of the same size read into the same pooled buffer: the holder of the first
   reads the body of the second *)
Definition msgA (k : dkind) : rmsg := mkRmsg (str "hA") (str "AAAA-0000") [] k false.
Definition msgB (k : dkind) : rmsg := mkRmsg (str "hB") (str "BBBB-0002") [] k false.
Definition two_reads (k : dkind) : list (nat * rmsg) := [(0, msgA k); (0, msgB k)].

Lemma window_changes_witness zc k :
  zc k = true ->
  nth_error (views (rrun zc (two_reads k))) 0 = Some (str "BBBB-0002").
Proof.
  intro H. unfold rrun, two_reads. cbn [fold_left]. unfold rstep, rinit, decoded. cbn [fst snd].
  unfold msgA, msgB. cbn [rm_kind rm_fresh rm_pre rm_body rm_post rm_data]. rewrite H.
  vm_compute. reflexivity.
Qed.

(* whenever a table decodes kind k without copying, the holder of one message can read the
   body of another *)
Lemma zero_copy_leaks_lemma : forall zc k, zc k = true ->
  exists evs a m a2 m2,
    nth_error evs 0 = Some (a, m) /\ nth_error evs 1 = Some (a2, m2) /\
    rm_kind m = k /\ rm_fresh m = false /\ rm_body m <> rm_body m2 /\
    nth_error (views (rrun zc evs)) 0 = Some (rm_body m2).
Proof.
  intros zc k H. exists (two_reads k), 0, (msgA k), 0, (msgB k).
  repeat split; try reflexivity.
  - cbn. discriminate.
  - exact (window_changes_witness zc k H).
Qed.

(* the code as it is copies in every case *)
Lemma code_copying_kinds_hold_lemma : forall evs i a m,
  nth_error evs i = Some (a, m) ->
  nth_error (views (rrun code_zc evs)) i = Some (rm_body m).
Proof.
  intros evs i a m H. apply (held_copy_stable_lemma code_zc evs i a m H). reflexivity.
Qed.

Lemma code_all_views_lemma : forall evs,
  views (rrun code_zc evs) = map (fun ev => rm_body (snd ev)) evs.
Proof. intro evs. apply all_copy_views_lemma. reflexivity. Qed.

Lemma fresh_pipe_protects_lemma : forall zc evs i a m,
  nth_error evs i = Some (a, m) -> rm_fresh m = true ->
  nth_error (views (rrun zc evs)) i = Some (rm_body m).
Proof.
  intros zc evs i a m H F. apply (held_copy_stable_lemma zc evs i a m H).
  rewrite F. cbn. apply andb_false_r.
Qed.

Lemma string_zc_leaks_lemma :
  exists evs a m a2 m2,
    nth_error evs 0 = Some (a, m) /\ nth_error evs 1 = Some (a2, m2) /\
    rm_kind m = KPlainString /\ rm_fresh m = false /\ rm_body m <> rm_body m2 /\
    nth_error (views (rrun string_zc evs)) 0 = Some (rm_body m2).
Proof. exact (zero_copy_leaks_lemma string_zc KPlainString eq_refl). Qed.

Lemma code_zc_prefix_leaks_lemma : forall k, In k [KPlainNamedString; KPlainNamedBytes; KFormValue] ->
  exists evs a m a2 m2,
    nth_error evs 0 = Some (a, m) /\ nth_error evs 1 = Some (a2, m2) /\
    rm_kind m = k /\ rm_fresh m = false /\ rm_body m <> rm_body m2 /\
    nth_error (views (rrun code_zc_prefix evs)) 0 = Some (rm_body m2).
Proof.
  intros k K. apply zero_copy_leaks_lemma.
  cbn in K. repeat (destruct K as [<-|K]; [reflexivity|]). destruct K.
Qed.
