From Coq Require Import Strings.String Strings.Byte.
From Coq Require Import List Arith NArith ZArith Bool Lia.
From Verif Require Import Base.Bytes Base.Outcome Model.Quote.
Import ListNotations.
Local Open Scope N_scope.

(* one sweep over the 256 byte values *)
Lemma quote_byte_case (c : byte) :
  (unreserved c = true /\ beqb c "%"%byte = false /\ beqb c "+"%byte = false) \/
  (unreserved c = false /\
   hex2int (hex_upper (b2n c / 16)) = HexVal (b2n c / 16) /\
   hex2int (hex_upper (b2n c mod 16)) = HexVal (b2n c mod 16) /\
   n2b (b2n c / 16 * 16 + b2n c mod 16) = c).
Proof.
  destruct c; vm_compute;
    first [ left; repeat split; reflexivity | right; repeat split; reflexivity ].
Qed.

Theorem quote_unquote (s : bytes) : unquote (quote s) = Ok s.
Proof.
  induction s as [|c r IH]; [reflexivity|].
  cbn [quote]. destruct (quote_byte_case c) as [(Hu & Hp & Hq) | (Hu & H1 & H2 & Hc)]; rewrite Hu.
  - cbn [unquote]. rewrite Hp, Hq, IH. reflexivity.
  - cbn [unquote]. rewrite beqb_refl, H1, H2, IH. cbn [rmap]. rewrite Hc. reflexivity.
Qed.

(* the quoted form contains none of the separators the scanner looks for *)
Definition plain (c : byte) : bool :=
  negb (beqb c "&"%byte) && negb (beqb c "="%byte).

Lemma quote_byte_plain (c : byte) :
  (unreserved c = true -> plain c = true) /\
  plain (hex_upper (b2n c / 16)) = true /\ plain (hex_upper (b2n c mod 16)) = true.
Proof. destruct c; vm_compute; repeat split; congruence. Qed.

Lemma quote_plain (s : bytes) : forallb plain (quote s) = true.
Proof.
  induction s as [|c r IH]; [reflexivity|]. cbn [quote].
  destruct (quote_byte_plain c) as (Hu & H1 & H2).
  destruct (unreserved c) eqn:E; cbn [forallb].
  - rewrite Hu by reflexivity. exact IH.
  - rewrite H1, H2, IH. reflexivity.
Qed.

Lemma quote_nil_iff (s : bytes) : quote s = [] <-> s = [].
Proof.
  split; [|intros ->; reflexivity]. destruct s as [|c r]; [reflexivity|].
  cbn [quote]. destruct (unreserved c); discriminate.
Qed.
