(* Lemmas for the reply paths of handleCall (Model/ReplyPath.v) on top of the session machine. *)
From Coq Require Import Strings.String Strings.Byte.
From Coq Require Import List Arith NArith Bool Lia.
From Verif Require Import Model.Lifecycle Model.CallLife Model.Graceful Model.ReplyPath
  Proofs.LifecycleProofs Proofs.PeerProofs Proofs.C07Lemmas Proofs.CallLifeProofs Proofs.GracefulProofs.
Import ListNotations.

(* As long as a CALL context entered before Close began is counted (it has not been put back),
   a reply write is admitted by the status check on every session that is not passively
   closing - at whatever point of handleCall the write is made. *)
Lemma live_entered_admitted s j h :
  reach_sess s -> nth_error (hctxs s) j = Some h -> k_kind h = KCall -> k_cl h = false ->
  k_pc h <> KDone -> passive (st s) = false -> admits (st s) true = true.
Proof.
  intros H Hn Hk Hc Hp Hps. pose proof (reach_sinv s H) as ((_ & _ & _ & _ & (_ & _ & He3 & _)) & _).
  destruct (reach_c8 s H) as (_ & _ & (G1 & _ & G3 & G4 & _)).
  destruct (st s) eqn:Est; cbn in *; auto; try discriminate; exfalso.
  - pose proof (Forall_nth _ _ _ _ (G3 (He3 eq_refl)) Hn). congruence.
  - assert (P : past_ctx_wait s) by (right; auto).
    pose proof (Forall_nth _ _ _ _ (G1 P) Hn Hc). congruence.
  - destruct G4; congruence.
  - destruct G4; congruence.
Qed.

(* the procedure alone: with both status checks admitting replies, exactly the genuine reply
   reaches the connection when the connection takes the writes; nothing else ever does unless
   the first write failed on the connection itself for a reason other than its being closed
   (then the internal-server-error reply stands in for it); never two frames *)
Lemma reply_proc_delivers r stt1 stt2 w1 w2 :
  admits stt1 true = true -> admits stt2 true = true ->
  (w1 = WOk -> w2 = WOk -> handle_call_reply the_code r stt1 stt2 w1 w2 = [genuine r]) /\
  (w1 <> WOther -> forall f, In f (handle_call_reply the_code r stt1 stt2 w1 w2) -> f = genuine r) /\
  length (handle_call_reply the_code r stt1 stt2 w1 w2) <= 1.
Proof.
  intros A1 A2. unfold handle_call_reply, sess_write_reply, wants_fallback, the_code, health_gate.
  rewrite A1, A2. split; [|split].
  - intros -> ->. destruct r; reflexivity.
  - intros Hw f. destruct r, w1, w2; cbn; intros Hf; try contradiction; try (exfalso; apply Hw; reflexivity); (destruct Hf as [E|E]; [subst; reflexivity|contradiction]).
  - destruct r, w1, w2; cbn; lia.
Qed.

Lemma every_reply_path_delivers_lemma r s1 s2 j h1 h2 w1 w2 :
  reach_sess s1 -> reach_sess s2 ->
  nth_error (hctxs s1) j = Some h1 -> nth_error (hctxs s2) j = Some h2 ->
  k_kind h1 = KCall -> k_kind h2 = KCall -> k_cl h1 = false -> k_cl h2 = false ->
  k_pc h1 <> KDone -> k_pc h2 <> KDone ->
  passive (st s1) = false -> passive (st s2) = false ->
  (w1 = WOk -> w2 = WOk -> handle_call_reply the_code r (st s1) (st s2) w1 w2 = [genuine r]) /\
  (w1 <> WOther -> forall f, In f (handle_call_reply the_code r (st s1) (st s2) w1 w2) -> f = genuine r) /\
  length (handle_call_reply the_code r (st s1) (st s2) w1 w2) <= 1.
Proof.
  intros R1 R2 N1 N2 K1' K2' C1' C2' P1 P2 V1 V2.
  apply reply_proc_delivers.
  - eapply live_entered_admitted; eauto.
  - eapply live_entered_admitted; eauto.
Qed.

(* ---- the variant that gates the substitute reply on Health(): a handler entered before
        Close, Close blocked on it, the result is one that Pack refuses ---- *)
Definition gate_history_1 : list pevent :=
  [PAccept 0%N true; PSess 0 (EReader true); PSess 0 (EReader true);
   PSess 0 (EFrame FrCall); PSess 0 (EReader true); PSess 0 (EReader true); PSess 0 (EReader true);
   PSess 0 (EHandler 0 false WOk)].
Definition gate_history_2 : list pevent :=
  gate_history_1 ++ [PSess 0 EClose; PSess 0 ECloser; PSess 0 ECloser; PSess 0 ECloser].

Lemma health_gate_refuted_lemma :
  exists s1 s2 h1 h2,
    reach_sess s1 /\ reach_sess s2 /\
    nth_error (hctxs s1) 0 = Some h1 /\ nth_error (hctxs s2) 0 = Some h2 /\
    k_kind h1 = KCall /\ k_kind h2 = KCall /\ k_cl h1 = false /\ k_cl h2 = false /\
    k_pc h1 = K1 /\ k_pc h2 = K1 /\ st s1 = Ok /\ st s2 = ActiveClosing /\ cl s2 = C3 /\
    (* first write while ok, Close, substitute write: nothing reaches the caller *)
    handle_call_reply (mkRvar true) HrUnpack (st s1) (st s2) WOk WOk = [] /\
    (* both writes after Close began: nothing either *)
    handle_call_reply (mkRvar true) HrUnpack (st s2) (st s2) WOk WOk = [] /\
    (* the code as it is answers with the internal-server-error reply in both schedules *)
    handle_call_reply the_code HrUnpack (st s1) (st s2) WOk WOk = [F500] /\
    handle_call_reply the_code HrUnpack (st s2) (st s2) WOk WOk = [F500].
Proof.
  destruct (prun peer0 gate_history_1) as [p1|] eqn:E1; [|vm_compute in E1; discriminate].
  destruct (prun peer0 gate_history_2) as [p2|] eqn:E2; [|vm_compute in E2; discriminate].
  destruct (nth_error (sessions p1) 0) as [s1|] eqn:N1; [|vm_compute in E1; inversion E1; subst; vm_compute in N1; discriminate].
  destruct (nth_error (sessions p2) 0) as [s2|] eqn:N2; [|vm_compute in E2; inversion E2; subst; vm_compute in N2; discriminate].
  assert (R1 : reach_sess s1) by (exists gate_history_1, p1, 0; auto).
  assert (R2 : reach_sess s2) by (exists gate_history_2, p2, 0; auto).
  vm_compute in E1. inversion E1; subst p1; clear E1. vm_compute in N1. inversion N1; subst s1; clear N1.
  vm_compute in E2. inversion E2; subst p2; clear E2. vm_compute in N2. inversion N2; subst s2; clear N2.
  do 4 eexists. split; [exact R1|]. split; [exact R2|].
  cbn. repeat split; reflexivity.
Qed.
