(* Lemmas about Model/Proxy.v. *)
From Coq Require Import Strings.String Strings.Byte.
From Coq Require Import List Arith NArith ZArith Bool Lia.
From Verif Require Import Base.Bytes Model.Proxy.
Import ListNotations.

(* ---------- byte-string keys ---------- *)
Lemma beq_false a b : bytes_eqb a b = false <-> a <> b.
Proof.
  split.
  - intros E ->. rewrite bytes_eqb_refl in E. discriminate.
  - intros N. destruct (bytes_eqb a b) eqn:E; [|reflexivity].
    apply bytes_eqb_eq in E. contradiction.
Qed.

Lemma beq_sym a b : bytes_eqb a b = bytes_eqb b a.
Proof.
  destruct (bytes_eqb a b) eqn:E.
  - apply bytes_eqb_eq in E. subst. symmetry. apply bytes_eqb_refl.
  - symmetry. apply beq_false. apply beq_false in E. congruence.
Qed.

Ltac beq k1 k2 :=
  let E := fresh "E" in
  destruct (bytes_eqb k1 k2) eqn:E;
  [apply bytes_eqb_eq in E; try subst | pose proof (proj1 (beq_false _ _) E)].

(* ---------- the multimap ---------- *)
Lemma has_key_false_peek m k : has_key m k = false -> peek m k = [].
Proof.
  induction m as [|[k' v] r IH]; cbn; [reflexivity|].
  destruct (bytes_eqb k' k); [discriminate | exact IH].
Qed.

Lemma peek_nonempty_has_key m k : peek m k <> [] -> has_key m k = true.
Proof.
  intros H. destruct (has_key m k) eqn:E; [reflexivity|].
  apply has_key_false_peek in E. contradiction.
Qed.

Lemma set_meta_absent m k v : has_key m k = false -> set_meta m k v = m ++ [(k, v)].
Proof.
  induction m as [|[k' v'] r IH]; cbn; [reflexivity|].
  destruct (bytes_eqb k' k); [discriminate|]. intros H. rewrite IH by exact H. reflexivity.
Qed.

Lemma peek_set_same m k v : peek (set_meta m k v) k = v.
Proof.
  induction m as [|[k' v'] r IH]; cbn.
  - rewrite bytes_eqb_refl. reflexivity.
  - destruct (bytes_eqb k' k) eqn:E; cbn; rewrite E; [reflexivity | exact IH].
Qed.

Lemma peek_set_other m k v k2 : k2 <> k -> peek (set_meta m k v) k2 = peek m k2.
Proof.
  intros N. induction m as [|[k' v'] r IH]; cbn.
  - replace (bytes_eqb k k2) with false; [reflexivity|].
    symmetry. apply beq_false. congruence.
  - destruct (bytes_eqb k' k) eqn:E; cbn.
    + apply bytes_eqb_eq in E. subst k'.
      replace (bytes_eqb k k2) with false; [reflexivity|]. symmetry. apply beq_false. congruence.
    + destruct (bytes_eqb k' k2); [reflexivity | exact IH].
Qed.

Lemma has_key_set m k v k2 : has_key (set_meta m k v) k2 = has_key m k2 || bytes_eqb k k2.
Proof.
  induction m as [|[k' v'] r IH]; cbn.
  - destruct (bytes_eqb k k2); reflexivity.
  - destruct (bytes_eqb k' k) eqn:E; cbn.
    + apply bytes_eqb_eq in E. subst k'.
      destruct (bytes_eqb k k2); [reflexivity | rewrite orb_false_r; reflexivity].
    + destruct (bytes_eqb k' k2); [reflexivity | exact IH].
Qed.

Lemma count_key_app a b k : count_key (a ++ b) k = count_key a k + count_key b k.
Proof. induction a as [|[k' v] r IH]; cbn; [reflexivity|]. rewrite IH. lia. Qed.

Lemma count_key_set m k v k2 :
  count_key (set_meta m k v) k2 =
  count_key m k2 + (if has_key m k then 0 else if bytes_eqb k k2 then 1 else 0).
Proof.
  induction m as [|[k' v'] r IH]; cbn.
  - destruct (bytes_eqb k k2); reflexivity.
  - destruct (bytes_eqb k' k) eqn:E; cbn; [lia|]. rewrite IH. lia.
Qed.

Lemma strip_set_same m k v : strip_key k (set_meta m k v) = strip_key k m.
Proof.
  unfold strip_key. induction m as [|[k' v'] r IH]; cbn.
  - rewrite bytes_eqb_refl. reflexivity.
  - destruct (bytes_eqb k' k) eqn:E; cbn; rewrite E; cbn; [reflexivity | rewrite IH; reflexivity].
Qed.

Lemma keys_set m k v :
  keys (set_meta m k v) = if has_key m k then keys m else keys m ++ [k].
Proof.
  unfold keys. induction m as [|[k' v'] r IH]; cbn; [reflexivity|].
  destruct (bytes_eqb k' k) eqn:E; cbn; [reflexivity|].
  rewrite IH. destruct (has_key r k); reflexivity.
Qed.

Lemma has_key_In m k : has_key m k = true <-> In k (keys m).
Proof.
  unfold keys. induction m as [|[k' v] r IH]; cbn; [split; [discriminate | tauto]|].
  destruct (bytes_eqb k' k) eqn:E.
  - apply bytes_eqb_eq in E. subst. tauto.
  - apply beq_false in E. rewrite IH. split; [tauto | intros [H|H]; [contradiction | exact H]].
Qed.

(* ---------- repeated Set: one value per key, the last one ---------- *)
Definition fold_set (acc m : meta) : meta :=
  fold_left (fun acc kv => set_meta acc (fst kv) (snd kv)) m acc.

Lemma fold_set_peek m : forall acc k,
  peek (fold_set acc m) k = if has_key m k then last_value m k else peek acc k.
Proof.
  induction m as [|[k0 v0] r IH]; intros acc k; cbn; [reflexivity|].
  unfold fold_set in *. rewrite IH. destruct (has_key r k) eqn:Hr.
  - destruct (bytes_eqb k0 k); reflexivity.
  - destruct (bytes_eqb k0 k) eqn:E.
    + apply bytes_eqb_eq in E. subst. apply peek_set_same.
    + apply peek_set_other. apply beq_false in E. congruence.
Qed.

Lemma fold_set_has_key m : forall acc k,
  has_key (fold_set acc m) k = has_key acc k || has_key m k.
Proof.
  induction m as [|[k0 v0] r IH]; intros acc k; cbn; [rewrite orb_false_r; reflexivity|].
  unfold fold_set in *. rewrite IH, has_key_set.
  destruct (has_key acc k), (bytes_eqb k0 k), (has_key r k); reflexivity.
Qed.

Lemma NoDup_snoc {A} (l : list A) x : NoDup l -> ~ In x l -> NoDup (l ++ [x]).
Proof.
  induction l as [|a l IH]; intros Hn Hx; cbn.
  - constructor; [intros [] | constructor].
  - inversion Hn as [|? ? Ha Hl]; subst. constructor.
    + rewrite in_app_iff. cbn. intros [H|[H|[]]]; [contradiction|].
      subst. apply Hx. left. reflexivity.
    + apply IH; [exact Hl|]. intros H. apply Hx. right. exact H.
Qed.

Lemma fold_set_nodup m : forall acc, NoDup (keys acc) -> NoDup (keys (fold_set acc m)).
Proof.
  induction m as [|[k0 v0] r IH]; intros acc H; cbn; [exact H|].
  apply IH. rewrite keys_set. destruct (has_key acc k0) eqn:E; [exact H|].
  apply NoDup_snoc; [exact H|]. intros Hx. apply has_key_In in Hx. congruence.
Qed.

Lemma fold_set_fresh m : forall acc,
  NoDup (keys m) -> (forall k, In k (keys m) -> has_key acc k = false) ->
  fold_set acc m = acc ++ m.
Proof.
  induction m as [|[k0 v0] r IH]; intros acc Hn Hd; cbn; [rewrite app_nil_r; reflexivity|].
  unfold fold_set in *. cbn in Hn. inversion Hn as [|? ? Hnotin Hn']; subst.
  rewrite set_meta_absent by (apply Hd; left; reflexivity).
  rewrite IH; [rewrite <- app_assoc; reflexivity | exact Hn' |].
  intros k Hk. rewrite <- (orb_false_r (has_key (acc ++ [(k0, v0)]) k)).
  assert (Hak : has_key acc k = false) by (apply Hd; right; exact Hk).
  clear -Hak Hk Hnotin. induction acc as [|[a b] t IHt]; cbn in *.
  - beq k0 k; [contradiction | reflexivity].
  - destruct (bytes_eqb a k); [discriminate|]. apply IHt. exact Hak.
Qed.

Lemma collapse_peek m k : peek (collapse m) k = last_value m k.
Proof.
  unfold collapse. change (fold_left _ m []) with (fold_set [] m).
  rewrite fold_set_peek. destruct (has_key m k) eqn:E; [reflexivity|].
  cbn. clear -E. induction m as [|[k' v] r IH]; cbn in *; [reflexivity|].
  destruct (bytes_eqb k' k); [discriminate|]. rewrite E. reflexivity.
Qed.

Lemma collapse_keys m k : In k (keys (collapse m)) <-> In k (keys m).
Proof.
  rewrite <- !has_key_In. unfold collapse. change (fold_left _ m []) with (fold_set [] m).
  rewrite fold_set_has_key. cbn. tauto.
Qed.

Lemma collapse_nodup m : NoDup (keys (collapse m)).
Proof. apply (fold_set_nodup m []). constructor. Qed.

Lemma collapse_id m : NoDup (keys m) -> collapse m = m.
Proof.
  intros H. unfold collapse. change (fold_left _ m []) with (fold_set [] m).
  rewrite fold_set_fresh; [reflexivity | exact H | reflexivity].
Qed.

Lemma last_value_in m k : has_key m k = true -> In (k, last_value m k) m.
Proof.
  induction m as [|[k' v] r IH]; cbn; [discriminate|].
  destruct (has_key r k) eqn:Hr.
  - intros _. right. apply IH. reflexivity.
  - destruct (bytes_eqb k' k) eqn:E; [|discriminate].
    apply bytes_eqb_eq in E. subst. intros _. left. reflexivity.
Qed.

Lemma apply_ops_sets m acc :
  apply_ops (map (fun kv => MSet (fst kv) (snd kv)) m) acc = fold_set acc m.
Proof.
  unfold apply_ops, fold_set. revert acc. induction m as [|kv r IH]; intros acc; cbn; [reflexivity|].
  apply IH.
Qed.

(* ---------- the real-IP rule ---------- *)
Lemma real_ip_keys_differ : bytes_eqb meta_accept_codec meta_real_ip = false.
Proof. vm_compute. reflexivity. Qed.

Lemma forward_meta_absent m remote :
  has_key m meta_real_ip = false ->
  forward_meta fixed m remote = m ++ [(meta_real_ip, remote)].
Proof.
  intros H. unfold forward_meta. rewrite (has_key_false_peek _ _ H). cbn.
  apply set_meta_absent. exact H.
Qed.

Lemma forward_meta_present m remote :
  peek m meta_real_ip <> [] -> forward_meta fixed m remote = m.
Proof. unfold forward_meta. destruct (peek m meta_real_ip); [contradiction | reflexivity]. Qed.

Lemma forward_meta_count m remote :
  count_key (forward_meta fixed m remote) meta_real_ip =
  count_key m meta_real_ip + (if has_key m meta_real_ip then 0 else 1).
Proof.
  unfold forward_meta. destruct (peek m meta_real_ip) eqn:P.
  - cbn [v_set_real_ip fixed]. rewrite count_key_set, bytes_eqb_refl. reflexivity.
  - rewrite (peek_nonempty_has_key m meta_real_ip) by (rewrite P; discriminate). lia.
Qed.

Lemma forward_meta_others m remote :
  strip_key meta_real_ip (forward_meta fixed m remote) = strip_key meta_real_ip m.
Proof.
  unfold forward_meta. destruct (peek m meta_real_ip); [|reflexivity].
  cbn [v_set_real_ip fixed]. apply strip_set_same.
Qed.

Lemma forward_meta_peek_other m remote k :
  k <> meta_real_ip -> peek (forward_meta fixed m remote) k = peek m k.
Proof.
  intros N. unfold forward_meta. destruct (peek m meta_real_ip); [|reflexivity].
  cbn [v_set_real_ip fixed]. apply peek_set_other. exact N.
Qed.

Lemma real_ip_view_forward m remote proxy_addr :
  remote <> [] ->
  real_ip_view (forward_meta fixed m remote) proxy_addr = real_ip_view m remote.
Proof.
  intros Hr. unfold real_ip_view, forward_meta. destruct (peek m meta_real_ip) eqn:P.
  - cbn [v_set_real_ip fixed]. rewrite peek_set_same. destruct remote; [contradiction | reflexivity].
  - rewrite P. reflexivity.
Qed.

Lemma accept_codec_forward m remote :
  accept_codec (forward_meta fixed m remote) = accept_codec m.
Proof.
  unfold accept_codec. rewrite forward_meta_peek_other; [reflexivity|].
  intros E. pose proof real_ip_keys_differ as D. rewrite E, bytes_eqb_refl in D. discriminate.
Qed.

Lemma accept_codec_nonzero m n : accept_codec m = Some n -> n <> 0%N.
Proof.
  unfold accept_codec. destruct (peek m meta_accept_codec); [discriminate|].
  destruct (Nat.ltb 3 _); [discriminate|]. destruct (parse_dec _ _) as [x|]; [|discriminate].
  destruct ((x <? 256)%N && negb (x =? 0)%N) eqn:E; [|discriminate].
  intros H; inversion H; subst. apply andb_prop in E. destruct E as [_ E].
  apply negb_true_iff, N.eqb_neq in E. exact E.
Qed.

(* ---------- replies produced by a peer ---------- *)
Definition rewrite_stat (s : status) : status := if conn_class s then to_bad_gateway s else s.

(* a reply is either OK with a body codec, or an error with no body and codec 0 *)
Definition wf_reply (rp : reply) : Prop :=
  match rp_stat rp with
  | None => rp_codec rp <> 0%N
  | Some s => st_code s <> 0%Z /\ rp_body rp = [] /\ rp_codec rp = 0%N
  end.

Lemma reply_codec_nonzero p rq setc : rq_codec rq <> 0%N -> reply_codec p rq setc <> 0%N.
Proof.
  intros H. unfold reply_codec. destruct (setc =? 0)%N eqn:E; cbn.
  - destruct (accept_codec (rq_meta rq)) as [id|] eqn:A; [|exact H].
    destruct (p_registered p id); [eapply accept_codec_nonzero; exact A | exact H].
  - apply N.eqb_neq in E. exact E.
Qed.

Lemma finish_reply_wf p rq res : rq_codec rq <> 0%N -> wf_reply (finish_reply p rq res).
Proof.
  intros H. unfold finish_reply, wf_reply.
  destruct (stat_ok (h_stat res)) eqn:S.
  - destruct (h_body res _); cbn.
    + apply reply_codec_nonzero. exact H.
    + repeat split. discriminate.
  - cbn. destruct (h_stat res) as [s|]; cbn in *; [|discriminate].
    apply Z.eqb_neq in S. repeat split. exact S.
Qed.

Lemma serve_call_wf p remote rq : rq_codec rq <> 0%N -> wf_reply (fst (serve_call p remote rq)).
Proof.
  intros H. unfold serve_call, run_route. destruct (p_call p (rq_method rq)) as [r|].
  - destruct (decode_arg r _ _); cbn.
    + apply finish_reply_wf. exact H.
    + repeat split. discriminate.
  - cbn. repeat split. discriminate.
Qed.

Lemma rewrite_stat_code s : st_code s <> 0%Z -> st_code (rewrite_stat s) <> 0%Z.
Proof. unfold rewrite_stat. destruct (conn_class s); cbn; [discriminate | tauto]. Qed.

Lemma bad_gateway_fixed h r :
  bad_gateway fixed h r = (h, if conn_class (deref h r) then SFresh (to_bad_gateway (deref h r)) else r).
Proof. unfold bad_gateway. destruct (conn_class (deref h r)); reflexivity. Qed.

Lemma fill_codec_id p rq : rq_codec rq <> 0%N -> fill_codec p rq = rq.
Proof. intros H. unfold fill_codec. apply N.eqb_neq in H. rewrite H. reflexivity. Qed.

Lemma forward_request_fixed fw remote rq :
  rq_codec rq <> 0%N ->
  forward_request fixed fw remote rq =
  mkReq (rq_method rq) (rq_body rq) (rq_codec rq) (forward_meta fixed (rq_meta rq) remote).
Proof. intros H. unfold forward_request. cbn [v_forward_codec fixed]. apply fill_codec_id. exact H. Qed.

(* what the proxy makes of a backend reply *)
Definition proxy_of_reply (px : peer) (rq : request) (h : heap) (rp : reply) : reply :=
  let '(h', r') := match rp_stat rp with
                   | Some s => bad_gateway fixed h (SFresh s)
                   | None => (h, SFresh (mkStatus 0 [] None))
                   end in
  let stat := match rp_stat rp with Some _ => Some (deref h' r') | None => None end in
  finish_reply px rq (mkHres stat (rp_codec rp)
                        (map (fun kv => MSet (fst kv) (snd kv)) (rp_meta rp))
                        (fun _ => inl (rp_body rp))).

Lemma proxy_of_reply_spec px rq h rp :
  wf_reply rp ->
  proxy_of_reply px rq h rp =
  mkReply (option_map rewrite_stat (rp_stat rp)) (rp_body rp) (rp_codec rp) (collapse (rp_meta rp)).
Proof.
  unfold wf_reply, proxy_of_reply. destruct rp as [st body codec m]; cbn [rp_stat rp_body rp_codec rp_meta].
  destruct st as [s|].
  - intros (Hc & -> & ->). rewrite bad_gateway_fixed. cbn [deref].
    unfold finish_reply. cbn [h_stat h_ops h_setcodec h_body].
    assert (Hs : stat_ok (Some (deref h (if conn_class s then SFresh (to_bad_gateway s) else SFresh s))) = false).
    { cbn. destruct (conn_class s); cbn; [reflexivity | apply Z.eqb_neq; exact Hc]. }
    rewrite Hs. rewrite apply_ops_sets. unfold rewrite_stat. cbn.
    destruct (conn_class s); reflexivity.
  - intros Hc. unfold finish_reply. cbn [h_stat h_ops h_setcodec h_body stat_ok].
    unfold reply_codec. apply N.eqb_neq in Hc. rewrite Hc. cbn [negb].
    rewrite apply_ops_sets. reflexivity.
Qed.

(* ---------- the second hop sees the same request ---------- *)
Definition with_forward_meta (caller : bytes) (c : hctx) : hctx :=
  mkHctx (hc_arg c) (hc_codec c) (forward_meta fixed (hc_meta c) caller) (hc_realip c).

(* a handler whose behaviour does not depend on the X-Real-IP entries themselves (it may use
   RealIP(), the argument, the codec and every other metadata entry) *)
Definition real_ip_blind (r : route) : Prop :=
  forall c1 c2, hc_arg c1 = hc_arg c2 -> hc_codec c1 = hc_codec c2 -> hc_realip c1 = hc_realip c2 ->
                strip_key meta_real_ip (hc_meta c1) = strip_key meta_real_ip (hc_meta c2) ->
                r_run r c1 = r_run r c2.

Lemma finish_reply_forward p rq res caller :
  finish_reply p (mkReq (rq_method rq) (rq_body rq) (rq_codec rq) (forward_meta fixed (rq_meta rq) caller)) res
  = finish_reply p rq res.
Proof.
  unfold finish_reply, reply_codec. cbn [rq_meta rq_codec]. rewrite accept_codec_forward. reflexivity.
Qed.

Lemma run_route_forward be caller proxy_addr rq r :
  caller <> [] -> real_ip_blind r ->
  run_route be proxy_addr
    (mkReq (rq_method rq) (rq_body rq) (rq_codec rq) (forward_meta fixed (rq_meta rq) caller)) r
  = (fst (run_route be caller rq r), map (with_forward_meta caller) (snd (run_route be caller rq r))).
Proof.
  intros Hc Hb. unfold run_route. cbn [rq_codec rq_body rq_meta].
  destruct (decode_arg r (rq_codec rq) (rq_body rq)) as [a|e]; [|reflexivity].
  cbn [fst snd map]. unfold with_forward_meta at 1. cbn [hc_arg hc_codec hc_meta hc_realip].
  rewrite real_ip_view_forward by exact Hc. f_equal.
  rewrite finish_reply_forward. f_equal. apply Hb; cbn; try reflexivity.
  apply forward_meta_others.
Qed.

Lemma serve_call_forward be caller proxy_addr rq :
  caller <> [] ->
  (forall r, p_call be (rq_method rq) = Some r -> real_ip_blind r) ->
  serve_call be proxy_addr
    (mkReq (rq_method rq) (rq_body rq) (rq_codec rq) (forward_meta fixed (rq_meta rq) caller))
  = (fst (serve_call be caller rq), map (with_forward_meta caller) (snd (serve_call be caller rq))).
Proof.
  intros Hc Hb. unfold serve_call. cbn [rq_method].
  destruct (p_call be (rq_method rq)) as [r|] eqn:E; [|reflexivity].
  apply run_route_forward; [exact Hc | apply Hb; reflexivity].
Qed.

Lemma serve_push_forward be caller proxy_addr rq :
  caller <> [] ->
  serve_push be proxy_addr
    (mkReq (rq_method rq) (rq_body rq) (rq_codec rq) (forward_meta fixed (rq_meta rq) caller))
  = map (with_forward_meta caller) (serve_push be caller rq).
Proof.
  intros Hc. unfold serve_push, run_route. cbn [rq_method rq_codec rq_body rq_meta].
  destruct (p_push be (rq_method rq)) as [r|]; [|reflexivity].
  destruct (decode_arg r (rq_codec rq) (rq_body rq)) as [a|e]; [|reflexivity].
  cbn [snd map]. unfold with_forward_meta. cbn [hc_arg hc_codec hc_meta hc_realip].
  rewrite real_ip_view_forward by exact Hc. reflexivity.
Qed.

(* ---------- main statements ---------- *)
Record transparent (caller : bytes) (rd : reply) (sd : list hctx) (p : proxied) : Prop := {
  tr_body : rp_body (px_reply p) = rp_body rd;
  tr_codec : rp_codec (px_reply p) = rp_codec rd;
  tr_stat : rp_stat (px_reply p) = option_map rewrite_stat (rp_stat rd);
  tr_meta : rp_meta (px_reply p) = collapse (rp_meta rd);
  tr_seen : px_seen p = map (with_forward_meta caller) sd;
  tr_once : px_arrived p = 1 /\ length (px_forwards p) = 1 }.

Lemma proxied_call_transparent h px fw be caller proxy_addr rq :
  p_call px (rq_method rq) = None -> rq_codec rq <> 0%N -> caller <> [] ->
  (forall r, p_call be (rq_method rq) = Some r -> real_ip_blind r) ->
  transparent caller (fst (direct_call be caller rq)) (snd (direct_call be caller rq))
              (proxied_call fixed h px fw be caller proxy_addr FNone rq)
  /\ px_heap (proxied_call fixed h px fw be caller proxy_addr FNone rq) = h.
Proof.
  intros Hpx Hcodec Hcaller Hblind.
  unfold proxied_call, proxy_serve_call, direct_call. rewrite Hpx.
  unfold proxy_unknown_call. rewrite forward_request_fixed by exact Hcodec.
  unfold session_forwarder. rewrite serve_call_forward by assumption.
  pose proof (serve_call_wf be caller rq Hcodec) as Hwf.
  destruct (serve_call be caller rq) as [rd sd]. cbn [fst snd] in *.
  pose proof (proxy_of_reply_spec px rq h rd Hwf) as Hspec.
  unfold proxy_of_reply in Hspec.
  destruct (rp_stat rd) as [s|] eqn:Es.
  - rewrite bad_gateway_fixed in *. cbn [v_forward_codec fixed px_reply px_seen px_arrived px_forwards px_heap].
    rewrite Hspec. cbn. split; [constructor; cbn; rewrite ?Es; auto | reflexivity].
  - cbn [v_forward_codec fixed px_reply px_seen px_arrived px_forwards px_heap].
    rewrite Hspec. cbn. split; [constructor; cbn; rewrite ?Es; auto | reflexivity].
Qed.

(* the caller-visible corollaries *)
Lemma proxied_equals_direct_lemma h px fw be caller proxy_addr rq :
  p_call px (rq_method rq) = None -> rq_codec rq <> 0%N -> caller <> [] ->
  (forall r, p_call be (rq_method rq) = Some r -> real_ip_blind r) ->
  let rd := fst (direct_call be caller rq) in
  let rp := px_reply (proxied_call fixed h px fw be caller proxy_addr FNone rq) in
  rp_body rp = rp_body rd /\ rp_codec rp = rp_codec rd /\
  rp_stat rp = option_map rewrite_stat (rp_stat rd) /\
  (match rp_stat rd with Some s => conn_class s = false | None => True end -> rp_stat rp = rp_stat rd) /\
  NoDup (keys (rp_meta rp)) /\
  (forall k, In k (keys (rp_meta rp)) <-> In k (keys (rp_meta rd))) /\
  (forall k, peek (rp_meta rp) k = last_value (rp_meta rd) k) /\
  (NoDup (keys (rp_meta rd)) -> rp_meta rp = rp_meta rd).
Proof.
  intros Hpx Hc Hcl Hb.
  destruct (proxied_call_transparent h px fw be caller proxy_addr rq Hpx Hc Hcl Hb) as [[Tb Tc Ts Tm _ _] _].
  cbn zeta. rewrite Tb, Tc, Ts, Tm.
  split; [reflexivity|]. split; [reflexivity|]. split; [reflexivity|].
  split.
  { destruct (rp_stat (fst (direct_call be caller rq))) as [s|]; [|reflexivity].
    intros H. cbn. unfold rewrite_stat. rewrite H. reflexivity. }
  split; [apply collapse_nodup|].
  split; [intros k; apply collapse_keys|].
  split; [intros k; apply collapse_peek|].
  apply collapse_id.
Qed.

Lemma forwarded_once_lemma h px fw be caller proxy_addr rq :
  let p := proxied_call fixed h px fw be caller proxy_addr FNone rq in
  match p_call px (rq_method rq) with
  | None => px_arrived p = 1 /\ px_forwards p = [forward_request fixed fw caller rq]
  | Some _ => px_arrived p = 0 /\ px_forwards p = []
  end.
Proof.
  cbn zeta. unfold proxied_call, proxy_serve_call.
  destruct (p_call px (rq_method rq)); [split; reflexivity|].
  unfold proxy_unknown_call, session_forwarder.
  destruct (serve_call be proxy_addr _) as [rp seen].
  destruct (rp_stat rp); [destruct (bad_gateway _ _ _)|]; split; reflexivity.
Qed.

Lemma forwarded_request_lemma fw caller rq :
  rq_codec rq <> 0%N ->
  let f := forward_request fixed fw caller rq in
  rq_method f = rq_method rq /\ rq_body f = rq_body rq /\ rq_codec f = rq_codec rq /\
  rq_meta f = forward_meta fixed (rq_meta rq) caller.
Proof. intros H. cbn zeta. rewrite forward_request_fixed by exact H. repeat split. Qed.

Lemma proxied_push_lemma h px fw be caller proxy_addr rq :
  p_push px (rq_method rq) = None -> rq_codec rq <> 0%N -> caller <> [] ->
  let p := proxied_push fixed h px fw be caller proxy_addr FNone rq in
  px_seen p = map (with_forward_meta caller) (serve_push be caller rq) /\
  px_arrived p = 1 /\ px_forwards p = [forward_request fixed fw caller rq] /\ px_heap p = h.
Proof.
  intros Hpx Hc Hcl. cbn zeta. unfold proxied_push, proxy_serve_push. rewrite Hpx.
  unfold session_push_forwarder. rewrite forward_request_fixed by exact Hc.
  rewrite serve_push_forward by exact Hcl. repeat split.
Qed.

(* ---------- backend failures ---------- *)
Definition failed (fl : failure) : option sref :=
  match fl with FNone => None | FBefore r | FDuring r => Some r end.

Lemma backend_failure_lemma h px fw be caller proxy_addr fl r rq :
  p_call px (rq_method rq) = None -> failed fl = Some r -> conn_class (deref h r) = true ->
  let p := proxied_call fixed h px fw be caller proxy_addr fl rq in
  px_reply p = mkReply (Some (mkStatus 502 text_bad_gateway (st_cause (deref h r)))) [] 0 [] /\
  px_heap p = h /\ length (px_forwards p) = 1 /\
  px_arrived p = match fl with FDuring _ => 1 | _ => 0 end.
Proof.
  intros Hpx Hf Hcc. cbn zeta. unfold proxied_call, proxy_serve_call. rewrite Hpx.
  unfold proxy_unknown_call, session_forwarder.
  destruct fl as [|r'|r']; cbn in Hf; try discriminate; inversion Hf; subst r'.
  - cbn [v_nil_guard fixed]. rewrite bad_gateway_fixed, Hcc. cbn. repeat split.
  - destruct (serve_call be proxy_addr _) as [rp seen].
    cbn [v_nil_guard fixed]. rewrite bad_gateway_fixed, Hcc. cbn. repeat split.
Qed.

Lemma conn_failures_are_conn_class :
  conn_class st_conn_closed = true /\ conn_class st_dial_failed = true /\
  conn_class st_write_failed = true /\
  forall s cause, conn_class (copy_with_cause s cause) = conn_class s.
Proof. repeat split. Qed.

(* ---------- nothing global is modified ---------- *)
Lemma step_fixed_heap h o : fst (step fixed h o) = h.
Proof.
  destruct o as [px fw be c pa fl rq | px fw be c pa fl rq | |]; cbn [step fst]; try reflexivity.
  - unfold proxied_call, proxy_serve_call. destruct (p_call px (rq_method rq)); [reflexivity|].
    unfold proxy_unknown_call. destruct (session_forwarder be pa fl _) as [[res seen] arrived].
    destruct res as [rp|r].
    + destruct (rp_stat rp); [rewrite bad_gateway_fixed|]; reflexivity.
    + cbn [v_nil_guard fixed]. rewrite bad_gateway_fixed. reflexivity.
  - unfold proxied_push, proxy_serve_push. destruct (p_push px (rq_method rq)); [reflexivity|].
    destruct (session_push_forwarder be pa fl _) as [[res seen] arrived].
    destruct res; [reflexivity|]. cbn [px_heap]. rewrite bad_gateway_fixed. reflexivity.
Qed.

Lemma run_ops_fixed_heap ops : forall h, fst (run_ops fixed h ops) = h.
Proof.
  induction ops as [|o r IH]; intros h; cbn [run_ops]; [reflexivity|].
  pose proof (step_fixed_heap h o) as Hs. destruct (step fixed h o) as [h1 s]. cbn in Hs. subst h1.
  pose proof (IH h) as Hr. destruct (run_ops fixed h r) as [h2 ss]. exact Hr.
Qed.

Lemma later_failures_keep_their_codes ops :
  let h := fst (run_ops fixed initial_heap ops) in
  step fixed h OpClosedSessionCall = (initial_heap, Some st_conn_closed) /\
  step fixed h OpMissingMethodCall = (initial_heap, Some st_not_found).
Proof. cbn zeta. rewrite run_ops_fixed_heap. split; reflexivity. Qed.

(* ---------- the real-IP rule, collected ---------- *)
Lemma real_ip_rule_lemma m caller :
  (has_key m meta_real_ip = false -> forward_meta fixed m caller = m ++ [(meta_real_ip, caller)]) /\
  (peek m meta_real_ip <> [] -> forward_meta fixed m caller = m) /\
  count_key (forward_meta fixed m caller) meta_real_ip =
    count_key m meta_real_ip + (if has_key m meta_real_ip then 0 else 1) /\
  strip_key meta_real_ip (forward_meta fixed m caller) = strip_key meta_real_ip m /\
  (forall k, k <> meta_real_ip -> peek (forward_meta fixed m caller) k = peek m k) /\
  (forall proxy_addr, caller <> [] ->
     real_ip_view (forward_meta fixed m caller) proxy_addr = real_ip_view m caller).
Proof.
  split; [apply forward_meta_absent|]. split; [apply forward_meta_present|].
  split; [apply forward_meta_count|]. split; [apply forward_meta_others|].
  split; [intros k; apply forward_meta_peek_other|].
  intros pa. apply real_ip_view_forward.
Qed.

(* ---------- witnesses: the version of proxy.go before the repairs ---------- *)
(* a backend whose /b/str handler takes a string and echoes it; the plain codec (id 115)
   accepts any bytes, any other codec here refuses the body "hi" *)
Definition w_route : route :=
  mkRoute (fun c b => if (c =? 115)%N then inl b
                      else inr (str "invalid character 'h' looking for beginning of value"))
          [] (fun c => mkHres None 0 [] (fun _ => inl (hc_arg c))).
Definition w_routes (m : bytes) : option route :=
  if bytes_eqb m (str "/b/str") then Some w_route else None.
Definition w_be : peer := mkPeer w_routes w_routes (fun _ => true) 106.
Definition w_px : peer := mkPeer (fun _ => None) (fun _ => None) (fun _ => true) 106.
Definition w_rq : request := mkReq (str "/b/str") (str "hi") 115 [].
Definition w_caller : bytes := str "10.0.0.1:5000".
Definition w_proxy : bytes := str "10.0.0.2:6000".

Lemma w_route_blind : real_ip_blind w_route.
Proof. intros c1 c2 Ha _ _ _. cbn. rewrite Ha. reflexivity. Qed.

Lemma fixed_example :
  px_reply (proxied_call fixed initial_heap w_px w_px w_be w_caller w_proxy FNone w_rq)
  = mkReply None (str "hi") 115 [] /\
  fst (direct_call w_be w_caller w_rq) = mkReply None (str "hi") 115 [].
Proof. split; vm_compute; reflexivity. Qed.

Lemma pinned_codec_refuted_lemma :
  exists px fw be caller proxy_addr rq,
    p_call px (rq_method rq) = None /\ rq_codec rq <> 0%N /\ caller <> [] /\
    (forall r, p_call be (rq_method rq) = Some r -> real_ip_blind r) /\
    rp_stat (fst (direct_call be caller rq)) = None /\
    rp_body (fst (direct_call be caller rq)) = str "hi" /\
    exists e, rp_stat (px_reply (proxied_call pinned initial_heap px fw be caller proxy_addr FNone rq))
              = Some (mkStatus 400 (str "Bad Message") (Some e)).
Proof.
  exists w_px, w_px, w_be, w_caller, w_proxy, w_rq.
  split; [reflexivity|]. split; [discriminate|]. split; [discriminate|].
  split.
  { intros r H. vm_compute in H. inversion H. apply w_route_blind. }
  split; [vm_compute; reflexivity|]. split; [vm_compute; reflexivity|].
  eexists. vm_compute. reflexivity.
Qed.

Lemma pinned_nil_refuted_lemma :
  exists px fw be caller proxy_addr rq r,
    p_call px (rq_method rq) = None /\ conn_class (deref initial_heap r) = true /\
    rp_stat (px_reply (proxied_call pinned initial_heap px fw be caller proxy_addr (FBefore r) rq))
    = Some (mkStatus 500 (str "Internal Server Error") (Some panic_nil)).
Proof.
  exists w_px, w_px, w_be, w_caller, w_proxy, w_rq, (SShared idx_conn_closed).
  repeat split.
Qed.

Lemma pinned_shared_status_refuted_lemma :
  exists ops,
    snd (step pinned (fst (run_ops pinned initial_heap ops)) OpClosedSessionCall)
    = Some (mkStatus 502 text_bad_gateway (Some [])).
Proof.
  exists [OpProxiedPush w_px w_px w_be w_caller w_proxy (FBefore (SShared idx_conn_closed)) w_rq].
  vm_compute. reflexivity.
Qed.

Lemma pinned_real_ip_refuted_lemma :
  exists m caller proxy_addr, caller <> [] /\
    real_ip_view m caller = caller /\
    real_ip_view (forward_meta pinned m caller) proxy_addr = proxy_addr /\ proxy_addr <> caller.
Proof.
  exists [(meta_real_ip, [])], w_caller, w_proxy.
  split; [discriminate|]. split; [vm_compute; reflexivity|]. split; [vm_compute; reflexivity|].
  discriminate.
Qed.
