(* Every successful redial starts exactly one read loop. *)
From Coq Require Import Strings.String Strings.Byte.
From Coq Require Import List Arith NArith ZArith Bool Lia.
From Verif Require Import Model.Redial Proofs.RedialProofs.
Import ListNotations.

(* every successful redial starts exactly one read loop: #readers = 1 + #successful rounds *)
Definition rc (s : st) : nat * nat := (length (readers s), okrounds s).

Lemma upd_length {A} (l : list A) n x : length (upd l n x) = length l.
Proof. revert n; induction l; intros [|n]; cbn; auto. Qed.

Lemma rc_set_rpc s i p : rc (set_rpc s i p) = rc s.
Proof. unfold set_rpc, rc. destruct (nth_error (readers s) i) as [[c q]|]; cbn; rewrite ?upd_length; reflexivity. Qed.
Lemma rc_set_cpc s k p : rc (set_cpc s k p) = rc s.
Proof. unfold set_cpc. destruct (nth_error (calls s) k); reflexivity. Qed.
Lemma rc_consume s k : rc (consume s k) = rc s.
Proof. unfold consume. destruct (nth_error (calls s) k); reflexivity. Qed.
Lemma rc_sock_close s : rc (sock_close s) = rc s.
Proof. unfold sock_close. destruct (sockclosed s); reflexivity. Qed.
Lemma rc_round_return s o b : rc (round_return s o b) = rc s.
Proof. unfold round_return. destruct o; rewrite ?rc_set_rpc, ?rc_set_cpc; reflexivity. Qed.

Lemma rc_d8 s : rc (d8 s) = rc s.
Proof. reflexivity. Qed.

Ltac rcw := repeat first [ rewrite rc_d8 | rewrite rc_set_rpc | rewrite rc_set_cpc | rewrite rc_consume
                         | rewrite rc_sock_close | rewrite rc_round_return ]; try reflexivity.

Lemma rc_reader_step s i : rc (reader_step s i) = rc s.
Proof.
  unfold reader_step. destruct (nth_error (readers s) i) as [[c p]|]; [|reflexivity].
  destruct p as [|x| |x|x n|x|x n| | | | |]; try reflexivity.
  - destruct (mem c (lost s)); rcw.
  - destruct x; cbv iota; rcw; try (destruct (status_eqb (status_ s) _); rcw).
  - destruct (status_ s); cbv iota; rcw.
  - rcw.
  - destruct (existsb holds_mu (firstn n (calls s))); rcw.
  - rcw.
  - destruct (existsb holds_mu (firstn n (calls s))); [reflexivity|]. destruct x; cbv iota; rcw.
  - destruct (Z.eqb (budget s) 0); rcw.
  - rcw.
Qed.

Lemma rc_caller_step s k w : rc (caller_step s k w) = rc s.
Proof.
  unfold caller_step, conn_closed_path. destruct (nth_error (calls s) k) as [cl|]; [|reflexivity].
  destruct (c_pc cl); try reflexivity.
  - destruct (status_eqb (status_ s) SOk); [|destruct (Z.eqb (budget s) 0)]; rcw.
  - destruct (sockclosed s); [destruct (Z.eqb (budget s) 0); rcw|].
    destruct (mem (conn s) (lost s)); [destruct w|]; rcw.
Qed.

Lemma rc_reply_step s k : rc (reply_step s k) = rc s.
Proof.
  unfold reply_step. destruct (nth_error (calls s) k) as [cl|]; [|reflexivity].
  destruct (c_on cl) as [c|]; [|reflexivity].
  destruct (c_ready cl && negb (mem c (lost s))); [|reflexivity].
  destruct (reading_index (readers s) c 0) as [i|]; [|reflexivity].
  destruct (goon_read (status_ s)); destruct (c_pc cl); rcw.
Qed.

Lemma rc_acquire s o : rc (acquire s o) = rc s.
Proof.
  unfold acquire. destruct (lock s); [reflexivity|]. destruct o.
  - destruct (nth_error (readers s) i) as [[c p]|]; [|reflexivity]. destruct p; try reflexivity.
    change (rc (set_lock ?x ?y)) with (rc x). rcw.
  - destruct (nth_error (calls s) k) as [cl|]; [|reflexivity]. destruct (c_pc cl); try reflexivity.
    change (rc (set_lock ?x ?y)) with (rc x). rcw.
Qed.

Lemma rc_finish_fail s r : rc (finish_fail s r) = rc s.
Proof.
  unfold finish_fail. rewrite rc_round_return.
  destruct (status_ s) eqn:E; cbv zeta iota; cbn [status_ set_status]; rewrite ?E; cbv iota; reflexivity.
Qed.

Lemma rc_after_failed s r : rc (after_failed_attempt s r) = rc s.
Proof. unfold after_failed_attempt. destruct (Z.eqb (r_left r) 0); [apply rc_finish_fail | reflexivity]. Qed.

Lemma rc_finish_ok s r : rc (finish_ok s r) = (S (length (readers s)), S (okrounds s)).
Proof. unfold finish_ok. rewrite rc_round_return. unfold rc. cbn. rewrite app_length. cbn. f_equal. lia. Qed.

Definition rc_ok (s : st) : Prop := length (readers s) = S (okrounds s).

Lemma rc_ok_of s s' : rc s' = rc s -> rc_ok s -> rc_ok s'.
Proof. unfold rc, rc_ok. intros E H. injection E as E1 E2. congruence. Qed.

Lemma rc_round_step s : rc_ok s -> rc_ok (round_step s).
Proof.
  intros H. unfold round_step. destruct (lock s) as [r|]; [|exact H].
  destruct (r_pc r).
  - destruct (negb _); [eapply rc_ok_of; [apply rc_round_return|exact H]|].
    destruct (cas_redialing _); [exact H | eapply rc_ok_of; [apply rc_round_return|exact H]].
  - unfold next_verdict. destruct (plan s) as [|v pl]; [destruct (pdef s)|destruct v]; cbn [fst snd];
      try (eapply rc_ok_of; [apply rc_after_failed|exact H]); exact H.
  - exact H.
  - assert (Hok : rc_ok (finish_ok s r)).
    { unfold rc_ok. pose proof (rc_finish_ok s r) as E. unfold rc in E. injection E as E1 E2.
      rewrite E1, E2. f_equal. exact H. }
    destruct v; try exact Hok.
    eapply rc_ok_of; [apply rc_after_failed|]. exact H.
Qed.

Lemma rc_ok_step s e : rc_ok s -> rc_ok (step s e).
Proof.
  intros H. destruct e; cbn [step]; try exact H.
  - eapply rc_ok_of; [apply rc_reader_step|exact H].
  - eapply rc_ok_of; [apply rc_caller_step|exact H].
  - eapply rc_ok_of; [apply rc_acquire|exact H].
  - apply rc_round_step. exact H.
  - eapply rc_ok_of; [apply rc_reply_step|exact H].
  - destruct (nth_error (readers s) i) as [[c p]|]; [|exact H]. destruct p; try exact H;
      (destruct (nth_error (calls s) k) as [cl|]; [|exact H]); (destruct (c_pc cl); try exact H);
      (destruct (Nat.ltb k n); [|exact H]); (eapply rc_ok_of; [apply rc_set_cpc|exact H]).
Qed.

Lemma readers_count_lemma n uid p d s :
  reachable n uid p d s -> length (readers s) = S (okrounds s).
Proof.
  apply (reachable_ind_inv rc_ok); [reflexivity|]. intros; apply rc_ok_step; assumption.
Qed.
