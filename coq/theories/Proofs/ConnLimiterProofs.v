(* Inductive invariant of the repaired connection-limiter lifecycle model over ALL
   interleavings (every state reachable by lrun true), and the refutations for the
   pinned code (lrun false). *)
From Coq Require Import Strings.String Strings.Byte.
From Coq Require Import List Arith NArith ZArith Bool Lia.
From Verif Require Import Base.Bytes Model.Threads Model.ConnLimiter Proofs.ThreadsProofs.
Import ListNotations.
Local Open Scope Z_scope.

Definition local_ok (x : sess) : Prop :=
  match s_pc x with
  | LIdle | LPre _ | LAdded _ _ | LPass _ | LFail _ | LRefused _ =>
      s_held x = false /\ s_took x = 0 /\ s_rel x = 0 /\ s_rej x = false
  | LTaken _ | LLive | LLeaked =>
      s_held x = true /\ s_took x = 1 /\ s_rel x = 0 /\ s_rej x = false
  | LClosing =>
      (s_held x = true /\ s_took x = 1 /\ s_rel x = 0 /\ s_rej x = false) \/
      (s_held x = false /\ s_took x = s_rel x /\ 0 <= s_took x <= 1 /\ (s_rej x = true -> s_took x = 0))
  | LRelMid => s_held x = false /\ s_took x = 1 /\ s_rel x = 1 /\ s_rej x = false
  | LDone => s_held x = false /\ s_took x = s_rel x /\ 0 <= s_took x <= 1 /\ (s_rej x = true -> s_took x = 0)
  end.

Record inv (s : lstate) : Prop := mkInv {
  inv_local : Forall local_ok (l_ss s);
  inv_tmp : c_tmp (l_c s) = sumz tmp_of (l_ss s);
  inv_now : c_now (l_c s) = sumz now_of (l_ss s);
  inv_lim : 0 < c_lim (l_c s) <= l_hw s;
  inv_k : forall k, l_hw s <= k -> sumz pass_of (l_ss s) + sumz (wait_le k) (l_ss s) <= k
}.

Lemma local_ok0 : local_ok sess0.
Proof. cbn. auto. Qed.

Lemma pointwise k y : 0 <= pass_of y /\ 0 <= wait_le k y /\ pass_of y + wait_le k y <= tmp_of y.
Proof.
  unfold pass_of, wait_le, tmp_of, b2z. destruct (s_pc y); try destruct (s_held y); try destruct (x <=? k); lia.
Qed.

Lemma pass_wait_le_tmp k l : sumz pass_of l + sumz (wait_le k) l <= sumz tmp_of l.
Proof.
  rewrite <- sumz_plus. apply sumz_le. intros y. pose proof (pointwise k y). lia.
Qed.

Lemma wait_nonneg k l : 0 <= sumz (wait_le k) l.
Proof. apply sumz_nonneg. intros y. pose proof (pointwise k y). lia. Qed.

Lemma inv_init m : 0 < m -> inv (linit m).
Proof.
  intros Hm. constructor; cbn.
  - constructor.
  - reflexivity.
  - reflexivity.
  - lia.
  - intros; lia.
Qed.

Lemma inv_renorm c hw ss : inv (mkL c hw ss) -> inv (renorm (mkL c hw ss)).
Proof.
  intros [Hl Ht Hn Hlim Hk]. unfold renorm. cbn [l_c l_ss l_hw] in *.
  destruct (c_tmp c <=? c_lim c) eqn:E; [|constructor; assumption].
  apply Z.leb_le in E. constructor; cbn [l_c l_ss l_hw]; try assumption; [lia|].
  intros k Hle. pose proof (pass_wait_le_tmp k ss). lia.
Qed.

(* one session moves from x to x', the counters move by exactly the difference of its
   contributions *)
Lemma inv_lset s i x' c' :
  inv s ->
  local_ok x' ->
  c_lim c' = c_lim (l_c s) ->
  c_tmp c' = c_tmp (l_c s) - tmp_of (getn sess0 i (l_ss s)) + tmp_of x' ->
  c_now c' = c_now (l_c s) - now_of (getn sess0 i (l_ss s)) + now_of x' ->
  (forall k P W, l_hw s <= k -> P + W <= k -> P + W <= c_tmp (l_c s) ->
     P - pass_of (getn sess0 i (l_ss s)) + pass_of x'
     + (W - wait_le k (getn sess0 i (l_ss s)) + wait_le k x') <= k) ->
  inv (lset s c' i x').
Proof.
  intros [Hl Ht Hn Hlim Hk] Hx' Hc Htmp Hnow Hkk. unfold lset. apply inv_renorm.
  constructor; cbn [l_c l_ss l_hw].
  - apply Forall_upd; [exact local_ok0 | exact Hx' | exact Hl].
  - rewrite sumz_upd by reflexivity. lia.
  - rewrite sumz_upd by reflexivity. lia.
  - lia.
  - intros k Hle. rewrite !sumz_upd by reflexivity.
    specialize (Hkk k (sumz pass_of (l_ss s)) (sumz (wait_le k) (l_ss s)) Hle (Hk k Hle)).
    pose proof (pass_wait_le_tmp k (l_ss s)). lia.
Qed.

Ltac measures Hpc :=
  unfold tmp_of, now_of, pass_of, wait_le, b2z, with_pc; cbn [s_pc s_held s_took s_rel s_rej];
  rewrite ?Hpc.

Lemma lstep_inv s e s' : inv s -> lstep true s e = Some s' -> inv s'.
Proof.
  intros Hinv Hst.
  pose proof (Forall_getn sess sess0 local_ok local_ok0 _ (inv_local s Hinv)) as Hloc. cbn beta in Hloc.
  pose proof (inv_lim s Hinv) as Hlim.
  destruct e as [i sd ok | i | i ok | i | i | i | i | l]; cbn [lstep] in Hst.
  - (* EConnect *)
    specialize (Hloc i). set (x := getn sess0 i (l_ss s)) in *.
    destruct (s_pc x) eqn:Hpc; try discriminate. unfold local_ok in Hloc. rewrite Hpc in Hloc.
    destruct Hloc as (Hh & Htk & Hrl & Hrj).
    destruct ok; inversion Hst; subst; clear Hst.
    + apply inv_lset; try assumption; try reflexivity.
      * unfold local_ok, with_pc; cbn. auto.
      * fold x. measures Hpc. lia.
      * fold x. measures Hpc. lia.
      * intros k P W _ H1 _. fold x. measures Hpc. lia.
    + apply inv_lset; try assumption; try reflexivity.
      * unfold local_ok; cbn. destruct sd; cbn; [right|]; repeat split; try lia; auto.
      * fold x. measures Hpc. rewrite Hh. destruct sd; cbn; lia.
      * fold x. measures Hpc. rewrite Hh. destruct sd; cbn; lia.
      * intros k P W _ H1 _. fold x. measures Hpc. rewrite Hh. destruct sd; cbn; lia.
  - (* EStep *)
    specialize (Hloc i). set (x := getn sess0 i (l_ss s)) in *.
    unfold local_ok in Hloc.
    destruct (s_pc x) eqn:Hpc; try discriminate.
    + (* LPre: tmp + 1 *)
      destruct Hloc as (Hh & Htk & Hrl & Hrj).
      unfold c_add_tmp in Hst. inversion Hst; subst; clear Hst.
      apply inv_lset; try assumption; try reflexivity.
      * unfold local_ok, with_pc; cbn. auto.
      * fold x. measures Hpc. cbn. lia.
      * fold x. measures Hpc. cbn. lia.
      * intros k P W _ H1 H2. fold x. measures Hpc.
        destruct (c_tmp (l_c s) + 1 <=? k) eqn:E; [apply Z.leb_le in E|]; lia.
    + (* LAdded: compare with lim *)
      destruct Hloc as (Hh & Htk & Hrl & Hrj).
      inversion Hst; subst; clear Hst.
      apply inv_lset; try assumption; try reflexivity.
      * unfold local_ok, with_pc; cbn. destruct (c_check (l_c s) x0); cbn; auto.
      * fold x. measures Hpc. destruct (c_check (l_c s) x0); cbn; lia.
      * fold x. measures Hpc. destruct (c_check (l_c s) x0); cbn; lia.
      * intros k P W Hk H1 _. fold x. measures Hpc. unfold c_check.
        destruct (x0 <=? c_lim (l_c s)) eqn:E; cbn.
        -- apply Z.leb_le in E. assert (Hxk : x0 <=? k = true) by (apply Z.leb_le; lia).
           rewrite Hxk. lia.
        -- destruct (x0 <=? k); lia.
    + (* LPass: now + 1, recorded as holder *)
      destruct Hloc as (Hh & Htk & Hrl & Hrj).
      inversion Hst; subst; clear Hst.
      apply inv_lset; try assumption; try reflexivity.
      * unfold local_ok; cbn. repeat split; try lia; auto.
      * fold x. measures Hpc. cbn. lia.
      * fold x. measures Hpc. cbn. lia.
      * intros k P W _ H1 _. fold x. measures Hpc. lia.
    + (* LFail: tmp - 1 *)
      destruct Hloc as (Hh & Htk & Hrl & Hrj).
      inversion Hst; subst; clear Hst.
      apply inv_lset; try assumption; try reflexivity.
      * unfold local_ok, with_pc; cbn. auto.
      * fold x. measures Hpc. cbn. lia.
      * fold x. measures Hpc. cbn. lia.
      * intros k P W _ H1 _. fold x. measures Hpc. lia.
    + (* LRefused *)
      destruct Hloc as (Hh & Htk & Hrl & Hrj).
      inversion Hst; subst; clear Hst.
      apply inv_lset; try assumption; try reflexivity.
      * unfold local_ok; cbn. destruct sd; cbn; [right|]; repeat split; try lia; auto.
      * fold x. measures Hpc. rewrite Hh. destruct sd; cbn; lia.
      * fold x. measures Hpc. rewrite Hh. destruct sd; cbn; lia.
      * intros k P W _ H1 _. fold x. measures Hpc. rewrite Hh. destruct sd; cbn; lia.
    + (* LClosing *)
      destruct Hloc as [(Hh & Htk & Hrl & Hrj) | (Hh & Htk & Hrg & Hrj)]; rewrite Hh in Hst; cbn in Hst;
        inversion Hst; subst; clear Hst.
      * (* holder: release begins *)
        apply inv_lset; try assumption; try reflexivity.
        -- unfold local_ok; cbn. repeat split; try lia; auto.
        -- fold x. measures Hpc. rewrite Hh. cbn. lia.
        -- fold x. measures Hpc. rewrite Hh. cbn. lia.
        -- intros k P W _ H1 _. fold x. measures Hpc. rewrite Hh. lia.
      * (* not a holder: nothing to release *)
        apply inv_lset; try assumption; try reflexivity.
        -- unfold local_ok, with_pc; cbn. repeat split; try lia; auto.
        -- fold x. measures Hpc. rewrite Hh. cbn. lia.
        -- fold x. measures Hpc. rewrite Hh. cbn. lia.
        -- intros k P W _ H1 _. fold x. measures Hpc. rewrite Hh. lia.
    + (* LRelMid: tmp - 1 *)
      destruct Hloc as (Hh & Htk & Hrl & Hrj).
      inversion Hst; subst; clear Hst.
      apply inv_lset; try assumption; try reflexivity.
      * unfold local_ok, with_pc; cbn. repeat split; try lia; auto. intros; congruence.
      * fold x. measures Hpc. cbn. lia.
      * fold x. measures Hpc. cbn. lia.
      * intros k P W _ H1 _. fold x. measures Hpc. lia.
  - (* ELater *)
    specialize (Hloc i). set (x := getn sess0 i (l_ss s)) in *.
    unfold local_ok in Hloc.
    destruct (s_pc x) eqn:Hpc; try discriminate.
    destruct Hloc as (Hh & Htk & Hrl & Hrj).
    destruct ok; inversion Hst; subst; clear Hst.
    + apply inv_lset; try assumption; try reflexivity.
      * unfold local_ok, with_pc; cbn. auto.
      * fold x. measures Hpc. lia.
      * fold x. measures Hpc. lia.
      * intros k P W _ H1 _. fold x. measures Hpc. lia.
    + apply inv_lset; try assumption; try reflexivity.
      * unfold local_ok, with_pc; cbn. destruct sd; cbn; [left|]; auto.
      * fold x. measures Hpc. rewrite Hh. destruct sd; cbn; lia.
      * fold x. measures Hpc. rewrite Hh. destruct sd; cbn; lia.
      * intros k P W _ H1 _. fold x. measures Hpc. rewrite Hh. destruct sd; cbn; lia.
  - (* EClose *)
    specialize (Hloc i). set (x := getn sess0 i (l_ss s)) in *.
    unfold local_ok in Hloc.
    destruct (s_pc x) eqn:Hpc; try discriminate.
    destruct Hloc as (Hh & Htk & Hrl & Hrj).
    inversion Hst; subst; clear Hst.
    apply inv_lset; try assumption; try reflexivity.
    + unfold local_ok, with_pc; cbn. left. auto.
    + fold x. measures Hpc. rewrite Hh. cbn. lia.
    + fold x. measures Hpc. rewrite Hh. cbn. lia.
    + intros k P W _ H1 _. fold x. measures Hpc. rewrite Hh. lia.
  - (* ERedial *)
    destruct (s_pc (getn sess0 i (l_ss s))); try discriminate. inversion Hst; subst. exact Hinv.
  - (* ERetry *)
    specialize (Hloc i). set (x := getn sess0 i (l_ss s)) in *.
    unfold local_ok in Hloc.
    destruct (s_pc x) eqn:Hpc; try discriminate.
    destruct Hloc as (Hh & Htk & Hrl & Hrj).
    rewrite Hh in Hst. cbn in Hst. inversion Hst; subst; clear Hst.
    apply inv_lset; try assumption; try reflexivity.
    + unfold local_ok, with_pc; cbn. auto.
    + fold x. measures Hpc. lia.
    + fold x. measures Hpc. lia.
    + intros k P W _ H1 _. fold x. measures Hpc. lia.
  - (* EDupDisc *)
    specialize (Hloc i). set (x := getn sess0 i (l_ss s)) in *.
    unfold local_ok in Hloc.
    destruct (s_pc x) eqn:Hpc; try discriminate.
    destruct Hloc as (Hh & Htk & Hrg & Hrj).
    inversion Hst; subst; clear Hst.
    apply inv_lset; try assumption; try reflexivity.
    + unfold local_ok, with_pc; cbn. right. auto.
    + fold x. measures Hpc. rewrite Hh. cbn. lia.
    + fold x. measures Hpc. rewrite Hh. cbn. lia.
    + intros k P W _ H1 _. fold x. measures Hpc. rewrite Hh. lia.
  - (* EUpdate *)
    destruct (0 <? l) eqn:El; [|discriminate]. apply Z.ltb_lt in El.
    inversion Hst; subst; clear Hst. apply inv_renorm.
    destruct Hinv as [Hl Ht Hn Hli Hk]. constructor; cbn [l_c l_ss l_hw c_update c_tmp c_now c_lim]; try assumption.
    + lia.
    + intros k Hle. apply Hk. lia.
Qed.

Lemma lrun_inv tr : forall s s', inv s -> lrun true s tr = Some s' -> inv s'.
Proof.
  induction tr as [|e r IH]; intros s s' Hinv Hrun; cbn [lrun] in Hrun.
  - inversion Hrun; subst. exact Hinv.
  - destruct (lstep true s e) as [s1|] eqn:E; [|discriminate].
    apply (IH s1 s'); [eapply lstep_inv; eassumption | exact Hrun].
Qed.

Definition reach (s : lstate) : Prop :=
  exists m tr, 0 < m /\ lrun true (linit m) tr = Some s.

Lemma reach_inv s : reach s -> inv s.
Proof. intros (m & tr & Hm & Hr). eapply lrun_inv; [apply inv_init; exact Hm | exact Hr]. Qed.

(* ---- consequences ---- *)
Lemma live_le_pass y : is_live y <= pass_of y.
Proof. unfold is_live, pass_of, b2z. destruct (s_pc y); try destruct (s_held y); lia. Qed.

Lemma admitted_le_bound s : reach s -> admitted s <= l_hw s.
Proof.
  intros Hr. pose proof (reach_inv s Hr) as Hinv.
  pose proof (inv_k s Hinv (l_hw s) (Z.le_refl _)) as Hk.
  pose proof (wait_nonneg (l_hw s) (l_ss s)).
  unfold admitted. pose proof (sumz_le sess is_live pass_of live_le_pass (l_ss s)). lia.
Qed.

Lemma bound_decays s : reach s -> c_tmp (l_c s) <= c_lim (l_c s) -> l_hw s = c_lim (l_c s).
Proof.
  intros (m & tr & Hm & Hr) Hle.
  assert (G : forall tr s0, lrun true s0 tr = Some s -> (c_tmp (l_c s0) <= c_lim (l_c s0) -> l_hw s0 = c_lim (l_c s0)) ->
              c_tmp (l_c s) <= c_lim (l_c s) -> l_hw s = c_lim (l_c s)).
  { clear. intros tr0. induction tr0 as [|e r IH]; intros s0 Hrun H0; cbn [lrun] in Hrun.
    - inversion Hrun; subst. auto.
    - destruct (lstep true s0 e) as [s1|] eqn:E; [|discriminate]. apply (IH s1 Hrun).
      clear IH Hrun. intros Hle1.
      assert (R : forall t, c_tmp (l_c (renorm t)) <= c_lim (l_c (renorm t)) ->
                            l_hw (renorm t) = c_lim (l_c (renorm t))).
      { intros t. unfold renorm. destruct (c_tmp (l_c t) <=? c_lim (l_c t)) eqn:Eb; cbn; [reflexivity|].
        apply Z.leb_gt in Eb. lia. }
      destruct e; cbn [lstep] in E;
        repeat match type of E with
               | context [match ?u with _ => _ end] => destruct u eqn:?; try discriminate
               end;
        try (inversion E; subst; try (apply R; exact Hle1); auto). }
  apply (G tr (linit m) Hr); [cbn; reflexivity | exact Hle].
Qed.

Lemma lstep_lim b s e s' : lstep b s e = Some s' ->
  c_lim (l_c s') = match e with EUpdate l => l | _ => c_lim (l_c s) end.
Proof.
  assert (R : forall t, c_lim (l_c (renorm t)) = c_lim (l_c t)).
  { intros t. unfold renorm. destruct (_ <=? _); reflexivity. }
  intros E. destruct e; cbn [lstep] in E;
    repeat match type of E with
           | context [match ?u with _ => _ end] => destruct u eqn:?; try discriminate
           end;
    inversion E; subst; unfold lset; rewrite ?R; cbn; try reflexivity.
  all: unfold c_add_tmp in *; try match goal with H : (_, _) = (_, _) |- _ => inversion H; subst end; reflexivity.
Qed.

Lemma lstep_hw_eq s e s' : lstep true s e = Some s' ->
  l_hw s = c_lim (l_c s) ->
  match e with EUpdate l => c_lim (l_c s) <= l | _ => True end ->
  l_hw s' = c_lim (l_c s').
Proof.
  assert (R : forall t, l_hw t = c_lim (l_c t) -> l_hw (renorm t) = c_lim (l_c (renorm t))).
  { intros t. unfold renorm. destruct (_ <=? _); cbn; auto. }
  intros E H0 Hm. destruct e; cbn [lstep] in E;
    repeat match type of E with
           | context [match ?u with _ => _ end] => destruct u eqn:?; try discriminate
           end;
    inversion E; subst; try exact H0; unfold lset; apply R; cbn; try exact H0.
  all: unfold c_add_tmp in *; try match goal with H : (_, _) = (_, _) |- _ => inversion H; subst end; cbn; try exact H0.
  lia.
Qed.

Lemma mono_hw tr : forall s s', lrun true s tr = Some s' ->
  l_hw s = c_lim (l_c s) -> mono_updates (c_lim (l_c s)) tr -> l_hw s' = c_lim (l_c s').
Proof.
  induction tr as [|e r IH]; intros s s' Hrun H0 Hm; cbn [lrun] in Hrun.
  - inversion Hrun; subst. exact H0.
  - destruct (lstep true s e) as [s1|] eqn:E; [|discriminate].
    pose proof (lstep_lim _ _ _ _ E) as Hl.
    apply (IH s1 s' Hrun).
    + apply (lstep_hw_eq _ _ _ E H0). destruct e; auto. cbn in Hm. tauto.
    + rewrite Hl. destruct e; cbn in Hm; try exact Hm. tauto.
Qed.

Lemma admitted_le_limit m tr s :
  0 < m -> lrun true (linit m) tr = Some s -> mono_updates m tr -> admitted s <= c_lim (l_c s).
Proof.
  intros Hm Hr Hmono.
  rewrite <- (mono_hw tr (linit m) s Hr); [|reflexivity|exact Hmono].
  apply admitted_le_bound. exists m, tr. split; assumption.
Qed.

Lemma counters_exact s : reach s ->
  c_now (l_c s) = sumz now_of (l_ss s) /\ c_tmp (l_c s) = sumz tmp_of (l_ss s).
Proof. intros Hr. pose proof (reach_inv s Hr) as H. split; [apply inv_now | apply inv_tmp]; exact H. Qed.

Lemma counters_quiescent s : reach s -> quiescent s ->
  c_now (l_c s) = admitted s + leaked s /\ c_tmp (l_c s) = admitted s + leaked s.
Proof.
  intros Hr Hq. destruct (counters_exact s Hr) as [Hn Ht]. rewrite Hn, Ht.
  unfold admitted, leaked. rewrite <- sumz_plus.
  split; apply sumz_ext_Forall; unfold quiescent in Hq;
    (eapply Forall_impl; [|exact Hq]); intros y Hy; cbn beta in *;
    unfold now_of, tmp_of, is_live, is_leaked; destruct (s_pc y); try discriminate; reflexivity.
Qed.

Lemma slot_released_once s i : reach s ->
  let x := getn sess0 i (l_ss s) in
  0 <= s_rel x <= s_took x /\ s_took x <= 1 /\
  (s_pc x = LDone -> s_rel x = s_took x) /\
  (s_pc x = LLive -> s_took x = 1 /\ s_rel x = 0).
Proof.
  intros Hr x. pose proof (Forall_getn sess sess0 local_ok local_ok0 _ (inv_local s (reach_inv s Hr)) i) as H.
  fold x in H. unfold local_ok in H.
  destruct (s_pc x) eqn:E; intuition (try discriminate; try lia).
Qed.

Lemma rejected_takes_no_slot s i : reach s ->
  let x := getn sess0 i (l_ss s) in
  s_rej x = true -> s_took x = 0 /\ s_rel x = 0 /\ tmp_of x = 0 /\ now_of x = 0 /\ s_pc x <> LLive.
Proof.
  intros Hr x Hrej. pose proof (Forall_getn sess sess0 local_ok local_ok0 _ (inv_local s (reach_inv s Hr)) i) as H.
  fold x in H. unfold local_ok in H. unfold tmp_of, now_of, b2z.
  destruct (s_pc x) eqn:E; try (destruct H as (? & ? & ? & ?); congruence).
  - destruct H as [(? & ? & ? & ?) | (Hh & ? & ? & Hz)]; [congruence|].
    rewrite Hh. specialize (Hz Hrej). repeat split; try lia; discriminate.
  - destruct H as (Hh & ? & ? & Hz). specialize (Hz Hrej). repeat split; try lia; discriminate.
Qed.

(* ---- the pinned code (lrun false): concrete interleavings ---- *)

(* one connection on the accept side run to the point where later plugins decide *)
Definition tr_accept (i : nat) : list lev :=
  [EConnect i SAccept true; EStep i; EStep i; EStep i].
(* admitted *)
Definition tr_admit (i : nat) : list lev := tr_accept i ++ [ELater i true].
(* refused by the limit: take fails and rolls back, the session is closed, the
   disconnect hook runs (two steps in the pinned code: it releases) *)
Definition tr_refused (i : nat) : list lev :=
  [EConnect i SAccept true; EStep i; EStep i; EStep i; EStep i; EStep i; EStep i].

(* the same on the repaired code: the disconnect hook is one step (no release) *)
Definition tr_refused_fixed (i : nat) : list lev :=
  [EConnect i SAccept true; EStep i; EStep i; EStep i; EStep i; EStep i].

(* limit 1: A admitted, B refused by the limit, C ADMITTED while A is alive *)
Definition witness_abc : list lev := tr_admit 0 ++ tr_refused 1 ++ tr_admit 2.

Lemma prefix_over_admission :
  exists s, lrun false (linit 1) witness_abc = Some s /\
            admitted s = 2 /\ c_lim (l_c s) = 1 /\ quiescent s /\ mono_updates 1 witness_abc.
Proof.
  eexists. split; [vm_compute; reflexivity|]. vm_compute. repeat split; try reflexivity.
  repeat constructor.
Qed.

(* the same history on the repaired model: C is refused *)
Lemma fixed_abc :
  lrun true (linit 1) witness_abc = None /\
  exists s, lrun true (linit 1) (tr_admit 0 ++ tr_refused_fixed 1 ++ tr_refused_fixed 2) = Some s /\
            admitted s = 1 /\ c_now (l_c s) = 1.
Proof.
  split; [vm_compute; reflexivity|]. eexists. split; [vm_compute; reflexivity|].
  vm_compute. split; reflexivity.
Qed.

(* a connection refused by a plugin BEFORE the overloader: its disconnect hook
   releases a slot that was never taken (now = -1), in the pinned code *)
Lemma prefix_rejected_releases :
  exists s, lrun false (linit 1) [EConnect 0 SAccept false; EStep 0; EStep 0] = Some s /\
            s_rej (getn sess0 0 (l_ss s)) = true /\ s_took (getn sess0 0 (l_ss s)) = 0 /\
            s_rel (getn sess0 0 (l_ss s)) = 1 /\ c_now (l_c s) = -1 /\ c_tmp (l_c s) = -1.
Proof.
  eexists. split; [vm_compute; reflexivity|]. vm_compute. repeat split; reflexivity.
Qed.

(* after a limit DECREASE a ticket drawn before the decrease can still be admitted
   although the sessions already admitted reach the new limit (repaired model too):
   session 0 draws ticket 1, session 1 draws ticket 2 and is admitted under limit 2,
   the limit drops to 1, session 0 is admitted with its stale ticket 1 <= 1. *)
Definition witness_decrease : list lev :=
  [EConnect 0 SAccept true; EStep 0;
   EConnect 1 SAccept true; EStep 1; EStep 1; EStep 1; ELater 1 true;
   EUpdate 1;
   EStep 0; EStep 0; ELater 0 true].

Lemma stale_ticket_after_decrease :
  exists s, lrun true (linit 2) witness_decrease = Some s /\
            admitted s = 2 /\ c_lim (l_c s) = 1 /\ l_hw s = 2.
Proof.
  eexists. split; [vm_compute; reflexivity|]. vm_compute. repeat split; reflexivity.
Qed.

(* a dial that a plugin AFTER the overloader refuses keeps its slot for good: peer.go
   Dial only closes the connection, no disconnect hook ever runs (repaired model too) *)
Definition witness_dial_leak : list lev :=
  [EConnect 0 SDial true; EStep 0; EStep 0; EStep 0; ELater 0 false].

Lemma dial_refused_later_keeps_slot :
  exists s, lrun true (linit 1) witness_dial_leak = Some s /\
            quiescent s /\ admitted s = 0 /\ c_now (l_c s) = 1 /\ c_tmp (l_c s) = 1 /\
            (* and the next connection is refused although nobody is connected *)
            exists s', lrun true s (tr_refused_fixed 1) = Some s' /\ admitted s' = 0.
Proof.
  eexists. split; [vm_compute; reflexivity|]. split; [repeat constructor|].
  split; [vm_compute; reflexivity|]. split; [vm_compute; reflexivity|]. split; [vm_compute; reflexivity|].
  eexists. split; [vm_compute; reflexivity|]. vm_compute. reflexivity.
Qed.

(* ---- limiter instances (pointer replaced by Update) ---- *)
Lemma inv_ldef : inv ldef.
Proof. apply inv_init. lia. Qed.

Lemma mstep_inv M ev M' :
  Forall inv (m_gens M) -> mstep false M ev = Some M' -> Forall inv (m_gens M').
Proof.
  intros H Hst. destruct ev as [l | | g e | i up]; cbn [mstep] in Hst.
  - destruct (m_cur M); [discriminate|]. destruct (0 <? l) eqn:E; [|discriminate].
    apply Z.ltb_lt in E. inversion Hst; subst; cbn.
    apply Forall_app. split; [exact H | constructor; [apply inv_init; exact E | constructor]].
  - inversion Hst; subst. exact H.
  - destruct (Nat.ltb g (length (m_gens M)) && (negb (targets_current e) || is_cur (m_cur M) g)); [|discriminate].
    cbn [andb] in Hst.
    destruct (lstep true (getn ldef g (m_gens M)) e) as [sg'|] eqn:E; [|discriminate].
    inversion Hst; subst; cbn.
    apply Forall_upd; [exact inv_ldef | | exact H].
    eapply lstep_inv; [|exact E]. apply Forall_getn; [exact inv_ldef | exact H].
  - destruct (getn UIdle i (m_unl M)); destruct up; try discriminate;
      try (destruct (m_cur M); try discriminate); inversion Hst; subst; exact H.
Qed.

Lemma mrun_inv tr : forall M M', Forall inv (m_gens M) -> mrun false M tr = Some M' ->
  Forall inv (m_gens M').
Proof.
  induction tr as [|e r IH]; intros M M' H Hr; cbn [mrun] in Hr.
  - inversion Hr; subst. exact H.
  - destruct (mstep false M e) as [M1|] eqn:E; [|discriminate].
    eapply IH; [eapply mstep_inv; eassumption | exact Hr].
Qed.

Definition mreach (M : mstate) : Prop := exists tr, mrun false minit tr = Some M.

Lemma now_of_nonneg y : 0 <= now_of y.
Proof. unfold now_of, b2z. destruct (s_pc y); try destruct (s_held y); lia. Qed.
Lemma tmp_of_nonneg y : 0 <= tmp_of y.
Proof. unfold tmp_of, b2z. destruct (s_pc y); try destruct (s_held y); lia. Qed.
Lemma live_le_now y : is_live y <= now_of y.
Proof. unfold is_live, now_of, b2z. destruct (s_pc y); try destruct (s_held y); lia. Qed.

(* every limiter instance that ever existed keeps exact books of ITS OWN connections *)
Lemma every_instance M g : mreach M ->
  let s := getn ldef g (m_gens M) in
  c_now (l_c s) = sumz now_of (l_ss s) /\ c_tmp (l_c s) = sumz tmp_of (l_ss s) /\
  0 <= c_now (l_c s) /\ 0 <= c_tmp (l_c s) /\
  admitted s <= c_now (l_c s) /\ admitted s <= l_hw s /\
  (c_tmp (l_c s) <= c_lim (l_c s) -> admitted s <= c_lim (l_c s)).
Proof.
  intros (tr & Hr) s.
  assert (Hall : Forall inv (m_gens M)) by (apply (mrun_inv tr minit M); [cbn; constructor | exact Hr]).
  pose proof (Forall_getn lstate ldef inv inv_ldef _ Hall g) as Hi. fold s in Hi.
  pose proof (inv_now s Hi) as Hn. pose proof (inv_tmp s Hi) as Ht.
  pose proof (inv_k s Hi (l_hw s) (Z.le_refl _)) as Hk.
  pose proof (wait_nonneg (l_hw s) (l_ss s)).
  pose proof (sumz_le sess is_live pass_of live_le_pass (l_ss s)).
  pose proof (sumz_le sess is_live now_of live_le_now (l_ss s)).
  pose proof (sumz_nonneg sess now_of now_of_nonneg (l_ss s)).
  pose proof (sumz_nonneg sess tmp_of tmp_of_nonneg (l_ss s)).
  pose proof (pass_wait_le_tmp (c_lim (l_c s)) (l_ss s)).
  pose proof (wait_nonneg (c_lim (l_c s)) (l_ss s)).
  unfold admitted. repeat split; try lia.
Qed.

(* release-on-current: limit 1; A admitted through instance 0; limit switched off and on
   again (fresh instance 1); A disconnects and is released on instance 1 (now = tmp = -1);
   B and C are then both admitted through instance 1 whose limit is 1. *)
Definition in_admit (g i : nat) : list mev :=
  map (MIn g) [EConnect i SAccept true; EStep i; EStep i; EStep i; ELater i true].

Definition witness_release_on_current : list mev :=
  [MOn 1] ++ in_admit 0 0 ++ [MOff; MOn 1] ++ [MIn 0 (EClose 0); MIn 0 (EStep 0)]
  ++ in_admit 1 0 ++ in_admit 1 1.

Lemma release_on_current_refuted :
  exists M, mrun true minit witness_release_on_current = Some M /\
            let s := getn ldef 1 (m_gens M) in
            admitted s = 2 /\ c_lim (l_c s) = 1 /\ l_hw s = 1 /\ c_now (l_c s) = 1 /\
            sumz now_of (l_ss s) = 2.
Proof.
  eexists. split; [vm_compute; reflexivity|]. vm_compute. repeat split; reflexivity.
Qed.

(* the same history with release on the recorded instance: C is refused *)
Lemma release_on_recorded_same_history :
  mrun false minit witness_release_on_current = None /\
  exists M, mrun false minit
              ([MOn 1] ++ in_admit 0 0 ++ [MOff; MOn 1]
               ++ [MIn 0 (EClose 0); MIn 0 (EStep 0); MIn 0 (EStep 0)] ++ in_admit 1 0
               ++ map (MIn 1) [EConnect 1 SAccept true; EStep 1; EStep 1; EStep 1; EStep 1; EStep 1])
            = Some M /\
            admitted (getn ldef 1 (m_gens M)) = 1 /\ c_now (l_c (getn ldef 0 (m_gens M))) = 0 /\
            madmitted M = 1.
Proof.
  split; [vm_compute; reflexivity|]. eexists. split; [vm_compute; reflexivity|].
  vm_compute. repeat split; reflexivity.
Qed.

(* ---- a session that ends without the disconnect hook keeps its slot ---- *)
Lemma end_without_hook_refuted :
  exists s s', lrun true (linit 1) (tr_admit 0) = Some s /\ end_without_hook s 0 = Some s' /\
    quiescent s' /\ admitted s' = 0 /\ c_now (l_c s') = 1 /\ c_tmp (l_c s') = 1 /\
    ~ inv s' /\
    exists s'', lrun true s' (tr_refused_fixed 1) = Some s'' /\ admitted s'' = 0.
Proof.
  eexists. eexists. split; [vm_compute; reflexivity|]. split; [vm_compute; reflexivity|].
  split; [repeat constructor|].
  split; [vm_compute; reflexivity|]. split; [vm_compute; reflexivity|]. split; [vm_compute; reflexivity|].
  split.
  - intros H. pose proof (inv_local _ H) as Hl. cbn in Hl. inversion Hl as [|x r Hx Hr]; subst.
    unfold local_ok in Hx. cbn in Hx. destruct Hx as (Hh & _). discriminate.
  - eexists. split; [vm_compute; reflexivity|]. vm_compute. reflexivity.
Qed.
