(* Token bucket: a potential argument valid for every step of every interleaving of
   the repaired limiter (qstep true), the capacity invariant, and the concrete
   interleaving that breaks the one-admission-per-tick slack on the pinned code. *)
From Coq Require Import Strings.String Strings.Byte.
From Coq Require Import List Arith NArith ZArith Bool Lia.
From Verif Require Import Base.Bytes Model.Threads Model.TokenBucket Proofs.ThreadsProofs.
Import ListNotations.
Local Open Scope Z_scope.

Definition tick_ok (p : tpc) : Prop :=
  match p with
  | QTickLoaded v v' o g => 0 < o /\ v' <= Z.max v 0 + o
  | _ => True
  end.

Definition wf (s : qstate) : Prop := 0 < b_once (q_b s) /\ Forall tick_ok (q_th s).

Definition pot (s : qstate) : Z := Z.max (b_tokens (q_b s)) 0.

Lemma refill_value_ok b v : 0 < b_once b -> refill_value b v <= Z.max v 0 + b_once b.
Proof.
  intros Ho. unfold refill_value.
  destruct (v <? 0) eqn:E1; [apply Z.ltb_lt in E1; lia|apply Z.ltb_ge in E1].
  destruct (b_limit b <? v + b_once b) eqn:E2; [apply Z.ltb_lt in E2|apply Z.ltb_ge in E2]; lia.
Qed.

Lemma Forall_map_same {A} (P : A -> Prop) f (l : list A) :
  (forall x, P x -> P (f x)) -> Forall P l -> Forall P (map f l).
Proof. intros H Hl. induction Hl; cbn; constructor; auto. Qed.

Lemma tick_ok_bump p : tick_ok p -> tick_ok (bump p).
Proof. destruct p; cbn; auto. Qed.

Lemma wf_init l o : 0 < o -> wf (qinit l o).
Proof. intros H. split; cbn; [exact H | constructor]. Qed.

(* one step of the repaired limiter *)
Lemma qstep_pot s e s' o : wf s -> qstep true s e = Some (s', o) ->
  wf s' /\
  (q_adm s' - q_adm s) + pot s' <= pot s + (q_refill s' - q_refill s) /\
  q_adm s' - q_adm s = count_admitted [o] /\
  q_ticks s' - q_ticks s = count_ticks [o].
Proof.
  intros [Ho Hth] Hst. unfold pot.
  pose proof (Forall_getn tpc QIdle tick_ok I _ Hth) as Hg.
  destruct e as [i | i | i | l | o']; cbn [qstep] in Hst.
  - destruct (getn QIdle i (q_th s)) eqn:Ei; try discriminate.
    destruct (b_tokens (q_b s) <=? 0) eqn:Et; inversion Hst; subst; clear Hst; cbn.
    + repeat split; try assumption; lia.
    + repeat split; try assumption; try lia. apply Forall_upd; cbn; auto.
  - destruct (getn QIdle i (q_th s)) eqn:Ei; try discriminate.
    inversion Hst; subst; clear Hst; cbn.
    repeat split; try assumption; try lia.
    apply Forall_upd; cbn; auto. split; [exact Ho | apply refill_value_ok; exact Ho].
  - specialize (Hg i). destruct (getn QIdle i (q_th s)) as [| | v v' oo g] eqn:Ei; try discriminate.
    + (* take: add -1 *)
      inversion Hst; subst; clear Hst; cbn.
      destruct (0 <=? b_tokens (q_b s) - 1) eqn:E; [apply Z.leb_le in E|apply Z.leb_gt in E]; cbn.
      * repeat split; try assumption; try lia.
        apply Forall_map_same; [exact tick_ok_bump|]. apply Forall_upd; cbn; auto.
      * repeat split; try assumption; try lia. apply Forall_upd; cbn; auto.
    + (* updateToken: compare-and-swap *)
      cbn in Hg. destruct Hg as [Hoo Hv'].
      destruct (b_tokens (q_b s) =? v) eqn:E; cbn in Hst; inversion Hst; subst; clear Hst; cbn.
      * apply Z.eqb_eq in E. repeat split; try assumption; try lia. apply Forall_upd; cbn; auto.
      * repeat split; try assumption; try lia. apply Forall_upd; cbn; auto.
        split; [exact Ho | apply refill_value_ok; exact Ho].
  - inversion Hst; subst; clear Hst; cbn. repeat split; try assumption; lia.
  - destruct ((0 <? o') && (o' <=? b_limit (q_b s))) eqn:E; [|discriminate].
    apply andb_true_iff in E. destruct E as [E1 E2]. apply Z.ltb_lt in E1.
    inversion Hst; subst; clear Hst; cbn. repeat split; try assumption; lia.
Qed.

Lemma count_admitted_cons o os : count_admitted (o :: os) = count_admitted [o] + count_admitted os.
Proof. destruct o as [|[|]|]; cbn; lia. Qed.
Lemma count_ticks_cons o os : count_ticks (o :: os) = count_ticks [o] + count_ticks os.
Proof. destruct o as [|[|]|]; cbn; lia. Qed.

(* any window of any interleaving *)
Lemma qrun_pot tr : forall s s' os, wf s -> qrun true s tr = Some (s', os) ->
  wf s' /\
  (q_adm s' - q_adm s) + pot s' <= pot s + (q_refill s' - q_refill s) /\
  q_adm s' - q_adm s = count_admitted os /\
  q_ticks s' - q_ticks s = count_ticks os.
Proof.
  induction tr as [|e r IH]; intros s s' os Hwf Hrun; cbn [qrun] in Hrun.
  - inversion Hrun; subst. split; [exact Hwf|]. cbn. repeat split; lia.
  - destruct (qstep true s e) as [[s1 o]|] eqn:E; [|discriminate].
    destruct (qrun true s1 r) as [[s2 os2]|] eqn:E2; [|discriminate].
    inversion Hrun; subst; clear Hrun.
    destruct (qstep_pot _ _ _ _ Hwf E) as (Hwf1 & Hp1 & Ha1 & Ht1).
    destruct (IH _ _ _ Hwf1 E2) as (Hwf2 & Hp2 & Ha2 & Ht2).
    rewrite count_admitted_cons, count_ticks_cons.
    split; [exact Hwf2|]. repeat split; lia.
Qed.

Lemma pot_nonneg s : 0 <= pot s.
Proof. unfold pot. lia. Qed.

Lemma bucket_window s tr s' os : wf s -> qrun true s tr = Some (s', os) ->
  count_admitted os <= Z.max (b_tokens (q_b s)) 0 + (q_refill s' - q_refill s).
Proof.
  intros Hwf Hrun. destruct (qrun_pot tr _ _ _ Hwf Hrun) as (_ & Hp & Ha & _).
  pose proof (pot_nonneg s'). unfold pot in *. lia.
Qed.

(* ---- capacity ---- *)
Definition cap_ok_pc (cap : Z) (p : tpc) : Prop :=
  match p with QTickLoaded _ v' _ _ => v' <= cap | _ => True end.
Definition cap_ok (s : qstate) : Prop :=
  b_tokens (q_b s) <= q_cap s /\ b_limit (q_b s) <= q_cap s /\ b_once (q_b s) <= q_cap s /\
  Forall (cap_ok_pc (q_cap s)) (q_th s).

Lemma refill_value_cap b v cap : b_limit b <= cap -> b_once b <= cap -> refill_value b v <= cap.
Proof.
  intros Hl Ho. unfold refill_value. destruct (v <? 0); [lia|].
  destruct (b_limit b <? v + b_once b) eqn:E; [lia|apply Z.ltb_ge in E; lia].
Qed.

Lemma cap_ok_bump cap p : cap_ok_pc cap p -> cap_ok_pc cap (bump p).
Proof. destruct p; cbn; auto. Qed.

Lemma qstep_cap cas s e s' o : cap_ok s -> qstep cas s e = Some (s', o) -> cap_ok s'.
Proof.
  intros (Ht & Hl & Ho & Hth) Hst.
  pose proof (Forall_getn tpc QIdle (cap_ok_pc (q_cap s)) I _ Hth) as Hg.
  destruct e as [i | i | i | l | o']; cbn [qstep] in Hst.
  - destruct (getn QIdle i (q_th s)); try discriminate.
    destruct (b_tokens (q_b s) <=? 0); inversion Hst; subst; clear Hst; unfold cap_ok; cbn.
    + auto.
    + repeat split; try assumption. apply Forall_upd; cbn; auto.
  - destruct (getn QIdle i (q_th s)); try discriminate.
    inversion Hst; subst; clear Hst; unfold cap_ok; cbn. repeat split; try assumption.
    apply Forall_upd; cbn; auto. apply refill_value_cap; assumption.
  - specialize (Hg i). destruct (getn QIdle i (q_th s)) as [| | v v' oo g]; try discriminate.
    + inversion Hst; subst; clear Hst; unfold cap_ok; cbn. repeat split; try assumption; try lia.
      destruct (0 <=? b_tokens (q_b s) - 1).
      * apply Forall_map_same; [apply cap_ok_bump|]. apply Forall_upd; cbn; auto.
      * apply Forall_upd; cbn; auto.
    + cbn in Hg.
      destruct (cas && negb (b_tokens (q_b s) =? v)); inversion Hst; subst; clear Hst; unfold cap_ok; cbn.
      * repeat split; try assumption. apply Forall_upd; cbn; auto. apply refill_value_cap; assumption.
      * repeat split; try assumption. apply Forall_upd; cbn; auto.
  - inversion Hst; subst; clear Hst; unfold cap_ok; cbn. repeat split; try lia.
    eapply Forall_impl; [|exact Hth]. intros p Hp. destruct p; cbn in *; auto. lia.
  - destruct ((0 <? o') && (o' <=? b_limit (q_b s))) eqn:E; [|discriminate].
    apply andb_true_iff in E. destruct E as [E1 E2]. apply Z.leb_le in E2.
    inversion Hst; subst; clear Hst; unfold cap_ok; cbn. repeat split; try assumption; lia.
Qed.

Lemma qrun_cap cas tr : forall s s' os, cap_ok s -> qrun cas s tr = Some (s', os) -> cap_ok s'.
Proof.
  induction tr as [|e r IH]; intros s s' os Hc Hrun; cbn [qrun] in Hrun.
  - inversion Hrun; subst. exact Hc.
  - destruct (qstep cas s e) as [[s1 o]|] eqn:E; [|discriminate].
    destruct (qrun cas s1 r) as [[s2 os2]|] eqn:E2; [|discriminate].
    inversion Hrun; subst. eapply IH; [eapply qstep_cap; eassumption | exact E2].
Qed.

Lemma cap_ok_init l o : o <= l -> cap_ok (qinit l o).
Proof. intros H. unfold cap_ok; cbn. repeat split; try lia. constructor. Qed.

Lemma tokens_le_capacity cas l o tr s os :
  o <= l -> qrun cas (qinit l o) tr = Some (s, os) -> b_tokens (q_b s) <= q_cap s.
Proof. intros H R. exact (proj1 (qrun_cap cas tr _ _ _ (cap_ok_init l o H) R)). Qed.

(* ---- constant configuration: refill = once * ticks, capacity = limit ---- *)
Definition const_pc (o : Z) (p : tpc) : Prop :=
  match p with QTickLoaded _ _ o' _ => o' = o | _ => True end.
Definition const_ok (l o : Z) (s : qstate) : Prop :=
  b_limit (q_b s) = l /\ b_once (q_b s) = o /\ q_cap s = l /\ Forall (const_pc o) (q_th s).

Lemma const_bump o p : const_pc o p -> const_pc o (bump p).
Proof. destruct p; cbn; auto. Qed.

Lemma qstep_const cas l o s e s' ob : const_ok l o s -> is_set e = false ->
  qstep cas s e = Some (s', ob) ->
  const_ok l o s' /\ q_refill s' - q_refill s = o * (q_ticks s' - q_ticks s).
Proof.
  intros (Hl & Ho & Hc & Hth) Hns Hst.
  pose proof (Forall_getn tpc QIdle (const_pc o) I _ Hth) as Hg.
  destruct e as [i | i | i | l' | o']; cbn in Hns; try discriminate; cbn [qstep] in Hst.
  - destruct (getn QIdle i (q_th s)); try discriminate.
    destruct (b_tokens (q_b s) <=? 0); inversion Hst; subst; clear Hst; unfold const_ok; cbn.
    + repeat split; try assumption; lia.
    + repeat split; try assumption; try lia. apply Forall_upd; cbn; auto.
  - destruct (getn QIdle i (q_th s)); try discriminate.
    inversion Hst; subst; clear Hst; unfold const_ok; cbn. repeat split; try assumption; try lia.
    apply Forall_upd; cbn; auto.
  - specialize (Hg i). destruct (getn QIdle i (q_th s)) as [| | v v' oo g]; try discriminate.
    + inversion Hst; subst; clear Hst; unfold const_ok; cbn. repeat split; try assumption; try lia.
      destruct (0 <=? b_tokens (q_b s) - 1).
      * apply Forall_map_same; [apply const_bump|]. apply Forall_upd; cbn; auto.
      * apply Forall_upd; cbn; auto.
    + cbn in Hg. subst oo.
      destruct (cas && negb (b_tokens (q_b s) =? v)); inversion Hst; subst; clear Hst; unfold const_ok; cbn.
      * repeat split; try assumption; try lia. apply Forall_upd; cbn; auto.
      * repeat split; try assumption; try lia. apply Forall_upd; cbn; auto.
Qed.

Lemma qrun_const cas l o tr : forall s s' os, const_ok l o s ->
  Forall (fun e => is_set e = false) tr ->
  qrun cas s tr = Some (s', os) ->
  const_ok l o s' /\ q_refill s' - q_refill s = o * (q_ticks s' - q_ticks s).
Proof.
  induction tr as [|e r IH]; intros s s' os Hc Hns Hrun; cbn [qrun] in Hrun.
  - inversion Hrun; subst. split; [exact Hc | lia].
  - destruct (qstep cas s e) as [[s1 ob]|] eqn:E; [|discriminate].
    destruct (qrun cas s1 r) as [[s2 os2]|] eqn:E2; [|discriminate].
    inversion Hrun; subst; clear Hrun. inversion Hns; subst.
    destruct (qstep_const _ _ _ _ _ _ _ Hc H1 E) as [Hc1 Hr1].
    destruct (IH _ _ _ Hc1 H2 E2) as [Hc2 Hr2].
    split; [exact Hc2 | lia].
Qed.

Lemma const_ok_init l o : const_ok l o (qinit l o).
Proof. unfold const_ok; cbn. repeat split. constructor. Qed.

(* from a fresh limiter, with no configuration change before or inside the window:
   admitted in the window <= capacity + once * (ticks completed in the window) *)
Lemma bucket_bound_const l o tr0 tr s os0 s' os :
  0 < o -> o <= l ->
  Forall (fun e => is_set e = false) tr0 -> Forall (fun e => is_set e = false) tr ->
  qrun true (qinit l o) tr0 = Some (s, os0) ->
  qrun true s tr = Some (s', os) ->
  count_admitted os <= l + o * count_ticks os.
Proof.
  intros Ho Hol Hn0 Hn Hr0 Hr.
  destruct (qrun_pot tr0 _ _ _ (wf_init l o Ho) Hr0) as (Hwf & _).
  pose proof (qrun_cap true tr0 _ _ _ (cap_ok_init l o Hol) Hr0) as (Hcap & _).
  destruct (qrun_const true l o tr0 _ _ _ (const_ok_init l o) Hn0 Hr0) as [Hc _].
  destruct (qrun_const true l o tr _ _ _ Hc Hn Hr) as [_ Hrf].
  destruct (qrun_pot tr _ _ _ Hwf Hr) as (_ & Hp & Ha & Ht).
  destruct Hc as (_ & _ & Hcl & _).
  pose proof (pot_nonneg s'). unfold pot in *. rewrite <- Ha, <- Ht. lia.
Qed.

(* ---- the pinned updateToken (plain store): one tick, six admissions ---- *)
Definition take_now (i : nat) : list qev := [QTake i; QStep i].

Definition witness_lost_update : list qev :=
  [QTick 0] ++ take_now 1 ++ take_now 1 ++ take_now 1 ++ [QStep 0]
  ++ take_now 1 ++ take_now 1 ++ take_now 1.

Lemma prefix_one_per_tick_refuted :
  exists s' os, qrun false (qinit 3 1) witness_lost_update = Some (s', os) /\
    Forall (fun e => is_set e = false) witness_lost_update /\
    count_ticks os = 1 /\ count_admitted os = 6 /\
    3 + 1 * count_ticks os + count_ticks os < count_admitted os.
Proof.
  eexists. eexists. split; [vm_compute; reflexivity|].
  split; [repeat constructor|]. vm_compute. repeat split; reflexivity.
Qed.

(* the same schedule on the repaired limiter: the compare-and-swap fails, the tick is
   recomputed from the 0 tokens that are left: 3 + 1 admissions *)
Lemma fixed_same_schedule :
  exists s' os,
    qrun true (qinit 3 1)
      ([QTick 0] ++ take_now 1 ++ take_now 1 ++ take_now 1 ++ [QStep 0; QStep 0]
       ++ take_now 1 ++ [QTake 1; QTake 1]) = Some (s', os) /\
    count_ticks os = 1 /\ count_admitted os = 4 /\ b_tokens (q_b s') = 0.
Proof.
  eexists. eexists. split; [vm_compute; reflexivity|]. vm_compute. repeat split; reflexivity.
Qed.

(* ---- the hook ---- *)
Lemma b_take_false b b' : b_take b = (b', false) -> b_tokens b <= 0 /\ b' = b.
Proof.
  unfold b_take. destruct (b_tokens b <=? 0) eqn:E.
  - intros H. inversion H; subst. apply Z.leb_le in E. auto.
  - apply Z.leb_gt in E. intros H. inversion H. apply Z.leb_gt in H2. lia.
Qed.

Lemma b_take_true b b' : b_take b = (b', true) -> 0 < b_tokens b /\ b_tokens b' = b_tokens b - 1.
Proof.
  unfold b_take. destruct (b_tokens b <=? 0) eqn:E; intros H; inversion H; subst.
  apply Z.leb_gt in E. cbn. lia.
Qed.

Definition has_token (ob : option bucket) : Prop :=
  match ob with None => True | Some b => 0 < b_tokens b end.

Lemma opt_take_spec ob : (has_token ob /\ snd (opt_take ob) = true) \/ (~ has_token ob /\ opt_take ob = (ob, false)).
Proof.
  destruct ob as [b|]; cbn; [|left; auto].
  destruct (b_take b) as [b' [|]] eqn:E; cbn.
  - left. split; [apply b_take_true in E; lia | reflexivity].
  - right. apply b_take_false in E. destruct E as [E ->]. split; [lia | reflexivity].
Qed.

Lemma hook_verdict total handler :
  let '(v, total', handler') := post_read_header total handler in
  (v = VPass <-> has_token total /\ has_token handler) /\
  (v <> VPass -> v = VReject 500 /\ call_outcome v = ErrorReply 500 /\ push_outcome v = Dropped /\
                 handler' = handler).
Proof.
  unfold post_read_header.
  destruct (opt_take_spec total) as [[Ht Eo]|[Ht Eo]].
  - destruct (opt_take total) as [t' ok1]. cbn in Eo. subst ok1.
    destruct (opt_take_spec handler) as [[Hh Eh]|[Hh Eh]].
    + destruct (opt_take handler) as [h' ok2]. cbn in Eh. subst ok2. split; [tauto | congruence].
    + rewrite Eh. split; [split; [discriminate | tauto] | intros _; cbn; auto].
  - rewrite Eo. split; [split; [discriminate | tauto] | intros _; cbn; auto].
Qed.

(* ---- the pinned updateToken with one ticker goroutine: the exact slack ----
   admitted in a window <= tokens at its start + refills of its ticks + the number of
   takes admitted between the load and the store of those ticks (q_slack). *)
Definition debt_ok (tokens : Z) (p : tpc) : Prop :=
  match p with
  | QTickLoaded v v' o g => 0 < o /\ v' <= Z.max v 0 + o /\ Z.max v 0 - Z.max tokens 0 <= g
  | _ => True
  end.

Definition inv1 (s : qstate) : Prop :=
  0 < b_once (q_b s) /\ sumz is_loaded (q_th s) <= 1 /\
  Forall (debt_ok (b_tokens (q_b s))) (q_th s).

Lemma is_loaded_nonneg p : 0 <= is_loaded p.
Proof. destruct p; cbn; lia. Qed.

Lemma sumz_zero_Forall {A} (f : A -> Z) (l : list A) :
  (forall x, 0 <= f x) -> sumz f l = 0 -> Forall (fun x => f x = 0) l.
Proof.
  intros Hf. induction l as [|x r IH]; cbn; intros H; constructor.
  - pose proof (Hf x). pose proof (sumz_nonneg A f Hf r). lia.
  - apply IH. pose proof (Hf x). pose proof (sumz_nonneg A f Hf r). lia.
Qed.

Lemma not_loaded_debt t p : is_loaded p = 0 -> debt_ok t p.
Proof. destruct p; cbn; auto; lia. Qed.

Lemma sumz_map_bump l : sumz is_loaded (map bump l) = sumz is_loaded l.
Proof. induction l as [|p r IH]; cbn; [reflexivity|]. rewrite IH. destruct p; reflexivity. Qed.

Lemma qstep1_pot s e s' o : inv1 s -> one_ticker s e = true -> qstep false s e = Some (s', o) ->
  inv1 s' /\
  (q_adm s' - q_adm s) + pot s' <=
    pot s + (q_refill s' - q_refill s) + (q_slack s' - q_slack s) /\
  q_adm s' - q_adm s = count_admitted [o] /\
  q_ticks s' - q_ticks s = count_ticks [o].
Proof.
  intros (Ho & Hone & Hth) Hg Hst. unfold pot.
  pose proof (Forall_getn tpc QIdle (debt_ok (b_tokens (q_b s))) I _ Hth) as Hget.
  destruct e as [i | i | i | l | o']; cbn [qstep] in Hst; cbn [one_ticker] in Hg.
  - destruct (getn QIdle i (q_th s)) eqn:Ei; try discriminate.
    destruct (b_tokens (q_b s) <=? 0) eqn:Et; inversion Hst; subst; clear Hst; cbn.
    + split; [repeat split; assumption|]. repeat split; lia.
    + split; [|repeat split; lia]. unfold inv1; cbn. split; [exact Ho|]. split.
      * rewrite sumz_upd by reflexivity. rewrite Ei. cbn. lia.
      * apply Forall_upd; cbn; auto.
  - destruct (getn QIdle i (q_th s)) eqn:Ei; try discriminate.
    apply Z.eqb_eq in Hg.
    inversion Hst; subst; clear Hst; cbn. split; [|repeat split; lia].
    unfold inv1; cbn. split; [exact Ho|]. split.
    + rewrite sumz_upd by reflexivity. rewrite Ei. cbn. lia.
    + apply Forall_upd; cbn; auto. split; [exact Ho|]. split; [apply refill_value_ok; exact Ho | lia].
  - specialize (Hget i). destruct (getn QIdle i (q_th s)) as [| | v v' oo g] eqn:Ei; try discriminate.
    + (* take: add -1 *)
      inversion Hst; subst; clear Hst; cbn.
      destruct (0 <=? b_tokens (q_b s) - 1) eqn:E; [apply Z.leb_le in E|apply Z.leb_gt in E]; cbn.
      * split; [|repeat split; lia]. unfold inv1; cbn. split; [exact Ho|]. split.
        -- rewrite sumz_map_bump. rewrite sumz_upd by reflexivity. rewrite Ei. cbn. lia.
        -- assert (F : Forall (debt_ok (b_tokens (q_b s))) (upd QIdle i QIdle (q_th s)))
             by (apply Forall_upd; cbn; auto).
           clear -F E. induction F as [|p r Hp Hr IH]; cbn; constructor; [|exact IH].
           destruct p; cbn in *; auto. lia.
      * split; [|repeat split; lia]. unfold inv1; cbn. split; [exact Ho|]. split.
        -- rewrite sumz_upd by reflexivity. rewrite Ei. cbn. lia.
        -- assert (F : Forall (debt_ok (b_tokens (q_b s))) (upd QIdle i QIdle (q_th s)))
             by (apply Forall_upd; cbn; auto).
           clear -F E. induction F as [|p r Hp Hr IH]; cbn; constructor; [|exact IH].
           destruct p; cbn in *; auto. lia.
    + (* updateToken: plain store *)
      cbn in Hget. destruct Hget as (Hoo & Hv' & Hd).
      cbn in Hst. inversion Hst; subst; clear Hst; cbn.
      assert (Hz : sumz is_loaded (upd QIdle i QIdle (q_th s)) = 0).
      { rewrite sumz_upd by reflexivity. rewrite Ei. cbn.
        pose proof (sumz_nonneg tpc is_loaded is_loaded_nonneg (q_th s)).
        assert (1 <= sumz is_loaded (q_th s)).
        { destruct (sumz_ge_at tpc QIdle is_loaded is_loaded_nonneg i (q_th s)) as [H1|H1];
            rewrite Ei in H1; cbn in H1; lia. }
        lia. }
      split; [|repeat split; lia]. unfold inv1; cbn. split; [exact Ho|]. split; [lia|].
      eapply Forall_impl; [|apply (sumz_zero_Forall is_loaded _ is_loaded_nonneg Hz)].
      intros p Hp. apply not_loaded_debt. exact Hp.
  - inversion Hst; subst; clear Hst; cbn. split; [repeat split; assumption | repeat split; lia].
  - destruct ((0 <? o') && (o' <=? b_limit (q_b s))) eqn:E; [|discriminate].
    apply andb_true_iff in E. destruct E as [E1 E2]. apply Z.ltb_lt in E1.
    inversion Hst; subst; clear Hst; cbn. split; [repeat split; assumption | repeat split; lia].
Qed.

Lemma qrun1_pot tr : forall s s' os, inv1 s -> qrun1 false s tr = Some (s', os) ->
  inv1 s' /\
  (q_adm s' - q_adm s) + pot s' <=
    pot s + (q_refill s' - q_refill s) + (q_slack s' - q_slack s) /\
  q_adm s' - q_adm s = count_admitted os /\
  q_ticks s' - q_ticks s = count_ticks os.
Proof.
  induction tr as [|e r IH]; intros s s' os Hi Hrun; cbn [qrun1] in Hrun.
  - inversion Hrun; subst. split; [exact Hi|]. cbn. repeat split; lia.
  - destruct (one_ticker s e) eqn:Eg; [|discriminate].
    destruct (qstep false s e) as [[s1 o]|] eqn:E; [|discriminate].
    destruct (qrun1 false s1 r) as [[s2 os2]|] eqn:E2; [|discriminate].
    inversion Hrun; subst; clear Hrun.
    destruct (qstep1_pot _ _ _ _ Hi Eg E) as (Hi1 & Hp1 & Ha1 & Ht1).
    destruct (IH _ _ _ Hi1 E2) as (Hi2 & Hp2 & Ha2 & Ht2).
    rewrite count_admitted_cons, count_ticks_cons.
    split; [exact Hi2|]. repeat split; lia.
Qed.

Lemma inv1_init l o : 0 < o -> inv1 (qinit l o).
Proof. intros H. unfold inv1; cbn. repeat split; try lia. constructor. Qed.

Lemma bucket_window_prefix l o tr0 s os0 tr s' os : 0 < o ->
  qrun1 false (qinit l o) tr0 = Some (s, os0) ->
  qrun1 false s tr = Some (s', os) ->
  count_admitted os <=
    Z.max (b_tokens (q_b s)) 0 + (q_refill s' - q_refill s) + (q_slack s' - q_slack s).
Proof.
  intros Ho R0 R.
  destruct (qrun1_pot tr0 _ _ _ (inv1_init l o Ho) R0) as (Hi & _).
  destruct (qrun1_pot tr _ _ _ Hi R) as (_ & Hp & Ha & _).
  pose proof (pot_nonneg s'). unfold pot in *. lia.
Qed.

(* the refuting schedule is a one-ticker schedule, and its slack term is 3 *)
Lemma prefix_witness_one_ticker :
  exists s' os, qrun1 false (qinit 3 1) witness_lost_update = Some (s', os) /\
                count_admitted os = 6 /\ q_refill s' = 1 /\ q_slack s' = 3.
Proof.
  eexists. eexists. split; [vm_compute; reflexivity|]. vm_compute. repeat split; reflexivity.
Qed.

(* ---- one refill source per limiter ---- *)
Definition one_source (s : kstate) : Prop :=
  exists r, k_tickers s = mkT (k_interval s) true :: r /\ sumz firing_of r = 0.

Lemma one_source_init l iv : one_source (kinit l iv).
Proof. exists []. split; reflexivity. Qed.

Lemma kupdate_one_source s l iv : one_source s -> one_source (kupdate true s l iv).
Proof.
  intros (r & Ht & Hr). unfold kupdate.
  destruct ((l =? k_limit s) && (iv =? k_interval s)); [exists r; auto|].
  destruct (iv =? k_interval s) eqn:E.
  - apply Z.eqb_eq in E. subst iv. exists r. cbn. auto.
  - cbn. rewrite Ht. cbn. eexists. split; [reflexivity|]. cbn. exact Hr.
Qed.

Lemma kupdates_one_source us : forall s, one_source s -> one_source (kupdates true s us).
Proof.
  induction us as [|[l iv] r IH]; intros s H; cbn; [exact H|].
  apply IH. apply kupdate_one_source. exact H.
Qed.

Lemma one_source_facts s w : one_source s ->
  firing s = 1 /\ fires_in w s = w / k_interval s + 1.
Proof.
  intros (r & Ht & Hr). unfold firing, fires_in. rewrite Ht.
  change (sumz firing_of (mkT (k_interval s) true :: r)) with (1 + sumz firing_of r).
  change (sumz (fires_of w) (mkT (k_interval s) true :: r))
    with ((w / k_interval s + 1) + sumz (fires_of w) r).
  split; [lia|].
  assert (Z0 : sumz (fires_of w) r = 0).
  { clear Ht. induction r as [|t r IH]; [reflexivity|].
    change (sumz (fires_of w) (t :: r)) with (fires_of w t + sumz (fires_of w) r).
    assert (0 <= sumz firing_of r) by (apply sumz_nonneg; intros x; unfold firing_of; destruct (t_firing x); lia).
    change (firing_of t + sumz firing_of r = 0) in Hr. unfold fires_of at 1.
    unfold firing_of at 1 in Hr.
    destruct (t_firing t); [lia|]. rewrite IH; lia. }
  lia.
Qed.

Lemma ticker_sources l iv us w :
  let s := kupdates true (kinit l iv) us in
  firing s = 1 /\ fires_in w s = w / k_interval s + 1.
Proof. apply one_source_facts. apply kupdates_one_source. apply one_source_init. Qed.

(* every interval change leaves the goroutine of the stopped ticker behind *)
Lemma kupdate_goroutines b s l iv :
  goroutines (kupdate b s l iv) = goroutines s + (if iv =? k_interval s then 0 else 1) /\
  k_limit (kupdate b s l iv) = l /\ k_interval (kupdate b s l iv) = iv.
Proof.
  unfold kupdate, goroutines.
  destruct (l =? k_limit s) eqn:El; destruct (iv =? k_interval s) eqn:Ei; cbn [andb];
    try apply Z.eqb_eq in El; try apply Z.eqb_eq in Ei; subst; cbn [k_tickers k_limit k_interval].
  - repeat split; lia.
  - destruct b; [destruct (k_tickers s); cbn [stop_head length]|cbn [length]]; repeat split; lia.
  - repeat split; lia.
  - destruct b; [destruct (k_tickers s); cbn [stop_head length]|cbn [length]]; repeat split; lia.
Qed.

Lemma ticker_goroutines b us : forall s,
  goroutines (kupdates b s us) = goroutines s + interval_changes (k_limit s) (k_interval s) us.
Proof.
  induction us as [|[l iv] r IH]; intros s; cbn [kupdates interval_changes]; [lia|].
  rewrite IH. destruct (kupdate_goroutines b s l iv) as (Hg & Hl & Hi). rewrite Hg, Hl, Hi. lia.
Qed.

(* without the stopTicker call: capacity 100, 10 ms -> 100 ms: two firing sources, 112
   possible refills per second instead of 11 (each worth the NEW amount once = 10) *)
Lemma no_stop_two_sources :
  let s := kupdates false (kinit 100 10000000) [(100, 100000000)] in
  firing s = 2 /\ fires_in 1000000000 s = 112 /\ 1000000000 / k_interval s + 1 = 11.
Proof. vm_compute. repeat split; reflexivity. Qed.

(* ---- Overloader.Update on a rate limiter ---- *)
Lemma once_of_bounds m iv o : 0 < m -> once_of m iv = Some o -> 0 < o <= m.
Proof.
  intros Hm. unfold once_of. destruct (iv <=? 0) eqn:E1; [discriminate|]. apply Z.leb_gt in E1.
  destruct (1000000000 / iv =? 0) eqn:E2; [discriminate|]. apply Z.eqb_neq in E2.
  assert (Hd : 0 < 1000000000 / iv).
  { pose proof (Z.div_pos 1000000000 iv). lia. }
  intros H. inversion H; subst; clear H.
  destruct (m / (1000000000 / iv) =? 0) eqn:E3; [lia|]. apply Z.eqb_neq in E3.
  pose proof (Z.div_pos m (1000000000 / iv)).
  assert (m / (1000000000 / iv) <= m) by (apply Z.div_le_upper_bound; nia).
  lia.
Qed.

(* an Update never refills: the bucket of a limiter that existed before keeps exactly its
   tokens; only a limiter that did not exist is created full; the refill amount stays within
   1..capacity (what C18_bucket_bound's QSetOnce event requires) *)
Lemma ov_update_no_refill cur m iv b' : ov_update cur m iv = Some (Some b') ->
  b_limit b' = m /\ 0 < b_once b' <= m /\
  match cur with
  | Some b => b_tokens b' = b_tokens b
  | None => b_tokens b' = m
  end.
Proof.
  unfold ov_update. destruct (m <=? 0) eqn:Em; [discriminate|]. apply Z.leb_gt in Em.
  destruct (once_of m iv) as [o|] eqn:Eo; [|discriminate].
  pose proof (once_of_bounds m iv o Em Eo) as Hb.
  intros H. inversion H; subst; clear H. destruct cur; cbn; repeat split; lia.
Qed.

Lemma ov_update_removed cur m iv : m <= 0 -> ov_update cur m iv = Some None.
Proof. intros H. unfold ov_update. apply Z.leb_le in H. rewrite H. reflexivity. Qed.
